(* extraction of the parent-link model (C18); directives: ExtrOcamlBasic only
   (bool, option, unit, list, prod -> OCaml natives); nat stays the Coq datatype *)
From Coq Require Import ExtrOcamlBasic.
From CssV Require Import Base Links.
Extraction "links_model.ml" step start acc_parent acc_parentRule acc_ownerRule acc_parentStyleSheet contained.
