(* extraction of the production-engine model; directives: ExtrOcamlBasic only *)
From Coq Require Import ExtrOcamlBasic.
From CssV Require Import Base Regex Tokenizer ProdParser Gen.ProdTrees.
Extraction "prodparser_model.ml" pparse pparse_env unused_of post build env_real.
