(* extraction of the CSSStyleDeclaration model; directives: ExtrOcamlBasic only
   (bool, option, unit, list, prod, sumbool, sumor -> OCaml natives); N, Z, positive, nat stay Coq datatypes *)
From Coq Require Import ExtrOcamlBasic.
From CssV Require Import Base StyleDecl StyleDeclText.
Extraction "styledecl_model.ml" trace_i mk_item_i norm_i toDOM settext_of_string_i.
