(* extraction of the Out / serializer-skeleton model (C05); directives: ExtrOcamlBasic only *)
From Coq Require Import ExtrOcamlBasic.
From CssV Require Import Base Gen.Prefs OutModel OutFacts.

(* preference record from the wire format: booleans and strings in source order of useDefaults *)
Definition mk_prefs (b : list bool) (st : list str) (ihf : option str) : option prefs :=
  match b, st with
  | [b1; b2; b3; b4; b5; b6; b7; b8; b9; b10; b11; b12; b13; b14; b15; b16; b17; b18],
    [s1; s2; s3; s4; s5; s6; s7; s8] =>
    Some (mkPrefs b1 b2 b3 b4 ihf s1 b5 b6 b7 b8 b9 b10 b11 b12 s2 s3 s4 b13 b14 b15 b16 s5 s6 b17 s7 s8 b18)
  | _, _ => None
  end.

(* the guards of out_separation, evaluated per item (the text an item contributes is read off the tagged list) *)
Definition item_guard (p : prefs) (it : item) : option (bool * bool) :=     (* None = writes nothing / raises *)
  match pre p [] it with
  | PVal v _ => Some (leaves_sep p it v, keeps_sep p it)
  | _ => None
  end.

Extraction "outmodel_model.ml" mk_prefs run out_list value do_sheet prefs_default prefs_minified bool_prefs str_prefs importHrefFormat item_guard ws_prefs.
