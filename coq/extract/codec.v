(* extraction of the css codec model; directives: ExtrOcamlBasic only *)
From Coq Require Import ExtrOcamlBasic.
From CssV Require Import Base CodecPyLib Gen.CodecFns Codec CodecConcrete CodecInstances CodecBom.
Extraction "codec_model.ml" detectencoding_str detectencoding_unicode fixencoding
  c_decode c_encode c_dec_feed c_enc_feed c_dec_trace c_enc_trace c_sw_trace c_sr_trace divergent_input r_decode r_dec_trace cd_init cd_step cd_shot ce_init ce_step ce_shot.
