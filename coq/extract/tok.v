(* extraction of the tokenizer model; directives: ExtrOcamlBasic only
   (bool, option, unit, list, prod, sumbool, sumor -> OCaml natives); N, positive, nat stay Coq datatypes *)
From Coq Require Import ExtrOcamlBasic.
From CssV Require Import Base Regex Tokenizer.
Extraction "tok_model.ml" tokenize normalize unicodesub cleanstring lower rmatch.
