(* extraction of the C10 models; directives: ExtrOcamlBasic only *)
From Coq Require Import ExtrOcamlBasic.
From CssV Require Import Base Regex Tokenizer Respell.
Definition atkw_name (found : str) : str := fst (fst (finish_token (s "ATKEYWORD") found [])).
Definition strtokval (v : str) : res (option str) := stringtokenvalue (Some (mkTok (s "STRING") v v 1 1)).
Extraction "respell_model.ml" normalize unicodesub normalize_u urivalue strtokval hstringvalue atkw_name usub_len strip_spec priority_of.
