(* extraction of the @import loading model (C20); directives: ExtrOcamlBasic only *)
From Coq Require Import ExtrOcamlBasic.
From CssV Require Import Base Imports.
From CssV.Gen Require Import Import.
Extraction "imports_model.ml" parse_string resolve kept_unloaded urljoin sheet_encoding exn_id all_exn readurl
  resolve_fetcher is_caught exn_name.
