(* extraction of the _tokensupto2 / skeleton models; directives: ExtrOcamlBasic only *)
From Coq Require Import ExtrOcamlBasic.
From CssV Require Import Base Tokenizer Upto Skeleton.
Extraction "upto_model.ml" upto upto_pinned flag_of_nat skeleton media_inner decl_block media_split ruleset_split unknown_rule.
