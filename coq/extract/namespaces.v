(* extraction of the namespace model (C15); directives: ExtrOcamlBasic only *)
From Coq Require Import ExtrOcamlBasic.
From CssV Require Import Base Namespaces.
Extraction "namespaces_model.ml" parse step mstep view ser reparse run pairs.
