(* extraction of the selector model; directives: ExtrOcamlBasic only *)
From Coq Require Import ExtrOcamlBasic.
From CssV Require Import Base Tokenizer Selector.
Extraction "selector_model.ml" select sel_run sel_prepass render sp_selector declared_b tty_str tty_of_str ityp_str
  sel_normalize tok_normalize assigns0 page_assign pheld0 sl_select sep_free select_ser select_ser_tokens.
