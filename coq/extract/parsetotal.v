(* extraction of the C01 crash-site models; directives: ExtrOcamlBasic only *)
From Coq Require Import ExtrOcamlBasic.
From CssV Require Import Base Regex Tokenizer Quote Gen.StrTokenValue Upto ParseTotal.
Extraction "parsetotal_model.ml" strval charset_rule charset_rule_pinned color_fn color_fn_pinned tokenize.
