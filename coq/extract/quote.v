(* extraction of the string-quoting model (C03); directives: ExtrOcamlBasic only *)
From Coq Require Import ExtrOcamlBasic.
From CssV Require Import Base Regex Tokenizer Quote Gen.Quote.
Extraction "quote_model.ml" hstring hstring_uri hstringvalue stringtokenvalue first_token mkTok.
