(* extraction of the C12 models; directives: ExtrOcamlBasic only
   (bool, option, unit, list, prod, sumbool, sumor -> OCaml natives); N, positive, nat stay Coq datatypes *)
From Coq Require Import ExtrOcamlBasic.
From CssV Require Import Base Regex Tokenizer Quote Gen.Quote Urls UrlQuote.
Extraction "urls_model.ml" getUrls replaceUrls replaceUrls_style style_urls
  huri hstring hstring_uri urivalue uritokenvalue stringtokenvalue hstringvalue forbidden tokenize.
