(* extraction of the rule-order model (C07); directives: ExtrOcamlBasic only *)
From Coq Require Import ExtrOcamlBasic.
From CssV Require Import Base Order.
From CssV.Gen Require Import Kinds.
Extraction "order_model.ml" step valid_sheet accept_kinds kinds kind_code all_kinds.
