(* extraction of the number / colour models (C17); directives: ExtrOcamlBasic only
   (bool, option, unit, list, prod, sumbool, sumor -> OCaml natives); N, Z, positive, nat, Q stay Coq datatypes *)
From Coq Require Import ExtrOcamlBasic QArith.
From CssV Require Import Base Regex Tokenizer Numbers Colors.
Extraction "numbers_model.ml" normalize normalize_u Qred split_num split_agree to_value ser_lex roundtrip dbl_exec lex_Q pyq
  hexmatch hex_rgb color_of_hash hash_min named_color fn_color.
