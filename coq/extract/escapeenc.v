(* extraction of the C13 model; directives: ExtrOcamlBasic only *)
From Coq Require Import ExtrOcamlBasic.
From CssV Require Import Base Regex Tokenizer EscapeEnc.
Extraction "escapeenc_model.ml" esc hexdigits py_hex encode_esc escape_unenc unicodesub tokenize
  sheet_text get_encoding set_encoding detect_charset run_history.
