(* extraction of the generator grammar G (C02): the harness gets texts, tokens and expected models from the SAME
   Coq definitions the theorems of props/C02.v speak about.  Directives: ExtrOcamlBasic only. *)
From Coq Require Import ExtrOcamlBasic.
From CssV Require Import Base Tokenizer Selector Grammar GrammarFacts GrammarWf.
Definition g_render := Grammar.render.
Definition g_text_of := Grammar.text_of.
Definition g_expected := Grammar.expected_model.
Definition g_expected_nc := Grammar.expected_model_nocomments.
Definition g_tok_ok := Grammar.tokenize_render_ok.
Definition g_sel_ok := Grammar.selectors_ok.
Definition g_well_ordered := Grammar.well_ordered.
Definition g_strip := Grammar.strip_comments.
Definition g_declared (sh : Grammar.sheet) : bool :=
  forallb (Selector.declared_b (Grammar.ns_of sh)) (flat_map (fun p => Grammar.stmt_selectors (fst p)) sh).
(* the decidable side conditions of the theorems of props/C02.v, evaluated on every generated derivation *)
Definition g_delimited := GrammarFacts.delimited.
Definition g_inert (sh : Grammar.sheet) (lay : Grammar.layout) : bool := GrammarFacts.inert_b (Grammar.render sh lay).
Definition g_order (sh : Grammar.sheet) (lay : Grammar.layout) : bool :=
  forallb (fun b => b) (GrammarFacts.orun 0 (GrammarFacts.events sh lay)).
Definition g_wf := GrammarWf.wf_sheet.       (* AST-level well-formedness: the hypothesis of delimited_of_wf *)
Extraction "grammar_model.ml" g_wf g_delimited g_inert g_order g_render g_text_of g_expected g_expected_nc g_tok_ok g_sel_ok g_well_ordered g_strip g_declared.
