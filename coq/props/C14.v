(* C14 -- CSS codec: detection priority, inverse, chunking invariance.
   Property theorems only; proofs are in CssV.CodecDetect / CssV.CodecFacts.
   Subjects: Gen/CodecFns.v (regenerated from _codec3.py on every run) and Codec.v (hand-written model). *)
From CssV Require Import Base CodecPyLib Gen.CodecFns Codec CodecConcrete CodecDetect CodecFacts CodecInverse CodecInstances
  CodecUtf8 CodecStream CodecBom.

(* ---------------------------------------------------------------- detection (generated detectencoding_str) *)
(* never IndexError *)
Theorem detect_total : forall input final, exists r, detectencoding_str input final = Some r.
Proof. exact detect_total. Qed.
Print Assumptions detect_total.

(* with final=True an encoding is always named *)
Theorem detect_final : forall input, exists e x, detectencoding_str input true = Some (Some e, x).
Proof. exact detect_final. Qed.
Print Assumptions detect_final.

(* a verdict on a prefix is the verdict on every continuation (what makes buffering sound) *)
Theorem detect_monotone : forall p q fin e x,
  detectencoding_str p false = Some (Some e, x) -> detectencoding_str (p ++ q) fin = Some (Some e, x).
Proof. exact detect_monotone. Qed.
Print Assumptions detect_monotone.

(* priority: explicit argument (force) > BOM > @charset rule > UTF-8; each over ALL continuations *)
Theorem detect_priority_explicit : forall e input fin, pick_encoding (Some e) true input fin = PEnc e.
Proof. exact pick_explicit. Qed.
Print Assumptions detect_priority_explicit.

Theorem detect_priority_bom_utf8sig : forall r fin,
  detectencoding_str (239 :: 187 :: 191 :: r)%N fin = Some (Some (s "utf-8-sig"), true).
Proof. exact bom_utf8sig. Qed.
Print Assumptions detect_priority_bom_utf8sig.

Theorem detect_priority_bom_utf16_be : forall r fin,
  detectencoding_str (254 :: 255 :: r)%N fin = Some (Some (s "utf-16"), true).
Proof. exact bom_utf16_be. Qed.
Print Assumptions detect_priority_bom_utf16_be.

Theorem detect_priority_bom_utf16_le : forall b2 b3 r fin, (b2 <> 0 \/ b3 <> 0)%N ->
  detectencoding_str (255 :: 254 :: b2 :: b3 :: r)%N fin = Some (Some (s "utf-16"), true).
Proof. exact bom_utf16_le. Qed.
Print Assumptions detect_priority_bom_utf16_le.

(* the repaired end-of-input case: a file that is only the UTF-16 BOM *)
Theorem detect_priority_bom_utf16_le_only : detectencoding_str [255; 254]%N true = Some (Some (s "utf-16"), true).
Proof. exact bom_utf16_le_only. Qed.
Print Assumptions detect_priority_bom_utf16_le_only.

Theorem detect_priority_bom_utf32_le : forall r fin,
  detectencoding_str (255 :: 254 :: 0 :: 0 :: r)%N fin = Some (Some (s "utf-32"), true).
Proof. exact bom_utf32_le. Qed.
Print Assumptions detect_priority_bom_utf32_le.

Theorem detect_priority_bom_utf32_be : forall r fin,
  detectencoding_str (0 :: 0 :: 254 :: 255 :: r)%N fin = Some (Some (s "utf-32"), true).
Proof. exact bom_utf32_be. Qed.
Print Assumptions detect_priority_bom_utf32_be.

(* the rule head as it looks in UTF-16/32 without BOM: implicit (explicit=False) detection *)
Theorem detect_priority_implicit_utf32_le : forall r fin,
  detectencoding_str (64 :: 0 :: 0 :: 0 :: r)%N fin = Some (Some (s "utf-32-le"), false).
Proof. exact implicit_utf32_le. Qed.
Print Assumptions detect_priority_implicit_utf32_le.
Theorem detect_priority_implicit_utf32_be : forall r fin,
  detectencoding_str (0 :: 0 :: 0 :: 64 :: r)%N fin = Some (Some (s "utf-32-be"), false).
Proof. exact implicit_utf32_be. Qed.
Print Assumptions detect_priority_implicit_utf32_be.
Theorem detect_priority_implicit_utf16_le : forall r fin,
  detectencoding_str (64 :: 0 :: 99 :: 0 :: r)%N fin = Some (Some (s "utf-16-le"), false).
Proof. exact implicit_utf16_le. Qed.
Print Assumptions detect_priority_implicit_utf16_le.
Theorem detect_priority_implicit_utf16_be : forall r fin,
  detectencoding_str (0 :: 64 :: r)%N fin = Some (Some (s "utf-16-be"), false).
Proof. exact implicit_utf16_be. Qed.
Print Assumptions detect_priority_implicit_utf16_be.

(* prefix = the ten characters of the rule head (at-charset, space, double quote); 34 = the double quote *)
Theorem detect_priority_charset_rule : forall e rest fin, ~ In 34%N e ->
  detectencoding_str (prefix ++ e ++ 34%N :: rest) fin = Some (Some e, true).
Proof. exact charset_rule_detected. Qed.
Print Assumptions detect_priority_charset_rule.

Theorem detect_priority_default_utf8 : forall b0 r fin,
  (b0 <> 239 -> b0 <> 255 -> b0 <> 254 -> b0 <> 64 -> b0 <> 0 ->
   detectencoding_str (b0 :: r) fin = Some (Some (s "utf-8"), false))%N.
Proof. exact default_utf8_first. Qed.
Print Assumptions detect_priority_default_utf8.

Theorem detect_priority_unterminated_rule : forall e, ~ In 34%N e ->
  detectencoding_str (prefix ++ e) true = Some (Some (s "utf-8"), false).
Proof. exact charset_unterminated. Qed.
Print Assumptions detect_priority_unterminated_rule.

(* ---------------------------------------------------------------- @charset rewriting (generated _fixencoding) *)
Theorem fix_final_some : forall t e, exists r, fixencoding t e true = Some r.
Proof. exact fix_final_some. Qed.
Print Assumptions fix_final_some.

Theorem fix_monotone : forall t u e fin r,
  fixencoding t e false = Some r -> fixencoding (t ++ u) e fin = Some (r ++ u).
Proof. exact fix_monotone. Qed.
Print Assumptions fix_monotone.

Theorem fix_idempotent : forall t e f r, ~ In 34%N (nosig e) ->
  fixencoding t e f = Some r -> fixencoding r e true = Some r.
Proof. exact fix_idem. Qed.
Print Assumptions fix_idempotent.

(* the rewritten rule names the encoding used: what _fixencoding returns, spelled out *)
Theorem fix_only_header : forall t e f, fixencoding t e f = fix_ref t e f.
Proof. exact fix_eq. Qed.
Print Assumptions fix_only_header.

Theorem detect_unicode_monotone : forall p q fin e x,
  detectencoding_unicode p false = (Some e, x) -> detectencoding_unicode (p ++ q) fin = (Some e, x).
Proof. exact detectu_monotone. Qed.
Print Assumptions detect_unicode_monotone.

(* ---------------------------------------------------------------- chunking invariance, inverse *)
Section C14.
  (* the underlying per-encoding codec (one fixed `errors` argument): trusted base, validated against CPython *)
  Variable dst : Type.
  Variable dinit : str -> option dst.
  Variable dstep : dst -> str -> bool -> dst * res str.
  Variable dshot : str -> str -> res str.
  Variable est : Type.
  Variable einit : str -> option est.
  Variable estep : est -> str -> bool -> est * res str.
  Variable eshot : str -> str -> res str.
  Hypothesis dstep_concat : forall d a b fin d' o1, dstep d a false = (d', Ok o1) ->
    dstep d (a ++ b) fin =
    (fst (dstep d' b fin), match snd (dstep d' b fin) with Ok o2 => Ok (o1 ++ o2) | Err e => Err e end).
  Hypothesis dstep_error : forall d a b fin d' e, dstep d a false = (d', Err e) -> snd (dstep d (a ++ b) fin) = Err e.
  Hypothesis dshot_spec : forall e b,
    dshot e b = match dinit e with None => Err ELookup | Some d => snd (dstep d b true) end.
  Hypothesis estep_concat : forall d a b fin d' o1, estep d a false = (d', Ok o1) ->
    estep d (a ++ b) fin =
    (fst (estep d' b fin), match snd (estep d' b fin) with Ok o2 => Ok (o1 ++ o2) | Err e => Err e end).
  Hypothesis estep_error : forall d a b fin d' e, estep d a false = (d', Err e) -> snd (estep d (a ++ b) fin) = Err e.
  Hypothesis eshot_spec : forall e t,
    eshot e t = match einit e with None => Err ELookup | Some d => snd (estep d t true) end.

  (* for EVERY list of chunks (fed with final=False) and last chunk (final=True), every encoding / force
     argument: the incremental decoder yields exactly the one-shot result, exceptions included *)
  Theorem incdec_chunking : forall enc force chunks last,
    dec_feed dst dinit dstep (dec_init dst enc force) chunks last = decode dshot (concat chunks ++ last) enc force.
  Proof. exact (incdec_chunking_thm dst dinit dstep dshot dstep_concat dstep_error dshot_spec). Qed.

  Theorem incenc_chunking : forall enc chunks last,
    enc_feed est einit estep (enc_init est enc) chunks last = encode eshot (concat chunks ++ last) enc.
  Proof. exact (incenc_chunking_thm est einit estep eshot estep_concat estep_error eshot_spec). Qed.

  (* decoding what encode produced gives the text back, up to the rewrite of the @charset rule *)
  Theorem decode_encode : forall e t b,
    (forall x y, eshot e x = Ok y -> dshot e y = Ok x) -> ~ In 34%N (nosig e) ->
    encode eshot t (Some e) = Ok b ->
    exists r, fixencoding t e true = Some r /\ decode dshot b (Some e) true = Ok r.
  Proof. exact (decode_encode_thm dshot eshot). Qed.
End C14.
Print Assumptions incdec_chunking.
Print Assumptions incenc_chunking.
Print Assumptions decode_encode.

(* ---------------------------------------------------------------- StreamWriter *)
(* StreamWriter.encode is IncrementalEncoder.encode without a final call (enc_step _ false; compared with the class
   call by call).  Writes are chunking invariant; once the header is decided the stream holds exactly the one-shot
   encoding; before that nothing is written.  (An undecided header at close is lost: open finding.) *)
Section C14_stream.
  Variable est : Type.
  Variable einit : str -> option est.
  Variable estep : est -> str -> bool -> est * res str.
  Variable eshot : str -> str -> res str.
  Hypothesis estep_concat : forall d a b fin d' o1, estep d a false = (d', Ok o1) ->
    estep d (a ++ b) fin =
    (fst (estep d' b fin), match snd (estep d' b fin) with Ok o2 => Ok (o1 ++ o2) | Err e => Err e end).
  Hypothesis estep_error : forall d a b fin d' e, estep d a false = (d', Err e) -> snd (estep d (a ++ b) fin) = Err e.
  Hypothesis eshot_spec : forall e t,
    eshot e t = match einit e with None => Err ELookup | Some d => snd (estep d t true) end.
  Hypothesis estep_final_irrelevant : forall e y, snd (estep e y false) = snd (estep e y true).

  Theorem streamwriter_chunking : forall st c r,
    collapse (enc_trace_nf est einit estep st (c :: r)) = snd (enc_step est einit estep st (c ++ concat r) false).
  Proof. exact (fun st c r => sw_chunking_thm est einit estep estep_concat estep_error r st c). Qed.

  Theorem streamwriter_decided : forall enc t, decided enc t ->
    snd (enc_step est einit estep (enc_init est enc) t false) = encode eshot t enc.
  Proof. exact (fun enc t => sw_decided_thm est einit estep eshot eshot_spec enc t estep_final_irrelevant). Qed.

  Theorem streamwriter_undecided : forall enc t, ~ decided enc t ->
    snd (enc_step est einit estep (enc_init est enc) t false) = Ok [].
  Proof. exact (sw_undecided_thm est einit estep). Qed.
End C14_stream.
Print Assumptions streamwriter_chunking.
Print Assumptions streamwriter_decided.
Print Assumptions streamwriter_undecided.

Theorem streamwriter_decided_concrete : forall enc t, decided enc t ->
  snd (enc_step cest ce_init ce_step (enc_init cest enc) t false) = encode ce_shot t enc.
Proof. exact sw_decided_concrete. Qed.
Print Assumptions streamwriter_decided_concrete.

(* ---------------------------------------------------------------- decode after encode, DETECTED encoding *)
Section C14_detected.
  Variable dshot : str -> str -> res str.      (* codecs.getdecoder(name)(bytes)[0] *)
  Variable eshot : str -> str -> res str.      (* codecs.getencoder(name)(text)[0] *)

  (* no encoding argument on either side; the text starts with a complete rule  at-charset "e"  naming an
     invertible codec that leaves the ASCII rule head readable in its bytes (utf-8, latin-1, ascii, cp1252 ...):
     exactly the text comes back *)
  Theorem decode_encode_detected : forall e rest b force,
    ~ In 34%N e -> is_css e = false -> is_sig e = false ->
    (forall x y, eshot e x = Ok y -> dshot e y = Ok x) ->
    (forall y, eshot e (prefix ++ e ++ 34%N :: rest) = Ok y -> exists tl, y = prefix ++ e ++ 34%N :: tl) ->
    encode eshot (prefix ++ e ++ 34%N :: rest) None = Ok b ->
    decode dshot b None force = Ok (prefix ++ e ++ 34%N :: rest).
  Proof. exact (decode_encode_charset_thm dshot eshot). Qed.

  (* the rule names utf-8-sig in any spelling: BOM in the bytes, rule renamed to utf-8 (the documented rewrite) *)
  Theorem decode_encode_detected_sig : forall e rest b force,
    ~ In 34%N e -> is_css e = false -> is_sig e = true ->
    (forall y, eshot e (prefix ++ utf8 ++ 34%N :: rest) = Ok y ->
       (exists tl, y = (239 :: 187 :: 191 :: tl)%N) /\ dshot sig_name y = Ok (prefix ++ utf8 ++ 34%N :: rest)) ->
    encode eshot (prefix ++ e ++ 34%N :: rest) None = Ok b ->
    decode dshot b None force = Ok (prefix ++ utf8 ++ 34%N :: rest).
  Proof. exact (decode_encode_sig_thm dshot eshot). Qed.

  (* the encoded bytes start with the UTF-16 LE BOM: rule renamed to utf-16 whatever its spelling was *)
  Theorem decode_encode_detected_utf16 : forall e rest b b2 b3 tl force,
    ~ In 34%N e -> is_css e = false -> is_sig e = false ->
    b = (255 :: 254 :: b2 :: b3 :: tl)%N -> (b2 <> 0 \/ b3 <> 0)%N ->
    (forall y, eshot e (prefix ++ e ++ 34%N :: rest) = Ok y -> dshot utf16 y = Ok (prefix ++ e ++ 34%N :: rest)) ->
    encode eshot (prefix ++ e ++ 34%N :: rest) None = Ok b ->
    decode dshot b None force = Ok (prefix ++ utf16 ++ 34%N :: rest).
  Proof. exact (decode_encode_utf16_thm dshot eshot). Qed.

  (* no leading rule: UTF-8 both ways, text unchanged.  default_shape b: no bytes, or a first byte that is none of
     ef ff fe 40 00, or '@' not followed by NUL and not the head of an @charset rule, or ef that is not the BOM *)
  Theorem decode_encode_detected_norule : forall t b force,
    starts prefix t = false ->
    (forall x y, eshot utf8 x = Ok y -> dshot utf8 y = Ok x) ->
    default_shape b ->
    encode eshot t None = Ok b ->
    decode dshot b None force = Ok t.
  Proof. exact (decode_encode_norule_thm dshot eshot). Qed.

  (* an unterminated rule (the repaired defect): encoded as UTF-8, comes back unchanged *)
  Theorem decode_encode_detected_unterminated : forall e0 b force,
    ~ In 34%N e0 ->
    (forall x y, eshot utf8 x = Ok y -> dshot utf8 y = Ok x) ->
    (forall y, eshot utf8 (prefix ++ e0) = Ok y -> exists tl, y = prefix ++ tl /\ ~ In 34%N tl) ->
    encode eshot (prefix ++ e0) None = Ok b ->
    decode dshot b None force = Ok (prefix ++ e0).
  Proof. exact (decode_encode_unterminated_thm dshot eshot). Qed.
End C14_detected.
Print Assumptions decode_encode_detected.
Print Assumptions decode_encode_detected_sig.
Print Assumptions decode_encode_detected_utf16.
Print Assumptions decode_encode_detected_norule.
Print Assumptions decode_encode_detected_unterminated.

(* ---------------------------------------------------------------- the hypotheses discharged for Gallina codecs *)
(* decoders utf-8, utf-16-le/-be, utf-32-le/-be, latin-1, ascii (r_*: CodecConcrete's decoders for these names,
   see cd_step_is_r_step / cd_shot_is_r_shot); encoders: every codec of CodecConcrete.v *)
Theorem incdec_chunking_concrete : forall enc force chunks last,
  dec_feed rst r_init r_step (dec_init rst enc force) chunks last = decode r_shot (concat chunks ++ last) enc force.
Proof. exact incdec_chunking_concrete. Qed.
Print Assumptions incdec_chunking_concrete.

Theorem incenc_chunking_concrete : forall enc chunks last,
  enc_feed cest ce_init ce_step (enc_init cest enc) chunks last = encode ce_shot (concat chunks ++ last) enc.
Proof. exact incenc_chunking_concrete. Qed.
Print Assumptions incenc_chunking_concrete.

Theorem cd_step_is_r_step : forall k le p input final,
  cd_step (mkCD k p (Some le)) input final =
  (mkCD k (snd (fst (r_step (k, le, p) input final))) (Some le), snd (r_step (k, le, p) input final)).
Proof. exact r_step_is_cd_step. Qed.
Print Assumptions cd_step_is_r_step.

Theorem cd_shot_is_r_shot : forall e b, r_init e <> None -> r_shot e b = cd_shot e b.
Proof. exact r_shot_is_cd_shot. Qed.
Print Assumptions cd_shot_is_r_shot.

(* encode then decode without any encoding argument, rule naming latin-1 / iso-8859-1 / ascii: no hypothesis left *)
Theorem decode_encode_detected_onebyte : forall e rest b force,
  (lookup e = Some KLatin \/ lookup e = Some KAscii) -> ~ In 34%N e -> is_css e = false ->
  encode ce_shot (prefix ++ e ++ 34%N :: rest) None = Ok b ->
  decode r_shot b None force = Ok (prefix ++ e ++ 34%N :: rest).
Proof. exact decode_encode_detected_onebyte. Qed.
Print Assumptions decode_encode_detected_onebyte.

(* the call-by-call trace (which call raises) and the joined result *)
Theorem dec_feed_is_collapsed_trace : forall dst dinit dstep chunks st last,
  dec_feed dst dinit dstep st chunks last = collapse (dec_trace dst dinit dstep st chunks last).
Proof. exact dec_feed_trace. Qed.
Print Assumptions dec_feed_is_collapsed_trace.

Theorem enc_feed_is_collapsed_trace : forall est einit estep chunks st last,
  enc_feed est einit estep st chunks last = collapse (enc_trace est einit estep st chunks last).
Proof. exact enc_feed_trace. Qed.
Print Assumptions enc_feed_is_collapsed_trace.

(* ---------------------------------------------------------------- round 2: UTF-8/16/32 round trips *)
Theorem detect_priority_default_shapes : forall b, default_shape b -> detectencoding_str b true = Some (Some utf8, false).
Proof. exact default_shape_detect. Qed.
Print Assumptions detect_priority_default_shapes.

(* the Gallina UTF-8 codec: valid text (no surrogates, <= U+10FFFF) encodes, and decodes back to itself;
   a text with a surrogate is rejected by the encoder, as by CPython's strict codec *)
Theorem utf8_dec_enc : forall t, valid_text t = true -> exists b, encode8 t = Ok b /\ decode8 b = Ok t.
Proof. exact utf8_dec_enc. Qed.
Print Assumptions utf8_dec_enc.
Theorem utf8_dec_enc_ok : forall t b, encode8 t = Ok b -> decode8 b = Ok t.
Proof. exact utf8_dec_enc_ok. Qed.
Print Assumptions utf8_dec_enc_ok.
Theorem utf8_encode_invalid : forall t, valid_text t = false -> encode8 t = Err EUnicode.
Proof. exact utf8_encode_invalid. Qed.
Print Assumptions utf8_encode_invalid.

(* every decoder of the proved table inverts every encoder of the same kind (utf-8, utf-16-le/-be, utf-32-le/-be,
   latin-1, ascii); e and e2 are two spellings of the same codec *)
Theorem codec_table_inverse : forall e e2 x y, r_init e2 <> None -> lookup e = lookup e2 ->
  ce_shot e x = Ok y -> r_shot e2 y = Ok x.
Proof. exact r_inverse. Qed.
Print Assumptions codec_table_inverse.

(* closed: no encoding argument anywhere, no codec hypothesis *)
Theorem decode_encode_detected_utf8 : forall e rest b force,
  lookup e = Some K8 -> ascii e = true -> ~ In 34%N e -> is_css e = false ->
  encode ce_shot (prefix ++ e ++ 34%N :: rest) None = Ok b ->
  decode r_shot b None force = Ok (prefix ++ e ++ 34%N :: rest).
Proof. exact decode_encode_detected_utf8. Qed.
Print Assumptions decode_encode_detected_utf8.

(* head_ok t: the text does not begin with NUL or U+FEFF, and no NUL follows a leading '@' *)
Theorem decode_encode_detected_norule_utf8 : forall t b force,
  head_ok t -> starts prefix t = false ->
  encode ce_shot t None = Ok b -> decode r_shot b None force = Ok t.
Proof. exact decode_encode_detected_norule_utf8. Qed.
Print Assumptions decode_encode_detected_norule_utf8.

Theorem decode_encode_detected_wide : forall e k rest b force,
  lookup e = Some k ->
  (k = K16 (Some true) \/ k = K16 (Some false) \/ k = K32 (Some true) \/ k = K32 (Some false)) ->
  ~ In 34%N e -> is_css e = false ->
  encode ce_shot (prefix ++ e ++ 34%N :: rest) None = Ok b ->
  decode r_shot b None force = Ok (prefix ++ canon k ++ 34%N :: rest).
Proof. exact decode_encode_detected_wide. Qed.
Print Assumptions decode_encode_detected_wide.

(* ---------------------------------------------------------------- round 2: the BOM-sniffing decoders, the whole table *)
(* the incremental laws hold for EVERY state of EVERY Gallina decoder (utf-16, utf-32, utf-8-sig included) *)
Theorem cd_concat_all_states : forall d a b fin d' o1, cd_step d a false = (d', Ok o1) ->
  cd_step d (a ++ b) fin =
  (fst (cd_step d' b fin), match snd (cd_step d' b fin) with Ok o2 => Ok (o1 ++ o2) | Err e => Err e end).
Proof. exact cd_concat. Qed.
Print Assumptions cd_concat_all_states.
Theorem cd_error_all_states : forall d a b fin d' e, cd_step d a false = (d', Err e) -> snd (cd_step d (a ++ b) fin) = Err e.
Proof. exact cd_error. Qed.
Print Assumptions cd_error_all_states.

(* the one-shot law holds exactly outside `divergent`; inside, one side raises and the other returns text *)
Theorem oneshot_law_exact : forall e b,
  if divergent e b then is_ok (cd_shot e b) = negb (is_ok (cd_final e b)) else cd_shot e b = cd_final e b.
Proof. exact cd_shot_vs_final. Qed.
Print Assumptions oneshot_law_exact.

(* chunking invariance of the css incremental decoder over the WHOLE Gallina table, for every input outside the
   divergent set; on the divergent set the two results differ already for a single chunk: the two open findings
   C14-cpython-utf16-utf32-without-bom / C14-cpython-utf8sig-truncated-bom are exactly `divergent_input` *)
Theorem incdec_chunking_full : forall enc force chunks last,
  divergent_input enc force (concat chunks ++ last) = false ->
  c_dec_feed enc force chunks last = c_decode (concat chunks ++ last) enc force.
Proof. exact incdec_chunking_full. Qed.
Print Assumptions incdec_chunking_full.

Theorem incdec_chunking_refuted_on_divergent : forall enc force w,
  divergent_input enc force w = true ->
  is_ok (c_dec_feed enc force [] w) = negb (is_ok (c_decode w enc force)).
Proof. exact divergence_is_real. Qed.
Print Assumptions incdec_chunking_refuted_on_divergent.

(* an encoding found through its BOM is never divergent: only an explicit argument or an ASCII @charset rule can name
   a BOM-requiring codec for BOM-less data *)
Theorem bom_detected_not_divergent : forall force w,
  ((exists r, w = 239 :: 187 :: 191 :: r) \/
   (exists b2 b3 r, w = 255 :: 254 :: b2 :: b3 :: r /\ (b2 <> 0 \/ b3 <> 0)) \/
   (exists r, w = 254 :: 255 :: r) \/
   (exists r, w = 255 :: 254 :: 0 :: 0 :: r) \/
   (exists r, w = 0 :: 0 :: 254 :: 255 :: r))%N ->
  divergent_input None force w = false.
Proof. exact bom_detected_not_divergent. Qed.
Print Assumptions bom_detected_not_divergent.

(* ---------------------------------------------------------------- round 2: StreamReader *)
(* codecs.getreader('css'): accumulate + stateless decode without `final` (Codec.sr_step, compared with the class per
   decode call).  It cannot equal the one-shot decoder; what holds: *)
Section C14_reader.
  Variable dst : Type.
  Variable dinit : str -> option dst.
  Variable dstep : dst -> str -> bool -> dst * res str.
  Variable dshot : str -> str -> res str.
  Hypothesis dstep_concat : forall d a b fin d' o1, dstep d a false = (d', Ok o1) ->
    dstep d (a ++ b) fin =
    (fst (dstep d' b fin), match snd (dstep d' b fin) with Ok o2 => Ok (o1 ++ o2) | Err e => Err e end).
  Hypothesis dstep_error : forall d a b fin d' e, dstep d a false = (d', Err e) -> snd (dstep d (a ++ b) fin) = Err e.

  (* how the stream is cut into reads does not matter (the trace ends with the call at end of stream) *)
  Theorem streamreader_chunking : forall chunks st,
    collapse (sr_trace dst dinit dstep st chunks) = snd (sr_step dst dinit dstep st (concat chunks)).
  Proof. exact (sr_chunking_thm dst dinit dstep dstep_concat dstep_error). Qed.

  (* once the header is decided (a reader was adopted) the text returned so far is a prefix of the one-shot text; the
     rest is exactly what the underlying decoder still emits when told `final`: nothing is lost or altered *)
  Theorem streamreader_decided : forall enc force w st' r d',
    sr_step dst dinit dstep (sr_init dst enc force) w = (st', Ok r) -> @rs_dec dst st' = Some d' ->
    (forall e, pick_encoding enc force w true = PEnc e ->
       dshot e w = match dinit e with None => Err ELookup | Some d => snd (dstep d w true) end) ->
    decode dshot w enc force = match snd (dstep d' [] true) with Ok o2 => Ok (r ++ o2) | Err e => Err e end.
  Proof. exact (sr_decided_thm dst dinit dstep dshot dstep_concat). Qed.

  (* before that nothing is returned and every byte is kept *)
  Theorem streamreader_undecided : forall enc force w st' r,
    sr_step dst dinit dstep (sr_init dst enc force) w = (st', Ok r) -> @rs_dec dst st' = None ->
    r = [] /\ @rs_bytes dst st' = w.
  Proof. exact (sr_undecided_thm dst dinit dstep). Qed.
End C14_reader.
Print Assumptions streamreader_chunking.
Print Assumptions streamreader_decided.
Print Assumptions streamreader_undecided.

Theorem streamreader_chunking_full : forall enc force chunks,
  collapse (c_sr_trace enc force chunks) = snd (sr_step cdst cd_init cd_step (sr_init cdst enc force) (concat chunks)).
Proof. exact sr_chunking_full. Qed.
Print Assumptions streamreader_chunking_full.

Theorem streamreader_decided_full : forall enc force w st' r d',
  sr_step cdst cd_init cd_step (sr_init cdst enc force) w = (st', Ok r) -> @rs_dec cdst st' = Some d' ->
  divergent_input enc force w = false ->
  c_decode w enc force = match snd (cd_step d' [] true) with Ok o2 => Ok (r ++ o2) | Err e => Err e end.
Proof. exact sr_decided_full. Qed.
Print Assumptions streamreader_decided_full.

(* ---------------------------------------------------------------- non-vacuity *)
(* the hypotheses hold for a concrete codec, and the theorem then speaks about a non-trivial run:
   the header is cut inside the rule, the name is rewritten from x to latin-1 *)
Example incdec_chunking_instance :
  dec_feed unit id_init id_step (dec_init unit (Some (s "latin-1")) true)
           [s "@char"; s "set ""x"; s """;a"] (s "{}")
  = Ok (s "@charset ""latin-1"";a{}").
Proof. rewrite (incdec_chunking unit id_init id_step id_shot id_concat id_error id_shot_spec). reflexivity. Qed.

Example incenc_chunking_instance :
  enc_feed unit id_init id_step (enc_init unit None) [s "@charset ""lat"; s "in-1"";"] (s "b")
  = Ok (s "@charset ""latin-1"";b").
Proof. rewrite (incenc_chunking unit id_init id_step id_shot id_concat id_error id_shot_spec). reflexivity. Qed.

Example decode_encode_instance :
  exists r, fixencoding (s "@charset ""x"";a") (s "latin-1") true = Some r /\
            decode id_shot (s "@charset ""latin-1"";a") (Some (s "latin-1")) true = Ok r.
Proof.
  apply (decode_encode id_shot id_shot (s "latin-1") (s "@charset ""x"";a") (s "@charset ""latin-1"";a")).
  - unfold id_shot. intros x y. destruct (eqs (s "latin-1") (s "latin-1")); [intros [= ->]; reflexivity|discriminate].
  - vm_compute. intuition discriminate.
  - reflexivity.
Qed.

Example detect_monotone_instance :
  detectencoding_str [254; 255]%N false = Some (Some (s "utf-16"), true) /\
  detectencoding_str [255; 254]%N false = Some (None, false).
Proof. split; reflexivity. Qed.

Example detect_priority_charset_instance :
  detectencoding_str (s "@charset ""koi8-r"";x") false = Some (Some (s "koi8-r"), true).
Proof. reflexivity. Qed.

(* utf-8 with a character cut in the middle and an error in the third call: the closed instance speaks about it *)
Example incdec_chunking_concrete_instance :
  dec_feed rst r_init r_step (dec_init rst None true) [s "@charset ""utf-8"";"; [195]%N] [169]%N
  = Ok (s "@charset ""utf-8"";" ++ [233]%N)
  /\ dec_trace rst r_init r_step (dec_init rst None true) [s "a"; [195]%N] (s "(")
  = [Ok (s "a"); Ok []; Err EUnicode].
Proof. split; vm_compute; reflexivity. Qed.

Example decode_encode_detected_onebyte_instance :
  encode ce_shot (s "@charset ""latin-1"";g" ++ [252]%N) None = Ok (s "@charset ""latin-1"";g" ++ [252]%N)
  /\ decode r_shot (s "@charset ""latin-1"";g" ++ [252]%N) None true = Ok (s "@charset ""latin-1"";g" ++ [252]%N).
Proof. split; vm_compute; reflexivity. Qed.

Example incenc_chunking_concrete_instance :
  enc_feed cest ce_init ce_step (enc_init cest None) [s "@charset ""utf"; s "-16"";"] [8364]%N
  = encode ce_shot (s "@charset ""utf-16"";" ++ [8364]%N) None.
Proof. vm_compute. reflexivity. Qed.

Example streamwriter_instance :
  collapse (c_sw_trace None [s "@char"; s "set ""utf-8"";"; s "a"]) = Ok (s "@charset ""utf-8"";a")
  /\ c_sw_trace None [s "@char"; s "set ""x"] = [Ok []; Ok []].
Proof. split; vm_compute; reflexivity. Qed.

Example utf8_dec_enc_instance :
  encode8 [228; 8364; 128512]%N = Ok [195; 164; 226; 130; 172; 240; 159; 152; 128]%N
  /\ decode8 [195; 164; 226; 130; 172; 240; 159; 152; 128]%N = Ok [228; 8364; 128512]%N
  /\ encode8 [97; 55296]%N = Err EUnicode /\ decode8 [237; 160; 128]%N = Err EUnicode.
Proof. repeat split; vm_compute; reflexivity. Qed.

Example decode_encode_detected_norule_utf8_instance :
  decode r_shot (s "@import ""x"";") None true = Ok (s "@import ""x"";")
  /\ encode ce_shot (s "@import ""x"";") None = Ok (s "@import ""x"";").
Proof. split; vm_compute; reflexivity. Qed.

Example divergent_instances :
  divergent_input (Some (s "utf-16")) true [97; 0]%N = true
  /\ divergent_input None true (s "@charset ""utf-16"";") = true
  /\ divergent_input (Some (s "utf-8-sig")) true [239; 187]%N = true
  /\ divergent_input None true [255; 254; 97; 0]%N = false
  /\ divergent_input (Some (s "utf-16")) true [0; 216]%N = false.
Proof. repeat split; vm_compute; reflexivity. Qed.

Example streamreader_instance :
  c_sr_trace (Some (s "utf-8")) true [s "@char"; s "set ""x"";a"; [195]%N] = [Ok []; Ok (s "@charset ""utf-8"";a"); Ok []; Ok []]
  /\ c_sr_trace None true [s "@charset ""x"] = [Ok []; Ok []].
Proof. split; vm_compute; reflexivity. Qed.
