(* C01 -- Parsing any text terminates and never raises.
   Property theorems only; proofs live in CssV.TokenizerFacts and CssV.ParseTotalFacts.
   Models: CssV.Tokenizer.tokenize (shared), CssV.Upto.upto (C04's model of _tokensupto2),
   CssV.Gen.StrTokenValue.stringtokenvalue (regenerated from util.Base._stringtokenvalue), and the
   crash-site models of CssV.ParseTotal (charset_rule, color_fn, default handlers, parse_loop,
   parse_outcome), all following the repaired code; the *_pinned variants are the code before
   the fix: commits.
   NOT a theorem: the "time polynomial in the input length" clause (CPython's sre engine is
   outside the model); it is monitored by measurement in harness/props/c01.py.                *)
From CssV Require Import Base Regex Tokenizer TokenizerFacts Quote Gen.StrTokenValue Upto ParseTotal ParseTotalFacts.
Local Open Scope nat_scope.

(* tokenizing terminates for every text, both modes, comments kept or dropped (re-export) *)
Theorem tokenize_total : forall dc fs text, exists toks, tokenize dc fs text = Some toks.
Proof. exact tokenize_total_lemma. Qed.
Print Assumptions tokenize_total.

(* every STRING token the tokenizer can emit (escapes resolved, escaped newlines removed,
   full-sheet completion of an unterminated string included) is  q :: body ++ [q],  q a quote *)
Theorem string_tokens_quoted : forall dc fs text toks,
  tokenize dc fs text = Some toks -> forall t, In t toks -> ty t = s "STRING" -> quoted (val t).
Proof. exact string_tokens_quoted_lemma. Qed.
Print Assumptions string_tokens_quoted.

(* hence _stringtokenvalue never raises IndexError on a STRING token of any text *)
Theorem stringtokenvalue_total : forall dc fs text toks,
  tokenize dc fs text = Some toks -> forall t, In t toks -> ty t = s "STRING" ->
  exists v, strval (Some t) = Returned (Some v).
Proof. exact stringtokenvalue_total_lemma. Qed.
Print Assumptions stringtokenvalue_total.

(* _tokensupto2 splits the generator: run ++ rest = tokens, the start token heads the run *)
Theorem upto_partition : forall md c ts run rest,
  upto_loop md c ts = (run, rest) -> run ++ rest = ts.
Proof. exact c01_upto_loop_partition. Qed.
Print Assumptions upto_partition.

(* the @charset rule handler returns on every token run whose STRING tokens are quoted *)
Theorem charset_rule_total : forall ts, Forall tokinv ts -> exists r, charset_rule ts = Returned r.
Proof. exact charset_rule_total_lemma. Qed.
Print Assumptions charset_rule_total.

(* R (pinned tree): '@charset ' alone raised IndexError *)
Theorem charset_rule_pinned_refuted :
  exists toks, tokenize true true (s "@charset ") = Some toks /\
               (forall t, In t toks -> tokinv t) /\ charset_rule_pinned toks = Raised IndexError.
Proof. exact charset_rule_pinned_refuted_lemma. Qed.
Print Assumptions charset_rule_pinned_refuted.

(* colour function arguments (hsl_args): no IndexError / ValueError for any number of
   components the colour productions can deliver (at most four), any arithmetic *)
Theorem color_fn_total : forall (A : Type) (hls : A -> A -> A -> list A) (one : A),
  (forall h l sa, length (hls h l sa) = 3) ->
  forall f raw, length raw <= 4 -> exists r, color_fn A hls one f raw = Returned r.
Proof. exact color_fn_total_lemma. Qed.
Print Assumptions color_fn_total.

(* R (pinned tree): hsl(50%, 50%) raised IndexError, rgb(1,2) ValueError *)
Theorem color_fn_pinned_refuted :
  color_fn_pinned nat (fun _ _ _ => [0; 0; 0]) 1 Hsl [50; 50] = Raised IndexError /\
  color_fn_pinned nat (fun _ _ _ => [0; 0; 0]) 1 Rgb [1; 2] = Raised ValueError.
Proof. exact color_fn_pinned_refuted_lemma. Qed.
Print Assumptions color_fn_pinned_refuted.

(* the _parse loop with its default ATKEYWORD/COMMENT/S/EOF callbacks returns whenever the
   caller's callbacks do; fuel = number of tokens is never exhausted *)
Theorem parse_loop_total :
  forall (St : Type) expects_eof set_eof flag add_unknown add_comment prods dflt,
    (forall name h, prods name = Some h -> handler_ok St h) ->
    (forall h, dflt = Some h -> handler_ok St h) ->
    forall fuel st ts, length ts <= fuel -> Forall tokinv ts ->
      exists st', parse_loop St expects_eof set_eof flag add_unknown add_comment fuel true prods dflt st ts
                  = Returned st'.
Proof. exact parse_loop_total_lemma. Qed.
Print Assumptions parse_loop_total.

(* R (pinned tree): the default ATKEYWORD callback raised TypeError after the expected end
   when the caller passed no `new` dict ('a{co@x lor:red}') *)
Theorem default_atkeyword_pinned_refuted :
  forall (St : Type) expects_eof flag add_unknown (st : St) t r, expects_eof st = true ->
    default_atkeyword St expects_eof flag add_unknown false st t r = Raised TypeError.
Proof. exact default_atkeyword_pinned_raises. Qed.
Print Assumptions default_atkeyword_pinned_refuted.

(* F  parse_never_raises (full statement, see ParseTotalFacts.parse_never_raises_statement):
        forall api dc text, exists st, parse_outcome <the real callbacks> api dc text = Returned st
   P  proved for the modelled layers (tokenizer, _tokensupto2, _parse dispatch and defaults,
      @charset handler, _stringtokenvalue); the unmodelled rule/declaration callbacks enter
      through the named hypothesis handlers_total.                                            *)
Theorem parse_never_raises_partial :
  forall (St : Type) expects_eof set_eof flag add_unknown add_comment charset_commit
         sheet_others sheet_default style_prods style_default (st0 : St),
    handlers_total St sheet_others sheet_default style_prods style_default ->
    parse_never_raises_statement St expects_eof set_eof flag add_unknown add_comment charset_commit
                                 sheet_others sheet_default style_prods style_default st0.
Proof. exact parse_never_raises_partial_lemma. Qed.
Print Assumptions parse_never_raises_partial.

(* R (pinned tree): with total callbacks the pinned code still raised on '@charset ' *)
Theorem parse_never_raises_pinned_refuted :
  parse_outcome_pinned unit (fun _ => false) (fun x => x) (fun x => x) (fun x _ => x) (fun x _ => x)
                       (fun x _ => x) (fun _ => None) (fun st _ r => Returned (st, r))
                       (fun _ => None) (fun st _ r => Returned (st, r)) tt
                       true true (s "@charset ") = Raised IndexError.
Proof. exact parse_never_raises_pinned_refuted_lemma. Qed.
Print Assumptions parse_never_raises_pinned_refuted.

(* ---- extension round ------------------------------------------------------------------- *)
From CssV Require Import Skeleton ParseSkel ParseSkelFacts.

(* the time clause stays PARTIAL (CPython's sre is outside the model); what is provable about the
   model: the tokenizer loop runs at most once per character -- the token count is linear *)
Theorem tokenize_token_count : forall dc fs text toks,
  tokenize dc fs text = Some toks -> length toks <= length text + 2.
Proof. exact tokenize_token_count_lemma. Qed.
Print Assumptions tokenize_token_count.

(* "#statements <= #tokens" for every dispatch loop of the skeleton (sheet, @media, declarations) *)
Theorem skeleton_statement_count : forall up km cls ts n, length (disp_gen up km cls ts n) <= length ts.
Proof. exact disp_count. Qed.
Print Assumptions skeleton_statement_count.

(* skeleton_total: top-level dispatch, rule-set splits, declaration loops, @media splits and nested
   inner dispatch return for EVERY token list (STRING tokens quoted); every _tokensupto2 pull is
   total by upto_partition; fuel = number of tokens is never exhausted.  Hypothesis: only the
   leaf parsers (selector list, property incl. value grammars + profiles validation, media query
   list, @import/@namespace/@page/@font-face/@variables bodies) return on finite token runs. *)
Theorem skeleton_total :
  forall (St : Type) leaf flag add_comment on_unknown charset_commit (st0 : St),
    leaves_total St leaf ->
    forall ts, Forall tokinv ts ->
      exists st', eval_sheet St leaf flag add_comment on_unknown charset_commit st0 ts = Returned st'.
Proof. exact skeleton_total_lemma. Qed.
Print Assumptions skeleton_total.

(* P' (replaces handlers_total by the much smaller leaves_total): for every text, both entry
   points, comments kept or dropped, the parse returns *)
Theorem parse_never_raises_skeleton :
  forall (St : Type) leaf flag add_comment on_unknown charset_commit (st0 : St),
    leaves_total St leaf ->
    parse_never_raises_skel_statement St leaf flag add_comment on_unknown charset_commit st0.
Proof. exact parse_never_raises_skeleton_lemma. Qed.
Print Assumptions parse_never_raises_skeleton.

(* ---- with the PP builder's engine model: the media-query-list leaf is PROVED ----------------
   P'' : the LMediaQuery entry of the leaf table is ProdParserBridge.media_leaf (MediaList built by the
   ProdParser engine model on the head of an @media rule); it returns on every run cut out of a tokenized
   text (ProdParserBridge.media_leaf_returns_tokenized).  Remaining hypothesis other_leaves_total: selector
   list, property (name, value, priority, profiles validation), @import / @namespace / @page / @font-face /
   @variables bodies.                                                                              *)
From CssV Require Import ParseSkelPP.
From CssV Require ProdParser ProdParserBridge.
Theorem parse_never_raises_skeleton_pp :
  forall (St : Type) leaf flag add_comment on_unknown charset_commit
         (mq_commit : St -> bool -> list ProdParser.item -> St) (st0 : St),
    media_leaf_is_pp St leaf mq_commit ->
    other_leaves_total St leaf ->
    parse_never_raises_skel_statement St leaf flag add_comment on_unknown charset_commit st0.
Proof. exact parse_never_raises_skeleton_pp_lemma. Qed.
Print Assumptions parse_never_raises_skeleton_pp.
