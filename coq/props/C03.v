(* C03 -- Serialising and re-parsing preserves the model; output is a fixpoint.
   Property theorems only; proofs live in CssV.QuoteFacts and CssV.RoundtripFacts.
   Models: CssV.Gen.Quote (helper.string, helper.stringvalue, Base._stringtokenvalue regenerated from
   /repo by translate/quote.py), CssV.Tokenizer (shared tokenizer model running the regenerated
   productions: STRING regex, unicodesub, cleanstring), CssV.Roundtrip (item lists).

   F (full statement, kept visible):
     reparse_equal : forall t m, parse t = Some m -> G t -> parse (ser m) = Some m /\
                                 option_map ser (parse (ser m)) = Some (ser m)
   for sheets, rules, selectors, declaration blocks, media lists and values.  Proved below:
   the string component for every representable value - backslashes included - (all following texts, both
   tokenizer modes), its refutation for the one excluded quote case that the pinned test suite fixes (known
   finding C03-escaped-dquote-in-string), the fixpoint half as an abstract corollary, and the
   composition for item lists under the named hypotheses out_tokens_preserved (C05),
   value_grammar_faithful (prodparser, unmodelled) and the per-lexeme stability of non-string tokens
   (numbers: C17 number_roundtrip).                                                               *)
From CssV Require Import Base Regex Tokenizer Quote Gen.Quote QuoteFacts QuoteStrFacts Upto UptoFacts Skeleton SkeletonFacts Roundtrip RoundtripFacts.

(* strings re-parse to an equal object: for every REPRESENTABLE string value (QuoteStrFacts.rep_okc: every value
   except an escape-introducing backslash directly before a double quote - helper.string keeps the pinned
   output for it, see string_roundtrip_dquote_refuted), whatever text
   follows the serialised string, in both tokenizer modes and with comments kept or dropped, the first token of
   helper.string(v) ++ follow  is a STRING token whose raw text is exactly helper.string(v), at 1:1, and
   Base._stringtokenvalue of it is v again.  Covers quotes, \n \r \f, every non-ASCII code point and backslashes:
   simple escapes kept in the value, escaped backslashes, a backslash in front of a hex digit (written with the hex
   escape of the backslash), a backslash in front of a newline character (hex escape of the backslash, a line
   continuation, the newline escape: cleanstring removes exactly the continuation), trailing backslashes.     *)
Theorem string_roundtrip : forall dc fs v follow,
  representable_str v ->
  exists t, first_token dc fs (hstring v ++ follow) = Some t /\
            ty t = s "STRING" /\ raw t = hstring v /\ line t = 1%nat /\ col t = 1%nat /\
            stringtokenvalue (Some t) = Ok (Some v).
Proof. exact string_roundtrip_lemma. Qed.
Print Assumptions string_roundtrip.

(* every value without a backslash is representable (the statement of the first round) *)
Theorem string_roundtrip_no_backslash : forall dc fs v follow,
  no_backslash v ->
  exists t, first_token dc fs (hstring v ++ follow) = Some t /\
            ty t = s "STRING" /\ raw t = hstring v /\ stringtokenvalue (Some t) = Ok (Some v).
Proof.
  intros dc fs v follow Hn.
  destruct (string_roundtrip_lemma dc fs v follow (nobs_representable_str v Hn)) as (t & H1 & H2 & H3 & _ & _ & H4).
  exists t. auto.
Qed.
Print Assumptions string_roundtrip_no_backslash.

Example string_roundtrip_example :
  let v := [97; 34; 39; 10; 13; 12; 233; 128512; 32; 47; 42]%N in
  representable_str v /\
  hstring v = [34; 97; 92; 34; 39; 92; 97; 32; 92; 100; 32; 92; 99; 32; 233; 128512; 32; 47; 42; 34]%N /\
  option_map (fun t => (ty t, raw t, stringtokenvalue (Some t))) (first_token true true (hstring v ++ s ";}"))
  = Some (s "STRING", hstring v, Ok (Some v)).
Proof. cbv zeta. split; [|split]; vm_compute; reflexivity. Qed.

(* non-vacuity for values WITH backslashes: backslash 5 2 c (the witness of the former finding
   C03-backslash-reread-as-escape) is written with the hex escape of the backslash and read back *)
Example string_roundtrip_backslash_example :
  let v := [92; 53; 50; 99]%N in
  representable_str v /\ hstring v = [34; 92; 53; 99; 32; 53; 50; 99; 34]%N /\
  option_map (fun t => stringtokenvalue (Some t)) (first_token true false (hstring v ++ s " x")) = Some (Ok (Some v)).
Proof. cbv zeta. split; [|split]; vm_compute; reflexivity. Qed.

(* the former finding C03-backslash-before-newline *)
Example string_roundtrip_backslash_newline_example :
  let v := [97; 92; 92; 10]%N in
  representable_str v /\
  option_map (fun t => stringtokenvalue (Some t)) (first_token true true (hstring v ++ s ";")) = Some (Ok (Some v)).
Proof. cbv zeta. split; vm_compute; reflexivity. Qed.

(* the second half of the property (serialising the re-parsed object gives identical text), string level *)
Theorem string_fixpoint : forall dc fs v follow t w,
  representable_str v -> first_token dc fs (hstring v ++ follow) = Some t ->
  stringtokenvalue (Some t) = Ok (Some w) -> hstring w = hstring v.
Proof. exact string_fixpoint_lemma. Qed.
Print Assumptions string_fixpoint.

(* the excluded quote case: the full statement  forall v, <round trip>  is still false for the code, also on a
   value that a parse produces.  Witness (QuoteFacts.bs_source): the 4-character source apostrophe backslash
   quote apostrophe is one STRING token with the value backslash quote, which is not representable; helper.string
   writes quote backslash backslash quote quote (the output the pinned test test_value.py:411 asserts); the first
   token of that is the string quote backslash backslash quote with the value backslash.                  *)
Theorem string_roundtrip_dquote_refuted : forall fs,
  exists src v, ~ representable_str v /\
    option_map (fun t => (ty t, stringtokenvalue (Some t))) (first_token true fs src)
      = Some (s "STRING", Ok (Some v)) /\
    exists t, first_token true fs (hstring v) = Some t /\ raw t <> hstring v /\
              stringtokenvalue (Some t) <> Ok (Some v).
Proof.
  intros fs. exists bs_source, bs_value. split; [exact bs_value_not_representable|]. split; [apply bs_value_is_parsed|].
  destruct (bs_value_not_restored fs) as [Hh Ht]. rewrite Hh in *.
  destruct (first_token true fs [34; 92; 92; 34; 34]%N) as [t|]; [|discriminate].
  cbn [option_map] in Ht.
  assert (Hr : raw t = [34; 92; 92; 34]%N) by congruence.
  assert (Hv : stringtokenvalue (Some t) = Ok (Some [92%N])) by congruence.
  exists t. split; [reflexivity|]. rewrite Hr, Hv. split; discriminate.
Qed.
Print Assumptions string_roundtrip_dquote_refuted.

(* the fixpoint half of the property is a corollary of the re-parse half (any object kind) *)
Theorem fixpoint_of_roundtrip : forall (M T : Type) (ser : M -> T) (parse : T -> option M) m,
  parse (ser m) = Some m -> option_map ser (parse (ser m)) = Some (ser m).
Proof. exact fixpoint_of_roundtrip_lemma. Qed.
Print Assumptions fixpoint_of_roundtrip.

(* sheet layout: the rule list the serializer writes - lineSeparator.join(rule texts), at token level the token runs of
   the rules joined by the tokens of the separator: NONE for lineSeparator '', one S token for a blank-only or newline
   separator (plus the indentation inside @media), surrounded by skipped tokens (indentation, EOF) - is split again by
   the parser's top-level loop (C04's Skeleton.skeleton) at exactly the same places, into the same handler kinds, in
   order, comments included.  IsStatement = SkeletonFacts.JunkStmt: the run is one complete statement for its handler.
   Token level: that tokenizing the joined TEXT gives the joined token runs is checked by the harness on the
   implementation (oracle 'layout'), not proved (it needs a prefix-stability theorem for the regex matcher).     *)
Theorem sheet_layout_roundtrip : forall sep before after ps,
  skips cls_sheet sep -> skips cls_sheet before -> skips cls_sheet after -> Forall (wf_piece cls_sheet) ps ->
  skeleton (before ++ join_toks sep (map ptoks ps) ++ after) = map pitem ps.
Proof. intros. apply layout_roundtrip_lemma; assumption. Qed.
Print Assumptions sheet_layout_roundtrip.

(* the same for the rule list inside an @media block (cssmediarule's inner loop) *)
Theorem media_layout_roundtrip : forall sep before after ps,
  skips cls_media sep -> skips cls_media before -> skips cls_media after -> Forall (wf_piece cls_media) ps ->
  media_inner (before ++ join_toks sep (map ptoks ps) ++ after) = map pitem ps.
Proof. intros. apply layout_roundtrip_lemma; assumption. Qed.
Print Assumptions media_layout_roundtrip.

(* non-vacuity: a rule, a comment and the statement  f() {}  joined without any separator (lineSeparator = '') and with
   a white space token, EOF behind *)
Example sheet_layout_roundtrip_example :
  let ps := [PStmt KRuleset rule_a; PComment (T "COMMENT" "/*c*/"); PStmt KRuleset junk_fn] in
  Forall (wf_piece cls_sheet) ps /\
  skeleton (join_toks [] (map ptoks ps) ++ [T "EOF" ""]) = map pitem ps /\
  skeleton ([sp] ++ join_toks [sp; sp] (map ptoks ps) ++ [sp; T "EOF" ""]) = map pitem ps.
Proof.
  cbv zeta.
  assert (Hw : Forall (wf_piece cls_sheet) [PStmt KRuleset rule_a; PComment (T "COMMENT" "/*c*/"); PStmt KRuleset junk_fn]).
  { repeat constructor; [exact rule_a_stmt|exact junk_fn_stmt]. }
  split; [exact Hw|]. split.
  - apply (sheet_layout_roundtrip [] [] [T "EOF" ""]); [constructor|constructor|repeat constructor|exact Hw].
  - apply (sheet_layout_roundtrip [sp; sp] [sp] [sp; T "EOF" ""]); [repeat constructor|repeat constructor|repeat constructor|exact Hw].
Qed.

(* F restricted to item lists (values), with its hypotheses visible as premises:
     sepok                   the texts `Out` puts after a token                      (C05 model)
     out_tokens_preserved    `Out` spacing neither merges nor splits the item tokens   (C05; hypothesis)
     value_grammar_faithful  the prodparser value grammar returns the items it is fed (unmodelled; hypothesis)
     wf_item                 strings: representable (then PROVED by string_roundtrip);
                             other tokens: lexeme read back unchanged (C17 number_roundtrip, C09) *)
Theorem reparse_equal_items :
  forall (sepok : str -> Prop) (out : list str -> str) (vparse : list tok -> option (list item)),
  (forall l, Forall (wf_item sepok) l ->
     exists ts, tokenize true false (ser_items out l) = Some ts /\
                Forall2 (yields sepok) l (filter non_S ts)) ->                       (* out_tokens_preserved *)
  (forall ts l, Forall2 (fun i t => item_of_tok t = Some i) l (filter non_S ts) ->
                vparse ts = Some l) ->                                                (* value_grammar_faithful *)
  forall l, Forall (wf_item sepok) l ->
    parse_items vparse (ser_items out l) = Some l /\
    option_map (ser_items out) (parse_items vparse (ser_items out l)) = Some (ser_items out l).
Proof.
  intros sepok out vparse H1 H2 l Hw. split.
  - exact (reparse_equal_items_lemma sepok out vparse H1 H2 l Hw).
  - exact (reserialise_items_lemma sepok out vparse H1 H2 l Hw).
Qed.
Print Assumptions reparse_equal_items.

(* non-vacuity of wf_item: a string item with quotes and a newline is well-formed *)
Example wf_item_example : forall sepok, wf_item sepok (IStr [97; 34; 10; 39; 92; 92; 53]%N).
Proof. intros sepok. vm_compute. reflexivity. Qed.

(* ------------------------------------------------------------------ the value grammar discharged by the PP engine *)
From CssV Require Import RoundtripPP.

(* value_grammar_faithful - a premise of reparse_equal_items above ("prodparser, unmodelled") - PROVED for the
   instantiation vparse := RoundtripPP.vparse_pp = PP's PropertyValue parse (ProdParserValue.build_value: the regenerated
   PropertyValue production tree run by the ProdParser interpreter, constructor, object read-back) on the (type, value)
   view of the tokens, for the fragment PP covers that C03 items express exactly: a non-empty list of STRING items
   (pp_str: representable, no double quote, no trailing backslash, so that the token body is the value for either quote
   kind) and IDENT items (not a colour keyword, without ',' '/' and not ';'), one " " S token apart.             *)
Theorem value_grammar_faithful_pp : forall (sepok : str -> Prop) l ts,
  Forall2 (yields sepok) l (filter non_S ts) -> spaced ts -> Forall (pp_item sepok) l -> l <> [] ->
  vparse_pp ts = Some l.
Proof. exact value_grammar_faithful_pp_lemma. Qed.
Print Assumptions value_grammar_faithful_pp.

(* the value round trip with NO hypothesis about the value grammar: the only premise left is the one about the
   serializer's `Out` (C05): the tokens of the written text are what the items yield (for strings: PROVED to be the
   STRING token with the value, string_roundtrip), exactly one " " S token apart *)
Theorem reparse_equal_items_pp : forall (sepok : str -> Prop) (out : list str -> str),
  (forall l, Forall (pp_item sepok) l -> l <> [] ->
     exists ts, tokenize true false (ser_items out l) = Some ts /\
                Forall2 (yields sepok) l (filter non_S ts) /\ spaced ts) ->                  (* out_tokens_spaced (C05) *)
  forall l, Forall (pp_item sepok) l -> l <> [] ->
    parse_items vparse_pp (ser_items out l) = Some l /\
    option_map (ser_items out) (parse_items vparse_pp (ser_items out l)) = Some (ser_items out l).
Proof. exact reparse_equal_items_pp_all_lemma. Qed.
Print Assumptions reparse_equal_items_pp.

(* non-vacuity, hypothesis-free: the value  "a\a \g" serif  - a string with a newline escape and a simple escape (value:
   a, LF, backslash, g) and an identifier, joined by one space: its items are PP items, and tokenizing the written text,
   running PP's PropertyValue parse and reading the objects back gives exactly these items *)
Example reparse_equal_items_pp_example :
  ser_items out_sp ex_items = [34; 97; 92; 97; 32; 92; 103; 34; 32; 115; 101; 114; 105; 102]%N /\
  Forall (pp_item ex_sepok) ex_items /\
  parse_items vparse_pp (ser_items out_sp ex_items) = Some ex_items.
Proof. exact reparse_equal_items_pp_example_lemma. Qed.
Print Assumptions reparse_equal_items_pp_example.
