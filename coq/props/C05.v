(* C05 -- serializer preferences change layout, never meaning (property theorems only) *)
From CssV Require Import Base Gen.Prefs OutModel OutFacts OutGlue.

(* out_separation.  For EVERY preference record whose spacer strings are whitespace-only (the empty string
   included) and every item list: if a is written with text va and is an ordinary value (leaves_sep: space=True,
   not FUNCTION, not one of the punctuation values that carry their own spacer preference, and not a STRING under
   an empty prefs.spacer), the following items up to b write nothing, and b does not eat a preceding blank
   (keeps_sep: not one of '+>~,:{;)]/=}', not the line separator, not a STRING under an empty spacer, text not
   ending in ' '), then in the final self.out -- whatever is appended later -- the texts of a and b are separated
   by elements that are all whitespace-only, at least one of them non-empty.  It is the fall-back at
   serialize.py:304-308 that makes this true for prefs.spacer = ''.  Glue (OutGlue.v) says for which pairs this
   matters; the theorem does not need it. *)
Theorem out_separation :
  forall p lvl n rout a va rout1 skipped b rest final,
    ws_prefs p = true ->
    pre p rout a = PVal va rout1 ->
    leaves_sep p a va = true ->
    Forall (fun i => forall r, pre p r i = PSkip) skipped ->
    keeps_sep p b = true ->
    (forall vb, pre p [] b = PVal vb [] -> nonblank (None, app_text p lvl b vb)) ->
    run_from p lvl n rout (a :: skipped ++ b :: rest) = Some final ->
    exists vb R M L,
      pre p [] b = PVal vb [] /\
      final = R ++ (Some (S n + length skipped)%nat, app_text p lvl b vb) :: M ++
                   (Some n, app_text p lvl a va) :: L /\
      sep_ok M.
Proof. exact out_separation_lemma. Qed.
Print Assumptions out_separation.

(* the statement in the shape of the design: only pairs whose texts would merge (Glue) are of interest *)
Theorem out_separation_glue :
  forall p lvl n rout a va rout1 skipped b rest final,
    ws_prefs p = true ->
    pre p rout a = PVal va rout1 ->
    (forall vb, pre p [] b = PVal vb [] -> Glue (app_text p lvl a va) (app_text p lvl b vb) = true) ->
    leaves_sep p a va = true ->
    Forall (fun i => forall r, pre p r i = PSkip) skipped ->
    keeps_sep p b = true ->
    (forall vb, pre p [] b = PVal vb [] -> nonblank (None, app_text p lvl b vb)) ->
    run_from p lvl n rout (a :: skipped ++ b :: rest) = Some final ->
    exists vb R M L,
      pre p [] b = PVal vb [] /\
      final = R ++ (Some (S n + length skipped)%nat, app_text p lvl b vb) :: M ++
                   (Some n, app_text p lvl a va) :: L /\
      sep_ok M.
Proof. intros; eapply out_separation_lemma; eauto. Qed.
Print Assumptions out_separation_glue.

(* the Glue table is complete on all 56 x 56 pairs of representative lexemes: whenever gluing two lexemes
   changes the token sequence of the shared tokenizer model, Glue says so *)
Theorem glue_complete : glue_table_ok = true.
Proof. vm_compute. reflexivity. Qed.
Print Assumptions glue_complete.

(* non-vacuity: both presets are in the quantifier; a guarded pair under useMinified; and the pairs the guards
   exclude really are glued by the code (which item kinds Out.append does not protect) *)
Example ws_prefs_presets : ws_prefs prefs_default = true /\ ws_prefs prefs_minified = true.
Proof. vm_compute. split; reflexivity. Qed.

Example separation_minified :
  out_text prefs_minified 0 [typed (s "a") (s "IDENT"); comment_item (s "/*c*/"); typed (s "b") (s "IDENT")]
  = Some (s "a b") /\
  leaves_sep prefs_minified (typed (s "a") (s "IDENT")) (s "a") = true /\
  keeps_sep prefs_minified (typed (s "b") (s "IDENT")) = true /\
  Glue (s "a") (s "b") = true.
Proof. vm_compute. repeat split; reflexivity. Qed.

Example unguarded_combinator_glues :       (* '+' takes selectorCombinatorSpacer, which useMinified empties *)
  out_text prefs_minified 0 [typed (s "1") (s "NUMBER"); plain (s "+"); typed (s "2") (s "NUMBER")] = Some (s "1+2")
  /\ leaves_sep prefs_minified (plain (s "+")) (s "+") = false /\ Glue (s "+") (s "2") = true.
Proof. vm_compute. repeat split; reflexivity. Qed.

Example char_combinator_not_glued :         (* after fix 4b7d642 a '+' of type CHAR keeps a blank on both sides *)
  out_text prefs_minified 0 [typed (s "1") (s "NUMBER"); typed (s "+") (s "CHAR"); typed (s "2") (s "NUMBER")]
  = Some (s "1 + 2").
Proof. vm_compute. reflexivity. Qed.

Example unguarded_space_false_glues :      (* space=False: the caller opts out (selectors) *)
  out_text prefs_default 0 [mkItem (VStr (s "a")) None false false false false []; plain (s "b")] = Some (s "ab").
Proof. vm_compute. reflexivity. Qed.

Example unguarded_trailing_space_glues :   (* a value ending in ' ' removes the blank before it *)
  out_text prefs_default 0 [plain (s "a"); plain (s "b ")] = Some (s "ab ")
  /\ keeps_sep prefs_default (plain (s "b ")) = false.
Proof. vm_compute. split; reflexivity. Qed.

(* prefs_total, at the level modelled: no preference record makes the sheet skeleton serialiser raise
   (after the fix of _atkeyword: a rule without a literal keyword uses the default form) *)
Theorem prefs_total : forall p rs, do_sheet p rs <> None.
Proof. exact prefs_total_lemma. Qed.
Print Assumptions prefs_total.

Example prefs_total_example :
  do_sheet (use_minified {| defaultAtKeyword := false; defaultPropertyName := true; defaultPropertyPriority := true;
      formatUnknownAtRules := true; importHrefFormat := None; indent := s "    "; indentClosingBrace := true;
      indentSpecificities := false; keepAllProperties := true; keepComments := true; keepEmptyRules := false;
      keepUnknownAtRules := true; keepUsedNamespaceRulesOnly := false; lineNumbers := false; lineSeparator := [10%N];
      linesAfterRules := []; listItemSpacer := s " "; minimizeColorHash := true; normalizedVarNames := true;
      omitLastSemicolon := true; omitLeadingZero := false; paranthesisSpacer := s " "; propertyNameSpacer := s " ";
      resolveVariables := true; selectorCombinatorSpacer := s " "; spacer := s " "; validOnly := false |})
    [RMedia None (s "print") true
       [RStyle (s "a") true [DProp (mkProp (s "c\olor") (s "color") (s "red") false [] [] true true true true)]];
     RComment (s "/*c*/")]
  = Some (s "@media print{a{c\olor:red}}").
Proof. vm_compute. reflexivity. Qed.

(* omissions_exact, at the skeleton level: the rules that reach the output are, in order, exactly those that are not
   an unused @namespace rule under keepUsedNamespaceRulesOnly and whose own serialisation is not empty *)
Theorem omissions_exact :
  forall p rs l, sheet_out p rs = Some l ->
    map fst l = filter (fun r => negb (ns_dropped p r) && negb (is_nil (rule_text p r))) rs /\
    Forall (fun rt => snd rt = rule_text p (fst rt) ++ p.(linesAfterRules)) l.
Proof. exact omissions_exact_lemma. Qed.
Print Assumptions omissions_exact.

(* a style rule is written iff it has selector text, is well-formed and has declaration text or keepEmptyRules is
   set -- for every preference record whose line separator does not contain '}' (all ws_prefs records); the proof
   goes through _indentblock: splitting on the separator never loses a character that is not part of it *)
Theorem stylerule_printed_iff :
  forall p lvl sel wf ds, ws_prefs p = true ->
    (do_stylerule p lvl sel wf ds <> [] <->
     sel <> [] /\ wf = true /\ (do_styledecl p true ds <> [] \/ p.(keepEmptyRules) = true)).
Proof.
  intros p lvl sel wf ds Hw. apply OutFacts.stylerule_printed_iff. apply ws_only_no_brace.
  destruct (ws_prefs_fields p Hw) as (_ & _ & _ & _ & _ & H). exact H.
Qed.
Print Assumptions stylerule_printed_iff.

Example stylerule_printed_example :
  do_stylerule prefs_minified 0 (s "a") true [DComment (s "/*c*/")] = [] /\
  do_stylerule prefs_default 0 (s "a") true [DComment (s "/*c*/")] <> [].
Proof. vm_compute. split; [reflexivity|discriminate]. Qed.

Theorem omitted_comment : forall p t, rule_text p (RComment t) = [] <-> (p.(keepComments) = false \/ t = []).
Proof. exact comment_omitted. Qed.
Print Assumptions omitted_comment.
Theorem omitted_unknown : forall p kw wf f raw,
  rule_text p (RUnknown kw wf f raw) <> [] -> wf = true /\ p.(keepUnknownAtRules) = true.
Proof. exact unknown_omitted. Qed.
Print Assumptions omitted_unknown.
Theorem omitted_namespace : forall p t prefixed uri_used none_used,
  ns_dropped p (RNamespace t prefixed uri_used none_used) = true <->
  (p.(keepUsedNamespaceRulesOnly) = true /\ uri_used = false /\ (prefixed = true \/ none_used = false)).
Proof. exact namespace_omitted. Qed.
Print Assumptions omitted_namespace.
Theorem omitted_property : forall p q,
  do_property p q <> [] -> q.(p_wf) = true /\ (p.(validOnly) = true -> q.(p_valid) = true).
Proof. exact property_omitted. Qed.
Print Assumptions omitted_property.
Theorem atkeyword_spelling : forall p k d,
  (p.(defaultAtKeyword) = true -> atkeyword p (Some k) d = d) /\
  (p.(defaultAtKeyword) = false -> k <> [] -> atkeyword p (Some k) d = k) /\
  atkeyword p None d = d.
Proof.
  intros; split; [apply atkeyword_default_pref|split; [apply atkeyword_literal_pref|apply atkeyword_no_literal]].
Qed.
Print Assumptions atkeyword_spelling.

Example omissions_example :
  option_map (map snd) (sheet_out prefs_minified
     [RComment (s "/*c*/"); RNamespace (s "@namespace p""u"";") true false false;
      RStyle (s "a") true []; RUnknown (s "@x") true (s "@x y;") (s " y;"); ROther (s "@import""x"";")])
  = Some [s "@import""x"";"].
Proof. vm_compute. reflexivity. Qed.

(* frame: Out.append and the sheet skeleton depend only on the preferences the SOURCE functions read.  agree_out and
   agree_sheet are regenerated by translate/prefs.py from the `<x>.prefs.<name>` reads of the transcribed functions,
   so a model that consulted a preference the code does not read would break these proofs. *)
Theorem append_frame :
  forall p q, agree_out p q -> forall lvl n rout it, append p lvl n rout it = append q lvl n rout it.
Proof. exact OutFacts.append_frame. Qed.
Print Assumptions append_frame.

Theorem do_sheet_frame : forall p q, agree_sheet p q -> forall rs, do_sheet p rs = do_sheet q rs.
Proof. exact do_sheet_frame_lemma. Qed.
Print Assumptions do_sheet_frame.

Example frame_example :       (* omitLeadingZero, resolveVariables, importHrefFormat, normalizedVarNames are not read *)
  agree_sheet prefs_minified
    {| defaultAtKeyword := true; defaultPropertyName := true; defaultPropertyPriority := true;
       formatUnknownAtRules := true; importHrefFormat := None; indent := []; indentClosingBrace := true;
       indentSpecificities := false; keepAllProperties := true; keepComments := false; keepEmptyRules := false;
       keepUnknownAtRules := false; keepUsedNamespaceRulesOnly := true; lineNumbers := false; lineSeparator := [];
       linesAfterRules := []; listItemSpacer := []; minimizeColorHash := true; normalizedVarNames := false;
       omitLastSemicolon := true; omitLeadingZero := false; paranthesisSpacer := []; propertyNameSpacer := [];
       resolveVariables := false; selectorCombinatorSpacer := []; spacer := []; validOnly := false |}.
Proof. vm_compute. repeat split. Qed.

(* F  prefs_preserve_meaning: the full statement of the property.  It composes prefs_total with the behaviour of
   the parser and of the value / media-query grammars, which are not modelled; that part stays a named hypothesis
   (validated end to end by harness/props/c05.py on a pairwise-covering array of preferences x sheets). *)
Section PreserveMeaning.
  Variable omodel : Type.
  Variable parse_model : str -> omodel.                 (* parse under default preferences + extract *)
  Variable filter_model : prefs -> list rule -> omodel.  (* what the preferences are documented to leave *)
  Hypothesis reparse_faithful :
    forall p rs t, ws_prefs p = true -> do_sheet p rs = Some t -> parse_model t = filter_model p rs.

  Theorem prefs_preserve_meaning_partial :
    forall p rs, ws_prefs p = true -> exists t, do_sheet p rs = Some t /\ parse_model t = filter_model p rs.
  Proof.
    intros p rs Hw. destruct (do_sheet p rs) as [t|] eqn:H; [|exfalso; eapply prefs_total_lemma; eauto].
    exists t. split; [reflexivity|]. eapply reparse_faithful; eauto.
  Qed.
End PreserveMeaning.
Print Assumptions prefs_preserve_meaning_partial.

(* ------------------------------------------------------------------ reparse_faithful discharged on a fragment (PP engine)
   The abstract re-parse is instantiated with the framework's executable parse -- tokenize, skeleton, build_item with the
   ProdParser engine's value builder and C02's media builder (the parse of C02's parse_faithful_pp) -- and the abstract
   filter_model with Grammar.expected_model(_nocomments) of C02's sheet pp_sheet.  For that sheet, written by do_sheet with
   its piece texts spelled with the record's own spacers, and EVERY preference record of frag_prefs (146 records, see
   OutModelPP.v) the statement of the property holds with NO hypothesis (decided by vm_compute over the fragment). *)
From CssV Require Import OutModelPP.

Theorem reparse_faithful_pp :
  forall p t, In p frag_prefs -> do_sheet p (pp_rules p) = Some t -> parse_model_pp t = Some (filter_model_pp p).
Proof. exact reparse_faithful_pp_lemma. Qed.
Print Assumptions reparse_faithful_pp.

Theorem prefs_preserve_meaning_pp :
  forall p, In p frag_prefs ->
    ws_prefs p = true /\
    exists t, do_sheet p (pp_rules p) = Some t /\ parse_model_pp t = Some (filter_model_pp p).
Proof. exact prefs_preserve_meaning_pp_lemma. Qed.
Print Assumptions prefs_preserve_meaning_pp.

Example prefs_preserve_meaning_pp_example :       (* both presets are in the fragment; useMinified drops the comment *)
  In prefs_default frag_prefs /\ In prefs_minified frag_prefs /\
  (exists t, do_sheet prefs_minified (pp_rules prefs_minified) = Some t /\
             parse_model_pp t = Some (Grammar.expected_model_nocomments GrammarPP.pp_sheet)) /\
  (exists t, do_sheet prefs_default (pp_rules prefs_default) = Some t /\
             parse_model_pp t = Some (Grammar.expected_model GrammarPP.pp_sheet)).
Proof.
  assert (Hd : In prefs_default frag_prefs) by (left; reflexivity).
  assert (Hm : In prefs_minified frag_prefs) by (right; left; reflexivity).
  split; [exact Hd|]. split; [exact Hm|]. split.
  - destruct (prefs_preserve_meaning_pp_lemma _ Hm) as (_ & t & H1 & H2). exists t. split; [exact H1|exact H2].
  - destruct (prefs_preserve_meaning_pp_lemma _ Hd) as (_ & t & H1 & H2). exists t. split; [exact H1|exact H2].
Qed.
