(* C10 -- Equivalent spellings (case, escapes, quoting) give the same model.
   Property theorems only; proofs live in CssV.RespellFacts / CssV.RespellUrl.
   Models: the shared tokenizer model (unicodesub, normalize, finish_token over the regexes and tables
   regenerated from /repo), the string-value helpers transcribed in CssV.Respell, and the small
   call-site functions of CssV.Respell (priority_of, urivalue).

   F (full statement, kept visible; NOT proved as one theorem -- it needs a model of every parser layer):
     respell_same_model : forall sheet lay', expected_model sheet = model_of (parse (text_of (render sheet lay')))
   P (proved here), in three parts:
     (a) the value-level theorems below: every function the code applies to a name maps all spellings to one value;
     (b) all_sites_normalised: in the source regenerated on every run, EVERY place where a name-like token value
         is compared, looked up or stored (the table Gen/RespellSites.v built by the fail-closed walker
         translate/respellsites.py over 18 modules) goes through normalize -- or through normalize after unicodesub
         where the tokenizer keeps the literal text -- up to the 29 reviewed exemptions listed in RespellSites.v
         (literal spellings kept on purpose, case-sensitive namespace prefixes, IE-only syntax);
     (c) the token-level facts of C08/C09 (hex escapes are resolved in the nine listed token types) and the statement
         skeleton of C02.
   Remaining gap, named precisely: (a)+(b) say "each comparison is made on a spelling-independent value"; that the
   control flow of the handlers between these sites does not depend on the spelling in any other way (e.g. through
   len(), slicing at a non-constant offset, or a token value handed to a function outside the 18 modules) is not
   proved; it is what the end-to-end stream of harness/props/c10.py tests position by position.          *)
From CssV Require Import Base Regex Gen.Productions Gen.TokTables Tokenizer Respell RespellFacts RespellUrl.
From CssV Require Gen.RespellSites RespellSites.

(* any ASCII letter in the other case, any non-hex character written as a literal escape (or the
   reverse): normalize gives the same name *)
Theorem normalize_respell : forall x x', CaseOrLiteralRespelling x x' -> normalize x' = normalize x.
Proof. exact normalize_respell_lemma. Qed.
Print Assumptions normalize_respell.

Example normalize_respell_nonvacuous :
  CaseOrLiteralRespelling (s "nth-child") (92%N :: s "N" ++ 92%N :: s "tH" ++ 92%N :: s "-child") /\
  normalize (92%N :: s "N" ++ 92%N :: s "tH" ++ 92%N :: s "-child") = s "nth-child".
Proof.
  split; [|vm_compute; reflexivity]. cbn.
  apply cl_esc; [discriminate|reflexivity|right; right; repeat split; try reflexivity; discriminate|].
  apply cl_esc; [discriminate|reflexivity|left; reflexivity|].
  apply cl_plain; [discriminate|right; right; repeat split; try reflexivity; discriminate|].
  apply cl_esc; [discriminate|reflexivity|left; reflexivity|].
  repeat (apply cl_plain; [discriminate|left; reflexivity|]). apply cl_nil.
Qed.

(* the side condition on str.lower(): for ASCII the generated exception table agrees with the rule used *)
Theorem lower_table_ascii : forallb (fun c => eqs (assoc_lower c Gen.PyTables.lower_table)
    (if N.leb 65 c && N.leb c 90 then [N.add c 32] else [c])) (map N.of_nat (seq 0 128)) = true.
Proof. exact lower_table_ascii_ok. Qed.
Print Assumptions lower_table_ascii.

(* any character written as backslash + 1..6 hex digits + legal terminator (exactly the condition
   term_ok), code point <= sys.maxunicode; above it the text stays verbatim (hr_over) *)
Theorem unicodesub_hexspell : forall x x', HexRespelling x x' -> unicodesub x' = x.
Proof. exact unicodesub_hexspell_lemma. Qed.
Print Assumptions unicodesub_hexspell.

Example unicodesub_hexspell_nonvacuous :
  HexRespelling (s "media") (s "m" ++ 92%N :: s "65" ++ [32%N] ++ s "di" ++ 92%N :: s "000061") /\
  HexRespelling (92%N :: s "110000" ++ [32%N] ++ s "x") (92%N :: s "110000" ++ [32%N] ++ s "x") /\
  unicodesub (s "m" ++ 92%N :: s "65" ++ [32%N] ++ s "di" ++ 92%N :: s "000061") = s "media".
Proof.
  split; [|split; [|vm_compute; reflexivity]].
  - cbn [app]. apply hr_plain; [left; discriminate|].
    apply (hr_esc 101%N (s "65") [32%N] (s "dia") (s "di" ++ 92%N :: s "000061"));
      [discriminate|cbn; lia|reflexivity|reflexivity|vm_compute; discriminate|constructor|exact I|].
    apply hr_plain; [left; discriminate|]. apply hr_plain; [left; discriminate|].
    apply (hr_esc 97%N (s "000061") [] [] []);
      [discriminate|cbn; lia|reflexivity|reflexivity|vm_compute; discriminate|constructor|cbn; tauto|].
    apply hr_nil.
  - apply (hr_over (s "110000") [32%N] (s "x") (s "x"));
      [discriminate|cbn; lia|reflexivity|vm_compute; reflexivity|constructor|exact I|].
    apply hr_plain; [left; discriminate|]. apply hr_nil.
Qed.

(* the condition is necessary: without a terminator a following hex digit is read as a digit *)
Theorem unicodesub_hexspell_needs_terminator : unicodesub (s "\41b") <> s "Ab".
Proof. exact hex_needs_terminator. Qed.
Print Assumptions unicodesub_hexspell_needs_terminator.

Theorem normalize_u_respell : forall name spelled, Respelling name spelled -> normalize_u spelled = normalize name.
Proof. exact normalize_u_respell_lemma. Qed.
Print Assumptions normalize_u_respell.

(* the six at-keyword symbols are found under every respelling of the keyword *)
Theorem atkeyword_lookup_normalized : forall kw sym found after,
  In (kw, sym) atkeywords -> normalize_u found = kw ->
  finish_token (s "ATKEYWORD") found after = (sym, found, found).
Proof. exact atkeyword_lookup_normalized_lemma. Qed.
Print Assumptions atkeyword_lookup_normalized.

Theorem atkeyword_respell : forall kw sym found after,
  In (kw, sym) atkeywords -> Respelling kw found ->
  finish_token (s "ATKEYWORD") found after = (sym, found, found).
Proof. exact atkeyword_respell_lemma. Qed.
Print Assumptions atkeyword_respell.

Example atkeyword_six : map snd atkeywords =
  [s "FONT_FACE_SYM"; s "IMPORT_SYM"; s "MEDIA_SYM"; s "NAMESPACE_SYM"; s "PAGE_SYM"; s "VARIABLES_SYM"].
Proof. exact atkeywords_six. Qed.
Example atkeyword_respell_nonvacuous :
  finish_token (s "ATKEYWORD") (s "@M" ++ 92%N :: s "65 dia") [] = (s "MEDIA_SYM", s "@M" ++ 92%N :: s "65 dia", s "@M" ++ 92%N :: s "65 dia").
Proof. vm_compute. reflexivity. Qed.

Theorem important_respell : forall p, CaseOrLiteralRespelling (s "important") p -> priority_of p = s "important".
Proof. exact important_respell_lemma. Qed.
Print Assumptions important_respell.
Example important_respell_nonvacuous : priority_of (s "IM" ++ 92%N :: s "portAnt") = s "important".
Proof. vm_compute. reflexivity. Qed.

(* single versus double quotes: _stringtokenvalue / stringvalue give the content, for every content
   without a backslash (side condition from the proof: the unescape is a plain str.replace) *)
Theorem quote_kind_irrelevant : forall v ty0 raw0 l c ty1 raw1 l1 c1,
  ~ In 92%N v ->
  stringtokenvalue (Some (mkTok ty0 raw0 (quoted 34 v) l c)) = Ok (Some v) /\
  stringtokenvalue (Some (mkTok ty1 raw1 (quoted 39 v) l1 c1)) = Ok (Some v) /\
  hstringvalue (quoted 34 v) = Ok v /\ hstringvalue (quoted 39 v) = Ok v.
Proof. exact quote_kind_irrelevant_lemma. Qed.
Print Assumptions quote_kind_irrelevant.
Example quote_kind_nonvacuous : quoted 39 (s "it's") = s "'it\'s'" /\ quoted 34 (s "it's") = 34%N :: s "it's" ++ [34%N].
Proof. split; reflexivity. Qed.

(* quoted versus bare URL, any spelling `pre` of url (no paren in it), optional padding *)
Theorem url_quoting_irrelevant : forall pre w1 w2 w1' w2' q v,
  ~ In 40%N pre -> all_pyspace w1 -> all_pyspace w2 -> all_pyspace w1' -> all_pyspace w2' ->
  is_quote q = true -> UrlSafeBare v ->
  urivalue (url_bare pre w1 v w2) = v /\ urivalue (url_quoted pre w1' q v w2') = v.
Proof. exact url_quoting_irrelevant_lemma. Qed.
Print Assumptions url_quoting_irrelevant.
Example url_quoting_nonvacuous :
  urivalue (s "u\rl( a/b.png )") = s "a/b.png" /\ urivalue (s "url('a/b.png')") = s "a/b.png" /\
  UrlSafeBare (s "a/b.png").
Proof.
  split; [vm_compute; reflexivity|]. split; [vm_compute; reflexivity|].
  repeat split; try discriminate; try reflexivity. cbn. intuition discriminate.
Qed.

(* the URI production accepts all 788 544 case / escape spellings of url( *)
Theorem url_letters_respell : forall u r l,
  In u (letter_spellings 117) -> In r (letter_spellings 114) -> In l (letter_spellings 108) ->
  rmatch re_URI None ((u ++ r ++ l) ++ s "(x)") = Some (length ((u ++ r ++ l) ++ s "(x)")).
Proof. exact url_letters_respell_lemma. Qed.
Print Assumptions url_letters_respell.

Theorem letter_spelling_normalizes : forall lo x f,
  In (lo, x) (map (pair 117%N) (letter_spellings 117) ++ map (pair 114%N) (letter_spellings 114) ++
              map (pair 108%N) (letter_spellings 108)) ->
  In f followers -> normalize_u (x ++ [f]) = lo :: normalize [f].
Proof. exact letter_spelling_normalizes_lemma. Qed.
Print Assumptions letter_spelling_normalizes.

(* the checked site table: every comparison / lookup / store of a name-like token value in the 18 walked
   modules of /repo's current tree is normalised, or is one of the reviewed exemptions *)
Theorem all_sites_normalised : forallb RespellSites.site_ok Gen.RespellSites.sites = true.
Proof. vm_compute. reflexivity. Qed.
Print Assumptions all_sites_normalised.

(* no stale exemption: each one matches a site that is not normalised *)
Theorem exemptions_all_used : forallb RespellSites.exemption_used RespellSites.exemptions = true.
Proof. vm_compute. reflexivity. Qed.
Print Assumptions exemptions_all_used.

(* non-vacuity: the table is not empty, and the checker rejects the shapes of the repaired defects *)
Example sites_nonvacuous :
  (40 <= RespellSites.count_kind Gen.RespellSites.SCompare)%nat /\ (20 <= RespellSites.count_kind Gen.RespellSites.SStore)%nat /\
  RespellSites.site_ok (Gen.RespellSites.mkSite "css/value.py" "ColorValue._setCssText Prod('FUNCTION').match"
     "v.lower() in ('rgb(', 'hsl(')" Gen.RespellSites.SCompare Gen.RespellSites.NLower false "FUNCTION") = false /\
  RespellSites.site_ok (Gen.RespellSites.mkSite "css/cssmediarule.py" "CSSMediaRule._setCssText.atrule"
     "atval in factories" Gen.RespellSites.SCompare Gen.RespellSites.NNormalize true "") = false.
Proof. vm_compute. repeat split; auto 50 using le_n, le_S. Qed.
