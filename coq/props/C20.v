(* C20 -- @import loading is confined to the fetcher and tolerates its failures.
   Model: CssV.Imports (hand-written, corresponded) over Gen.Import (regenerated from /repo on every run).
   A `world` (fetcher, codec, statement parser, encoding validation) is universally quantified in every theorem. *)
From CssV Require Import Base Imports ImportsFacts.
From CssV.Gen Require Import Import.

(* ---- encoding priority: override > HTTP > BOM/@charset > parent sheet > utf-8 *)
Theorem ladder_priority : forall override http explicit cenc parent,
  ladder override http explicit cenc parent =
  first_choice [(truthy override, (0%N, override)); (truthy http, (1%N, http)); (explicit, (2%N, cenc));
                (truthy parent, (4%N, parent))] (5%N, Some (s "utf-8")).
Proof. exact ladder_priority_lemma. Qed.
Print Assumptions ladder_priority.

Theorem readurl_priority : forall W override parent http c,
  readurl W override parent (OContent http c) =
  let '(enctype, e) := chosen W override http parent c in
  match c with
  | CText t => RdOk e enctype t
  | CBytes b => match decode W b e with
                | DecText t => RdOk e enctype t
                | DecRaise x => if decode_tolerated x then RdNone else RdRaise x
                end
  end.
Proof. exact readurl_priority_lemma. Qed.
Print Assumptions readurl_priority.

Example readurl_priority_nonvacuous :
  ladder None (Some (s "latin-1")) true (Some (s "ascii")) (Some (s "koi8-r")) = (1%N, Some (s "latin-1")) /\
  ladder None (Some []) true (Some (s "ascii")) (Some (s "koi8-r")) = (2%N, Some (s "ascii")) /\
  ladder None None false (Some (s "utf-8")) (Some (s "koi8-r")) = (4%N, Some (s "koi8-r")) /\
  ladder None None false (Some (s "utf-8")) None = (5%N, Some (s "utf-8")).
Proof. repeat split; reflexivity. Qed.

(* ---- containment of one assignment of href: for every documented behaviour of the fetcher (nothing, a wrong shape,
   text, bytes, undecodable bytes, bytes or text with an unknown encoding label, OSError/IOError/ValueError) and every
   malformed href the assignment returns; a failed load leaves hrefFound = False and an empty sheet *)
Theorem sethref_contained : forall ld W cwd base override parent h tr,
  no_escape ld -> documented_world W ->
  match set_href ld W cwd base override parent h tr with
  | Escapes _ _ => False
  | OutOfDepth => True
  | Normal (l, _) => (l_found l = false -> l_rules l = [])
  end.
Proof. exact set_href_contained_lemma. Qed.
Print Assumptions sethref_contained.

(* ---- the whole parse.  Full statement of the property:
        forall W documented, exists fuel rules tr, parse_string fuel W cwd base override sr = Normal (rules, tr) /\ ...
   It is FALSE for the code: nothing bounds the nesting of imports (import_cycle_refuted below; open finding
   C20-import-cycle-recursion).  Proved: no exception ever leaves the parse, and whenever the nesting stays below the
   fuel exactly the well-placed @import rules are kept, in order, with the href as written, each unloaded one with an
   empty sheet. *)
Theorem parse_contained_partial : forall fuel W cwd base override sr,
  documented_world W ->
  good (parse_string fuel W cwd base override sr)
       (fun rules => import_hrefs rules = placed (s_items sr) (initial_expected sr) /\ Forall import_ok rules).
Proof. exact parse_contained_lemma. Qed.
Print Assumptions parse_contained_partial.

(* a world for the examples: a.css is text importing sub/b.css, which is missing *)
Definition u_top : url := mk_url {| u_scheme := s "http"; u_netloc := s "h"; u_path := s "/d/top.css"; u_query := [] |}.
Definition rel (x : str) : url :=
  {| raw := x; parsed := Some {| u_scheme := []; u_netloc := []; u_path := x; u_query := [] |} |}.
Definition W_ex : world :=
  {| fetch := fun _ u => if eqs u (s "http://h/d/a.css") then OContent None (CText 0)
                         else if eqs u (s "http://h/d/boom.css") then ORaise E_OSError else ONothing;
     detect := fun _ => (Some (s "utf-8"), false);
     decode := fun _ _ => DecRaise E_LookupError;
     parse := fun _ => {| s_charset := None; s_items := [IImport (rel (s "sub/b.css")) (s "all"); IStyle (s "a") (s "v")] |};
     enc_norm := fun _ => None |}.
Definition top_ex : src :=
  {| s_charset := None;
     s_items := [IImport (rel (s "a.css")) (s "all"); IImport (rel (s "boom.css")) (s "print"); IStyle (s "t") (s "x");
                 IImport (rel (s "late.css")) (s "all")] |}.

Example parse_contained_nonvacuous :
  documented_world W_ex /\
  parse_string 3 W_ex u_top (Some u_top) None top_ex =
  Normal ([RImport (s "a.css") (s "all") true (Some (s "http://h/d/a.css"))
             [RImport (s "sub/b.css") (s "all") false None []; RStyle (s "a") (s "v")];
           RImport (s "boom.css") (s "print") false None [];
           RStyle (s "t") (s "x")],
          rev [s "http://h/d/a.css"; s "http://h/d/sub/b.css"; s "http://h/d/sub/b.css";
               s "http://h/d/boom.css"; s "http://h/d/boom.css"; s "http://h/d/late.css"]).
Proof.
  split.
  - split.
    + intros tr u e. simpl. destruct (eqs u _); [discriminate|]. destruct (eqs u _); [|discriminate].
      intros H; inversion H; left; reflexivity.
    + intros b en e H. inversion H. right; reflexivity.
  - vm_compute. reflexivity.
Qed.

(* ---- the refutation: a sheet that imports itself exhausts every nesting bound (the implementation: RecursionError) *)
Definition u_self : url := mk_url {| u_scheme := s "http"; u_netloc := s "h"; u_path := s "/a.css"; u_query := [] |}.
Definition src_self : src := {| s_charset := None; s_items := [IImport (rel (s "a.css")) (s "all")] |}.
Definition W_cycle : world :=
  {| fetch := fun _ _ => OContent None (CText 0);
     detect := fun _ => (Some (s "utf-8"), false);
     decode := fun _ _ => DecRaise E_LookupError;
     parse := fun _ => src_self;
     enc_norm := fun _ => None |}.

Lemma cycle_join : urljoin u_self (rel (s "a.css")) = Some u_self.
Proof. vm_compute. reflexivity. Qed.

Lemma cycle_src : forall fuel tr, parse_src fuel W_cycle u_self (Some u_self) None None src_self tr = OutOfDepth.
Proof.
  induction fuel as [ | f IH]; intros tr; [reflexivity|].
  change (parse_src (S f) W_cycle u_self (Some u_self) None None src_self tr)
    with (items_loop (fun full o n sr' tr' => parse_src f W_cycle u_self (Some full) o n sr' tr')
                     W_cycle u_self (Some u_self) None None [IImport (rel (s "a.css")) (s "all")] 0%N [] tr).
  unfold items_loop, set_href.
  change (negb (nonempty (raw (rel (s "a.css"))))) with false. cbv iota.
  rewrite cycle_join.
  change (readurl W_cycle None (parent_encoding None []) (fetch W_cycle tr (raw u_self)))
    with (RdOk (Some (s "utf-8")) 5%N 0%N).
  cbv beta iota zeta.
  change (split_enc 5 (Some (s "utf-8"))) with (@None str, @None str).
  cbv beta iota zeta.
  change (opt_truthy None) with (@None str).
  change (parse W_cycle 0%N) with src_self.
  rewrite IH. reflexivity.
Qed.

Theorem import_cycle_refuted :
  exists W cwd base sr, documented_world W /\
    forall fuel, parse_string fuel W cwd (Some base) None sr = OutOfDepth.
Proof.
  exists W_cycle, u_self, u_self, src_self. split.
  - split; [intros tr u e H; inversion H | intros b en e H; inversion H; right; reflexivity].
  - intros fuel. unfold parse_string. change (opt_truthy None) with (@None str). rewrite cycle_src. reflexivity.
Qed.
Print Assumptions import_cycle_refuted.

(* ---- nested imports are resolved against the URL of the imported sheet: a loaded import's sheet carries the
   joined URL as href, was read from the fetcher at exactly that URL, and is parsed with that URL as base *)
Theorem nested_base_url : forall f W cwd b override parent h tr l tr',
  set_href (loader_at f W cwd) W cwd (Some b) override parent h tr = Normal (l, tr') ->
  l_found l = true ->
  exists full used enctype t rules,
    urljoin b h = Some full /\ l_href l = Some (raw full) /\
    readurl W override parent (fetch W tr (raw full)) = RdOk used enctype t /\
    parse_src f W cwd (Some full) (opt_truthy (fst (split_enc enctype used))) (opt_truthy (snd (split_enc enctype used)))
              (parse W t) (raw full :: tr) = Normal (rules, tr').
Proof. exact nested_base_url_lemma. Qed.
Print Assumptions nested_base_url.

(* ---- urljoin *)
Theorem urljoin_absolute : forall a b pa pb,
  parsed a = Some pa -> parsed b = Some pb ->
  nonempty (u_scheme pb) = true -> eqs (u_scheme pa) (u_scheme pb) = false ->
  urljoin a b = Some b.
Proof. exact urljoin_absolute_lemma. Qed.
Print Assumptions urljoin_absolute.

Theorem urljoin_invalid : forall a b, parsed a = None \/ parsed b = None -> urljoin a b = None.
Proof. exact urljoin_invalid_lemma. Qed.
Print Assumptions urljoin_invalid.

Example urljoin_relative_dir :
  option_map raw (urljoin u_top (rel (s "sub/b.css"))) = Some (s "http://h/d/sub/b.css") /\
  option_map raw (urljoin u_top (rel (s "/root.css"))) = Some (s "http://h/root.css").
Proof. split; vm_compute; reflexivity. Qed.

Example urljoin_dotsegments :
  option_map raw (urljoin u_top (rel (s "../c/./e.css"))) = Some (s "http://h/c/e.css") /\
  option_map raw (urljoin u_top (rel (s "sub/../g.css"))) = Some (s "http://h/d/g.css") /\
  (* open finding C20-urljoin-above-root: RFC 3986 gives http://h/x.css *)
  option_map raw (urljoin u_top (rel (s "../../../x.css"))) = Some (s "http://h/../x.css").
Proof. repeat split; vm_compute; reflexivity. Qed.

(* ---- resolveImports = flatten, for ALL rule trees (induction over the import tree).  `flatten` (Imports.v) is the
   readable specification: every rule contributes in document order -- a loaded `all` import the rules of its flattened
   sheet, a loaded media-restricted import one @media rule (when its flattened sheet may stand inside @media) or itself,
   an import that is not loaded ITSELF -- and add() places the contributions.  In particular resolveImports never
   raises, and no unloaded import is lost at any depth (resolve_never_drops). *)
Theorem resolve_imports_spec : forall rules, resolve rules = Some (flatten rules).
Proof. exact resolve_imports_spec_lemma. Qed.
Print Assumptions resolve_imports_spec.

Theorem resolve_never_drops : forall rules,
  has_unloaded rules ->
  exists h media out, covers rules h media /\ resolve rules = Some out /\ In (FImport h media) out.
Proof.
  intros rules Hu. destruct (has_unloaded_covered rules Hu) as [h [media Hc]].
  exists h, media, (flatten rules). split; [exact Hc|]. split; [apply resolve_imports_spec_lemma|].
  apply flatten_covers. exact Hc.
Qed.
Print Assumptions resolve_never_drops.

Theorem resolve_keeps_covered : forall rules h media,
  covers rules h media -> In (FImport h media) (flatten rules).
Proof. exact flatten_covers. Qed.
Print Assumptions resolve_keeps_covered.

(* a media-restricted loaded import above an unloaded one: the outer @import is kept with its media *)
Example resolve_never_drops_nonvacuous :
  let t := [RImport (s "b.css") (s "print") true None
              [RImport (s "c.css") (s "all") false None []; RStyle (s "b") (s "1")]; RStyle (s "a") (s "2")] in
  has_unloaded t /\ covers t (s "b.css") (s "print") /\
  resolve t = Some [FComment (s " START @import ""b.css"" "); FImport (s "b.css") (s "print"); FStyle (s "a") (s "2")].
Proof.
  cbv zeta. split; [ | split].
  - eapply un_below; [left; reflexivity|]. eapply un_here. left. reflexivity.
  - eapply cov_media; [left; reflexivity | reflexivity | ]. eapply cov_here. left. reflexivity.
  - vm_compute. reflexivity.
Qed.

Theorem resolve_total : forall rules, resolve rules <> None.
Proof. intros rules. apply resolve_rules_total. Qed.
Print Assumptions resolve_total.

Theorem resolve_keeps_unloaded : forall rules out h media href sub,
  resolve rules = Some out -> In (RImport h media false href sub) rules -> In (FImport h media) out.
Proof. exact resolve_keeps_unloaded_lemma. Qed.
Print Assumptions resolve_keeps_unloaded.

Theorem resolve_uses_configured_fetcher : resolve_fetcher = Configured.
Proof. reflexivity. Qed.
Print Assumptions resolve_uses_configured_fetcher.

Example resolve_imports_example :
  resolve [RCharset (s "utf-8");
           RImport (s "a.css") (s "all") true None [RStyle (s "a") (s "1"); RImport (s "n.css") (s "all") true None [RStyle (s "n") (s "2")]];
           RImport (s "b.css") (s "print") true None [RStyle (s "b") (s "3")];
           RImport (s "c.css") (s "all") false None [];
           RImport (s "m.css") (s "tv") true None [RNamespace (s "u"); RStyle (s "m") (s "4")];
           RStyle (s "t") (s "5")]
  = Some [FComment (s " START @import ""a.css"" "); FImport (s "c.css") (s "all"); FImport (s "m.css") (s "tv");
          FStyle (s "a") (s "1");
          FComment (s " START @import ""n.css"" "); FStyle (s "n") (s "2");
          FComment (s " START @import ""b.css"" "); FMedia (s "print") [FStyle (s "b") (s "3")];
          FComment (s " START @import ""m.css"" "); FStyle (s "t") (s "5")].
Proof. vm_compute. reflexivity. Qed.

(* ---- the pinned text of urljoin *)
Theorem urljoin_model_is_current : eqs urljoin_source_sha urljoin_modelled_sha = true.
Proof. exact urljoin_pinned. Qed.
Print Assumptions urljoin_model_is_current.
