(* C20 -- @import loading is confined to the fetcher and tolerates its failures.
   Model: CssV.Imports (hand-written, corresponded) over Gen.Import (regenerated from /repo on every run).
   A `world` (fetcher, codec, statement parser, encoding validation) is universally quantified in every theorem. *)
From CssV Require Import Base Imports ImportsFacts.
From CssV.Gen Require Import Import.

(* ---- encoding priority: override > HTTP > BOM/@charset > parent sheet > utf-8 *)
Theorem ladder_priority : forall override http explicit cenc parent,
  ladder override http explicit cenc parent =
  first_choice [(truthy override, (0%N, override)); (truthy http, (1%N, http)); (explicit, (2%N, cenc));
                (truthy parent, (4%N, parent))] (5%N, Some (s "utf-8")).
Proof. exact ladder_priority_lemma. Qed.
Print Assumptions ladder_priority.

Theorem readurl_priority : forall W override parent http c,
  readurl W override parent (OContent http c) =
  let '(enctype, e) := chosen W override http parent c in
  match c with
  | CText t => RdOk e enctype t
  | CBytes b => match decode W b e with
                | DecText t => RdOk e enctype t
                | DecRaise x => if decode_tolerated x then RdNone else RdRaise x
                end
  end.
Proof. exact readurl_priority_lemma. Qed.
Print Assumptions readurl_priority.

Example readurl_priority_nonvacuous :
  ladder None (Some (s "latin-1")) true (Some (s "ascii")) (Some (s "koi8-r")) = (1%N, Some (s "latin-1")) /\
  ladder None (Some []) true (Some (s "ascii")) (Some (s "koi8-r")) = (2%N, Some (s "ascii")) /\
  ladder None None false (Some (s "utf-8")) (Some (s "koi8-r")) = (4%N, Some (s "koi8-r")) /\
  ladder None None false (Some (s "utf-8")) None = (5%N, Some (s "utf-8")).
Proof. repeat split; reflexivity. Qed.

(* ---- containment of one assignment of href: for every documented behaviour of the fetcher (nothing, a wrong shape,
   text, bytes, undecodable bytes, bytes or text with an unknown encoding label, OSError/IOError/ValueError) and every
   malformed href the assignment returns; a failed load leaves hrefFound = False and an empty sheet *)
Theorem sethref_contained : forall ld W cwd base anc override parent h tr,
  no_escape ld -> documented_world W ->
  match set_href ld W cwd base anc override parent h tr with
  | Escapes _ _ => False
  | OutOfDepth => True
  | Normal (l, _) => (l_found l = false -> l_rules l = [])
  end.
Proof. exact set_href_contained_lemma. Qed.
Print Assumptions sethref_contained.

(* ---- the whole parse.  Full statement of the property (parse_contained): for every documented world whose fetcher
   serves content at finitely many URLs, the parse RETURNS (fuel above the number of those URLs is never exhausted: the
   import chain never repeats a URL since _setHref refuses a URL that a sheet of the chain already has), no exception
   leaves it, exactly the well-placed @import rules are kept, in order, with the href as written, and each unloaded one
   has an empty sheet.  parse_never_raises is the part that needs no finiteness: for every fuel. *)
Theorem parse_contained : forall W cwd universe base override sr fuel,
  documented_world W -> served W universe -> length universe < fuel ->
  exists rules tr,
    parse_string fuel W cwd base override sr = Normal (rules, tr) /\
    import_hrefs rules = placed (s_items sr) (initial_expected sr) /\ Forall import_ok rules.
Proof. exact parse_terminates_lemma. Qed.
Print Assumptions parse_contained.

Theorem parse_terminates : forall W cwd universe base override sr,
  documented_world W -> served W universe ->
  exists fuel rules tr, parse_string fuel W cwd base override sr = Normal (rules, tr).
Proof.
  intros W cwd universe base override sr HW Hs.
  destruct (parse_terminates_lemma W cwd universe base override sr (S (length universe)) HW Hs (Nat.lt_succ_diag_r _))
    as [rules [tr [H _]]].
  exists (S (length universe)), rules, tr. exact H.
Qed.
Print Assumptions parse_terminates.

Theorem parse_never_raises : forall fuel W cwd base override sr,
  documented_world W ->
  good (parse_string fuel W cwd base override sr)
       (fun rules => import_hrefs rules = placed (s_items sr) (initial_expected sr) /\ Forall import_ok rules).
Proof. exact parse_contained_lemma. Qed.
Print Assumptions parse_never_raises.

(* a world for the examples: a.css is text importing sub/b.css, which is missing *)
Definition u_top : url := mk_url {| u_scheme := s "http"; u_netloc := s "h"; u_path := s "/d/top.css"; u_query := [] |}.
Definition rel (x : str) : url :=
  {| raw := x; parsed := Some {| u_scheme := []; u_netloc := []; u_path := x; u_query := [] |} |}.
Definition W_ex : world :=
  {| fetch := fun _ u => if eqs u (s "http://h/d/a.css") then OContent None (CText 0)
                         else if eqs u (s "http://h/d/boom.css") then ORaise E_OSError else ONothing;
     detect := fun _ => (Some (s "utf-8"), false);
     decode := fun _ _ => DecRaise E_LookupError;
     parse := fun _ => {| s_charset := None; s_items := [IImport (rel (s "sub/b.css")) (s "all"); IStyle (s "a") (s "v")] |};
     enc_norm := fun _ => None |}.
Definition top_ex : src :=
  {| s_charset := None;
     s_items := [IImport (rel (s "a.css")) (s "all"); IImport (rel (s "boom.css")) (s "print"); IStyle (s "t") (s "x");
                 IImport (rel (s "late.css")) (s "all")] |}.

Example parse_contained_nonvacuous :
  documented_world W_ex /\
  parse_string 3 W_ex u_top (Some u_top) None top_ex =
  Normal ([RImport (s "a.css") (s "all") true (Some (s "http://h/d/a.css"))
             [RImport (s "sub/b.css") (s "all") false None []; RStyle (s "a") (s "v")];
           RImport (s "boom.css") (s "print") false None [];
           RStyle (s "t") (s "x")],
          rev [s "http://h/d/a.css"; s "http://h/d/sub/b.css"; s "http://h/d/sub/b.css";
               s "http://h/d/boom.css"; s "http://h/d/boom.css"; s "http://h/d/late.css"]).
Proof.
  split.
  - split.
    + intros tr u e. simpl. destruct (eqs u _); [discriminate|]. destruct (eqs u _); [|discriminate].
      intros H; inversion H; left; reflexivity.
    + intros b en e H. inversion H. right; reflexivity.
  - vm_compute. reflexivity.
Qed.

Example parse_contained_applies : served W_ex [s "http://h/d/a.css"].
Proof.
  intros tr u http c. simpl.
  match goal with |- (if ?b then _ else _) = _ -> _ => destruct b eqn:E end.
  - intros _. left. symmetry. apply eqs_spec. exact E.
  - match goal with |- (if ?b then _ else _) = _ -> _ => destruct b end; intros H; discriminate H.
Qed.

(* ---- import cycles (were: RecursionError, import_cycle_refuted): every URL serves a sheet that imports a.css and
   b.css; the chain top -> a -> b stops where a URL of the chain comes again, without asking the fetcher *)
Definition src_ab : src :=
  {| s_charset := None; s_items := [IImport (rel (s "a.css")) (s "all"); IImport (rel (s "b.css")) (s "all")] |}.
Definition W_cycle : world :=
  {| fetch := fun _ _ => OContent None (CText 0);
     detect := fun _ => (Some (s "utf-8"), false);
     decode := fun _ _ => DecRaise E_LookupError;
     parse := fun _ => src_ab;
     enc_norm := fun _ => None |}.

Example import_cycle_stops :
  exists rules,
    parse_string 4 W_cycle u_top (Some u_top) None src_ab =
    Normal (rules, rev [s "http://h/d/a.css"; s "http://h/d/b.css"; s "http://h/d/b.css"; s "http://h/d/a.css"])
    /\ import_hrefs rules = [s "a.css"; s "b.css"].
Proof. eexists. split; vm_compute; reflexivity. Qed.

(* ---- the fetcher is the only source of content: the whole outcome of a parse (rule tree at every depth, calls made,
   escaping exception) is determined by the answers the fetcher gave at the recorded calls.  Two worlds with the same
   codec / statement parser / encoding validation whose fetchers agree at every call of the trace (URL + the calls made
   before it) give the same result, whatever else the second fetcher would have served *)
Theorem only_fetcher_called : forall W W' fuel cwd base override sr tR,
  same_env W W' ->
  rtrace (parse_string fuel W cwd base override sr) = Some tR -> agree W W' tR ->
  parse_string fuel W' cwd base override sr = parse_string fuel W cwd base override sr.
Proof. exact only_fetcher_called_lemma. Qed.
Print Assumptions only_fetcher_called.

(* calls are only ever added to the trace, in order *)
Theorem trace_only_grows : forall W cwd fuel full anc o n sr tr t,
  rtrace (parse_src fuel W cwd (Some full) anc o n sr tr) = Some t -> suffix tr t.
Proof. intros W cwd fuel full anc o n sr tr t. apply (parse_src_extends W cwd fuel full anc o n sr tr t). Qed.
Print Assumptions trace_only_grows.

(* W_ex2 answers differently at a URL that is never asked for *)
Definition W_ex2 : world :=
  {| fetch := fun tr u => if eqs u (s "http://elsewhere/x.css") then OContent None (CText 7) else fetch W_ex tr u;
     detect := detect W_ex; decode := decode W_ex; parse := parse W_ex; enc_norm := enc_norm W_ex |}.

Example only_fetcher_called_nonvacuous :
  exists tR, rtrace (parse_string 3 W_ex u_top (Some u_top) None top_ex) = Some tR /\
             same_env W_ex W_ex2 /\ agree W_ex W_ex2 tR /\
             fetch W_ex2 [] (s "http://elsewhere/x.css") <> fetch W_ex [] (s "http://elsewhere/x.css").
Proof.
  eexists. split; [vm_compute; reflexivity|]. split; [repeat split|]. split; [ | vm_compute; discriminate].
  intros tr0 u Hs. apply suffix_in in Hs. simpl in Hs.
  repeat (destruct Hs as [<- | Hs]; [vm_compute; reflexivity|]). destruct Hs.
Qed.

(* ---- nested imports are resolved against the URL of the imported sheet: a loaded import's sheet carries the
   joined URL as href, was read from the fetcher at exactly that URL, and is parsed with that URL as base *)
Theorem nested_base_url : forall f W cwd b anc override parent h tr l tr',
  set_href (loader_at f W cwd) W cwd (Some b) anc override parent h tr = Normal (l, tr') ->
  l_found l = true ->
  exists full used enctype t rules,
    urljoin b h = Some full /\ l_href l = Some (raw full) /\
    readurl W override parent (fetch W tr (raw full)) = RdOk used enctype t /\
    parse_src f W cwd (Some full) (raw full :: anc) (opt_truthy (fst (split_enc enctype used)))
              (opt_truthy (snd (split_enc enctype used))) (parse W t) (raw full :: tr) = Normal (rules, tr').
Proof. exact nested_base_url_lemma. Qed.
Print Assumptions nested_base_url.

(* end to end, at EVERY depth (induction over the nesting fuel and the statements): in the rule tree a parse returns,
   every loaded @import carries the URL obtained by joining its href with the URL of the sheet that contains it --
   the top sheet's href (or the cwd URL) for the first level, that joined URL for the next, and so on *)
Theorem nested_base_url_deep : forall fuel W cwd base override sr rules tr,
  parse_string fuel W cwd base override sr = Normal (rules, tr) -> based (base_of cwd base) rules.
Proof. exact nested_base_url_deep_lemma. Qed.
Print Assumptions nested_base_url_deep.

(* three levels in sub-directories: top -> s/a.css -> t/b.css -> c.css (missing) *)
Definition W_deep : world :=
  {| fetch := fun _ u => if eqs u (s "http://h/d/s/a.css") then OContent None (CText 1)
                         else if eqs u (s "http://h/d/s/t/b.css") then OContent None (CText 2) else ONothing;
     detect := fun _ => (Some (s "utf-8"), false);
     decode := fun _ _ => DecRaise E_LookupError;
     parse := fun t => if N.eqb t 1 then {| s_charset := None; s_items := [IImport (rel (s "t/b.css")) (s "all")] |}
                       else {| s_charset := None; s_items := [IImport (rel (s "c.css")) (s "all"); IStyle (s "b") (s "v")] |};
     enc_norm := fun _ => None |}.

Example nested_base_url_deep_nonvacuous :
  parse_string 5 W_deep u_top (Some u_top) None {| s_charset := None; s_items := [IImport (rel (s "s/a.css")) (s "all")] |} =
  Normal ([RImport (s "s/a.css") (s "all") true (Some (s "http://h/d/s/a.css"))
             [RImport (s "t/b.css") (s "all") true (Some (s "http://h/d/s/t/b.css"))
                [RImport (s "c.css") (s "all") false None []; RStyle (s "b") (s "v")]]],
          rev [s "http://h/d/s/a.css"; s "http://h/d/s/t/b.css"; s "http://h/d/s/t/c.css"; s "http://h/d/s/t/c.css"]).
Proof. vm_compute. reflexivity. Qed.

(* ---- urljoin *)
Theorem urljoin_absolute : forall a b pa pb,
  parsed a = Some pa -> parsed b = Some pb ->
  nonempty (u_scheme pb) = true -> eqs (u_scheme pa) (u_scheme pb) = false ->
  urljoin a b = Some b.
Proof. exact urljoin_absolute_lemma. Qed.
Print Assumptions urljoin_absolute.

Theorem urljoin_invalid : forall a b, parsed a = None \/ parsed b = None -> urljoin a b = None.
Proof. exact urljoin_invalid_lemma. Qed.
Print Assumptions urljoin_invalid.

Example urljoin_relative_dir :
  option_map raw (urljoin u_top (rel (s "sub/b.css"))) = Some (s "http://h/d/sub/b.css") /\
  option_map raw (urljoin u_top (rel (s "/root.css"))) = Some (s "http://h/root.css").
Proof. split; vm_compute; reflexivity. Qed.

Example urljoin_dotsegments :
  option_map raw (urljoin u_top (rel (s "../c/./e.css"))) = Some (s "http://h/c/e.css") /\
  option_map raw (urljoin u_top (rel (s "sub/../g.css"))) = Some (s "http://h/d/g.css") /\
  (* open finding C20-urljoin-above-root: RFC 3986 gives http://h/x.css *)
  option_map raw (urljoin u_top (rel (s "../../../x.css"))) = Some (s "http://h/../x.css").
Proof. repeat split; vm_compute; reflexivity. Qed.

(* ---- resolveImports = flatten, for ALL rule trees (induction over the import tree).  `flatten` (Imports.v) is the
   readable specification: every rule contributes in document order -- a loaded `all` import the rules of its flattened
   sheet, a loaded media-restricted import one @media rule (when its flattened sheet may stand inside @media) or itself,
   an import that is not loaded ITSELF -- and add() places the contributions.  In particular resolveImports never
   raises, and no unloaded import is lost at any depth (resolve_never_drops). *)
Theorem resolve_imports_spec : forall rules, resolve rules = Some (flatten rules).
Proof. exact resolve_imports_spec_lemma. Qed.
Print Assumptions resolve_imports_spec.

Theorem resolve_never_drops : forall rules,
  has_unloaded rules ->
  exists h media out, covers rules h media /\ resolve rules = Some out /\ In (FImport h media) out.
Proof.
  intros rules Hu. destruct (has_unloaded_covered rules Hu) as [h [media Hc]].
  exists h, media, (flatten rules). split; [exact Hc|]. split; [apply resolve_imports_spec_lemma|].
  apply flatten_covers. exact Hc.
Qed.
Print Assumptions resolve_never_drops.

Theorem resolve_keeps_covered : forall rules h media,
  covers rules h media -> In (FImport h media) (flatten rules).
Proof. exact flatten_covers. Qed.
Print Assumptions resolve_keeps_covered.

(* a media-restricted loaded import above an unloaded one: the outer @import is kept with its media *)
Example resolve_never_drops_nonvacuous :
  let t := [RImport (s "b.css") (s "print") true None
              [RImport (s "c.css") (s "all") false None []; RStyle (s "b") (s "1")]; RStyle (s "a") (s "2")] in
  has_unloaded t /\ covers t (s "b.css") (s "print") /\
  resolve t = Some [FComment (s " START @import ""b.css"" "); FImport (s "b.css") (s "print"); FStyle (s "a") (s "2")].
Proof.
  cbv zeta. split; [ | split].
  - eapply un_below; [left; reflexivity|]. eapply un_here. left. reflexivity.
  - eapply cov_media; [left; reflexivity | reflexivity | ]. eapply cov_here. left. reflexivity.
  - vm_compute. reflexivity.
Qed.

Theorem resolve_total : forall rules, resolve rules <> None.
Proof. intros rules. apply resolve_rules_total. Qed.
Print Assumptions resolve_total.

Theorem resolve_keeps_unloaded : forall rules out h media href sub,
  resolve rules = Some out -> In (RImport h media false href sub) rules -> In (FImport h media) out.
Proof. exact resolve_keeps_unloaded_lemma. Qed.
Print Assumptions resolve_keeps_unloaded.

Theorem resolve_uses_configured_fetcher : resolve_fetcher = Configured.
Proof. reflexivity. Qed.
Print Assumptions resolve_uses_configured_fetcher.

Example resolve_imports_example :
  resolve [RCharset (s "utf-8");
           RImport (s "a.css") (s "all") true None [RStyle (s "a") (s "1"); RImport (s "n.css") (s "all") true None [RStyle (s "n") (s "2")]];
           RImport (s "b.css") (s "print") true None [RStyle (s "b") (s "3")];
           RImport (s "c.css") (s "all") false None [];
           RImport (s "m.css") (s "tv") true None [RNamespace (s "u"); RStyle (s "m") (s "4")];
           RStyle (s "t") (s "5")]
  = Some [FComment (s " START @import ""a.css"" "); FImport (s "c.css") (s "all"); FImport (s "m.css") (s "tv");
          FStyle (s "a") (s "1");
          FComment (s " START @import ""n.css"" "); FStyle (s "n") (s "2");
          FComment (s " START @import ""b.css"" "); FMedia (s "print") [FStyle (s "b") (s "3")];
          FComment (s " START @import ""m.css"" "); FStyle (s "t") (s "5")].
Proof. vm_compute. reflexivity. Qed.

(* ---- the pinned text of urljoin *)
Theorem urljoin_model_is_current : eqs urljoin_source_sha urljoin_modelled_sha = true.
Proof. exact urljoin_pinned. Qed.
Print Assumptions urljoin_model_is_current.
