(* C13 -- Encoded output always decodes and re-parses to the same sheet.
   Property theorems only; proofs live in CssV.EscapeEncFacts.  Model: CssV.EscapeEnc
   (`encode_esc` = str.encode(e, 'escapecss') with the handler of serialize.py:27-39 built from the
   regenerated constants, `escape_unenc` = the text those bytes stand for, `unicodesub`/`finish_token`/
   `tokenize` = the shared tokenizer model, `sheet_text`/`set_encoding`/`detect_charset` = the sheet's
   encoding property, do_CSSStyleSheet's join and the @charset test of the css codec).

   A codec is a Section instance: encc (one character -> its bytes, None = UnicodeEncodeError),
   dec (bytes.decode), bom (what ''.encode(e) writes), good (the characters the codec decodes back to
   themselves: all of them except 2..9 code points of five CJK codecs, measured by the harness).
   Hypotheses, validated by the harness for every codec it uses:
     dec_enc_text_hyp      decoding the concatenated per-character encodings (after the BOM) gives the text
     ascii_encodable_hyp   every ASCII character is encodable (so the handler's text is)
     ascii_transparent_hyp no BOM and ASCII characters are their own byte (charset_rule_first only)   *)
From CssV Require Import Base Regex Gen.TokTables Gen.Productions Tokenizer Lexemes EscapeEnc EscapeEncFacts EscapeEncLexemes EscapeEncBackslash.
From CssV Require Import Gen.CodecFns EscapeEncDetect.

(* "cssText is a byte string that decodes under that encoding ... represents every character the
   encoding cannot express as a CSS escape": encoding never raises, and the bytes decode to the text in
   which exactly the unencodable characters are spelled backslash HEX space.                          *)
Theorem escapecss_decodes : forall encc dec bom good,
  ascii_encodable_hyp encc good -> dec_enc_text_hyp encc dec bom good ->
  forall text, forallb (fun c => negb (encodable encc c) || good c) text = true ->
  exists b, encode_esc encc bom text = Some b /\ dec b = Some (escape_unenc encc text).
Proof. exact escapecss_decodes_lemma. Qed.
Print Assumptions escapecss_decodes.

(* "the escape's terminating space never glues onto or eats the next character, for any following
   character": the tokenizer's escape resolution maps the escaped text back to the text, for every
   text without a literal backslash, whatever follows each escaped character (hex digit, space,
   newline, quote, another escaped character, end of text); HEX c has 1..6 digits since c <= 0x10FFFF. *)
Theorem escape_resolves : forall encc text,
  ~ In 92%N text -> valid text -> unicodesub (escape_unenc encc text) = text.
Proof. exact escape_resolves_lemma. Qed.
Print Assumptions escape_resolves.

(* texts WITH literal backslashes: for EVERY text the tokenizer's escape resolution of the escaped spelling equals
   its escape resolution of the text itself -- the escapes the serializer adds never interact with backslashes,
   hex digits or white space already in the text (in particular any number of backslashes directly before an
   unencodable character, the trigger of seeded C13-4).  So there is no backslash-parity condition at HEAD
   (unicodesub ignores parity): the text comes back exactly when it was a fixpoint of unicodesub to begin with,
   e.g. when no backslash is directly followed by a hex digit (bs_ok).                                          *)
Theorem escape_resolves_general : forall encc, (forall c, (c < 128)%N -> encodable encc c = true) ->
  forall text, valid text -> unicodesub (escape_unenc encc text) = unicodesub text.
Proof. exact escape_resolves_general_lemma. Qed.
Print Assumptions escape_resolves_general.

Theorem roundtrip_iff_fixpoint : forall encc, (forall c, (c < 128)%N -> encodable encc c = true) ->
  forall text, valid text -> (unicodesub (escape_unenc encc text) = text <-> unicodesub text = text).
Proof. exact roundtrip_iff_fixpoint_lemma. Qed.
Print Assumptions roundtrip_iff_fixpoint.

Theorem escape_resolves_backslash : forall encc, (forall c, (c < 128)%N -> encodable encc c = true) ->
  forall text, valid text -> bs_ok text = true -> unicodesub (escape_unenc encc text) = text.
Proof. exact escape_resolves_backslash_lemma. Qed.
Print Assumptions escape_resolves_backslash.

Example backslash_ex :
  let t := (s "C:\" ++ [220%N] ++ s "b \\" ++ [8364%N] ++ s "\g")%N in
  bs_ok t = true /\ unicodesub (escape_unenc ascii_encc t) = t /\
  (* a text that is not a fixpoint: backslash + hex digit *)
  unicodesub (escape_unenc ascii_encc (s "\41 " ++ [233%N])) = s "A" ++ [233%N].
Proof. vm_compute. repeat split; reflexivity. Qed.

(* both together: what the re-parse is given *)
Theorem encode_decode_resolve : forall encc dec bom good,
  ascii_encodable_hyp encc good -> dec_enc_text_hyp encc dec bom good ->
  forall text, forallb (fun c => negb (encodable encc c) || good c) text = true ->
  ~ In 92%N text -> valid text ->
  exists b u, encode_esc encc bom text = Some b /\ dec b = Some u /\ unicodesub u = text.
Proof. exact encode_decode_resolve_lemma. Qed.
Print Assumptions encode_decode_resolve.

(* the escape is one match of the tokenizer's escape regex, terminating space included, whatever follows *)
Theorem escape_matched_whole : forall prev h rest,
  forallb is_hex h = true -> (1 <= length h <= 6)%nat ->
  rmatch re_unicodesub prev (92%N :: h ++ 32%N :: rest) = Some (S (S (length h))).
Proof. exact rmatch_unicodesub_esc. Qed.
Print Assumptions escape_matched_whole.

(* escape_token_stable, value level: for every token type whose text can carry a non-ASCII character --
   the tokenizer's escape-resolved list (DIMENSION IDENT STRING URI HASH COMMENT FUNCTION INVALID
   UNICODE-RANGE, regenerated from tokenize2.py:209-211) and an at-keyword that is not one of the known
   ones -- a lexeme matched in its escaped spelling gets the lexeme as its value.
   (Before fix b051860 this failed for ATKEYWORD: `@e-acute x;` under encoding='ascii' came back with the
   keyword `@\e9 `; finding C13-atkeyword-unresolved.)                                                 *)
Theorem escape_token_stable : forall encc name lexeme after,
  carries_text encc name lexeme -> ~ In 92%N lexeme -> valid lexeme ->
  finish_token name (escape_unenc encc lexeme) after = (name, escape_unenc encc lexeme, lexeme).
Proof. exact escape_value_stable_lemma. Qed.
Print Assumptions escape_token_stable.

(* ---- token BOUNDARIES of escaped lexemes ------------------------------------------------------------------
   `first_token dc prev t` = what one iteration of the tokenizer loop yields at the start of t: (type, value,
   length of the match).  For every lexeme l of a class, written in its escaped spelling and followed by any text
   that cannot continue it, the first token is (class, l, length of the escaped spelling): the escape's
   terminating space neither ends the token early nor lets it swallow what follows.  Proved by showing that the
   escaped spelling is a lexeme of the C09 development (LexemeFacts.lexeme_wins); hypothesis on the codec:
   ASCII characters are encodable.  Characters of l: nmstart_plain / nmchar_plain = ASCII name characters or any
   code point >= 128; str_plain q = anything but newline, backslash and the quote.

   IDENT holds for ANY identifier (first character escaped, u or U included) provided neither an opening
   parenthesis nor a plus sign follows (C09's ident_lexeme_full; u+ would start a UNICODE-RANGE); a second variant
   allows a following plus sign when the identifier has a leading dash or an encodable first character other
   than u/U.  FUNCTION and URI tokens are not covered by theorems here: closed Examples below, the correspondence
   (K stream) and the oracle only.                                                                             *)
Theorem escaped_ident_first_token : forall encc, (forall c, (c < 128)%N -> encodable encc c = true) ->
  forall d c0 cs follow dc prev,
  nmstart_plain c0 = true -> forallb nmchar_plain cs = true -> valid (c0 :: cs) ->
  hd_not nm_cont follow = true -> hd_not (is_c 40) follow = true -> hd_not (is_c 43) follow = true ->
  let l := ident_chars d c0 cs in
  first_token dc prev (escape_unenc encc l ++ follow) = Some (s "IDENT", l, length (escape_unenc encc l)).
Proof. exact escaped_ident_first_token_full_lemma. Qed.
Print Assumptions escaped_ident_first_token.

Theorem escaped_ident_first_token_before_plus : forall encc, (forall c, (c < 128)%N -> encodable encc c = true) ->
  forall d c0 cs follow dc prev,
  nmstart_plain c0 = true -> forallb nmchar_plain cs = true -> valid (c0 :: cs) ->
  hd_not nm_cont follow = true -> hd_not (is_c 40) follow = true ->
  (d = true \/ (encodable encc c0 = true /\ c0 <> 85%N /\ c0 <> 117%N)) ->
  let l := ident_chars d c0 cs in
  first_token dc prev (escape_unenc encc l ++ follow) = Some (s "IDENT", l, length (escape_unenc encc l)).
Proof. exact escaped_ident_first_token_lemma. Qed.
Print Assumptions escaped_ident_first_token_before_plus.

Theorem escaped_hash_first_token : forall encc, (forall c, (c < 128)%N -> encodable encc c = true) ->
  forall cs follow dc prev,
  cs <> [] -> forallb nmchar_plain cs = true -> valid cs -> hd_not nm_cont follow = true ->
  let l := 35%N :: cs in
  first_token dc prev (escape_unenc encc l ++ follow) = Some (s "HASH", l, length (escape_unenc encc l)).
Proof. exact escaped_hash_first_token_lemma. Qed.
Print Assumptions escaped_hash_first_token.

Theorem escaped_atkeyword_first_token : forall encc, (forall c, (c < 128)%N -> encodable encc c = true) ->
  forall d c0 cs follow dc prev,
  nmstart_plain c0 = true -> forallb nmchar_plain cs = true -> valid (c0 :: cs) ->
  hd_not nm_cont follow = true ->
  let l := 64%N :: ident_chars d c0 cs in
  assoc_str (normalize l) atkeywords = None -> eqs (escape_unenc encc l) (s "@charset") = false ->
  first_token dc prev (escape_unenc encc l ++ follow) = Some (s "ATKEYWORD", l, length (escape_unenc encc l)).
Proof. exact escaped_atkeyword_first_token_lemma. Qed.
Print Assumptions escaped_atkeyword_first_token.

Theorem escaped_dimension_first_token : forall encc, (forall c, (c < 128)%N -> encodable encc c = true) ->
  forall n d c0 cs follow dc prev,
  wf_num n = true -> nmstart_plain c0 = true -> forallb nmchar_plain cs = true -> valid (c0 :: cs) ->
  hd_not nm_cont follow = true ->
  let l := num_text n ++ ident_chars d c0 cs in
  first_token dc prev (escape_unenc encc l ++ follow) = Some (s "DIMENSION", l, length (escape_unenc encc l)).
Proof. exact escaped_dimension_first_token_lemma. Qed.
Print Assumptions escaped_dimension_first_token.

Theorem escaped_string_first_token : forall encc, (forall c, (c < 128)%N -> encodable encc c = true) ->
  forall q body follow dc prev,
  q = 34%N \/ q = 39%N -> forallb (str_plain q) body = true -> valid body ->
  let l := q :: body ++ [q] in
  first_token dc prev (escape_unenc encc l ++ follow) = Some (s "STRING", l, length (escape_unenc encc l)).
Proof. exact escaped_string_first_token_lemma. Qed.
Print Assumptions escaped_string_first_token.

(* every comment without an inner star-slash has the shape  slash star seg0 stars (c seg stars)* slash  *)
Theorem escaped_comment_first_token : forall encc, (forall c, (c < 128)%N -> encodable encc c = true) ->
  forall seg0 st0 gs follow dc prev,
  forallb not_star seg0 = true -> forallb wf_group gs = true ->
  let l := text (LComment seg0 st0 gs) in ~ In 92%N l -> valid l ->
  first_token dc prev (escape_unenc encc l ++ follow) = Some (s "COMMENT", l, length (escape_unenc encc l)).
Proof. exact escaped_comment_first_token_lemma. Qed.
Print Assumptions escaped_comment_first_token.

(* non-vacuity (incl. an identifier whose first character is escaped), and the classes the theorems above leave out
   (FUNCTION, URI), closed *)
Example first_token_ex :
  let E := escape_unenc ascii_encc in
  first_token true None (E (s "a" ++ [233; 1076]%N) ++ s " b") = Some (s "IDENT", s "a" ++ [233; 1076]%N, 10%nat) /\
  first_token true None (E ([233]%N ++ s "a") ++ s "{") = Some (s "IDENT", [233]%N ++ s "a", 5%nat) /\
  first_token true None (E (s "f" ++ [233]%N ++ s "(") ++ s "1)") = Some (s "FUNCTION", s "f" ++ [233]%N ++ s "(", 6%nat) /\
  first_token true None (E (s "url(" ++ [233]%N ++ s "a)") ++ s ";") = Some (s "URI", s "url(" ++ [233]%N ++ s "a)", 10%nat) /\
  first_token true None (E (s "1.5" ++ [181]%N ++ s "m") ++ s ";") = Some (s "DIMENSION", s "1.5" ++ [181]%N ++ s "m", 8%nat) /\
  first_token true None (E (s "/*" ++ [233]%N ++ s "**x*/") ++ s "a") = Some (s "COMMENT", s "/*" ++ [233]%N ++ s "**x*/", 11%nat).
Proof. vm_compute. repeat split; reflexivity. Qed.

(* "begins with an @charset rule naming it whenever one is set" + "parsing those bytes back detects the
   same encoding" for ASCII-transparent codecs: after sheet.encoding = e the bytes start with
   @charset "<e.lower()>"; and the css codec's charset test reads exactly the sheet's encoding back.
   (BOM detection of the UTF-16/32 family and the candidate bit mask are C14's model; for C13 they are
   covered by the end-to-end correspondence.)                                                         *)
Theorem charset_rule_first : forall encc, (forall c, (c < 128)%N -> encc c = Some [c]) ->
  forall e sh b, ascii_name (lower e) = true ->
  encode_esc encc [] (sheet_text (set_encoding e sh)) = Some b ->
  (exists rest, b = charset_text (lower e) ++ rest) /\
  detect_charset b = Some (get_encoding (set_encoding e sh)).
Proof. exact charset_rule_first_lemma. Qed.
Print Assumptions charset_rule_first.

(* detect_after_encode for ALL branches of the real detector (Gen/CodecFns.detectencoding_str, regenerated from
   _codec3.py; C14's priority theorems): the bytes written for a sheet whose encoding was assigned are detected as
   that encoding -- by the @charset rule for ASCII-transparent codecs, by the BOM for utf-8-sig / utf-16 / utf-32,
   by the shape of the rule's first characters for the BOM-less utf-16-le/be, utf-32-le/be.  `family_ok` says how
   the codec writes its BOM and the characters '@' 'c' (validated by the harness for every codec used; that the
   family's name denotes the same Python codec as the assigned name is checked there as well).                  *)
Theorem encoded_reparse_detects : forall f encc bom e sh b,
  family_ok f encc bom -> (f = FCharset -> ascii_name (lower e) = true) ->
  encode_esc encc bom (sheet_text (set_encoding e sh)) = Some b ->
  detectencoding_str b true = Some (Some (family_name f (get_encoding (set_encoding e sh))), family_explicit f).
Proof. exact encoded_reparse_detects_lemma. Qed.
Print Assumptions encoded_reparse_detects.

Example detects_ex :
  family_ok FCharset ascii_encc [] /\ family_ok F16LE utf16le_encc [] /\
  (exists b, encode_esc utf16le_encc [] (sheet_text (set_encoding (s "UTF-16-LE") [Other ([233%N] ++ s "{}")])) = Some b /\
             detectencoding_str b true = Some (Some (s "utf-16-le"), false)).
Proof.
  split; [split; [reflexivity|intros c Hc; unfold ascii_encc; apply N.ltb_lt in Hc; now rewrite Hc]|].
  split; [exact utf16le_family|]. eexists. split; [vm_compute; reflexivity|vm_compute; reflexivity].
Qed.

Theorem encoding_mirrors_charset : forall e sh, get_encoding (set_encoding e sh) = lower e.
Proof. exact get_set_encoding. Qed.
Print Assumptions encoding_mirrors_charset.

(* histories of assignments `sheet.encoding = name` (None removes the rule; `usable` = the names the charset rule's
   setter accepts): a refused assignment changes nothing, and after any history the sheet has at most its leading
   @charset rule and names an encoding that was accepted -- so escapecss_decodes / charset_rule_first apply to it.   *)
Theorem refused_assignment_unchanged : forall usable sh e, usable e = false -> assign usable sh (Some e) = sh.
Proof. exact assign_refused. Qed.
Print Assumptions refused_assignment_unchanged.

Theorem history_encoding_accepted : forall usable ops sh,
  one_charset sh -> enc_ok usable sh ->
  one_charset (run_history usable sh ops) /\ enc_ok usable (run_history usable sh ops).
Proof. exact history_encoding_accepted_lemma. Qed.
Print Assumptions history_encoding_accepted.

Example history_ex :
  let usable := fun e => negb (eqs (lower e) (s "rot13")) in
  map rule_text (run_history usable [Charset (s "latin-1"); Other (s "a{}")] [Some (s "ROT13"); Some (s "KOI8-R"); Some (s "rot13")])
  = [s "@charset " ++ [34%N] ++ s "koi8-r" ++ [34%N] ++ s ";"; s "a{}"] /\
  get_encoding (run_history usable [Charset (s "latin-1")] [Some (s "rot13"); None]) = s "utf-8".
Proof. vm_compute. split; reflexivity. Qed.

(* ---- non-vacuity: the hypotheses hold for the ascii codec, and the theorems speak about real cases *)
Example hyps_satisfiable :
  dec_enc_text_hyp ascii_encc ascii_dec [] (fun _ => true) /\
  ascii_encodable_hyp ascii_encc (fun _ => true) /\ ascii_transparent_hyp ascii_encc [].
Proof. exact ascii_hyps. Qed.

(* U+E9 followed by a hex digit, by a space, by a newline, by a quote, by the end *)
Example escape_resolves_ex :
  let text := ([233] ++ s "a" ++ [233] ++ s " " ++ [233; 10] ++ [233; 34] ++ [128512; 233])%N in
  escape_unenc ascii_encc text = s "\E9 a\E9  \E9 " ++ [10%N] ++ s "\E9 " ++ [34%N] ++ s "\1F600 \E9 " /\
  unicodesub (escape_unenc ascii_encc text) = text.
Proof. vm_compute. split; reflexivity. Qed.

Example encode_ex :
  encode_esc ascii_encc [] (s "a" ++ [233%N] ++ s "b") = Some (s "a\E9 b") /\
  encode_esc latin1_encc [] (s "a" ++ [233%N; 8364%N]) = Some (s "a" ++ [233%N] ++ s "\20AC ").
Proof. vm_compute. split; reflexivity. Qed.

(* every escape-resolved token class, through the whole tokenizer: identifier, class, hash, string,
   url, dimension unit, function, comment -- the re-tokenized values are those of the original *)
Example tokens_stable_ex :
  let text := ([233] ++ s "a ." ++ [233] ++ s " #" ++ [233] ++ s "{x:'" ++ [233] ++ s "' url(" ++ [233] ++ s ") 1" ++
               [233] ++ s " f" ++ [233] ++ s "(1)/*" ++ [233] ++ s "*/}")%N in
  option_map (map (fun t => (ty t, val t))) (tokenize true true (escape_unenc ascii_encc text)) =
  option_map (map (fun t => (ty t, val t))) (tokenize true true text).
Proof. vm_compute. reflexivity. Qed.

Example carries_text_ex :
  carries_text ascii_encc (s "IDENT") [233%N] /\ carries_text ascii_encc (s "ATKEYWORD") [64%N; 233%N].
Proof. split; [left; reflexivity|right; repeat split; reflexivity]. Qed.

(* the at-rule of the repaired finding, top level and nested in an unknown rule's block *)
Example atkeyword_tokens_stable_ex :
  let text := ([64; 233] ++ s " x;@x{@" ++ [1076] ++ s "a y;}")%N in
  option_map (map (fun t => (ty t, val t))) (tokenize true true (escape_unenc ascii_encc text)) =
  option_map (map (fun t => (ty t, val t))) (tokenize true true text).
Proof. exact EscapeEncFacts.atkeyword_tokens_stable_ex. Qed.

Example charset_first_ex :
  encode_esc ascii_encc [] (sheet_text (set_encoding (s "ASCII") [Other ([233%N] ++ s "{}")])) =
    Some (s "@charset " ++ [34%N] ++ s "ascii" ++ [34%N] ++ s ";" ++ [10%N] ++ s "\E9 {}") /\
  detect_charset (s "@charset " ++ [34%N] ++ s "ascii" ++ [34%N] ++ s ";" ++ [10%N] ++ s "\E9 {}") = Some (s "ascii").
Proof. vm_compute. split; reflexivity. Qed.
