(* C13 -- Encoded output always decodes and re-parses to the same sheet.
   Property theorems only; proofs live in CssV.EscapeEncFacts.  Model: CssV.EscapeEnc
   (`encode_esc` = str.encode(e, 'escapecss') with the handler of serialize.py:27-39 built from the
   regenerated constants, `escape_unenc` = the text those bytes stand for, `unicodesub`/`finish_token`/
   `tokenize` = the shared tokenizer model, `sheet_text`/`set_encoding`/`detect_charset` = the sheet's
   encoding property, do_CSSStyleSheet's join and the @charset test of the css codec).

   A codec is a Section instance: encc (one character -> its bytes, None = UnicodeEncodeError),
   dec (bytes.decode), bom (what ''.encode(e) writes), good (the characters the codec decodes back to
   themselves: all of them except 2..9 code points of five CJK codecs, measured by the harness).
   Hypotheses, validated by the harness for every codec it uses:
     dec_enc_text_hyp      decoding the concatenated per-character encodings (after the BOM) gives the text
     ascii_encodable_hyp   every ASCII character is encodable (so the handler's text is)
     ascii_transparent_hyp no BOM and ASCII characters are their own byte (charset_rule_first only)   *)
From CssV Require Import Base Regex Gen.TokTables Tokenizer EscapeEnc EscapeEncFacts.

(* "cssText is a byte string that decodes under that encoding ... represents every character the
   encoding cannot express as a CSS escape": encoding never raises, and the bytes decode to the text in
   which exactly the unencodable characters are spelled backslash HEX space.                          *)
Theorem escapecss_decodes : forall encc dec bom good,
  ascii_encodable_hyp encc good -> dec_enc_text_hyp encc dec bom good ->
  forall text, forallb (fun c => negb (encodable encc c) || good c) text = true ->
  exists b, encode_esc encc bom text = Some b /\ dec b = Some (escape_unenc encc text).
Proof. exact escapecss_decodes_lemma. Qed.
Print Assumptions escapecss_decodes.

(* "the escape's terminating space never glues onto or eats the next character, for any following
   character": the tokenizer's escape resolution maps the escaped text back to the text, for every
   text without a literal backslash, whatever follows each escaped character (hex digit, space,
   newline, quote, another escaped character, end of text); HEX c has 1..6 digits since c <= 0x10FFFF. *)
Theorem escape_resolves : forall encc text,
  ~ In 92%N text -> valid text -> unicodesub (escape_unenc encc text) = text.
Proof. exact escape_resolves_lemma. Qed.
Print Assumptions escape_resolves.

(* both together: what the re-parse is given *)
Theorem encode_decode_resolve : forall encc dec bom good,
  ascii_encodable_hyp encc good -> dec_enc_text_hyp encc dec bom good ->
  forall text, forallb (fun c => negb (encodable encc c) || good c) text = true ->
  ~ In 92%N text -> valid text ->
  exists b u, encode_esc encc bom text = Some b /\ dec b = Some u /\ unicodesub u = text.
Proof. exact encode_decode_resolve_lemma. Qed.
Print Assumptions encode_decode_resolve.

(* the escape is one match of the tokenizer's escape regex, terminating space included, whatever follows *)
Theorem escape_matched_whole : forall prev h rest,
  forallb is_hex h = true -> (1 <= length h <= 6)%nat ->
  rmatch re_unicodesub prev (92%N :: h ++ 32%N :: rest) = Some (S (S (length h))).
Proof. exact rmatch_unicodesub_esc. Qed.
Print Assumptions escape_matched_whole.

(* escape_token_stable, value level: for every token type whose text can carry a non-ASCII character --
   the tokenizer's escape-resolved list (DIMENSION IDENT STRING URI HASH COMMENT FUNCTION INVALID
   UNICODE-RANGE, regenerated from tokenize2.py:209-211) and an at-keyword that is not one of the known
   ones -- a lexeme matched in its escaped spelling gets the lexeme as its value.
   (Before fix b051860 this failed for ATKEYWORD: `@e-acute x;` under encoding='ascii' came back with the
   keyword `@\e9 `; finding C13-atkeyword-unresolved.)                                                 *)
Theorem escape_token_stable : forall encc name lexeme after,
  carries_text encc name lexeme -> ~ In 92%N lexeme -> valid lexeme ->
  finish_token name (escape_unenc encc lexeme) after = (name, escape_unenc encc lexeme, lexeme).
Proof. exact escape_value_stable_lemma. Qed.
Print Assumptions escape_token_stable.

(* "begins with an @charset rule naming it whenever one is set" + "parsing those bytes back detects the
   same encoding" for ASCII-transparent codecs: after sheet.encoding = e the bytes start with
   @charset "<e.lower()>"; and the css codec's charset test reads exactly the sheet's encoding back.
   (BOM detection of the UTF-16/32 family and the candidate bit mask are C14's model; for C13 they are
   covered by the end-to-end correspondence.)                                                         *)
Theorem charset_rule_first : forall encc, (forall c, (c < 128)%N -> encc c = Some [c]) ->
  forall e sh b, ascii_name (lower e) = true ->
  encode_esc encc [] (sheet_text (set_encoding e sh)) = Some b ->
  (exists rest, b = charset_text (lower e) ++ rest) /\
  detect_charset b = Some (get_encoding (set_encoding e sh)).
Proof. exact charset_rule_first_lemma. Qed.
Print Assumptions charset_rule_first.

Theorem encoding_mirrors_charset : forall e sh, get_encoding (set_encoding e sh) = lower e.
Proof. exact get_set_encoding. Qed.
Print Assumptions encoding_mirrors_charset.

(* histories of assignments `sheet.encoding = name` (None removes the rule; `usable` = the names the charset rule's
   setter accepts): a refused assignment changes nothing, and after any history the sheet has at most its leading
   @charset rule and names an encoding that was accepted -- so escapecss_decodes / charset_rule_first apply to it.   *)
Theorem refused_assignment_unchanged : forall usable sh e, usable e = false -> assign usable sh (Some e) = sh.
Proof. exact assign_refused. Qed.
Print Assumptions refused_assignment_unchanged.

Theorem history_encoding_accepted : forall usable ops sh,
  one_charset sh -> enc_ok usable sh ->
  one_charset (run_history usable sh ops) /\ enc_ok usable (run_history usable sh ops).
Proof. exact history_encoding_accepted_lemma. Qed.
Print Assumptions history_encoding_accepted.

Example history_ex :
  let usable := fun e => negb (eqs (lower e) (s "rot13")) in
  map rule_text (run_history usable [Charset (s "latin-1"); Other (s "a{}")] [Some (s "ROT13"); Some (s "KOI8-R"); Some (s "rot13")])
  = [s "@charset " ++ [34%N] ++ s "koi8-r" ++ [34%N] ++ s ";"; s "a{}"] /\
  get_encoding (run_history usable [Charset (s "latin-1")] [Some (s "rot13"); None]) = s "utf-8".
Proof. vm_compute. split; reflexivity. Qed.

(* ---- non-vacuity: the hypotheses hold for the ascii codec, and the theorems speak about real cases *)
Example hyps_satisfiable :
  dec_enc_text_hyp ascii_encc ascii_dec [] (fun _ => true) /\
  ascii_encodable_hyp ascii_encc (fun _ => true) /\ ascii_transparent_hyp ascii_encc [].
Proof. exact ascii_hyps. Qed.

(* U+E9 followed by a hex digit, by a space, by a newline, by a quote, by the end *)
Example escape_resolves_ex :
  let text := ([233] ++ s "a" ++ [233] ++ s " " ++ [233; 10] ++ [233; 34] ++ [128512; 233])%N in
  escape_unenc ascii_encc text = s "\E9 a\E9  \E9 " ++ [10%N] ++ s "\E9 " ++ [34%N] ++ s "\1F600 \E9 " /\
  unicodesub (escape_unenc ascii_encc text) = text.
Proof. vm_compute. split; reflexivity. Qed.

Example encode_ex :
  encode_esc ascii_encc [] (s "a" ++ [233%N] ++ s "b") = Some (s "a\E9 b") /\
  encode_esc latin1_encc [] (s "a" ++ [233%N; 8364%N]) = Some (s "a" ++ [233%N] ++ s "\20AC ").
Proof. vm_compute. split; reflexivity. Qed.

(* every escape-resolved token class, through the whole tokenizer: identifier, class, hash, string,
   url, dimension unit, function, comment -- the re-tokenized values are those of the original *)
Example tokens_stable_ex :
  let text := ([233] ++ s "a ." ++ [233] ++ s " #" ++ [233] ++ s "{x:'" ++ [233] ++ s "' url(" ++ [233] ++ s ") 1" ++
               [233] ++ s " f" ++ [233] ++ s "(1)/*" ++ [233] ++ s "*/}")%N in
  option_map (map (fun t => (ty t, val t))) (tokenize true true (escape_unenc ascii_encc text)) =
  option_map (map (fun t => (ty t, val t))) (tokenize true true text).
Proof. vm_compute. reflexivity. Qed.

Example carries_text_ex :
  carries_text ascii_encc (s "IDENT") [233%N] /\ carries_text ascii_encc (s "ATKEYWORD") [64%N; 233%N].
Proof. split; [left; reflexivity|right; repeat split; reflexivity]. Qed.

(* the at-rule of the repaired finding, top level and nested in an unknown rule's block *)
Example atkeyword_tokens_stable_ex :
  let text := ([64; 233] ++ s " x;@x{@" ++ [1076] ++ s "a y;}")%N in
  option_map (map (fun t => (ty t, val t))) (tokenize true true (escape_unenc ascii_encc text)) =
  option_map (map (fun t => (ty t, val t))) (tokenize true true text).
Proof. exact EscapeEncFacts.atkeyword_tokens_stable_ex. Qed.

Example charset_first_ex :
  encode_esc ascii_encc [] (sheet_text (set_encoding (s "ASCII") [Other ([233%N] ++ s "{}")])) =
    Some (s "@charset " ++ [34%N] ++ s "ascii" ++ [34%N] ++ s ";" ++ [10%N] ++ s "\E9 {}") /\
  detect_charset (s "@charset " ++ [34%N] ++ s "ascii" ++ [34%N] ++ s ";" ++ [10%N] ++ s "\E9 {}") = Some (s "ascii").
Proof. vm_compute. split; reflexivity. Qed.
