(* C04 -- Malformed statements and declarations are skipped as a unit.
   Property theorems only; proofs live in CssV.UptoFacts / CssV.SkeletonFacts.
   Models: CssV.Upto.upto (= util.Base._tokensupto2) and CssV.Skeleton (statement dispatch of
   cssstylesheet / cssmediarule, declaration loop of cssstyledeclaration, CSSUnknownRule stack),
   following the repaired code (six fix: commits, see known_findings.d/C04.json).                 *)
From CssV Require Import Base Tokenizer Upto UptoFacts Skeleton SkeletonFacts.

(* _tokensupto2 returns a prefix (after the start token) and hands back the rest, which is
   strictly shorter whenever there was a token to read: the parser always progresses          *)
Theorem upto_partition : forall fl start ts run rest,
  upto fl start ts = (run, rest) ->
  run ++ rest = (match start with Some t => [t] | None => [] end) ++ ts /\
  (ts <> [] -> (length rest < length ts)%nat).
Proof. exact upto_partition_lemma. Qed.
Print Assumptions upto_partition.

(* a run inside which the loop can neither stop nor meet EOF, followed by a token on which it
   stops, is returned exactly, for every mode and every initial counters                      *)
Theorem upto_closed_run : forall md run c e rest,
  closed md c run = true ->
  (is_eof e = true \/ stops md (bump (after c run) e) e = true) ->
  upto_loop md c (run ++ e :: rest) = (run ++ [e], rest).
Proof. exact upto_closed_run_lemma. Qed.
Print Assumptions upto_closed_run.

(* balanced token soup (atoms, ( B ), [ B ], { B }, FUNCTION B ), concatenation) without a
   top-level end token is such a run, and leaves the three counters at zero                   *)
Theorem balanced_closed : forall md x,
  mq md = false -> TopFree md x ->
  closed md (0, 0, 0)%Z x = true /\ after (0, 0, 0)%Z x = (0, 0, 0)%Z.
Proof. exact balanced_closed_lemma. Qed.
Print Assumptions balanced_closed.

Theorem balanced_closed_nested : forall md x,
  mq md = false -> Balanced x -> forall c, pos c -> closed md c x = true /\ after c x = c.
Proof. exact balanced_closed_nested. Qed.
Print Assumptions balanced_closed_nested.

Theorem balanced_concat : forall x y, Balanced x -> Balanced y -> Balanced (x ++ y).
Proof. exact Balanced_app. Qed.
Print Assumptions balanced_concat.

(* "Rules before and after a junk statement are parsed exactly as if the junk were absent":
   for all complete statements g1, every balanced junk statement (any first token that starts a
   statement, FUNCTION included) and EVERYTHING behind it (g2 is arbitrary), the sheet loop
   hands the junk to one handler as one run and resumes exactly at g2.                         *)
Theorem junk_statement_skipped : forall g1 k junk g2,
  Statements cls_sheet g1 -> JunkStmt cls_sheet k junk ->
  skeleton (g1 ++ junk ++ g2) = skeleton g1 ++ [IStmt k junk] ++ skeleton g2.
Proof. exact junk_statement_skipped_lemma. Qed.
Print Assumptions junk_statement_skipped.

(* the same inside @media *)
Theorem junk_statement_skipped_media : forall g1 k junk g2,
  Statements cls_media g1 -> JunkStmt cls_media k junk ->
  media_inner (g1 ++ junk ++ g2) = media_inner g1 ++ [IStmt k junk] ++ media_inner g2.
Proof. exact junk_statement_skipped_media_lemma. Qed.
Print Assumptions junk_statement_skipped_media.

(* declarations: ident / unexpected / char handlers and the default at-keyword production *)
Theorem junk_declaration_skipped : forall d1 k junk d2,
  Statements cls_decl d1 -> JunkStmt cls_decl k junk ->
  decl_block (d1 ++ junk ++ d2) = decl_block d1 ++ [IStmt k junk] ++ decl_block d2.
Proof. exact junk_declaration_skipped_lemma. Qed.
Print Assumptions junk_declaration_skipped.

(* non-vacuity: 'a{x:1} f() {} b{y:2}', 'a{x:1} 3(;)"s"[x]!{y;{}} b{y:2}', 'x:1; (y):2; z:3', 'x:1; 3 ! y:2; z:3' *)
Example junk_statement_skipped_ex :
  skeleton ((rule_a ++ [sp]) ++ junk_fn ++ sp :: rule_b)
  = [IStmt KRuleset rule_a; IStmt KRuleset junk_fn; IStmt KRuleset rule_b]
  /\ skeleton ((rule_a ++ [sp]) ++ junk_mix ++ sp :: rule_b)
  = [IStmt KRuleset rule_a; IStmt KRuleset junk_mix; IStmt KRuleset rule_b].
Proof. exact junk_statement_skipped_example. Qed.
Example junk_hypotheses_satisfiable :
  Statements cls_sheet (rule_a ++ [sp]) /\ JunkStmt cls_sheet KRuleset junk_fn /\ JunkStmt cls_sheet KRuleset junk_mix
  /\ Statements cls_decl (decl_x ++ [sp]) /\ JunkStmt cls_decl KDeclUnexpected junk_paren.
Proof. repeat split; [exact statements_rule_a|exact junk_fn_stmt|exact junk_mix_stmt|exact statements_decl_x|exact junk_paren_stmt]. Qed.
Example junk_declaration_skipped_ex :
  decl_block ((decl_x ++ [sp]) ++ junk_paren ++ sp :: decl_z)
  = [IStmt KDeclIdent decl_x; IStmt KDeclUnexpected junk_paren; IStmt KDeclIdent decl_z]
  /\ decl_block ((decl_x ++ [sp]) ++ junk_bang ++ sp :: decl_z)
  = [IStmt KDeclIdent decl_x; IStmt KDeclUnexpected junk_bang; IStmt KDeclIdent decl_z].
Proof. exact junk_declaration_skipped_example. Qed.

(* the pinned tree violated all three (witnesses replayed on the implementation before the fix: commits) *)
Theorem junk_starting_with_function_refuted_on_pinned :
  exists g1 junk g2,
    Statements cls_sheet g1 /\ JunkStmt cls_sheet KRuleset junk /\
    skeleton_pinned (g1 ++ junk ++ g2) <> skeleton_pinned g1 ++ [IStmt KRuleset junk] ++ skeleton_pinned g2.
Proof. exact junk_starting_with_function_refuted. Qed.
Print Assumptions junk_starting_with_function_refuted_on_pinned.
Theorem junk_decl_starting_with_paren_refuted_on_pinned :
  exists d1 junk d2,
    Statements cls_decl d1 /\ JunkStmt cls_decl KDeclUnexpected junk /\
    decl_block_pinned (d1 ++ junk ++ d2) <> decl_block_pinned d1 ++ [IStmt KDeclUnexpected junk] ++ decl_block_pinned d2.
Proof. exact junk_decl_starting_with_paren_refuted. Qed.
Print Assumptions junk_decl_starting_with_paren_refuted_on_pinned.
Theorem junk_decl_with_bang_refuted_on_pinned :
  exists d1 junk d2,
    Statements cls_decl d1 /\ JunkStmt cls_decl KDeclUnexpected junk /\
    decl_block_pinned (d1 ++ junk ++ d2) <> decl_block_pinned d1 ++ [IStmt KDeclUnexpected junk] ++ decl_block_pinned d2.
Proof. exact junk_decl_with_bang_refuted. Qed.
Print Assumptions junk_decl_with_bang_refuted_on_pinned.

(* "An unknown but well-nested at-rule is not junk: it is preserved as an unknown rule with its
   tokens intact."  For every at-rule  @kw body  whose body is balanced soup of `usane` tokens
   (brackets are CHAR tokens, FUNCTION opens a parenthesis, no EOF, no INVALID = unterminated
   string), nested at-keywords included (since fix "CSSUnknownRule keeps a nested at-keyword as
   one of its own tokens"); both statement shapes:  @kw pre ;   and   @kw pre { b }            *)
Theorem unknown_atrule_preserved : forall kw pre semi,
  tyis kw "ATKEYWORD" = true -> TopFree mdD pre -> all_usane pre ->
  tyis semi "CHAR" = true -> val semi = s ";" ->
  unknown_rule (kw :: pre ++ [semi]) = Some (kw, map UTok (pre ++ [semi])).
Proof. exact unknown_atrule_preserved_semicolon. Qed.
Print Assumptions unknown_atrule_preserved.

Theorem unknown_atrule_preserved_block : forall kw pre o b c,
  tyis kw "ATKEYWORD" = true -> TopFree mdD pre -> all_usane pre ->
  bclass_of o = BOpen 0 -> usane o = true -> Balanced b -> all_usane b ->
  bclass_of c = BClose 0 -> usane c = true ->
  unknown_rule (kw :: pre ++ o :: b ++ [c]) = Some (kw, map UTok (pre ++ o :: b ++ [c])).
Proof. exact unknown_atrule_preserved_block. Qed.
Print Assumptions unknown_atrule_preserved_block.

(* '@unk (f) [g] {h {i}}' and '@unk x @y {}' (one complete statement for the sheet loop) are preserved *)
Example unknown_atrule_preserved_ex :
  unknown_rule unk_good = Some (T "ATKEYWORD" "@unk", map UTok (tl unk_good))
  /\ JunkStmt cls_sheet KUnknown unk_nested_at
  /\ unknown_rule unk_nested_at = Some (T "ATKEYWORD" "@unk", map UTok (tl unk_nested_at)).
Proof. exact unknown_rule_examples. Qed.
