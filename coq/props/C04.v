(* C04 -- Malformed statements and declarations are skipped as a unit.
   Property theorems only; proofs live in CssV.UptoFacts / CssV.SkeletonFacts.
   Models: CssV.Upto.upto (= util.Base._tokensupto2) and CssV.Skeleton (statement dispatch of
   cssstylesheet / cssmediarule, declaration loop of cssstyledeclaration, CSSUnknownRule stack),
   following the repaired code (six fix: commits, see known_findings.d/C04.json).                 *)
From CssV Require Import Base Tokenizer Gen.UptoGen Upto UptoFacts Skeleton SkeletonFacts.

(* _tokensupto2 returns a prefix (after the start token) and hands back the rest, which is
   strictly shorter whenever there was a token to read: the parser always progresses          *)
Theorem upto_partition : forall fl start ts run rest,
  upto fl start ts = (run, rest) ->
  run ++ rest = (match start with Some t => [t] | None => [] end) ++ ts /\
  (ts <> [] -> (length rest < length ts)%nat).
Proof. exact upto_partition_lemma. Qed.
Print Assumptions upto_partition.

(* a run inside which the loop can neither stop nor meet EOF, followed by a token on which it
   stops, is returned exactly, for every mode and every initial counters                      *)
Theorem upto_closed_run : forall md run c e rest,
  closed md c run = true ->
  (is_eof e = true \/ stops md (bump (after c run) e) e = true) ->
  upto_loop md c (run ++ e :: rest) = (run ++ [e], rest).
Proof. exact upto_closed_run_lemma. Qed.
Print Assumptions upto_closed_run.

(* balanced token soup (atoms, ( B ), [ B ], { B }, FUNCTION B ), concatenation) without a
   top-level end token is such a run, and leaves the three counters at zero                   *)
Theorem balanced_closed : forall md x,
  mq md = false -> TopFree md x ->
  closed md (0, 0, 0)%Z x = true /\ after (0, 0, 0)%Z x = (0, 0, 0)%Z.
Proof. exact balanced_closed_lemma. Qed.
Print Assumptions balanced_closed.

Theorem balanced_closed_nested : forall md x,
  mq md = false -> Balanced x -> forall c, pos c -> closed md c x = true /\ after c x = c.
Proof. exact balanced_closed_nested. Qed.
Print Assumptions balanced_closed_nested.

Theorem balanced_concat : forall x y, Balanced x -> Balanced y -> Balanced (x ++ y).
Proof. exact Balanced_app. Qed.
Print Assumptions balanced_concat.

(* "Rules before and after a junk statement are parsed exactly as if the junk were absent":
   for all complete statements g1, every balanced junk statement (any first token that starts a
   statement, FUNCTION included) and EVERYTHING behind it (g2 is arbitrary), the sheet loop
   hands the junk to one handler as one run and resumes exactly at g2.                         *)
Theorem junk_statement_skipped : forall g1 k junk g2,
  Statements cls_sheet g1 -> JunkStmt cls_sheet k junk ->
  skeleton (g1 ++ junk ++ g2) = skeleton g1 ++ [IStmt k junk] ++ skeleton g2.
Proof. exact junk_statement_skipped_lemma. Qed.
Print Assumptions junk_statement_skipped.

(* the same inside @media *)
Theorem junk_statement_skipped_media : forall g1 k junk g2,
  Statements cls_media g1 -> JunkStmt cls_media k junk ->
  media_inner (g1 ++ junk ++ g2) = media_inner g1 ++ [IStmt k junk] ++ media_inner g2.
Proof. exact junk_statement_skipped_media_lemma. Qed.
Print Assumptions junk_statement_skipped_media.

(* declarations: ident / unexpected / char handlers and the default at-keyword production *)
Theorem junk_declaration_skipped : forall d1 k junk d2,
  Statements cls_decl d1 -> JunkStmt cls_decl k junk ->
  decl_block (d1 ++ junk ++ d2) = decl_block d1 ++ [IStmt k junk] ++ decl_block d2.
Proof. exact junk_declaration_skipped_lemma. Qed.
Print Assumptions junk_declaration_skipped.

(* non-vacuity: 'a{x:1} f() {} b{y:2}', 'a{x:1} 3(;)"s"[x]!{y;{}} b{y:2}', 'x:1; (y):2; z:3', 'x:1; 3 ! y:2; z:3' *)
Example junk_statement_skipped_ex :
  skeleton ((rule_a ++ [sp]) ++ junk_fn ++ sp :: rule_b)
  = [IStmt KRuleset rule_a; IStmt KRuleset junk_fn; IStmt KRuleset rule_b]
  /\ skeleton ((rule_a ++ [sp]) ++ junk_mix ++ sp :: rule_b)
  = [IStmt KRuleset rule_a; IStmt KRuleset junk_mix; IStmt KRuleset rule_b].
Proof. exact junk_statement_skipped_example. Qed.
Example junk_hypotheses_satisfiable :
  Statements cls_sheet (rule_a ++ [sp]) /\ JunkStmt cls_sheet KRuleset junk_fn /\ JunkStmt cls_sheet KRuleset junk_mix
  /\ Statements cls_decl (decl_x ++ [sp]) /\ JunkStmt cls_decl KDeclUnexpected junk_paren.
Proof. repeat split; [exact statements_rule_a|exact junk_fn_stmt|exact junk_mix_stmt|exact statements_decl_x|exact junk_paren_stmt]. Qed.
Example junk_declaration_skipped_ex :
  decl_block ((decl_x ++ [sp]) ++ junk_paren ++ sp :: decl_z)
  = [IStmt KDeclIdent decl_x; IStmt KDeclUnexpected junk_paren; IStmt KDeclIdent decl_z]
  /\ decl_block ((decl_x ++ [sp]) ++ junk_bang ++ sp :: decl_z)
  = [IStmt KDeclIdent decl_x; IStmt KDeclUnexpected junk_bang; IStmt KDeclIdent decl_z].
Proof. exact junk_declaration_skipped_example. Qed.

(* the pinned tree violated all three (witnesses replayed on the implementation before the fix: commits) *)
Theorem junk_starting_with_function_refuted_on_pinned :
  exists g1 junk g2,
    Statements cls_sheet g1 /\ JunkStmt cls_sheet KRuleset junk /\
    skeleton_pinned (g1 ++ junk ++ g2) <> skeleton_pinned g1 ++ [IStmt KRuleset junk] ++ skeleton_pinned g2.
Proof. exact junk_starting_with_function_refuted. Qed.
Print Assumptions junk_starting_with_function_refuted_on_pinned.
Theorem junk_decl_starting_with_paren_refuted_on_pinned :
  exists d1 junk d2,
    Statements cls_decl d1 /\ JunkStmt cls_decl KDeclUnexpected junk /\
    decl_block_pinned (d1 ++ junk ++ d2) <> decl_block_pinned d1 ++ [IStmt KDeclUnexpected junk] ++ decl_block_pinned d2.
Proof. exact junk_decl_starting_with_paren_refuted. Qed.
Print Assumptions junk_decl_starting_with_paren_refuted_on_pinned.
Theorem junk_decl_with_bang_refuted_on_pinned :
  exists d1 junk d2,
    Statements cls_decl d1 /\ JunkStmt cls_decl KDeclUnexpected junk /\
    decl_block_pinned (d1 ++ junk ++ d2) <> decl_block_pinned d1 ++ [IStmt KDeclUnexpected junk] ++ decl_block_pinned d2.
Proof. exact junk_decl_with_bang_refuted. Qed.
Print Assumptions junk_decl_with_bang_refuted_on_pinned.

(* "An unknown but well-nested at-rule is not junk: it is preserved as an unknown rule with its
   tokens intact."  For every at-rule  @kw body  whose body is balanced soup of `usane` tokens
   (brackets are CHAR tokens, FUNCTION opens a parenthesis, no EOF, no INVALID = unterminated
   string), nested at-keywords included (since fix "CSSUnknownRule keeps a nested at-keyword as
   one of its own tokens"); both statement shapes:  @kw pre ;   and   @kw pre { b }            *)
Theorem unknown_atrule_preserved : forall kw pre semi,
  tyis kw "ATKEYWORD" = true -> TopFree mdD pre -> all_usane pre ->
  tyis semi "CHAR" = true -> val semi = s ";" ->
  unknown_rule (kw :: pre ++ [semi]) = Some (kw, map UTok (pre ++ [semi])).
Proof. exact unknown_atrule_preserved_semicolon. Qed.
Print Assumptions unknown_atrule_preserved.

Theorem unknown_atrule_preserved_block : forall kw pre o b c,
  tyis kw "ATKEYWORD" = true -> TopFree mdD pre -> all_usane pre ->
  bclass_of o = BOpen 0 -> usane o = true -> Balanced b -> all_usane b ->
  bclass_of c = BClose 0 -> usane c = true ->
  unknown_rule (kw :: pre ++ o :: b ++ [c]) = Some (kw, map UTok (pre ++ o :: b ++ [c])).
Proof. exact unknown_atrule_preserved_block. Qed.
Print Assumptions unknown_atrule_preserved_block.

(* '@unk (f) [g] {h {i}}' and '@unk x @y {}' (one complete statement for the sheet loop) are preserved *)
Example unknown_atrule_preserved_ex :
  unknown_rule unk_good = Some (T "ATKEYWORD" "@unk", map UTok (tl unk_good))
  /\ JunkStmt cls_sheet KUnknown unk_nested_at
  /\ unknown_rule unk_nested_at = Some (T "ATKEYWORD" "@unk", map UTok (tl unk_nested_at)).
Proof. exact unknown_rule_examples. Qed.

(* ------------------------------------------------------------------------------------------------
   Extension round.
   (a) Tie by translator: Gen/UptoGen.v is regenerated from util.py / cssstylesheet.py / cssmediarule.py /
       cssstyledeclaration.py / cssstylerule.py on every run.  `mode_of` and `kmode` are DEFINED by lookup in the
       generated tables (so every theorem above computes with the current source's `ends`, `endtypes`, initial
       counters and handler flags); the hand-written counter ladders and dispatch functions are proved equal to
       the generated chains / productions dicts.                                                              *)
Theorem mode_table_generated :
  map flag_name all_flags = gen_flags
  /\ forallb (fun fl => match assoc_s (flag_name fl) gen_modes with Some _ => true | None => false end) all_flags = true
  /\ length gen_modes = length all_flags.
Proof. split; [exact flags_generated|exact modes_generated]. Qed.
Print Assumptions mode_table_generated.

Theorem counters_generated : forall c t,
  bump c t = (if gen_ident_guard && is_ident t then c else ladder_apply gen_loop_ladder (val t) (is_function t) c)
  /\ start_count c t = (if gen_ident_guard && is_ident t then c else ladder_apply gen_start_ladder (val t) (is_function t) c).
Proof. intros; split; [apply bump_generated|apply start_count_generated]. Qed.
Print Assumptions counters_generated.

Theorem handler_flags_generated :
  forallb (fun k => match kcall k with
                    | Some (n, _) => match flag_of_name n with Some _ => true | None => false end
                    | None => false end) all_kinds = true
  /\ (call_of gen_media_calls (s "atrule") = Some ([], true) /\ call_of gen_media_calls (s "ruleset") = Some ([], true)
      /\ forallb (fun k => match kcall k with Some ([], true) => true | _ => false end) sheet_kinds = true
      /\ gen_media_head_calls = [(flag_name FMQEnd, false); (flag_name FBlockStart, false); (flag_name FMediaEnd, false)]
      /\ gen_stylerule_calls = [(flag_name FBlockStart, false); (flag_name FBlockEnd, false)]).
Proof. split; [exact handlers_generated|exact media_calls_generated]. Qed.
Print Assumptions handler_flags_generated.

Theorem dispatch_tables_generated :
  (forallb (fun p => cls_agrees (cls_sheet (tok_of_type (fst p))) (snd p)) gen_sheet_prods = true
   /\ forallb (fun y => cls_agrees (cls_sheet (tok_of_type y)) gen_sheet_default) other_types = true)
  /\ gen_media_default = s "ruleset"
  /\ gen_decl_prods = [(s "IDENT", s "ident"); (s "CHAR", s "char")] /\ gen_decl_default = s "unexpected".
Proof.
  split; [exact cls_sheet_generated|]. split; [apply cls_media_generated|].
  split; apply cls_decl_generated.
Qed.
Print Assumptions dispatch_tables_generated.

(* (b) The order state included.  `sheet_ord wf ts 0 st` = (statements and comments with their kept? flag, final
   state) for any well-formedness oracle wf of the rule objects.  A junk statement that is discarded and whose kind
   is neutral in the state reached after g1 leaves the state alone: everything behind it -- including @import /
   @namespace / @charset rules, whose fate depends on the state -- is treated exactly as if it were absent.     *)
Theorem junk_statement_skipped_order : forall wf g1 k junk g2 st,
  Statements cls_sheet g1 -> JunkStmt cls_sheet k junk -> wf k junk = false ->
  neutral k (snd (sheet_ord wf g1 0 st)) = true ->
  sheet_ord wf (g1 ++ junk ++ g2) 0 st =
  (let '(l1, e1) := sheet_ord wf g1 0 st in
   let '(l2, e2) := sheet_ord wf g2 0 e1 in (l1 ++ (IStmt k junk, false) :: l2, e2)).
Proof. exact junk_statement_skipped_order_lemma. Qed.
Print Assumptions junk_statement_skipped_order.

(* which kinds are neutral, computed from the handlers of the current source: rule sets, @import, @namespace and
   @variables always (this is the fix "a discarded statement does not advance the order state"; on the tree before
   it the first four conjuncts are false and this proof fails); unknown at-rules and @charset from state 1 on;
   the containers @media/@page/@font-face only in state 3 (open finding C04-empty-container-kept)              *)
Theorem order_neutral_kinds : forall st,
  neutral KRuleset st = true /\ neutral KImport st = true /\ neutral KNamespace st = true
  /\ neutral KVariables st = true
  /\ ((1 <= st)%nat -> neutral KUnknown st = true /\ neutral KCharset st = true)
  /\ (st = 3%nat -> neutral KMedia st = true /\ neutral KPage st = true /\ neutral KFontFace st = true).
Proof. exact neutral_kinds. Qed.
Print Assumptions order_neutral_kinds.

Example junk_statement_skipped_order_ex :
  sheet_ord wf_ex ((imp """a""" ++ [sp]) ++ junk_num ++ sp :: imp """b""") 0 0
  = ([(IStmt KImport (imp """a"""), true); (IStmt KRuleset junk_num, false); (IStmt KImport (imp """b"""), true)], 1%nat)
  /\ sheet_ord wf_ex ((imp """a""" ++ [sp]) ++ junk_fn ++ sp :: imp """b""") 0 0
  = ([(IStmt KImport (imp """a"""), true); (IStmt KRuleset junk_fn, false); (IStmt KImport (imp """b"""), true)], 1%nat).
Proof. exact order_example. Qed.

(* (c) All modes, mediaqueryendonly included: inside a ( ) or [ ] group nothing can stop the loop, whatever the brace
   counter; hence the run in front of the first top-level '{' (PreBrace: atoms on which the mode does not stop at
   its initial counters -- for mediaqueryendonly: no STRING at depth 0 --, ( ) and [ ] groups of any balanced
   content) is returned exactly, and the block behind it up to its '}'.                                       *)
Theorem balanced_closed_any_mode : forall md x,
  Balanced x -> forall c, inpar c -> closed md c x = true /\ after c x = c.
Proof. exact balanced_closed_inpar. Qed.
Print Assumptions balanced_closed_any_mode.

Theorem upto_prebrace_run : forall fl br0 pre e rest,
  c0 (mode_of fl None) = (br0, 0, 0)%Z -> PreBrace (mode_of fl None) pre ->
  (is_eof e = true \/ stops (mode_of fl None) (bump (c0 (mode_of fl None)) e) e = true) ->
  upto fl None (pre ++ e :: rest) = (pre ++ [e], rest).
Proof. exact prebrace_upto. Qed.
Print Assumptions upto_prebrace_run.

Theorem upto_block_run : forall fl body c rest,
  c0 (mode_of fl None) = (1, 0, 0)%Z -> mq (mode_of fl None) = false ->
  Balanced body -> bclass_of c = BClose 0 -> is_eof c = false -> isendtok (mode_of fl None) c = true ->
  upto fl None (body ++ c :: rest) = (body ++ [c], rest).
Proof. exact block_upto. Qed.
Print Assumptions upto_block_run.

(* the rule-set split and the @media split (head in mediaqueryendonly mode, children in mediaendonly mode) *)
Theorem ruleset_split_spec : forall sel lb body rb,
  PreBrace (mode_of FBlockStart None) sel -> bclass_of lb = BOpen 0 -> is_eof lb = false ->
  Balanced body -> bclass_of rb = BClose 0 -> is_eof rb = false ->
  match sel ++ [lb] with t0 :: _ => starts (s "@") (val t0) = false | [] => False end ->
  ruleset_split (sel ++ lb :: body ++ [rb]) = mkRS (sel ++ [lb]) (body ++ [rb]) None (Some (decl_block body)).
Proof. exact ruleset_split_lemma. Qed.
Print Assumptions ruleset_split_spec.

Theorem media_split_spec : forall mqs lb body rb,
  PreBrace (mode_of FMQEnd None) mqs -> bclass_of lb = BOpen 0 -> is_eof lb = false -> tyis lb "STRING" = false ->
  Balanced body -> bclass_of rb = BClose 0 -> is_eof rb = false ->
  media_split (mqs ++ lb :: body ++ [rb]) = mkMP (mqs ++ [lb]) [] (body ++ [rb]) None (Some (media_inner body)).
Proof. exact media_split_lemma. Qed.
Print Assumptions media_split_spec.

Theorem media_with_junk : forall mqs lb g1 k junk g2 rb,
  PreBrace (mode_of FMQEnd None) mqs -> bclass_of lb = BOpen 0 -> is_eof lb = false -> tyis lb "STRING" = false ->
  Balanced (g1 ++ junk ++ g2) -> bclass_of rb = BClose 0 -> is_eof rb = false ->
  Statements cls_media g1 -> JunkStmt cls_media k junk ->
  mp_inner (media_split (mqs ++ lb :: (g1 ++ junk ++ g2) ++ [rb]))
  = Some (media_inner g1 ++ [IStmt k junk] ++ media_inner g2).
Proof. exact media_with_junk_lemma. Qed.
Print Assumptions media_with_junk.

(* (d) STRING / URI / HASH ... tokens whose value merely CONTAINS bracket or end characters are atoms of Balanced *)
Theorem opaque_token_is_atom : forall t c1 c2 rest,
  val t = c1 :: c2 :: rest -> is_function t = false -> bclass_of t = BAtom.
Proof. exact opaque_token_atom. Qed.
Print Assumptions opaque_token_is_atom.

Example media_split_ex :
  PreBrace (mode_of FMQEnd None) mq_ex /\ JunkStmt cls_media KRuleset rule_str
  /\ mp_inner (media_split (mq_ex ++ c_ "{" :: ((rule_str ++ [sp]) ++ junk_fn ++ sp :: rule_b) ++ [c_ "}"]))
     = Some [IStmt KRuleset rule_str; IStmt KRuleset junk_fn; IStmt KRuleset rule_b]
  /\ bclass_of (T "STRING" """a{b;}""") = BAtom /\ bclass_of (T "URI" "url(x;})") = BAtom.
Proof. split; [exact mq_ex_prebrace|]. split; [exact rule_str_stmt|]. exact media_split_example. Qed.

(* the delimiters the handlers of the CURRENT source use (read off the generated tables): statements end at a
   top-level ';' or the '}' of a top-level block, declarations at a top-level ';' only, no token type ends either,
   and every handler passes its first token as start token *)
Theorem delimiters_spec :
  forallb (fun k => eqs (ends (kmd k)) (s ";}") && match endtypes (kmd k) with [] => true | _ => false end
                    && snd (kmode k)) (KDeclAt :: sheet_kinds) = true
  /\ forallb (fun k => eqs (ends (kmd k)) (s ";") && match endtypes (kmd k) with [] => true | _ => false end
                       && snd (kmode k)) [KDeclIdent; KDeclUnexpected] = true.
Proof. exact delimiters_spec_lemma. Qed.
Print Assumptions delimiters_spec.
