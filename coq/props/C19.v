(* C19 -- a rejected assignment leaves the object unchanged.

   Model: coq/theories/Atomic.v (scripts, big-step semantics `exec`, analysis `eff`/`atomic`);
   scripts: coq/theories/Gen/Scripts.v, regenerated from /repo's source by translate/scripts.py on every run,
   plus coq/theories/AtomicHand.v for the setter the translator refuses.

   FULL STATEMENT (every text setter of the anchored files):

     forall name s, In (name, s) setters ->
       forall ro tr, exec ro s tr -> raises tr -> written tr = [].

   It holds for every setter since CSSImportRule.cssText loads the imported sheet before it commits
   (`C19_rejected_assignment_unchanged`; the `_partial` form is kept with its now empty exclusion).            *)
From CssV Require Import Base Atomic AtomicFacts AtomicLenient Gen.Scripts AtomicHand.
Open Scope string_scope.
Open Scope list_scope.

(* the analysis is sound (for every script, over all executions) *)
Theorem C19_atomic_sound :
  forall s, atomic s = true -> forall ro tr, exec ro s tr -> raises tr -> written tr = [].
Proof. exact atomic_sound. Qed.
Print Assumptions C19_atomic_sound.

(* whatever a rejected assignment wrote is among the fields the analysis names *)
Theorem C19_raise_fields_sound :
  forall s ro tr, exec ro s tr -> raises tr -> incl (written tr) (raise_fields s).
Proof. exact raise_fields_sound. Qed.
Print Assumptions C19_raise_fields_sound.

(* the property for every text setter of the anchored files except the open finding *)
Theorem C19_rejected_assignment_unchanged_partial :
  forall name s, In (name, s) setters -> open_finding name = false ->
    forall ro tr, exec ro s tr -> raises tr -> written tr = [].
Proof. exact setters_unchanged_partial. Qed.
Print Assumptions C19_rejected_assignment_unchanged_partial.

(* the setter the translator refused is covered by a hand transcription, and nothing else is missing *)
Theorem C19_refused_are_transcribed : names_in refused_anchored hand_scripts = true.
Proof. exact refused_are_transcribed. Qed.
Print Assumptions C19_refused_are_transcribed.

(* FULL first statement: every text setter of the anchored files (no exclusion left) *)
Theorem C19_rejected_assignment_unchanged :
  forall name s, In (name, s) setters ->
    forall ro tr, exec ro s tr -> raises tr -> written tr = [].
Proof. exact setters_unchanged. Qed.
Print Assumptions C19_rejected_assignment_unchanged.

(* the setters repaired by fix: commits, by name (they were refuted on the pinned tree) *)
Theorem C19_repaired_setters_atomic :
  atomic script_CSSMediaRule_cssText = true /\ atomic script_MarginRule_cssText = true /\
  atomic script_Property_cssText = true /\ atomic script_Property_priority = true /\
  atomic script_MediaList_mediaText = true /\ atomic script_PropertyValue_cssText = true /\
  atomic script_ColorValue_cssText = true /\ atomic script_CSSNamespaceRule_cssText = true /\
  atomic script_CSSImportRule_href = true /\ atomic script_CSSImportRule_cssText = true.
Proof. exact repaired_setters_atomic. Qed.
Print Assumptions C19_repaired_setters_atomic.

(* ------------------------------------------------------------------ lenient mode
   SECOND STATEMENT (log.raiseExceptions = False: the error is logged, the setter returns): whenever a setter clears
   its commit flag (logged rejection) or raises, it has written nothing to the object:

     forall name s, In (name, s) lsetters ->
       forall ro ws f o, lexec ro s false (ws, f, o) -> f = true \/ o = ORaise -> ws = [].

   `lexec` has one semantics for both modes (a failing check may raise or log + clear the flag); `LGuard` (`if wellformed:`)
   runs its body only while the flag is clear.  Excluded: the unused media-query shortcut of
   Property.cssText (see AtomicHand.v).                                                                         *)
Theorem C19_atomic_lenient_sound :
  forall s, atomic_lenient s = true ->
    forall ro ws f o, lexec ro s false (ws, f, o) -> f = true \/ o = ORaise -> ws = [].
Proof. exact atomic_lenient_sound. Qed.
Print Assumptions C19_atomic_lenient_sound.

Theorem C19_reject_fields_sound :
  forall s ro ws f o, lexec ro s false (ws, f, o) -> f = true \/ o = ORaise -> incl ws (reject_fields s).
Proof. exact reject_fields_sound. Qed.
Print Assumptions C19_reject_fields_sound.

Theorem C19_logged_rejection_unchanged_partial :
  forall name s, In (name, s) lsetters -> lenient_excluded name = false ->
    forall ro ws f o, lexec ro s false (ws, f, o) -> f = true \/ o = ORaise -> ws = [].
Proof. exact lsetters_unchanged_partial. Qed.
Print Assumptions C19_logged_rejection_unchanged_partial.

Theorem C19_scripts_are_erasures :
  map (fun p : string * lscript => (fst p, erase (snd p))) lsetters = setters.
Proof. exact setters_are_erased. Qed.
Print Assumptions C19_scripts_are_erasures.

Theorem C19_mq_shortcut_refuted : atomic_lenient lscript_Property_cssText__mediaQuery_ = false.
Proof. exact mq_shortcut_refuted. Qed.
Print Assumptions C19_mq_shortcut_refuted.

(* ---- the two semantics are views of one: forgetting the commit flag maps every execution of a refined script to an
   execution of its erasure, so theorems about `exec (erase s)` are theorems about `lexec s` *)
Theorem C19_lexec_erase :
  forall ro s fin r, lexec ro s fin r -> exec ro (erase s) (erase_run r).
Proof. exact lexec_erase. Qed.
Print Assumptions C19_lexec_erase.

(* conversely a script without LGuard has every execution of its erasure (the refinement only removes executions in
   which a guarded commit would run after a logged failure) *)
Theorem C19_exec_erase_lexec :
  forall ro s r, guard_free s = true -> exec ro (erase s) r ->
    forall fin, exists fout, lexec ro s fin (fst r, fout, snd r).
Proof. exact exec_erase_lexec. Qed.
Print Assumptions C19_exec_erase_lexec.

Theorem C19_atomic_erase_sound :
  forall s, atomic (erase s) = true ->
    forall ro fin ws f o, lexec ro s fin (ws, f, o) -> o = ORaise -> ws = [].
Proof. exact atomic_erase_sound. Qed.
Print Assumptions C19_atomic_erase_sound.

(* the first statement, on the refined scripts of all setters (through erasure) *)
Theorem C19_rejected_assignment_unchanged_refined_partial :
  forall name ls, In (name, ls) lsetters -> open_finding name = false ->
    forall ro fin ws f, lexec ro ls fin (ws, f, ORaise) -> ws = [].
Proof. exact lsetters_raise_unchanged_partial. Qed.
Print Assumptions C19_rejected_assignment_unchanged_refined_partial.

(* the shape of the seeded regression seeded/C16-1: the commit of _element/_specificity hoisted out of the guard *)
Example C19_ex_write_outside_guard :
  atomic_lenient (LSeq LFail (LSeq (LWrite "_specificity") (LGuard (LWrite "_seq")))) = false
  /\ atomic_lenient (LSeq LFail (LGuard (LSeq (LWrite "_specificity") (LWrite "_seq")))) = true
  /\ lexec false (LSeq LFail (LSeq (LWrite "_specificity") (LGuard (LWrite "_seq")))) false (["_specificity"], true, ONormal).
Proof.
  split; [vm_compute; reflexivity|]. split; [vm_compute; reflexivity|].
  change ["_specificity"] with ([] ++ (["_specificity"] ++ [])).
  eapply LESeq; [apply LEFailLog|]. eapply LESeq; [apply LEWrite|apply LEGuardSkip].
Qed.

(* a lenient execution that is not a rejection commits: the guard is not vacuous *)
Example C19_ex_guard_commits :
  lexec false lscript_CSSComment_cssText false (["_cssText"], false, ONormal).
Proof.
  unfold lscript_CSSComment_cssText.
  repeat first [apply LEScope; [|discriminate] | eapply LEScopeRet].
  change ["_cssText"] with ([] ++ ["_cssText"]).
  eapply LESeq; [apply (LECheckRO false)|]. apply LEIfR. apply LEWrite.
Qed.

(* ------------------------------------------------------------------ non-vacuity *)
(* the theorems speak about setters that do raise: every setter script that the analysis says can raise has a
   raising execution at all only if ...; here: concrete raising executions of two atomic setters *)
Example C19_ex_comment_raises : exec false script_CSSComment_cssText ([], ORaise) /\ atomic script_CSSComment_cssText = true.
Proof.
  split; [|vm_compute; reflexivity].
  apply paths_sound with (n := 1). vm_compute. tauto.
Qed.

Example C19_ex_readonly_raises : exec true script_CSSStyleRule_cssText ([], ORaise).
Proof. apply paths_sound with (n := 1). vm_compute. tauto. Qed.

(* a successful assignment does write: the scripts are not write-free *)
Example C19_ex_medialist_commits :
  exists ws, exec false script_MediaList_mediaText (ws, ONormal) /\ In "_seq" ws.
Proof.
  exists ["_wellformed"; "_seq"]. split; [|simpl; tauto].
  apply paths_sound with (n := 1). vm_compute. tauto.
Qed.

(* `atomic` is not trivially true: the pre-fix shape of MediaList.mediaText (flag written, then the error) *)
Example C19_ex_prefix_shape_rejected :
  atomic (Seq CheckRO (Seq CallTemp (Seq (If (Seq (WriteSelf "_wellformed") Check) Skip)
                                         (Seq (WriteSelf "_wellformed") (WriteSelf "_seq"))))) = false
  /\ has_dirty_raise (Seq (WriteSelf "_wellformed") Check).
Proof.
  split; [vm_compute; reflexivity|].
  exists false, ["_wellformed"]. split; [|discriminate].
  change ["_wellformed"] with (["_wellformed"] ++ []). eapply ESeq; constructor.
Qed.

(* a readonly check that is repeated after the commit started is harmless (the documented refinement is a theorem
   of the model, not a translator rule): *)
Example C19_ex_repeated_readonly_check :
  atomic (Seq CheckRO (Seq (WriteSelf "a") (Seq CheckRO (WriteSelf "b")))) = true
  /\ atomic (Seq (WriteSelf "a") (Seq CheckRO (WriteSelf "b"))) = false.
Proof. vm_compute. split; reflexivity. Qed.

(* how many setters the statement covers *)
Example C19_setter_count : (length setters >= 50)%nat.
Proof. vm_compute. lia. Qed.
