From CssV Require Import Base Order OrderFacts.
