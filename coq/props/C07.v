(* C07 -- rule order and containment stay valid under any edit history.
   Statements over the model CssV.Order (step / run), whose tables are regenerated from /repo on every run. *)
From CssV Require Import Base Order OrderFacts OrderRefine OrderSkeleton.
From CssV Require Skeleton.
From CssV.Gen Require Import Kinds.

(* after ANY sequence of operations (insertRule/add with text or object, deleteRule, namespaces[p]=u / del,
   encoding=, cssText=, and the same on @media/@page rules), in both log.raiseExceptions modes, whether each call
   succeeds or is rejected, the sheet is valid.  op_ok only asks that a rule OBJECT handed to insertRule is itself a
   well-built container (its own children respect its tables). *)
Theorem order_invariant : forall rx ops, Forall op_ok ops -> valid_sheet (run rx ops []) = true.
Proof. exact order_invariant_main. Qed.
Print Assumptions order_invariant.

(* the same in the words of the property: @charset only first; every @import before any @namespace; both before
   any style/@media/@page/@font-face rule; no child kind that its container refuses *)
Theorem order_invariant_statement : forall rx ops, Forall op_ok ops -> ValidOrderStatement (run rx ops []).
Proof. exact order_invariant_statement_main. Qed.
Print Assumptions order_invariant_statement.

(* the one-step preservation lemma behind the induction *)
Theorem step_preserves : forall rx rs o, op_ok o -> valid_sheet rs = true -> valid_sheet (fst (step rx rs o)) = true.
Proof. exact step_preserves_main. Qed.
Print Assumptions step_preserves.

(* every insertion position insertRule accepts keeps the order (all branches, inOrder or not) *)
Theorem place_keeps_order : forall ks k idx io i,
  valid_kinds ks = true -> idx <= length ks -> place ks k idx io = PInsert i ->
  i <= length ks /\ valid_kinds (insert_at i k ks) = true.
Proof. exact place_valid. Qed.
Print Assumptions place_keeps_order.

(* the parser's expected-state machine accepts a valid kind list unchanged (norefused: no margin rule outside @page,
   which insertRule refuses and the parser discards) ... *)
Theorem valid_reparse : forall ks, valid_kinds ks = true -> norefused ks = true -> accept_kinds ks = ks.
Proof. exact valid_reparse_main. Qed.
Print Assumptions valid_reparse.

(* ... hence the rule kinds of every reachable sheet are read back unchanged *)
Theorem history_reparse : forall rx ops, Forall op_ok ops -> accept_kinds (kinds (run rx ops [])) = kinds (run rx ops []).
Proof. exact history_reparse_main. Qed.
Print Assumptions history_reparse.

(* the full parser model (rule objects, namespace dict, replace-URI path, insertRule with its index checks,
   _cleanNamespaces) computes on the rule kinds exactly what the kinds-level machine accept_kinds computes, and its
   final _cleanNamespaces is a no-op -- for a text whose @namespace statements have pairwise distinct prefixes and URIs
   not declared in the environment and whose style rules use prefixes of the environment only *)
Theorem parse_refines : forall rx env ps rs e,
  Forall (proto_wf (mkP [] env 0)) ps -> protos_distinct ps ->
  parse_sheet rx env (stmts ps) = inl (rs, e) -> kinds rs = accept_kinds (map pkind ps) /\ e = None.
Proof. exact parse_refines_main. Qed.
Print Assumptions parse_refines.

(* so valid_reparse is a theorem about the parser model: a valid sheet whose @namespace rules have distinct prefixes
   and URIs is read back by parse_sheet (lenient mode) with the same rule kinds *)
Theorem sheet_reparse : forall rs,
  valid_sheet rs = true -> dist rs = true -> udist rs = true ->
  exists rs', parse_sheet false [] (stmts (map proto_of_rule rs)) = inl (rs', None) /\ kinds rs' = kinds rs.
Proof. exact sheet_reparse_main. Qed.
Print Assumptions sheet_reparse.

(* one expected-state machine, two models: the states accept_kinds passes through are those of C04's
   Skeleton.ord_step (table Gen/UptoGen.gen_sheet_order) on well-formed statements, COMMENT = max(1, state) ... *)
Theorem accept_kinds_is_sheet_ord : forall ks acc e, accept_states acc e ks = skel_states e ks.
Proof. exact OrderSkeleton.accept_kinds_is_sheet_ord. Qed.
Print Assumptions accept_kinds_is_sheet_ord.

(* ... and the full parser model follows ord_step also on malformed statements (style rule with an unknown prefix) *)
Theorem parse_step_is_ord_step : forall rx st p st1 sk run,
  parse_step rx st p = inl st1 -> skel_kind (pkind p) = Some sk ->
  p_expected st1 = fst (Skeleton.ord_step (fun _ _ => proto_wellformed st p) (p_expected st) sk run).
Proof. exact OrderSkeleton.parse_step_is_ord_step. Qed.
Print Assumptions parse_step_is_ord_step.

(* CDO / CDC ('<!--', '-->') reset the parser's order state `expected` to 0.  The rule order does not depend on that
   state: from ANY state (any `expected`), over any text with such tokens, the parser keeps the sheet valid -- because
   every accepted statement goes through insert_rule, whose `place` re-checks the neighbours ... *)
Theorem parse_valid_whatever_expected : forall rx its st st',
  valid_sheet (p_rules st) = true -> parse_loop rx st its = inl st' -> valid_sheet (p_rules st') = true.
Proof. exact parse_valid_whatever_expected_main. Qed.
Print Assumptions parse_valid_whatever_expected.

(* ... whereas the `expected` machine alone, appending what passes its threshold, would not: *)
Example expected_alone_is_not_enough :
  valid_kinds (naive_append [] 0 [KStmt STYLE_RULE; KSep false; KStmt IMPORT_RULE; KStmt STYLE_RULE]) = false.
Proof. exact naive_append_breaks_order. Qed.

Example cdo_text_is_refused :
  match parse_sheet false [] cdo_text with inl (rs, None) => kinds rs = [STYLE_RULE; STYLE_RULE] | _ => False end
  /\ parse_sheet true [] cdo_text = inr HierarchyRequestErr.
Proof. exact (conj cdo_text_lenient cdo_text_raising). Qed.

(* a rejected call (an exception, or None from insertRule) leaves the rule list unchanged -- every operation, every
   outcome, both modes.  (Uses: insertRule restores the list when _cleanNamespaces refuses; the parser keeps the
   prefixes of its @namespace rules distinct, so the _cleanNamespaces that ends `cssText =` never raises.) *)
Theorem rejected_unchanged : forall rx rs o rs' res,
  step rx rs o = (rs', res) -> rejected o res = true -> rs' = rs.
Proof. exact rejected_unchanged_main. Qed.
Print Assumptions rejected_unchanged.

(* the final _cleanNamespaces of a parse never raises *)
Theorem parse_clean_never_raises : forall rx env ps rs e, parse_sheet rx env ps = inl (rs, Some e) -> False.
Proof. exact parse_sheet_noraise. Qed.
Print Assumptions parse_clean_never_raises.

(* the witness that used to refute the statement (insertRule raising out of _cleanNamespaces) *)
Example clean_raise_is_unchanged : step true refute_sheet refute_op = (refute_sheet, Exc NoModificationAllowedErr).
Proof. exact clean_raise_restores. Qed.

(* non-vacuity *)
Example parse_refines_nontrivial :
  (Forall (proto_wf (mkP [] refine_env 0)) refine_text /\ protos_distinct refine_text) /\
  exists rs, parse_sheet false refine_env (stmts refine_text) = inl (rs, None)
             /\ kinds rs = [COMMENT; IMPORT_RULE; NAMESPACE_RULE; NAMESPACE_RULE; STYLE_RULE; MEDIA_RULE].
Proof. exact (conj refine_text_ok refine_text_run). Qed.

Example history_nontrivial : Forall op_ok demo_ops /\
  kinds (run true demo_ops []) = [CHARSET_RULE; COMMENT; IMPORT_RULE; NAMESPACE_RULE; VARIABLES_RULE; STYLE_RULE].
Proof. exact (conj demo_ops_ok demo_run). Qed.

Example a_rejected_call :
  step true (run true (firstn 5 demo_ops) []) (Ins (Text [P IMPORT_RULE]) (Some 5%Z) false)
  = (run true (firstn 5 demo_ops) [], Exc HierarchyRequestErr).
Proof. exact demo_rejected. Qed.

Example a_valid_list : valid_kinds demo_list = true /\ norefused demo_list = true /\ accept_kinds demo_list = demo_list.
Proof. exact demo_valid_list. Qed.

Example an_invalid_list_is_not_read_back : accept_kinds [COMMENT; NAMESPACE_RULE; IMPORT_RULE] = [COMMENT; NAMESPACE_RULE].
Proof. exact demo_invalid_list. Qed.
