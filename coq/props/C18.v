(* C18 -- parent / owner links always mirror containment.
   Model: theories/Links.v (heap of objects, stored link attributes separate from the containment lists,
   one function per assignment site of the code); proofs: theories/LinksFacts.v.                      *)
From CssV Require Import Base Gen.LinkSites Links LinksFacts.

(* After ANY history of constructor calls, insertions, assignments, deletions and drops (every site of
   the code that touches containment or a link attribute, in any order, with any arguments), every
   containment edge of the heap is mirrored by the stored attributes of the contained object, and no
   object has two containers. *)
Theorem links_invariant : forall ops, LinksOk (run ops start).
Proof. exact links_invariant_l. Qed.
Print Assumptions links_invariant.

(* ... hence the accessors parentRule / parent / ownerRule, evaluated as the code evaluates them, name
   the actual container of every contained object (a top-level rule: no parent rule, _parentStyleSheet
   is the sheet). *)
Theorem links_mirror : forall ops p op r c,
  get (run ops start) p = Some op -> In (r, c) (kids op) ->
  exists oc, get (run ops start) c = Some oc /\ accessors_name r p oc.
Proof. intros ops. exact (links_mirror_l _ (links_invariant_l ops)). Qed.
Print Assumptions links_mirror.

(* ... and the derived accessor parentStyleSheet of a rule nested n container rules deep below sheet s
   evaluates to s (without exhausting the recursion), for every n. *)
Theorem parentStyleSheet_any_depth : forall ops s c n,
  below (run ops start) s c n ->
  forall oc fuel, get (run ops start) c = Some oc -> n <= fuel ->
  acc_parentStyleSheet fuel (run ops start) oc = Some (Some s).
Proof. intros ops. exact (parentStyleSheet_any_depth_l _ (links_invariant_l ops)). Qed.
Print Assumptions parentStyleSheet_any_depth.

(* A rule removed with deleteRule (from a sheet or from a container rule) is nobody's element and
   reports no parent rule, no parent and no parent style sheet. *)
Theorem deleted_detached : forall ops d p i c,
  removed (dsite_role d) (run ops start) p i = Some c ->
  let h' := run (ops ++ [ODetach d p i]) start in
  contained h' c = false /\
  exists oc, get h' c = Some oc /\ acc_parentRule oc = None /\ acc_parent oc = None /\
             forall fuel, acc_parentStyleSheet fuel h' oc = Some None.
Proof.
  intros ops d p i c R. unfold run. rewrite fold_left_app. simpl.
  exact (deleted_detached_l d _ p i c (links_invariant_l ops) R).
Qed.
Print Assumptions deleted_detached.

(* A REJECTED sheet.cssText assignment (rule list cleared through the cssRules setter, n rules of the new text
   constructed and inserted, rollback `self._cssRules = oldCssRules` without setter or post settings -- the shape of
   _setCssText and the setter's loops are regenerated from the source): every object of the old heap agrees with
   itself afterwards in kind, stored link attributes and the element list of every role, and LinksOk holds. *)
Theorem rejected_keeps_links : forall h p n, LinksOk h ->
  let R := sheet_cssText_rejected h p n in
  LinksOk R /\ forall i o, get h i = Some o -> exists o', get R i = Some o' /\ same_obj o o'.
Proof. exact rejected_keeps_links_l. Qed.
Print Assumptions rejected_keeps_links.

(* A REFUSED @namespace insertion (insertRule, @namespace branch: raw insert, deleteRule calls of _cleanNamespaces
   until one raises, then the restore handler -- clear, `r._parentStyleSheet = self` (regenerated), raw re-insert,
   raise before the post settings): LinksOk holds, the refused rule stays outside and keeps everything but possibly
   _parentStyleSheet, every other object agrees with itself before in kind, stored attributes and element lists. *)
Theorem ns_refused_keeps_links : forall h p c op oc idx dels, LinksOk h ->
  get h p = Some op -> okind op = KSheet -> get h c = Some oc -> okind oc = KRule -> contained h c = false ->
  let R := sheet_insert_ns_refused h p c idx dels in
  LinksOk R /\ contained R c = false /\
  (forall i o, i <> c -> get h i = Some o -> exists o', get R i = Some o' /\ same_obj o o') /\
  (exists oc', get R c = Some oc' /\ agree_but_pss oc oc').
Proof. exact ns_refused_keeps_links_l. Qed.
Print Assumptions ns_refused_keeps_links.

(* non-vacuity: sheet 0 with rules 1, 2; rule 3 is refused after _cleanNamespaces had deleted rule 1 *)
Example ns_refused_example :
  let h := run [OAlloc KSheet None None None None; OAlloc KRule None None None None; OAlloc KRule None None None None;
                OAlloc KRule None None None None; OAttach SSheetInsert 0 1 0; OAttach SSheetInsert 0 2 1] start in
  option_map f_pss (get (fold_left (fun h i => detach DSheetDelete h 0 i) [0] (raw_insert h 0 3 1)) 1) = Some None /\
  option_map f_pss (get (sheet_insert_ns_refused h 0 3 1 [0]) 1) = Some (Some 0) /\
  option_map kids (get (sheet_insert_ns_refused h 0 3 1 [0]) 0) = Some [(RTop, 1); (RTop, 2)].
Proof. vm_compute. auto. Qed.

(* rejected calls that reach no assignment site are the identity *)
Theorem rejected_step_identity :
  (forall d h p i, removed (dsite_role d) h p i = None -> detach d h p i = h) /\
  (forall s h p c idx, contained h c = true -> attach s h p c idx = h).
Proof. split; [exact detach_out_of_range | exact attach_contained]. Qed.
Print Assumptions rejected_step_identity.

(* the cssRules setters and the Property constructor are compositions of the sites *)
Theorem set_cssRules_ok : forall h p l, LinksOk h ->
  LinksOk (sheet_set_cssRules h p l) /\ LinksOk (container_set_cssRules h p l).
Proof. exact set_cssRules_ok_l. Qed.
Print Assumptions set_cssRules_ok.

Theorem property_ctor_ok : forall h par, LinksOk h -> LinksOk (property_ctor h par).
Proof. exact property_ctor_ok_l. Qed.
Print Assumptions property_ctor_ok.

(* non-vacuity: a sheet with a style rule nested two @media deep, down to a component value *)
Example nested_two_deep : below (run ex_ops start) 0 3 2.
Proof. exact ex_nested_depth. Qed.
Example nested_two_deep_parentStyleSheet :
  option_map (acc_parentStyleSheet 2 (run ex_ops start)) (get (run ex_ops start) 3) = Some (Some (Some 0)).
Proof. exact ex_nested_pss. Qed.
(* the derivation of the code before the repair (one level) gives None on the same state *)
Example one_level_derivation_was_wrong :
  option_map (acc_parentStyleSheet_one_level (run ex_ops start)) (get (run ex_ops start) 3) = Some None.
Proof. exact ex_one_level_derivation_wrong. Qed.
(* had the sheet's setter detached the rules it replaces, the raw rollback would leave rules that name no sheet *)
Example detaching_setter_would_break_rollback :
  let h := run [OAlloc KSheet None None None None; OAlloc KRule None None None None; OAttach SSheetInsert 0 1 0] start in
  let h1 := detach_all_gen 1 (guarded (Some LPss) [(LPss, LNone)]) RTop h 0 in
  option_map f_pss (get (raw_set_rules h1 0 [1]) 1) = Some None /\
  option_map f_pss (get (sheet_cssText_rejected h 0 2) 1) = Some (Some 0).
Proof. exact ex_detaching_setter_breaks_rollback. Qed.
Example deleted_example :
  removed RSub (run ex_ops start) 2 0 = Some 3 /\
  option_map f_pr (get (run (ex_ops ++ [ODetach DContDelete 2 0]) start) 3) = Some None.
Proof. exact ex_deleted. Qed.
