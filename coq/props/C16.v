(* C16 -- selector specificity equals the CSS definition.
   Model: CssV.Selector (pre-pass + token machine of Selector._setSelectorText over the regenerated constants).
   The selector AST of Selector.v carries every layout choice (whitespace / comment tokens at every place the
   grammar allows them), so quantifying over `sel` quantifies over all selectors of the grammar AND all layouts. *)
From CssV Require Import Base Gen.SelConsts Tokenizer Selector SelectorFacts SelectorReparse.

(* the regenerated test tables are exactly Python's substring / equality tests on the regenerated strings *)
Theorem expected_tests_are_substring_tests :
  forallb (fun nf => forallb (fun e => Bool.eqb (snd nf e) (substr (fst nf) (exp_str e))) all_exp) in_tests = true.
Proof. exact in_tests_are_substring_tests. Qed.
Print Assumptions expected_tests_are_substring_tests.

(* the pre-pass glues a rendered selector exactly into the intended synthetic tokens *)
Theorem prepass_glues_rendering :
  forall ns sel, Declared ns sel -> prepass (render sel) = g_selector sel.
Proof. exact prepass_render. Qed.
Print Assumptions prepass_glues_rendering.

(* main theorem: every selector of the grammar, in every layout, with declared prefixes, is accepted and its
   reported specificity is (0, #ids, #classes+attributes+pseudo-classes, #types+pseudo-elements) *)
Theorem specificity_correct :
  forall ns sel, Declared ns sel ->
    wellformed (run ns (prepass (render sel))) = true /\
    spec (run ns (prepass (render sel))) =
      (0, ids sel, classes_attrs_pseudoclasses sel, types_pseudoelements sel)%nat.
Proof. exact specificity_correct_lemma. Qed.
Print Assumptions specificity_correct.

(* re-assignment: whatever was assigned before (without an uncaught exception), after assigning a Declared selector
   and then any number of REJECTED texts the object still reports the specificity of the selector it holds *)
Theorem rejected_assignment_keeps_specificity :
  forall ns h0 before sel rej,
    Declared ns sel ->
    Forall (fun g => run ns g = Some Rejected) rej ->
    forall h1, assigns_glued ns h0 before = Some h1 ->
    exists seq, assigns_glued ns h0 (before ++ prepass (render sel) :: rej) = Some (mkHeld (sp_selector sel) seq).
Proof. exact held_specificity_lemma. Qed.
Print Assumptions rejected_assignment_keeps_specificity.
Example rejected_assignment_nonvacuous :     (* a#m.n  then  `#p #q #r >`  (rejected): still (1,1,1) *)
  option_map h_spec (assigns0 [] [[(s "IDENT", s "a"); (s "HASH", s "#m"); (s "CHAR", s "."); (s "IDENT", s "n")];
                                  [(s "HASH", s "#p"); (s "S", s " "); (s "HASH", s "#q"); (s "S", s " "); (s "HASH", s "#r");
                                   (s "S", s " "); (s "CHAR", s ">")]]) = Some (1, 1, 1)%nat.
Proof. vm_compute. reflexivity. Qed.

(* @page selectors: every selector of the page grammar (optional name, optional :first/:left/:right, whitespace and
   comments where allowed), in both error modes, is accepted with (named page, :first, :left or :right) *)
Theorem page_specificity :
  forall raising p, ok_page p = true ->
    exists seq, run_page raising (render_page p) = PAccepted (named p) (first_page p) (left_or_right p) seq.
Proof. exact page_specificity_lemma. Qed.
Print Assumptions page_specificity.
(* one CSSPageRule object under selectorText / cssText assignments: after a committed assignment of p and any
   number of assignments that are not committed, the rule reports p's specificity *)
Theorem page_rejected_assignment_keeps_specificity :
  forall raising h0 before p a rej,
    ok_page p = true -> good_assign raising p a ->
    Forall (fun a => forall h', page_assign raising h' a = Some h') rej ->
    forall h1, page_assigns raising h0 before = Some h1 ->
    exists seq, page_assigns raising h0 (before ++ a :: rej) = Some (mkPH (named p, first_page p, left_or_right p) seq).
Proof. exact page_held_specificity_lemma. Qed.
Print Assumptions page_rejected_assignment_keeps_specificity.
Example page_nonvacuous :      (* ":left", then cssText "@page toc:first { margin: 1cm" (block rejected) *)
  option_map ph_spec (page_assigns true pheld0
     [ASel [ch ":"; mkS TIDENT (s "left")];
      ACss true [mkS TS (s " "); mkS TIDENT (s "toc"); ch ":"; mkS TIDENT (s "first"); mkS TS (s " ")] BReject])
  = Some (0, 0, 1)%nat
  /\ forall h', page_assign true h' (ACss true [mkS TIDENT (s "toc"); ch ":"; mkS TIDENT (s "first")] BReject) = Some h'.
Proof. split; [vm_compute; reflexivity|intros h'; reflexivity]. Qed.

Definition ex_sel_simple : selector :=
  mkSel [] (mkCompound (HType NsDefault (s "a")) [([], SAttr (mkAttr [] NsDefault (s "x") [] None))] None) [] [].
(* SelectorList: a comma separated list of grammar selectors (each Declared; sep_free = the member's rendering does not
   end the comma search of _tokensupto2: brackets balanced, no layout/number token with value "," or "" -- a computable
   side condition) is split at the commas, every member is parsed on its own and reports its own specificity *)
Theorem selectorlist_specificities :
  forall ns sels, sels <> [] -> Forall (fun x => Declared ns x /\ sep_free x = true) sels ->
    exists ms, sl_run ns (join_commas (map sel_toks sels)) = Some (SLAccepted ms) /\
               map fst ms = map sp_selector sels.
Proof. exact selectorlist_specificities_lemma. Qed.
Print Assumptions selectorlist_specificities.
(* one rejected member rejects the whole list (wellformed never becomes True again) *)
Theorem selectorlist_rejected_member :
  forall ns fuel ts acc e r, sl_loop fuel ns ts acc false e = Some r -> r = SLRejected.
Proof. exact sl_false_rejects. Qed.
Print Assumptions selectorlist_rejected_member.
Example selectorlist_nonvacuous :     (* "a#i , .c" -> two members (1,0,1) (0,1,0);  "a, ,b" and "a," rejected *)
  option_map (fun r => match r with SLAccepted ms => map fst ms | SLRejected => [] end)
    (sl_select [] [(s "IDENT", s "a"); (s "HASH", s "#i"); (s "S", s " "); (s "CHAR", s ","); (s "S", s " ");
                   (s "CHAR", s "."); (s "IDENT", s "c")]) = Some [(1, 0, 1); (0, 1, 0)]%nat
  /\ sl_select [] [(s "IDENT", s "a"); (s "CHAR", s ","); (s "S", s " "); (s "CHAR", s ","); (s "IDENT", s "b")] = Some SLRejected
  /\ sl_select [] [(s "IDENT", s "a"); (s "CHAR", s ",")] = Some SLRejected
  /\ sep_free ex_sel_simple = true.
Proof. repeat split; vm_compute; reflexivity. Qed.

(* the seq a Selector holds after parsing, as an explicit function of the derivation *)
Theorem seq_is_expected :
  forall ns sel, Declared ns sel -> seq (run ns (prepass (render sel))) = seq_of ns sel.
Proof. exact seq_is_expected_lemma. Qed.
Print Assumptions seq_is_expected.

(* serialise + re-parse.  ser_tokens ns q = the tokens of the serialised seq q (do_css_Selector through Out, read back
   by the tokenizer; tie: compared with Tokenizer(selectorText) on every generated derivation).  NsOk ns: every
   non-empty prefix of the namespace map is an identifier. *)
(* (a) the serialised form of every grammar selector is again a rendering of a Declared selector (a canonical layout)
       with the same specificity *)
Theorem reparse_is_canonical_rendering :
  forall ns sel, NsOk ns -> Declared ns sel ->
    exists sel', Declared ns sel' /\ sp_selector sel' = sp_selector sel /\
                 render sel' = ser_tokens ns (seq_of ns sel).
Proof. exact reparse_canon. Qed.
Print Assumptions reparse_is_canonical_rendering.
(* (b) token level: parsing the serialised form is accepted and reports the same specificity *)
Theorem specificity_reparse_tokens :
  forall ns sel, NsOk ns -> Declared ns sel ->
    wellformed (run ns (prepass (ser_tokens ns (seq_of ns sel)))) = true /\
    spec (run ns (prepass (ser_tokens ns (seq_of ns sel)))) = spec (run ns (prepass (render sel))).
Proof. exact specificity_reparse_tokens_lemma. Qed.
Print Assumptions specificity_reparse_tokens.
(* (c) text level, for any tokenizer that reads the serialised text of grammar selectors as ser_tokens describes
       (the named hypothesis ser_text_tokenizes; validated by the correspondence, not proved) *)
Theorem specificity_reparse :
  forall tokens_of : str -> list stok,
    (forall ns x t, NsOk ns -> Declared ns x -> ser_seq ns (seq_of ns x) = Some t ->
                    tokens_of t = ser_tokens ns (seq_of ns x)) ->
    forall ns sel t, NsOk ns -> Declared ns sel ->
      ser_seq ns (seq (run ns (prepass (render sel)))) = Some t ->
      wellformed (run ns (prepass (tokens_of t))) = true /\
      spec (run ns (prepass (tokens_of t))) = spec (run ns (prepass (render sel))).
Proof. exact specificity_reparse_lemma. Qed.
Print Assumptions specificity_reparse.

(* non-vacuity:  ` p|a#i.c[q|x ~= "v"]:hover:not( :lang(en) ) /**/ > *::first-line `  is Declared, and evaluates *)
Definition ex_ns : ns_map := [(s "p", s "u:p"); (s "q", s "u:q")].
Definition ex_sel : selector :=
  mkSel [WS (s " ")]
    (mkCompound (HType (NsP (s "p")) (s "a"))
       [([], SHash (s "#i")); ([], SClass (s "c"));
        ([], SAttr (mkAttr [] (NsP (s "q")) (s "x") [WS (s " ")] (Some (OpIncl, [WS (s " ")], AvS [34; 118; 34]%N, []))));
        ([], SPseudo (PsId false (s "hover")));
        ([], SNot [WS (s " ")] (NaPseudo (PsFn false (s "lang") [] [(EId (s "en"), [])])) [WS (s " ")])]
       None)
    [(CChild [WS (s " "); WC (s "/**/"); WS (s " ")] [WS (s " ")],
      mkCompound (HUniv NsDefault) [] (Some ([], PsId true (s "first-line"))))]
    [WS (s " ")].
Example specificity_correct_nonvacuous :
  Declared ex_ns ex_sel /\ spec (run ex_ns (prepass (render ex_sel))) = (0, 1, 4, 2)%nat.
Proof. split; vm_compute; reflexivity. Qed.

(* the two defects repaired in /repo (fixes/C16-*.diff), as facts about the current model *)
Example functional_pseudo_inside_not_accepted :   (* a:not(:lang(en)) *)
  select [] [(s "IDENT", s "a"); (s "CHAR", s ":"); (s "FUNCTION", s "not("); (s "CHAR", s ":");
             (s "FUNCTION", s "lang("); (s "IDENT", s "en"); (s "CHAR", s ")"); (s "CHAR", s ")")]
  = Some (Accepted 0 1 1 [(I_type_selector, VPair UNone (s "a")); (I_negation_start, VStr (s ":not("));
                          (I_pseudo_class, VStr (s ":lang(")); (I_IDENT, VStr (s "en"));
                          (I_function_end, VStr (s ")")); (I_negation_end, VStr (s ")"))]).
Proof. vm_compute. reflexivity. Qed.
Example comment_then_space_inside_function_accepted :   (* a:nth-child(/*c*/ 2) *)
  spec (select [] [(s "IDENT", s "a"); (s "CHAR", s ":"); (s "FUNCTION", s "nth-child("); (s "COMMENT", s "/*c*/");
                   (s "S", s " "); (s "NUMBER", s "2"); (s "CHAR", s ")")]) = (0, 0, 1, 1)%nat.
Proof. vm_compute. reflexivity. Qed.

Example specificity_reparse_nonvacuous :
  NsOk ex_ns /\ option_map (fun t => length t) (ser_seq ex_ns (seq_of ex_ns ex_sel)) = Some 59%nat /\
  spec (run ex_ns (prepass (ser_tokens ex_ns (seq_of ex_ns ex_sel)))) = (0, 1, 4, 2)%nat /\
  seq (run ex_ns (prepass (ser_tokens ex_ns (seq_of ex_ns ex_sel)))) = seq_of ex_ns ex_sel.
Proof. repeat split; vm_compute; reflexivity. Qed.
