From CssV Require Import Base Gen.SelConsts Selector SelectorFacts.
Theorem expected_tests_are_substring_tests :
  forallb (fun nf => forallb (fun e => Bool.eqb (snd nf e) (substr (fst nf) (exp_str e))) all_exp) in_tests = true.
Proof. exact in_tests_are_substring_tests. Qed.
Print Assumptions expected_tests_are_substring_tests.
