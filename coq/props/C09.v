(* C09 -- Token classification follows the CSS token grammar.
   Property theorems only; proofs live in CssV.LexemeRegex / LexemeFacts / LexemeSweep.
   Model: CssV.Tokenizer (try_prods = one pass over the ordered productions, tokenize = the loop),
   running the productions and tables regenerated from /repo (the CssV.Gen files), fullsheet = false.
   Lexeme classes, `text`, `classify`, `ok_follow` (adjacency): CssV.Lexemes.                    *)
From CssV Require Import Base Regex RegexFacts LexemeRegex Gen.Productions Gen.TokTables Tokenizer
  Lexemes LexemeFacts LexemeMore LexemeSweep LexemeEscape.
From CssV Require Respell.

(* ---- general regex facts, proved once ---- *)

(* first_char_dispatch: a text starting with c can only be matched by the productions whose computed
   first-character set contains the representative of c's boundary interval (finite table
   `dispatch_table`, one row per representative, speaks about every code point)                  *)
Theorem first_char_dispatch : forall c dc prev t,
  try_prods productions dc false prev (c :: t) = try_prods (cands (repr BD c)) dc false prev (c :: t).
Proof. exact first_char_dispatch_lemma. Qed.
Print Assumptions first_char_dispatch.

(* expression level: not nullable + c outside the first-character set => no match at all *)
Theorem first_char_fails : forall r c t, nullable r = false -> fc r c = false -> Fails (R:=nat) (m r) (c :: t).
Proof. intros r c t. apply fc_fails. Qed.
Print Assumptions first_char_fails.

(* cls_star_maximal: a greedy repeat over a character class takes exactly the maximal run xs when the
   text goes on with a character outside the class and the continuation accepts there            *)
Theorem cls_star_maximal : forall a f lo xs rest, chartest a = Some f -> forallb f xs = true ->
  (lo <= length xs)%nat -> head_not f rest = true -> First (R:=nat) (m (Rep a lo None)) xs rest.
Proof. intros a f lo xs rest. apply first_run. Qed.
Print Assumptions cls_star_maximal.

(* general form: the repeat takes every offered element (escape sequences etc.) *)
Theorem rep_takes_elements : forall a lo hi es rest,
  FirstSeq (R:=nat) (m a) es rest -> (lo <= length es)%nat -> hi_ok hi (length es) ->
  (hi = Some (length es) \/ Fails (R:=nat) (m a) rest) -> First (R:=nat) (m (Rep a lo hi)) (concat es) rest.
Proof. exact (@first_rep nat). Qed.
Print Assumptions rep_takes_elements.

(* a first path is what rmatch (the total continuation) returns: determinism on these shapes *)
Theorem first_path_is_match : forall r e rest p, First (R:=nat) (m r) e rest -> rmatch r p (e ++ rest) = Some (length e).
Proof. exact first_rmatch. Qed.
Print Assumptions first_path_is_match.

(* ---- per-class lemmas: for EVERY lexeme l of the class and every admissible following text
        (ok_follow l rest = true), the first production that matches l ++ rest is the class's, and
        it matches exactly l:   first_token (l ++ rest) = (class, l)                              *)
Theorem ident_lexeme : forall d e0 els rest, ok_follow (LIdent d e0 els) rest = true -> wins (LIdent d e0 els) rest.
Proof. exact LexemeUri.ident_lexeme. Qed.
Print Assumptions ident_lexeme.
(* FUNCTION versus IDENT, exactly as coded (tokenize2.py l.186-190): a name directly followed by '(' is a FUNCTION
   token name+'(' unless the RAW name lower-cased is "and" (ok_follow (LIdent ..) admits '(' after it only then) *)
Theorem function_lexeme : forall d e0 els rest, ok_follow (LFunction d e0 els) rest = true -> wins (LFunction d e0 els) rest.
Proof. exact LexemeUri.function_lexeme. Qed.
Print Assumptions function_lexeme.
Example and_exception :
  ok_follow (LIdent false (P 65) [P 110; P 68]) (s "(x") = true /\            (* AnD( -> IDENT AnD, CHAR ( *)
  ok_follow (LFunction false (P 65) [P 110; P 68]) (s "x") = false /\
  ok_follow (LFunction false (H [54%N; 49%N] []) [P 110; P 100]) (s "x") = true /\   (* \61nd( -> FUNCTION and( *)
  ok_follow (LFunction false (P 97) [H [54%N; 101%N] [32%N]; P 100]) (s "x") = true /\ (* a\6e d( -> FUNCTION *)
  ok_follow (LFunction false (P 117) [P 114]) (s "x") = true /\                 (* ur(  -> FUNCTION *)
  ok_follow (LFunction false (P 117) [P 114; P 108]) (s "x") = false /\          (* url( -> the URI class / FUNCTION by the body *)
  ok_follow (LIdent false (P 117) [P 114; P 108]) (s " ") = true /\              (* url  -> IDENT *)
  ok_follow (LIdent false (H [55%N; 53%N] [32%N]) [L 114; P 76]) (s ";") = true /\ (* \75 \rL -> IDENT *)
  ok_follow (LIdent false (P 117) []) (s "+a") = false.                          (* u+a -> UNICODE-RANGE *)
Proof. vm_compute. repeat split; reflexivity. Qed.

(* the restriction of ident_lexeme on names beginning with u, U or an escape is gone: ok_follow asks for kw_free
   (no spelling of  u r l (  and no spelling of  u +  at the start of the text), and every identifier that is
   not followed by '(' or '+' has it *)
Theorem ident_lexeme_unrestricted : forall d e0 els rest, wf_ident d e0 els rest = true ->
  hd_not (is_c 40) rest = true -> hd_not (is_c 43) rest = true -> wins (LIdent d e0 els) rest.
Proof. exact ident_lexeme_full. Qed.
Print Assumptions ident_lexeme_unrestricted.
Theorem identifier_keyword_free : forall e0 els rest, wf_ident false e0 els rest = true ->
  hd_not (is_c 40) rest = true -> hd_not (is_c 43) rest = true ->
  first_plain_ok false e0 (render els ++ rest) = true.
Proof. exact ident_kw_free. Qed.
Print Assumptions identifier_keyword_free.
(* kw_free is exactly "the URI and UNICODE-RANGE productions cannot get past their keyword" *)
Theorem keyword_free_fails : forall t, kw_free t = true ->
  Fails (R:=nat) (m re_URI) t /\ Fails (R:=nat) (m re_UNICODE_RANGE) t.
Proof. exact kw_free_fails. Qed.
Print Assumptions keyword_free_fails.

(* ---- the letter macros U R L, exactly (letter_macro_spec): for EVERY text t and EVERY continuation the macro offers
   precisely the split points `lspell lt t` in that order: plain upper, plain lower, backslash + up to four zeros +
   the two hex digits + optional terminator (CR LF, then one white-space character, then none - a continuation
   that fails after the long spelling is retried after the shorter ones), backslash + upper, backslash + lower *)
Theorem letter_macro_exact_U : forall t p (k : cont nat), m U_re p t k = tryl k p t (lspell LU t).
Proof. intros t p k. apply (U_exact t). Qed.
Print Assumptions letter_macro_exact_U.
Theorem letter_macro_exact_R : forall t p (k : cont nat), m R_re p t k = tryl k p t (lspell LR t).
Proof. intros t p k. apply (R_exact t). Qed.
Print Assumptions letter_macro_exact_R.
Theorem letter_macro_exact_L : forall t p (k : cont nat), m L_re p t k = tryl k p t (lspell LL t).
Proof. intros t p k. apply (L_exact t). Qed.
Print Assumptions letter_macro_exact_L.
Theorem letter_macro_spec : forall p t n,
  (rmatch U_re p t = Some n <-> hd_error (lspell LU t) = Some n) /\
  (rmatch R_re p t = Some n <-> hd_error (lspell LR t) = Some n) /\
  (rmatch L_re p t = Some n <-> hd_error (lspell LL t) = Some n).
Proof. exact letter_macro_spec_lemma. Qed.
Print Assumptions letter_macro_spec.
Theorem letter_macros_regenerated : re_URI = Cat U_re (Cat R_re (Cat L_re uri_rest)) /\ re_UNICODE_RANGE = Cat U_re ur_rest.
Proof. exact shapes_uri. Qed.
Print Assumptions letter_macros_regenerated.
Example letter_macro_examples :
  lspell LU (s "u") = [1%nat] /\ lspell LL ([92%N] ++ s "4C" ++ [13%N; 10%N] ++ s "(") = [5; 4; 3]%nat /\
  lspell LR ([92%N] ++ s "000072 x") = [8; 7]%nat /\ lspell LR ([92%N] ++ s "0000072") = [] /\
  lspell LU ([92%N] ++ s "U") = [2%nat] /\ lspell LL (s "x") = [].
Proof. vm_compute. repeat split; reflexivity. Qed.

(* ---- URI: url( in every spelling the macros accept, white space, (string | url characters), white space, ')'
   is ONE URI token (value = unicodesub of the raw text, see classify); URI is the first candidate production for the
   first characters u, U and backslash, so it wins against UNICODE-RANGE / IDENT / FUNCTION ---- *)
Theorem uri_lexeme : forall eu er el_ w1 body w2 rest,
  ok_follow (LUri eu er el_ w1 body w2) rest = true -> wins (LUri eu er el_ w1 body w2) rest.
Proof. exact LexemeUri.uri_lexeme. Qed.
Print Assumptions uri_lexeme.
Example uri_examples :
  (* \75 R\4C\r\n(  'a\'b' ) *)
  ok_follow (LUri (H [55%N; 53%N] [32%N]) (P 82) (H [52%N; 67%N] [13%N; 10%N]) [32%N; 9%N]
                  (UQuoted 39 [P 97; L 39; P 98]) [32%N]) (s "x") = true /\
  (* url(a\)b(\29 ) *)
  ok_follow (LUri (P 117) (P 114) (P 108) [] (UBare [P 97; L 41; P 98; P 40; H [50%N; 57%N] [32%N]]) []) (s ")") = true /\
  (* url( ) *)
  ok_follow (LUri (P 117) (L 114) (P 108) [32%N] (UBare []) []) [] = true /\
  classify (LUri (H [55%N; 53%N] [32%N]) (P 82) (P 108) [] (UBare [P 97]) []) = (s "URI", s "uRl(a)").
Proof. vm_compute. repeat split; reflexivity. Qed.

(* ---- UNICODE-RANGE: u-spelling '+' 1-6 of [0-9a-fA-F?], optionally '-' 1-6 hex digits; the URI production, tried
   first, cannot read its keyword ---- *)
Theorem unicode_range_lexeme : forall eu a b rest,
  ok_follow (LUrange eu a b) rest = true -> wins (LUrange eu a b) rest.
Proof. exact urange_lexeme. Qed.
Print Assumptions unicode_range_lexeme.
Example unicode_range_examples :
  ok_follow (LUrange (P 85) (s "0") (Some (s "7F"))) (s ";") = true /\
  ok_follow (LUrange (H [55%N; 53%N] [32%N]) (s "1?") None) (s " ") = true /\
  ok_follow (LUrange (L 117) (s "123456") None) (s "7") = true /\
  ok_follow (LUrange (P 117) (s "12") None) (s "3") = false.
Proof. vm_compute. repeat split; reflexivity. Qed.

(* ---- the lone backslash: a CHAR token when nothing or a newline character follows (no escape can start) ---- *)
Theorem backslash_delim_lexeme : forall rest, match rest with c2 :: _ => is_nlc c2 | [] => true end = true -> wins (LDelim 92) rest.
Proof. exact backslash_delim. Qed.
Print Assumptions backslash_delim_lexeme.

Theorem ws_lexeme : forall xs rest, ok_follow (LWs xs) rest = true -> wins (LWs xs) rest.
Proof. exact LexemeBase.ws_lexeme. Qed.
Print Assumptions ws_lexeme.
Theorem number_lexeme : forall n rest, ok_follow (LNum n) rest = true -> wins (LNum n) rest.
Proof. exact LexemeBase.number_lexeme. Qed.
Print Assumptions number_lexeme.
Theorem dimension_lexeme : forall n d e0 els rest, ok_follow (LDim n d e0 els) rest = true -> wins (LDim n d e0 els) rest.
Proof. exact LexemeBase.dimension_lexeme. Qed.
Print Assumptions dimension_lexeme.
Theorem percentage_lexeme : forall n rest, ok_follow (LPct n) rest = true -> wins (LPct n) rest.
Proof. exact LexemeBase.percentage_lexeme. Qed.
Print Assumptions percentage_lexeme.
Theorem hash_lexeme : forall els rest, ok_follow (LHash els) rest = true -> wins (LHash els) rest.
Proof. exact LexemeBase.hash_lexeme. Qed.
Print Assumptions hash_lexeme.
Theorem atkeyword_lexeme : forall d e0 els rest, ok_follow (LAt d e0 els) rest = true -> wins (LAt d e0 els) rest.
Proof. exact LexemeBase.at_lexeme. Qed.
Print Assumptions atkeyword_lexeme.
Theorem string_lexeme : forall q els rest, ok_follow (LStr q els) rest = true -> wins (LStr q els) rest.
Proof. exact LexemeBase.string_lexeme. Qed.
Print Assumptions string_lexeme.
Theorem comment_lexeme : forall seg0 st0 gs rest, ok_follow (LComment seg0 st0 gs) rest = true -> wins (LComment seg0 st0 gs) rest.
Proof. exact LexemeBase.comment_lexeme. Qed.
Print Assumptions comment_lexeme.
Theorem match_ops_lexeme : forall o rest, wins (LOp o) rest.
Proof. exact LexemeBase.op_lexeme. Qed.
Print Assumptions match_ops_lexeme.
Theorem delim_lexeme : forall c rest, ok_follow (LDelim c) rest = true -> wins (LDelim c) rest.   (* fast, pure and context delimiters *)
Proof. intros c rest. apply lexeme_wins. Qed.
Print Assumptions delim_lexeme.

(* context-dependent delimiters: the character is a CHAR token whenever ctx_delim_ok holds, i.e.
     ~ | ^ $ *  not followed by '='        /  not followed by '*'        .  not followed by a digit
     +  not followed by a digit or by '.' digit          <  not followed by "!--"
     @  not followed by an identifier start (optional '-', then nmstart char / non-ASCII / backslash + non-newline)
     #  not followed by a name character, non-ASCII or backslash
     -  not followed by an identifier start, a digit, '.' digit, or "->"
     \\  followed by nothing or by a newline character (LF, CR, FF): no escape can start
   (for '/' a following '*' still gives CHAR when the comment is unterminated) *)
Theorem context_delim_lexeme : forall c rest, ctx_delim_ok c rest = true -> wins (LDelim c) rest.
Proof. intros c rest H. apply lexeme_wins. cbn [ok_follow]. rewrite H. apply orb_true_r. Qed.
Print Assumptions context_delim_lexeme.

(* value and type of the token: finish_token gives classify l = tokval (cls l) (text l) *)
Theorem lexeme_token_value : forall l rest, ok_follow l rest = true ->
  finish_token (cls l) (text l) rest = (fst (classify l), text l, snd (classify l)).
Proof. exact finish_classify. Qed.
Print Assumptions lexeme_token_value.

(* which classes carry a resolved value (table regenerated from tokenize2.py l.209-211) *)
Theorem resolved_types_table :
  forallb (fun n => mem_str n resolved_types)
    [s "IDENT"; s "FUNCTION"; s "HASH"; s "DIMENSION"; s "STRING"; s "URI"; s "UNICODE-RANGE"; s "COMMENT"] = true /\
  forallb (fun n => negb (mem_str n resolved_types))
    [s "NUMBER"; s "PERCENTAGE"; s "S"; s "CHAR"; s "ATKEYWORD"; s "INCLUDES"; s "CDO"; s "CDC"] = true /\
  mem_str (s "STRING") clean_types = true /\ mem_str (s "IDENT") clean_types = false /\
  mem_str (s "URI") clean_types = false.
Proof. exact resolved_types_cover. Qed.
Print Assumptions resolved_types_table.

(* ---- the property: any adjacent sequence of lexemes of the proved classes is returned as exactly
        that sequence of (type, value) tokens                                                      *)
Theorem lexeme_sequence : forall ls, adjacent ls = true -> start_ok (concat (map text ls)) = true ->
  option_map (map tv) (tokenize true false (concat (map text ls))) = Some (map classify ls).
Proof. exact lexeme_sequence_lemma. Qed.
Print Assumptions lexeme_sequence.

(* non-vacuity: a sequence with an escaped identifier, a signed dimension, a string with an escaped
   newline, a comment, an at-keyword and operators is adjacent, and its classification is computed *)
Definition example_seq : list lexeme :=
  [ LAt false (P 109) [H [54%N; 53%N] [32%N]; P 100; P 105; P 97];           (* @m\65 dia *)
    LWs [32%N];
    LIdent true (P 120) [H [52%N; 49%N] []; L 33];                            (* -x\41\!   *)
    LOp OIncludes;
    LStr 34 [P 97; E [10%N]; H [50%N; 50%N] [32%N]; P 98];                    (* "a\<nl>\22 b" *)
    LComment [32%N] 1 [ {| gc := 120; gseg := []; gstars := 0 |} ];           (* "/* **x*/" *)
    LDim {| nsign := [45%N]; nint := []; nfrac := Some [53%N] |} false (P 112) [P 120];  (* -.5px *)
    LDelim 59;
    LFunction false (P 117) [P 110];                                          (* un(  *)
    LDelim 45;                                                                 (* '-' before white space *)
    LWs [32%N];
    LIdent false (P 97) [P 110; P 100];                                        (* and( stays IDENT + CHAR *)
    LDelim 40;
    LNum {| nsign := []; nint := [52%N]; nfrac := None |};
    LDelim 41;
    LUri (H [55%N; 53%N] [32%N]) (P 82) (L 108) [32%N] (UQuoted 34 [P 97; H [52%N; 49%N] []; P 103]) [];   (* \75 R\l( "a\41g") *)
    LUrange (P 85) (s "0") (Some (s "7F"));                                    (* U+0-7F *)
    LDelim 92 ].                                                               (* a lone backslash at the end *)
Example example_adjacent : adjacent example_seq = true /\ start_ok (concat (map text example_seq)) = true.
Proof. vm_compute. split; reflexivity. Qed.
Example example_classified :
  map classify example_seq =
  [ (s "MEDIA_SYM", text (nth 0 example_seq (LDelim 0))); (s "S", s " ");
    (s "IDENT", s "-xA" ++ [92%N] ++ s "!"); (s "INCLUDES", s "~=");
    (s "STRING", [34%N] ++ s "a" ++ [34%N] ++ s "b" ++ [34%N]);
    (s "COMMENT", s "/* **x*/"); (s "DIMENSION", s "-.5px"); (s "CHAR", s ";"); (s "FUNCTION", s "un(");
    (s "CHAR", s "-"); (s "S", s " "); (s "IDENT", s "and"); (s "CHAR", s "("); (s "NUMBER", s "4"); (s "CHAR", s ")");
    (s "URI", s "uR" ++ [92%N] ++ s "l( " ++ [34%N] ++ s "aAg" ++ [34%N] ++ s ")"); (s "UNICODE-RANGE", s "U+0-7F");
    (s "CHAR", [92%N]) ].
Proof. vm_compute. reflexivity. Qed.

(* ---- finite sweeps (statements about exactly the listed texts); since extension round 2 every class below also has a
        theorem over all lexemes, the sweeps stay as regression examples of the regenerated tables ---- *)
Theorem uri_sweep_finite : forallb (fun c => tok_is (fst c) (snd c)) uri_cases = true.
Proof. exact uri_sweep. Qed.
Print Assumptions uri_sweep_finite.
Theorem unicode_range_sweep_finite : forallb (fun c => tok_is (fst c) (snd c)) urange_cases = true.
Proof. exact urange_sweep. Qed.
Print Assumptions unicode_range_sweep_finite.
Theorem function_vs_ident_sweep_finite : forallb (fun c => tok_is (fst c) (snd c)) function_cases = true.
Proof. exact function_sweep. Qed.
Print Assumptions function_vs_ident_sweep_finite.
Theorem ident_u_escape_sweep_finite : forallb (fun c => tok_is (fst c) (snd c)) ident_u_cases = true.
Proof. exact ident_u_sweep. Qed.
Print Assumptions ident_u_escape_sweep_finite.
Theorem context_delims_sweep_finite : forallb (fun c => tok_is (fst c) (snd c)) delim_cases = true.
Proof. exact delim_sweep. Qed.
Print Assumptions context_delims_sweep_finite.
(* at-keyword respellings: finite sweep (every symbol, case / hex / literal-escape spellings) *)
Theorem atkeyword_lookup_sweep_finite : forallb (fun c => tok_is (fst c) (snd c)) at_cases = true.
Proof. exact at_sweep. Qed.
Print Assumptions atkeyword_lookup_sweep_finite.

(* ---- RATIO (the root of C09-ratio-merges-number-slash-number): on a text that starts with an integer,
   RATIO matches exactly  int ws* '/' ws* int  directly before ')' and not directly after '(' ---- *)
Theorem ratio_token : forall ds1 w1 w2 ds2, ds1 <> [] -> forallb is_dig ds1 = true -> forallb is_ws w1 = true ->
  forallb is_ws w2 = true -> ds2 <> [] -> forallb is_dig ds2 = true ->
  forall dc prev rest, prev <> Some 40%N ->
  try_prods productions dc false prev (ratio_text ds1 w1 w2 ds2 ++ 41%N :: rest) =
  Some (Step (s "RATIO") (ratio_text ds1 w1 w2 ds2) true).
Proof. exact ratio_token_lemma. Qed.
Print Assumptions ratio_token.
Theorem ratio_needs_paren : forall ds1 w1 w2 ds2, ds1 <> [] -> forallb is_dig ds1 = true -> forallb is_ws w1 = true ->
  forallb is_ws w2 = true -> ds2 <> [] -> forallb is_dig ds2 = true ->
  forall rest, hd_not is_dig rest = true -> hd_not (is_c 41) rest = true ->
  Fails (R:=nat) (m ratio_re) (ratio_text ds1 w1 w2 ds2 ++ rest).
Proof. exact ratio_needs_paren_lemma. Qed.
Theorem ratio_needs_slash : forall ds tail, ds <> [] -> forallb is_dig ds = true -> hd_not is_dig tail = true ->
  ratio_risk tail = false -> Fails (R:=nat) (m ratio_re) (ds ++ tail).
Proof. exact ratio_fails. Qed.
Print Assumptions ratio_needs_slash.
Theorem ratio_not_after_paren : forall t, rmatch ratio_re (Some 40%N) t = None.
Proof. exact ratio_after_paren_lemma. Qed.
Print Assumptions ratio_not_after_paren.
Print Assumptions ratio_needs_paren.
Example ratio_example :
  try_prods productions true false (Some 32%N) (s "4 / 3) x") = Some (Step (s "RATIO") (s "4 / 3") true) /\
  try_prods productions true false (Some 40%N) (s "4/3)") = Some (Step (s "NUMBER") (s "4") true) /\
  try_prods productions true false None (s "4/3.5)") = Some (Step (s "NUMBER") (s "4") true).
Proof. vm_compute. repeat split; reflexivity. Qed.

(* ---- atkeyword_lookup_normalized: EVERY case / literal-escape / hex-escape respelling (relation
   Respell.Respelling of the C10 builder) of the six at-keywords is given its symbol ---- *)
Theorem atkeyword_lookup_normalized : forall kw sym found after,
  In (kw, sym) atkeywords -> Respell.Respelling kw found ->
  finish_token (s "ATKEYWORD") found after = (sym, found, found).
Proof. exact RespellFacts.atkeyword_respell_lemma. Qed.
Print Assumptions atkeyword_lookup_normalized.
Theorem atkeyword_classified : forall kw sym found,
  In (kw, sym) atkeywords -> Respell.Respelling kw found -> tokval (s "ATKEYWORD") found = (sym, found).
Proof. exact atkeyword_tokval_lemma. Qed.
Print Assumptions atkeyword_classified.

(* ---- configuration: classification is a function of the production list only.  The DXImageTransform setting
   prepends dx_production; for every text that does not start with 'p' the first token is unchanged ---- *)
Theorem dx_setting_irrelevant : forall c t dc prev, N.eqb c 112 = false ->
  try_prods (dx_production :: productions) dc false prev (c :: t) = try_prods productions dc false prev (c :: t).
Proof. exact dx_irrelevant_lemma. Qed.
Print Assumptions dx_setting_irrelevant.
Example dx_setting_example :
  try_prods (dx_production :: productions) true false None (s "progid:DXImageTransform.Microsoft.Alpha(opacity=50)") =
    Some (Step (s "FUNCTION") (s "progid:DXImageTransform.Microsoft.Alpha(") true) /\
  try_prods productions true false None (s "progid:DXImageTransform.Microsoft.Alpha(opacity=50)") =
    Some (Step (s "IDENT") (s "progid") true).
Proof. exact dx_function_example. Qed.

(* ---- escape resolution ----
   hex_escape_resolved (partial): for EVERY canonical element list in which an escaped backslash is not
   directly followed by a hex digit (wfu_els), Tokenizer.unicodesub returns the denoted characters:
   hex escapes replaced (beyond U+10FFFF kept verbatim), one optional terminator swallowed, literal
   escapes and escaped newlines verbatim.  The excluded case is refuted below.                      *)
Theorem hex_escape_resolved_partial : forall els, wfu_els els = true -> unicodesub (render els) = denote els.
Proof. exact hex_escape_resolved_lemma. Qed.
Print Assumptions hex_escape_resolved_partial.

Theorem ident_value : forall d e0 els, wfu_els (dash_el d ++ e0 :: els) = true ->
  classify (LIdent d e0 els) = (s "IDENT", denote (dash_el d ++ e0 :: els)).
Proof. exact ident_value_lemma. Qed.
Theorem hash_value : forall els, wfu_els els = true -> classify (LHash els) = (s "HASH", 35%N :: denote els).
Proof. exact hash_value_lemma. Qed.
Print Assumptions hash_value.
Print Assumptions ident_value.

Example hex_escape_example :
  wfu_els [P 97; H [52%N; 49%N] [13%N; 10%N]; L 122; H [48%N; 48%N; 48%N; 48%N; 54%N; 49%N] []; L 92; P 120;
           H [49%N; 49%N; 48%N; 48%N; 48%N; 48%N] [32%N]] = true /\
  denote [P 97; H [52%N; 49%N] [13%N; 10%N]; L 122; H [48%N; 48%N; 48%N; 48%N; 54%N; 49%N] []; L 92; P 120;
          H [49%N; 49%N; 48%N; 48%N; 48%N; 48%N] [32%N]] =
  s "aA" ++ [92%N] ++ s "za" ++ [92%N; 92%N] ++ s "x" ++ [92%N] ++ s "110000 ".
Proof. vm_compute. split; reflexivity. Qed.

(* ---- where the pinned code leaves the grammar (open findings, witnesses replayed by the harness) ----
   Full statement that does NOT hold:  forall els, wf_els ... els [] -> value (IDENT (render els)) = denote els.
   An escaped backslash followed by a hex digit is re-read as a hex escape:                          *)
Theorem hex_escape_resolved_refuted :
  wf_els nmchar_plain false (tl esc_bs_witness) [] = true /\
  tok_is (render esc_bs_witness) [(s "IDENT", denote esc_bs_witness)] = false /\
  tok_is (render esc_bs_witness) [(s "IDENT", [92%N] ++ s "A")] = true.
Proof. exact esc_bs_refuted. Qed.
Print Assumptions hex_escape_resolved_refuted.

(* NUMBER '/' NUMBER ')' not preceded by '(' is one RATIO token; lexeme_sequence excludes it through
   ratio_risk in ok_follow (LNum _)                                                                 *)
Theorem number_slash_number_refuted :
  tok_is (s "4/3)") [T "NUMBER" "4"; T "CHAR" "/"; T "NUMBER" "3"; T "CHAR" ")"] = false /\
  tok_is (s "4/3)") [T "RATIO" "4/3"; T "CHAR" ")"] = true.
Proof. exact ratio_refuted. Qed.
Print Assumptions number_slash_number_refuted.
