(* C15 -- selectors are bound to namespace URIs, not prefixes.  Property theorems over the model
   CssV.Namespaces (model of util._Namespaces, CSSStyleSheet namespaces/_cleanNamespaces/deleteRule/insertRule,
   CSSNamespaceRule, Selector.append, do_css_Selector).  Proofs: CssV.NamespacesFacts. *)
From CssV Require Import Base Namespaces NamespacesFacts.

(* 1. A selector that uses an undeclared prefix is rejected: the whole rule set is dropped by the sheet parser. *)
Theorem undeclared_prefix_rejected : forall d e sh k p n its t,
  In (PSel k (FPfx p) n) its -> dget d p = None ->
  resolve_all d its = None /\ parse_loop d e sh (SStyle its :: t) = parse_loop d 3 sh t.
Proof. exact undeclared_rule_dropped. Qed.
Print Assumptions undeclared_prefix_rejected.

(* 2. Every accepted type / universal / attribute / negation item is stored with the URI its prefix (or the
      default namespace; never for attributes) denotes in the declarations in force. *)
Theorem resolve_binds_uri : forall d its r, resolve_all d its = Some r -> Forall2 (binds d) its r.
Proof. exact resolve_all_binds. Qed.
Print Assumptions resolve_binds_uri.

(* 3. Frame: no sequence of namespace operations (successful or rejected) changes any selector item, on ANY sheet
      (since the repair of __delitem__ no order hypothesis is needed). *)
Theorem ns_ops_preserve_pairs : forall ops sh,
  pairs (run ops sh) = pairs sh /\ items_of (run ops sh) = items_of sh.
Proof. exact pairs_frame. Qed.
Print Assumptions ns_ops_preserve_pairs.
(* and every history leaves the @namespace rules of a parsed sheet in front of its rule sets *)
Theorem ns_ops_keep_order : forall stmts ops, ordered (run ops (fst (parse stmts))) = true.
Proof. exact order_kept. Qed.
Print Assumptions ns_ops_keep_order.

(* 4. In every reachable sheet every @namespace rule still holds, and prints, its prefix and URI
      (after the repair of _setPrefix; on the pinned tree `@namespace "u";` + namespaces[''] = "u" printed `@namespace;`). *)
Theorem ns_rule_keeps_uri : forall stmts ops r,
  In r (nsl (run ops (fst (parse stmts)))) -> ser_ns r = Some (prefix r, uri r) /\ In (NUri (uri r)) (items r).
Proof. exact ns_rule_keeps_uri_parsed. Qed.
Print Assumptions ns_rule_keeps_uri.

(* 5. The last rule of a URI that a selector still uses cannot be deleted -- by deleteRule, and by no history. *)
Theorem delete_protected : forall sh i r,
  nth_error sh i = Some (RNs r) -> used (uri r) sh = true -> cnt (uri r) sh = 1 ->
  step (ODelRule i) sh = (sh, Raise ENoMod) /\ delete_rule i sh = (sh, Raise ENoMod).
Proof. exact delete_protected_step. Qed.
Print Assumptions delete_protected.
Theorem used_uri_keeps_declaration : forall sh ops k u n,
  In (IPair k (UStr u) n) (items_of sh) -> (exists r, In r (nsl sh) /\ uri r = u) ->
  In (IPair k (UStr u) n) (items_of (run ops sh)) /\ exists r, In r (nsl (run ops sh)) /\ uri r = u.
Proof. exact used_uri_stays_declared. Qed.
Print Assumptions used_uri_keeps_declaration.

(* 5b. Histories that MIX namespace operations with selector-side operations (Selector.selectorText in place,
      SelectorList.selectorText / appendSelector / [i]= / del, rule.selectorText, insertion and deletion of rule sets
      at top level and inside @media).  `used` is a function of the current sheet, so delete_protected above already
      speaks about the current selectors; in addition: *)
(* a selector-side operation leaves the @namespace rules alone and every item it writes is resolved against the
   sheet's current mapping (so resolve_binds_uri applies to it); an undeclared prefix makes resolve fail *)
Theorem selector_ops_bind_uri : forall o sh,
  nsl (fst (sstep o sh)) = nsl sh /\
  forall it, In it (items_of (fst (sstep o sh))) -> In it (items_of sh) \/ exists pi, resolve (view sh) pi = Some it.
Proof. exact selector_op_spec. Qed.
Print Assumptions selector_ops_bind_uri.
(* in every sheet reachable from a parse by ANY mixed history, every selector item with a (non-empty) URI is
   declared by some @namespace rule: no interleaving of selector edits and namespace deletions orphans a used URI *)
Theorem used_uri_keeps_declaration_mixed : forall stmts ops k u n,
  In (IPair k (UStr u) n) (items_of (mrun ops (fst (parse stmts)))) -> u <> [] ->
  exists r, In r (nsl (mrun ops (fst (parse stmts)))) /\ uri r = u.
Proof. exact used_uri_declared_mixed. Qed.
Print Assumptions used_uri_keeps_declaration_mixed.
Theorem bound_invariant : forall ops sh, Bound sh -> Bound (mrun ops sh).
Proof. exact mrun_bound. Qed.
Print Assumptions bound_invariant.
Theorem delete_protected_mixed : forall sh i r k n,
  nth_error sh i = Some (RNs r) -> In (IPair k (UStr (uri r)) n) (items_of sh) -> cnt (uri r) sh = 1 ->
  mstep (MN (ODelRule i)) sh = (sh, Raise ENoMod).
Proof. exact delete_protected_bound. Qed.
Print Assumptions delete_protected_mixed.

(* 6. sheet.namespaces = the mapping of the @namespace rules.
      Full statement (NOT proved; its former counter-example is closed, see 6b; no counter-example in the exploration):
        forall stmts ops, let sh := run ops (fst (parse stmts)) in view sh = rev (ns_pairs sh)
      Proved part: it holds for every clean sheet (distinct prefixes, distinct URIs), where moreover
      _cleanNamespaces removes nothing (every rule is effective). *)
Theorem view_matches_rules_partial : forall sh,
  Clean sh ->
  view sh = rev (ns_pairs sh) /\
  (forall p u, dget (view sh) p = Some u <-> exists r, In r (nsl sh) /\ prefix r = p /\ uri r = u) /\
  clean sh = (sh, Ok).
Proof. exact view_matches_clean. Qed.
Print Assumptions view_matches_rules_partial.

(* 6b. Since "fix: insertRule restores the rule list when _cleanNamespaces refuses" every REJECTED operation
       (namespace or selector side, whatever the exception) leaves the sheet exactly as it was; the former
       counter-example to view_matches_rules on reachable sheets (re-declaring a bound prefix by a rule object:
       NoModificationAllowedErr half-way, rule left inserted) is gone with it. *)
Theorem rejected_operation_unchanged : forall o sh e, snd (mstep o sh) = Raise e -> fst (mstep o sh) = sh.
Proof. exact mstep_rejected. Qed.
Print Assumptions rejected_operation_unchanged.

Definition wA : list stmt :=
  [SNs (s "p") (s "u1"); SNs (s "q") (s "u2"); SStyle [PSel KType (FPfx (s "q")) (s "a")]].
Example redeclare_is_rolled_back :
  step (OAddObj (s "p") (s "u2")) (fst (parse wA)) = (fst (parse wA), Raise ENoMod)
  /\ view (fst (parse wA)) = [(s "q", s "u2"); (s "p", s "u1")] /\ Clean (fst (parse wA)).
Proof. vm_compute. repeat split; repeat (apply NoDup_cons; [simpl; intuition congruence|]); apply NoDup_nil. Qed.

(* 7. The serialised sheet re-parses to the same pairs.
      Full statement (REFUTED, two open findings):
        forall stmts ops, let sh := run ops (fst (parse stmts)) in pairs (reparse sh) = pairs sh
      Proved part: it holds for every clean sheet (distinct prefixes, distinct non-empty URIs, @namespace rules in
      front, every rule printing its own prefix and URI) whose items are all SPELLABLE under the view
      (spellable_b: `*|x` always; `|x` for non-attributes; an unbound item only without a default namespace; a URI
      through the default namespace or any prefix; an attribute only through a NON-default prefix): the URI -> prefix
      choice of do_css_Selector and the parse-time prefix -> URI resolution are inverse there. *)
Theorem reparse_same_pairs_partial : forall sh,
  Clean sh -> AllGood sh -> ordered sh = true -> UrisNonEmpty sh -> Spellable sh ->
  items_of (reparse sh) = items_of sh /\ pairs (reparse sh) = pairs sh.
Proof. exact reparse_items. Qed.
Print Assumptions reparse_same_pairs_partial.
(* for sheets reached from a parse by namespace operations the two structural hypotheses are theorems *)
Theorem reparse_same_pairs_reachable_partial : forall stmts ops,
  let sh := run ops (fst (parse stmts)) in
  Clean sh -> UrisNonEmpty sh -> Spellable sh ->
  items_of (reparse sh) = items_of sh /\ pairs (reparse sh) = pairs sh.
Proof. exact reparse_items_reachable. Qed.
Print Assumptions reparse_same_pairs_reachable_partial.
Theorem reparse_same_pairs_refuted_unbound : exists stmts ops,
  let sh := run ops (fst (parse stmts)) in pairs (reparse sh) <> pairs sh.
Proof. exists [SStyle [PSel KType FNone (s "e")]], [OSet [] (s "d")]. vm_compute. congruence. Qed.
Print Assumptions reparse_same_pairs_refuted_unbound.
Theorem reparse_same_pairs_refuted_attribute : exists stmts,
  let sh := fst (parse stmts) in pairs (reparse sh) <> pairs sh.
Proof.
  exists [SNs (s "p") (s "u"); SNs [] (s "u"); SStyle [PSel KAttr (FPfx (s "p")) (s "a")]]. vm_compute. congruence.
Qed.
Print Assumptions reparse_same_pairs_refuted_attribute.

(* ---- non-vacuity *)
Definition wB : list stmt :=
  [SNs (s "p") (s "u1"); SNs [] (s "d");
   SStyle [PSel KType (FPfx (s "p")) (s "a"); PSel KType FNone (s "e"); PSel KAttr (FPfx (s "p")) (s "b");
           PSel KUniv FStar (s "*"); PSel KType FEmpty (s "c")];
   SStyle [PSel KType (FPfx (s "zz")) (s "x")]].
Example parse_wB :
  pairs (fst (parse wB)) =
    [IPair KType (UStr (s "u1")) (s "a"); IPair KType (UStr (s "d")) (s "e"); IPair KAttr (UStr (s "u1")) (s "b");
     IPair KUniv UAny (s "*"); IPair KType (UStr []) (s "c")]
  /\ length (fst (parse wB)) = 3                      (* the rule with the undeclared prefix zz is gone *)
  /\ pairs (reparse (fst (parse wB))) = pairs (fst (parse wB)).
Proof. vm_compute. repeat split. Qed.
(* renaming (second prefix for the same URI), a rejected re-declaration, a rejected deletion, a deletion through
   the mapping: the pairs stay, the view follows the rules, the sheet re-parses to the same pairs *)
Example history_wB :
  let ops := [OSet (s "q") (s "u1"); OSet (s "q") (s "u2"); ODel (s "q"); OAddText (s "r") (s "u3"); ODel (s "r")] in
  let sh := run ops (fst (parse wB)) in
  map (fun o => snd (step o (fst (parse wB)))) [OSet (s "q") (s "u1"); OSet (s "p") (s "u2"); ODel (s "p")]
    = [Ok; Raise ENoMod; Raise ENoMod]
  /\ view sh = [(s "q", s "u1"); ([], s "d")] /\ Clean sh /\ ordered sh = true
  /\ pairs sh = pairs (fst (parse wB)) /\ pairs (reparse sh) = pairs sh.
Proof.
  vm_compute. repeat split;
    repeat (apply NoDup_cons; [simpl; intuition congruence|]); apply NoDup_nil.
Qed.
Example delete_protected_nonvacuous :
  let sh := fst (parse wB) in
  nth_error sh 0 = Some (RNs (mk_text (s "p") (s "u1"))) /\ used (s "u1") sh = true /\ cnt (s "u1") sh = 1.
Proof. vm_compute. repeat split. Qed.

(* a selector is re-targeted in place to an unused namespace, which then cannot be deleted any more (neither through
   the mapping nor by deleteRule); an undeclared prefix is rejected; a rule set inserted into @media is bound through
   the sheet's mapping *)
Example mixed_history :
  let sh0 := fst (parse [SNs (s "q") (s "u1"); SNs [] (s "d"); SStyle [PSel KType FNone (s "e")];
                         SMedia [[PSel KType FEmpty (s "b")]]]) in
  let ops := [MS (SReplace (ATop 2) 0 (PSel KNeg (FPfx (s "q")) (s "x")));
              MS (SReplace (ATop 2) 0 (PSel KType (FPfx (s "zz")) (s "x")));
              MN (ODel (s "q")); MN (ODelRule 0);
              MS (SInsInner 3 [PSel KType FNone (s "y"); PSel KAttr (FPfx (s "q")) (s "a")] (Some 0))] in
  map (fun n => snd (mstep (nth n ops (MN (ODelRule 9))) (mrun (firstn n ops) sh0))) [0; 1; 2; 3; 4]
    = [Ok; Raise ENamespace; Raise ENoMod; Raise ENoMod; Ok]
  /\ pairs (mrun ops sh0) =
      [IPair KNeg (UStr (s "u1")) (s "x"); IPair KType (UStr (s "d")) (s "y"); IPair KAttr (UStr (s "u1")) (s "a");
       IPair KType (UStr []) (s "b")]
  /\ pairs (reparse (mrun ops sh0)) = pairs (mrun ops sh0).
Proof. vm_compute. repeat split. Qed.

(* non-vacuity of reparse_same_pairs_partial: the sheet wB (every prefix form, an attribute with a prefixed URI, a
   default namespace) and the sheet after a renaming history satisfy all its hypotheses *)
Example reparse_partial_nonvacuous :
  let sh := fst (parse wB) in
  let sh2 := run [OSet (s "q") (s "u1"); OAddText (s "r") (s "u3")] sh in
  (Clean sh /\ AllGood sh /\ ordered sh = true /\ UrisNonEmpty sh /\ Spellable sh) /\
  (Clean sh2 /\ UrisNonEmpty sh2 /\ Spellable sh2) /\ length (pairs sh2) = 5.
Proof.
  assert (G : AllGood (fst (parse wB))) by apply parse_allgood.
  vm_compute. repeat split; try exact G;
    repeat (apply NoDup_cons; [simpl; intuition congruence|]); apply NoDup_nil.
Qed.
