From CssV Require Import Base Namespaces NamespacesFacts.
