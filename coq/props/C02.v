(* C02 -- Well-formed CSS is parsed faithfully into the object model.
   Property theorems only; proofs live in CssV.GrammarFacts.

   G (CssV.Grammar): sheet / statement / declaration / value AST with every insignificant choice (whitespace, comments,
   quote kind, letter case of keywords, bare vs quoted URL) taken from a layout (a stream of naturals);
   render sh lay : list tok, text_of, expected_model sh : js (the specification of the object model).
   Skeleton / Upto (C04): dispatch loops and _tokensupto2;  Selector (C16): selector machine.

   `Delimited sh lay` is a DECIDABLE side condition (a boolean function of the derivation): every rendered statement,
   selector, declaration is one closed run for the _tokensupto2 call that cuts it.  It is evaluated by the harness on
   every generated derivation (extracted with the grammar) and holds on all of them; see design_notes/C02.md.       *)
From CssV Require Import Base Tokenizer Upto Skeleton Grammar GrammarFacts GrammarWf GrammarPP.
From CssV Require ProdParserValue.
From CssV Require Selector.

(* "yields exactly one rule per statement, in source order, carrying the rule type": the top-level loop cuts the token
   list of ANY derivation of G under ANY layout into one item per statement, in order; the item's kind is chosen by the
   first token and it carries exactly the tokens rendered for that statement; comments are comment items in place;
   whitespace between statements is irrelevant (quantification over lay).                                        *)
Theorem skeleton_faithful : forall sh lay,
  Delimited sh lay -> skeleton (render sh lay ++ [eof_tok]) = sheet_items sh lay.
Proof. intros sh lay H. apply skeleton_faithful_lemma. now apply delimited_top_of. Qed.
Print Assumptions skeleton_faithful.

Theorem one_rule_per_statement : forall sh lay,
  Delimited sh lay -> length (skeleton (render sh lay ++ [eof_tok])) = length sh.
Proof. intros sh lay H. apply skeleton_count_lemma. now apply delimited_top_of. Qed.
Print Assumptions one_rule_per_statement.

(* "@media incl. nesting": the @media handler splits its tokens into the media query run, the rule run, nothing
   trailing, and its inner loop sees one item per inner statement (which may again be an @media rule).          *)
Theorem media_faithful : forall sh lay gk g0 media g1 g2 body g,
  Delimited sh lay -> In (SMedia gk g0 media g1 g2 body, g) sh ->
  media_split (tl (r_stmt lay (SMedia gk g0 media g1 g2 body))) =
  mkMP (media_head lay g0 media g1 ++ [ch "{"]) [] (media_rules lay g2 body ++ [ch "}"]) None
       (Some (map (fun p => stmt_item lay (fst p)) body)).
Proof. intros. apply media_faithful_lemma. eapply delimited_media; eauto. Qed.
Print Assumptions media_faithful.

(* "selectors, property names, value components, priorities ... that were written": a rule set reaches the selector
   handler as exactly the selectors of the group (split at the top-level commas) and the property handler as exactly
   the (name tokens, value run, priority tokens) of every declaration, comments between declarations in place.  *)
Theorem ruleset_faithful : forall sh lay sels b g,
  Delimited sh lay -> In (SStyle sels b, g) sh ->
  ruleset_layer (r_stmt lay (SStyle sels b)) = Some (map r_selector sels, block_layers lay false b).
Proof. intros. apply ruleset_layer_lemma. eapply delimited_style; eauto. Qed.
Print Assumptions ruleset_faithful.

(* every rule of a well-ordered sheet (@charset first, then @import, then @namespace, then the rest; comments and
   unknown at-rules anywhere) is kept by the `expected` machine of the sheet parser, for every layout            *)
Theorem order_machine_accepts : forall sh lay,
  WellOrdered sh -> forallb (fun b => b) (orun 0 (events sh lay)) = true.
Proof. exact order_machine_accepts_lemma. Qed.
Print Assumptions order_machine_accepts.

(* "parseComments=False removes comments and nothing else", at the skeleton: for ALL token lists (no grammar) whose
   COMMENT tokens are comments, dropping the comment tokens before the parse gives the same statements with the comment
   items removed and the comment tokens filtered out of the statement runs.                                      *)
Theorem parsecomments_off : forall ts,
  inert_comments ts -> skeleton (filter nc ts) = remove_comments (skeleton ts).
Proof. exact parsecomments_off_lemma. Qed.
Print Assumptions parsecomments_off.

(* F (full statement, kept visible; not provable without a model of the production-combinator grammars):
     parse_faithful : forall sh lay, Generated sh ->
       extract (parseString (text_of (render sh lay))) = expected_model sh
   where extract is the CSSOM reader.  It is checked end to end by the harness on every generated derivation, for
   validate on/off and parseComments on/off.

   P: the parse is  build o skeleton o tokenize.  With the unmodelled handlers as Section variables
   (value_grammar_faithful, media_grammar_faithful, simple_rules_faithful) and C16's selector machine accepting the
   rendered selectors (selector_accepts, stated as SelectorsAccepted), the model built from the skeleton of the rendered
   tokens is the expected model -- for all sh, lay.  The hypothesis tokenize_render (C09: the tokenizer maps
   text_of (render sh lay) back to render sh lay ++ [EOF]) connects the statement to the text.                  *)
Theorem parse_faithful_partial :
  forall (build_value build_media : list tok -> js) (build_other : kind -> list tok -> js) (lay : layout),
  (forall d ga, build_value (decl_value lay d (gopt lay ga)) = m_value d) ->                      (* value_grammar_faithful *)
  (forall g0 media g1, build_media (media_head lay g0 media g1 ++ [ch "{"]) = m_mlist media) ->   (* media_grammar_faithful *)
  (forall ns x, match x with SStyle _ _ | SMedia _ _ _ _ _ _ | SComment _ => False | _ => True end ->
                build_other (kind_of x) (r_stmt lay x) = m_stmt ns x) ->                          (* simple_rules_faithful *)
  forall sh toks,
  Delimited sh lay ->
  (forall x g, In (x, g) sh -> SelectorsAccepted (ns_of sh) x) ->                             (* selector_accepts *)
  tokenize true true (text_of (render sh lay)) = Some toks ->
  map strip_pos toks = render sh lay ++ [eof_tok] ->                                              (* tokenize_render *)
  JL (map (build_item build_value build_media build_other (sheet_depth sh) (ns_of sh)) (skeleton (map strip_pos toks)))
  = expected_model sh.
Proof.
  intros bv bm bo lay Hv Hm Ho sh toks Hd Hs _ Ht. rewrite Ht.
  exact (parse_faithful_partial_lemma bv bm bo lay Hv Hm Ho sh Hd Hs).
Qed.
Print Assumptions parse_faithful_partial.

(* the same with the decidable checks the harness evaluates on every generated derivation in place of Delimited and
   selector_accepts (selectors_ok runs C16's machine on the rendered selectors and compares with the specification) *)
Theorem parse_faithful_checked :
  forall (build_value build_media : list tok -> js) (build_other : kind -> list tok -> js) (lay : layout),
  (forall d ga, build_value (decl_value lay d (gopt lay ga)) = m_value d) ->
  (forall g0 media g1, build_media (media_head lay g0 media g1 ++ [ch "{"]) = m_mlist media) ->
  (forall ns x, match x with SStyle _ _ | SMedia _ _ _ _ _ _ | SComment _ => False | _ => True end ->
                build_other (kind_of x) (r_stmt lay x) = m_stmt ns x) ->
  forall sh,
  delimited sh lay = true -> selectors_ok sh = true ->
  JL (map (build_item build_value build_media build_other (sheet_depth sh) (ns_of sh)) (skeleton (render sh lay ++ [eof_tok])))
  = expected_model sh.
Proof.
  intros bv bm bo lay Hv Hm Ho sh Hd Hs.
  exact (parse_faithful_partial_lemma bv bm bo lay Hv Hm Ho sh Hd (selectors_ok_accepted sh Hs)).
Qed.
Print Assumptions parse_faithful_checked.

(* ---- no per-case check: Delimited follows from AST-level well-formedness, for EVERY layout.
   WfSheet sh (GrammarWf.wf_sheet, a boolean function of the derivation alone): property names, identifiers, media types and
   features, page names, namespace prefixes, at-keywords, unicode-ranges and comment texts do not start with a bracket
   or delimiter character ( { } [ ] ( ) ; : ! , ); numbers are decimal lexemes (wf_num); the prelude of an unknown
   at-rule has no top-level block; a rule set starts with a selector token; every selector (AST of CssV.Selector,
   rendered without any layout) is a closed, counter-neutral run in the three modes that cut it.  Everything that depends
   on the layout (gaps with whitespace/comments, quote kind, url form, keyword case) and the whole value /
   declaration / media / statement structure, nested @media included, is proved.                                 *)
Theorem delimited_of_wf : forall sh lay, WfSheet sh -> Delimited sh lay.
Proof. exact delimited_of_wf_lemma. Qed.
Print Assumptions delimited_of_wf.

Theorem skeleton_faithful_wf : forall sh lay,
  WfSheet sh -> skeleton (render sh lay ++ [eof_tok]) = sheet_items sh lay.
Proof. intros sh lay H. apply skeleton_faithful. now apply delimited_of_wf. Qed.
Print Assumptions skeleton_faithful_wf.

Theorem media_faithful_wf : forall sh lay gk g0 media g1 g2 body g,
  WfSheet sh -> In (SMedia gk g0 media g1 g2 body, g) sh ->
  media_split (tl (r_stmt lay (SMedia gk g0 media g1 g2 body))) =
  mkMP (media_head lay g0 media g1 ++ [ch "{"]) [] (media_rules lay g2 body ++ [ch "}"]) None
       (Some (map (fun p => stmt_item lay (fst p)) body)).
Proof. intros. eapply media_faithful; eauto. now apply delimited_of_wf. Qed.
Print Assumptions media_faithful_wf.

Theorem ruleset_faithful_wf : forall sh lay sels b g,
  WfSheet sh -> In (SStyle sels b, g) sh ->
  ruleset_layer (r_stmt lay (SStyle sels b)) = Some (map r_selector sels, block_layers lay false b).
Proof. intros. eapply ruleset_faithful; eauto. now apply delimited_of_wf. Qed.
Print Assumptions ruleset_faithful_wf.

Theorem parse_faithful_partial_wf :
  forall (build_value build_media : list tok -> js) (build_other : kind -> list tok -> js) (lay : layout),
  (forall d ga, build_value (decl_value lay d (gopt lay ga)) = m_value d) ->
  (forall g0 media g1, build_media (media_head lay g0 media g1 ++ [ch "{"]) = m_mlist media) ->
  (forall ns x, match x with SStyle _ _ | SMedia _ _ _ _ _ _ | SComment _ => False | _ => True end ->
                build_other (kind_of x) (r_stmt lay x) = m_stmt ns x) ->
  forall sh,
  WfSheet sh -> selectors_ok sh = true ->
  JL (map (build_item build_value build_media build_other (sheet_depth sh) (ns_of sh)) (skeleton (render sh lay ++ [eof_tok])))
  = expected_model sh.
Proof.
  intros bv bm bo lay Hv Hm Ho sh Hw Hs.
  exact (parse_faithful_checked bv bm bo lay Hv Hm Ho sh (delimited_of_wf sh lay Hw) Hs).
Qed.
Print Assumptions parse_faithful_partial_wf.

Example wf_example : WfSheet ex_sheet /\ forall lay, Delimited ex_sheet lay.
Proof. split; [exact ex_wf|intros lay; apply delimited_of_wf, ex_wf]. Qed.

(* ---- non-vacuity: a derivation with @charset, comment, @import with a media query, @namespace, a rule set with two
   selectors and two declarations (function, string containing ';}' , calc, !important, url), a nested @media and an
   unknown at-rule satisfies every hypothesis above under a layout that uses every gap form.                       *)
Example delimited_example : Delimited ex_sheet ex_lay /\ Delimited ex_sheet [] /\ WellOrdered ex_sheet.
Proof. exact (conj ex_delimited (conj ex_delimited0 ex_well_ordered)). Qed.

Example skeleton_faithful_example :
  length (skeleton (render ex_sheet ex_lay ++ [eof_tok])) = 7 /\
  map (fun i => match i with IStmt k _ => Some k | IComment _ => None end) (skeleton (render ex_sheet ex_lay ++ [eof_tok]))
  = [Some KCharset; None; Some KImport; Some KNamespace; Some KRuleset; Some KMedia; Some KUnknown].
Proof. rewrite (skeleton_faithful _ _ ex_delimited). vm_compute. split; reflexivity. Qed.

Example parsecomments_off_example :
  inert_comments (render ex_sheet ex_lay ++ [eof_tok]) /\
  length (skeleton (filter nc (render ex_sheet ex_lay ++ [eof_tok]))) = 6 /\
  existsb (fun t => tyis t "COMMENT") (render ex_sheet ex_lay) = true.
Proof.
  split; [apply inert_b_sound; vm_compute; reflexivity|]. split; [|exact ex_has_comment_tokens].
  rewrite parsecomments_off by (apply inert_b_sound; vm_compute; reflexivity).
  rewrite (skeleton_faithful _ _ ex_delimited). vm_compute. reflexivity.
Qed.

Example tokenize_render_example : tokenize_render_ok ex_sheet ex_lay = true /\ selectors_ok ex_sheet = true.
Proof. exact (conj ex_tokenize_render ex_selectors). Qed.

Example order_machine_example : orun 0 (events ex_sheet ex_lay) = repeat true (length (events ex_sheet ex_lay))
                                /\ orun 0 [OBody; OImport] = [true; false].
Proof. vm_compute. split; reflexivity. Qed.

(* ================================================================== hypotheses discharged through the PP engine model
   (GrammarPP.v on top of ProdParser*.v; the existing theorems above are unchanged).

   parse_faithful_fragment: parse_faithful_partial generalised to predicates okd / okm / oks on the declarations, @media
   heads and simple at-rules THAT OCCUR IN THE SHEET (OkSheet): the unmodelled handlers have to be faithful only there.  *)
Theorem parse_faithful_fragment :
  forall (build_value build_media : list tok -> js) (build_other : kind -> list tok -> js) (lay : layout)
         (okd : decl -> Prop) (okm : mlist -> Prop) (oks : stmt -> Prop),
  (forall d ga, okd d -> build_value (decl_value lay d (gopt lay ga)) = m_value d) ->
  (forall g0 media g1, okm media -> build_media (media_head lay g0 media g1 ++ [ch "{"]) = m_mlist media) ->
  (forall ns x, match x with SStyle _ _ | SMedia _ _ _ _ _ _ | SComment _ => False | _ => True end -> oks x ->
                build_other (kind_of x) (r_stmt lay x) = m_stmt ns x) ->
  forall sh,
  WfSheet sh -> selectors_ok sh = true -> OkSheet okd okm oks sh ->
  JL (map (build_item build_value build_media build_other (sheet_depth sh) (ns_of sh)) (skeleton (render sh lay ++ [eof_tok])))
  = expected_model sh.
Proof.
  intros bv bm bo lay okd okm oks Hv Hm Ho sh Hw Hs Hok.
  exact (parse_faithful_fragment_lemma bv bm bo lay okd okm oks Hv Hm Ho sh
           (delimited_of_wf sh lay Hw) (selectors_ok_accepted sh Hs) Hok).
Qed.
Print Assumptions parse_faithful_fragment.

(* value_grammar_faithful is a THEOREM on the fragment okd_pp (= ProdParserValue.wf_valuex_js: every term of the
   declaration is a single token -- identifier / colour keyword, number, dimension, percentage, string, url, hex colour,
   unicode-range -- or rgb(r, g, b), with PP's side conditions): build_value is instantiated with
   ProdParserValue.build_valuex, i.e. the PropertyValue production tree regenerated from value.py run by the engine model
   of prodparser.py (depth budget 3) and the reader of its items.  Any layout.                                        *)
Theorem value_grammar_faithful_pp : forall lay d ga,
  okd_pp d -> ProdParserValue.build_valuex (decl_value lay d (gopt lay ga)) = m_value d.
Proof. intros lay d ga H. now apply ProdParserValue.value_grammar_faithful_x. Qed.
Print Assumptions value_grammar_faithful_pp.

(* media_grammar_faithful is a THEOREM on the fragment okm_pp: build_media is instantiated with build_media_pp = the
   MediaList / MediaQuery trees regenerated from medialist.py / mediaquery.py run by the engine model (depth budget 6),
   the MediaList post-processing (repetitions, `all`) and the reader rd_mq (the harness extractor x_mquery in Gallina).
   okm_pp: every query is accepted by the model (known media type, or an unknown one without only/not; a query followed by
   a comma stops there: ProdParserMedia.wf_ml), media types are plain identifiers, feature values are single number /
   dimension / percentage / non-colour identifier tokens.  Any layout, any gaps around the list.                     *)
Theorem media_grammar_faithful_pp : forall lay g0 media g1,
  okm_pp media -> build_media_pp (media_head lay g0 media g1 ++ [ch "{"]) = m_mlist media.
Proof. exact GrammarPP.media_grammar_faithful_pp. Qed.
Print Assumptions media_grammar_faithful_pp.

(* NO handler hypothesis left: for every well-formed sheet that consists of rule sets, comments and @media rules (nested
   to any depth) whose declarations are in okd_pp and whose media lists are in okm_pp, for every layout, the model built
   from the skeleton of the rendered tokens by the modelled layers + the PP engine on the regenerated grammars is the
   expected model.  (Still outside: the tokenizer step -- tokenize_render, C09 -- and C16's selector machine, entering
   through the decidable selectors_ok; the simple at-rules @charset/@import/@namespace/@page/@font-face/unknown, whose
   heads are not modelled: no_simple excludes them.)                                                               *)
Theorem parse_faithful_pp : forall lay sh,
  WfSheet sh -> selectors_ok sh = true -> OkSheet okd_pp okm_pp no_simple sh ->
  JL (map (build_item ProdParserValue.build_valuex build_media_pp (fun _ _ => JL []) (sheet_depth sh) (ns_of sh))
          (skeleton (render sh lay ++ [eof_tok]))) = expected_model sh.
Proof. exact parse_faithful_pp_lemma. Qed.
Print Assumptions parse_faithful_pp.

(* the same for sheets with @media heads outside okm_pp: only media_grammar_faithful remains, restricted to the media
   lists of the sheet *)
Theorem parse_faithful_values_pp : forall (build_media : list tok -> js) (lay : layout) (okm : mlist -> Prop),
  (forall g0 media g1, okm media -> build_media (media_head lay g0 media g1 ++ [ch "{"]) = m_mlist media) ->
  forall sh,
  WfSheet sh -> selectors_ok sh = true -> OkSheet okd_pp okm no_simple sh ->
  JL (map (build_item ProdParserValue.build_valuex build_media (fun _ _ => JL []) (sheet_depth sh) (ns_of sh))
          (skeleton (render sh lay ++ [eof_tok]))) = expected_model sh.
Proof. exact parse_faithful_values_pp_lemma. Qed.
Print Assumptions parse_faithful_values_pp.

(* non-vacuity: pp_sheet = a comment, a rule set with two selectors and three declarations (identifier, signed number,
   string containing ';}', !important; dimension / percentage; rgb(), url, hex colour), an @media rule
   `only screen and (min-width: 25cm), print` holding a rule set and a nested @media -- in the fragment, well-formed,
   selectors accepted; hence the conclusion of parse_faithful_pp holds for it under EVERY layout.                   *)
Example parse_faithful_pp_example :
  WfSheet pp_sheet /\ selectors_ok pp_sheet = true /\ OkSheet okd_pp okm_pp no_simple pp_sheet /\
  length pp_sheet = 3 /\ sheet_depth pp_sheet = 2 /\
  forall lay,
    JL (map (build_item ProdParserValue.build_valuex build_media_pp (fun _ _ => JL []) 2 (ns_of pp_sheet))
            (skeleton (render pp_sheet lay ++ [eof_tok]))) = expected_model pp_sheet.
Proof.
  split; [exact pp_sheet_wf|]. split; [exact pp_sheet_sel|]. split; [exact pp_sheet_ok|].
  split; [reflexivity|]. split; [reflexivity|].
  intros lay. exact (parse_faithful_pp lay pp_sheet pp_sheet_wf pp_sheet_sel pp_sheet_ok).
Qed.
