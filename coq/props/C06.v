(* C06 -- results do not depend on what was parsed or called before; the process-wide settings a caller
   can observe are exactly what the caller last set.
   Model: theories/Globals.v (cells, primitive events, brackets; bodies are arbitrary strategies).
   [current] = the bracket table regenerated from /repo's working tree (Gen/GlobalSites.v);
   [pinned]  = the table of the tree as pinned, before the C06 fix: commits.

   Calls nest: a body may call back into the public API (fetcher, replacer, log handler) to any depth,
   on the same or another parser object; [fuel] bounds the size of one top-level activation tree
   (fuel 0 runs nothing at all).  Callbacks that change the caller's settings are excluded (TNestSet).

   Full statements:
     history_independent    : forall fuel hist c, result current fuel (run current fuel hist G0) c
                                             = result current fuel (run current fuel (setters hist) G0) c
       (setters hist = the caller's own settings in hist; for a history without any:  = result (run [] G0) c)
     caller_settings_stable : forall fuel hist, fuel <> 0 ->
                                observable (run current fuel hist G0) = last_set_by_caller hist
   The first is refuted in every tree by the never-reset selector memo of the experimental
   indentSpecificities preference (history_independent_refuted) and proved for all histories in which
   the caller does not switch that preference on (history_independent_partial); the second is proved in full. *)
From CssV Require Import Base Globals GlobalsFacts Gen.GlobalSites.

Theorem current_tree_well_bracketed : well_bracketed current = true.
Proof. vm_compute. reflexivity. Qed.
Print Assumptions current_tree_well_bracketed.

Theorem history_independent_partial :
  forall fuel hist c, no_indent hist = true ->
    result current fuel (run current fuel hist G0) c = result current fuel (run current fuel (setters hist) G0) c.
Proof. exact (history_independent_gen current current_tree_well_bracketed). Qed.
Print Assumptions history_independent_partial.

Theorem history_independent_partial_nosetters :
  forall fuel hist c, setters hist = [] -> no_indent hist = true ->
    result current fuel (run current fuel hist G0) c = result current fuel (run current fuel [] G0) c.
Proof. exact (history_independent_nosetters current current_tree_well_bracketed). Qed.
Print Assumptions history_independent_partial_nosetters.

Theorem history_independent_refuted :
  exists fuel hist c, result current fuel (run current fuel hist G0) c <> result current fuel (run current fuel (setters hist) G0) c.
Proof. exists 5%nat, memo_hist, memo_call. exact (memo_dependent current). Qed.
Print Assumptions history_independent_refuted.

Theorem caller_settings_stable :
  forall fuel hist, fuel <> O -> observable (run current fuel hist G0) = last_set_by_caller hist.
Proof. exact (caller_settings_stable_gen current current_tree_well_bracketed). Qed.
Print Assumptions caller_settings_stable.

(* the tree as pinned *)
Theorem history_independent_pinned_refuted_stash :
  exists hist c, no_indent hist = true /\
    result pinned 10 (run pinned 10 hist G0) c <> result pinned 10 (run pinned 10 (setters hist) G0) c.
Proof. exists stash_hist, stash_call. split; [reflexivity | exact pinned_stash]. Qed.
Print Assumptions history_independent_pinned_refuted_stash.

Theorem history_independent_pinned_refuted_flag :
  exists hist c, no_indent hist = true /\
    result pinned 10 (run pinned 10 hist G0) c <> result pinned 10 (run pinned 10 (setters hist) G0) c.
Proof. exists flag_hist, flag_call. split; [reflexivity | exact pinned_flag]. Qed.
Print Assumptions history_independent_pinned_refuted_flag.

Theorem caller_settings_stable_pinned_refuted_flag :
  exists hist, observable (run pinned 10 hist G0) <> last_set_by_caller hist.
Proof. exists flag_hist. exact pinned_flag_settings. Qed.
Print Assumptions caller_settings_stable_pinned_refuted_flag.

Theorem caller_settings_stable_pinned_refuted_construction :
  exists hist, observable (run pinned 10 hist G0) <> last_set_by_caller hist.
Proof. exists captured_hist. exact pinned_captured_settings. Qed.
Print Assumptions caller_settings_stable_pinned_refuted_construction.

Theorem caller_settings_stable_pinned_refuted_csscombine :
  exists hist, observable (run pinned 10 hist G0) <> last_set_by_caller hist.
Proof. exists combine_hist. exact pinned_combine_settings. Qed.
Print Assumptions caller_settings_stable_pinned_refuted_csscombine.

(* a tree whose brackets are all complete but which keeps the flag to write back on the parser object
   instead of in the frame of the running parse: wrong under re-entrant use of one parser object *)
Theorem caller_settings_stable_onself_refuted_reentrant :
  exists hist, observable (run onself 10 hist G0) <> last_set_by_caller hist.
Proof. exists reentrant_hist. exact onself_reentrant_settings. Qed.
Print Assumptions caller_settings_stable_onself_refuted_reentrant.

(* non-vacuity: a history that leaks a token, raises inside a parse and inside csscombine, changes
   settings, parses re-entrantly on one parser object to depth 2 -- followed by a call that reads every
   cell, also from inside a callback *)
Example history_independent_nonvacuous :
  no_indent busy_hist = true /\
  result current 20 (run current 20 busy_hist G0) busy_call =
    [([ONone; OTok None; OTok None; OFlag false; OSer 3 4 0 0 None; ODx true;
       ONest [([OFlag false; ONone; OTok None], TRet)]; OFlag false], TRet)] /\
  result current 20 (run current 20 busy_hist G0) busy_call = result current 20 (run current 20 (setters busy_hist) G0) busy_call /\
  observable (run current 20 busy_hist G0) = last_set_by_caller busy_hist.
Proof. vm_compute. repeat split. Qed.
