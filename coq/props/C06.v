(* C06 -- results do not depend on what was parsed or called before; the process-wide settings a caller
   can observe are exactly what the caller last set.
   Model: theories/Globals.v (cells, primitive events, brackets; bodies are arbitrary strategies).
   Cells: token stash, push-back list, log.raiseExceptions, global serializer (identity, prefs, _level,
   selector memo), DX production, tokenizer cache, css_parser.profile, level/handlers of css_parser.log.
   [current] = the bracket table regenerated from /repo's working tree (Gen/GlobalSites.v);
   [pinned]  = the table of the tree as pinned, before the C06 fix: commits.

   Calls nest: a body may call back into the public API (fetcher, replacer, log handler) to any depth,
   on the same or another parser object; [fuel] bounds the size of one top-level activation tree
   (fuel 0 runs nothing at all).  Callbacks that change the caller's settings are excluded (TNestSet).

   Full statements, both proved for the current tree:
     history_independent    : forall fuel hist c, result current fuel (run current fuel hist G0) c
                                             = result current fuel (run current fuel (setters hist) G0) c
       (setters hist = the caller's own settings in hist; for a history without any:  = result (run [] G0) c)
     caller_settings_stable : forall fuel hist, fuel <> 0 ->
                                observable (run current fuel hist G0) = last_set_by_caller hist *)
From CssV Require Import Base Globals GlobalsFacts Gen.GlobalSites.

Theorem current_tree_well_bracketed : well_bracketed current = true.
Proof. vm_compute. reflexivity. Qed.
Print Assumptions current_tree_well_bracketed.

Theorem history_independent :
  forall fuel hist c,
    result current fuel (run current fuel hist G0) c = result current fuel (run current fuel (setters hist) G0) c.
Proof. exact (history_independent_gen current current_tree_well_bracketed). Qed.
Print Assumptions history_independent.

Theorem history_independent_nosetters :
  forall fuel hist c, setters hist = [] ->
    result current fuel (run current fuel hist G0) c = result current fuel (run current fuel [] G0) c.
Proof. exact (history_independent_nosetters current current_tree_well_bracketed). Qed.
Print Assumptions history_independent_nosetters.

Theorem caller_settings_stable :
  forall fuel hist, fuel <> O -> observable (run current fuel hist G0) = last_set_by_caller hist.
Proof. exact (caller_settings_stable_gen current current_tree_well_bracketed). Qed.
Print Assumptions caller_settings_stable.

(* trees with one incomplete bracket each: the statements fail *)
(* the tree as pinned *)
Theorem history_independent_pinned_refuted_stash :
  exists hist c, result pinned 10 (run pinned 10 hist G0) c <> result pinned 10 (run pinned 10 (setters hist) G0) c.
Proof. exists stash_hist, stash_call. exact pinned_stash. Qed.
Print Assumptions history_independent_pinned_refuted_stash.

Theorem history_independent_pinned_refuted_flag :
  exists hist c, result pinned 10 (run pinned 10 hist G0) c <> result pinned 10 (run pinned 10 (setters hist) G0) c.
Proof. exists flag_hist, flag_call. exact pinned_flag. Qed.
Print Assumptions history_independent_pinned_refuted_flag.

Theorem caller_settings_stable_pinned_refuted_flag :
  exists hist, observable (run pinned 10 hist G0) <> last_set_by_caller hist.
Proof. exists flag_hist. exact pinned_flag_settings. Qed.
Print Assumptions caller_settings_stable_pinned_refuted_flag.

Theorem caller_settings_stable_pinned_refuted_construction :
  exists hist, observable (run pinned 10 hist G0) <> last_set_by_caller hist.
Proof. exists captured_hist. exact pinned_captured_settings. Qed.
Print Assumptions caller_settings_stable_pinned_refuted_construction.

Theorem caller_settings_stable_pinned_refuted_csscombine :
  exists hist, observable (run pinned 10 hist G0) <> last_set_by_caller hist.
Proof. exists combine_hist. exact pinned_combine_settings. Qed.
Print Assumptions caller_settings_stable_pinned_refuted_csscombine.

(* the selector memo before it was scoped to one sheet serialization (fix: commit of this round) *)
Theorem history_independent_unscoped_memo_refuted :
  exists hist c, result unscoped 5 (run unscoped 5 hist G0) c <> result unscoped 5 (run unscoped 5 (setters hist) G0) c.
Proof. exists memo_hist, memo_call. exact unscoped_memo. Qed.
Print Assumptions history_independent_unscoped_memo_refuted.

(* the saved flag kept on the parser object instead of in the frame of the running parse: re-entrant use *)
Theorem caller_settings_stable_onself_refuted_reentrant :
  exists hist, observable (run onself 10 hist G0) <> last_set_by_caller hist.
Proof. exists reentrant_hist. exact onself_reentrant_settings. Qed.
Print Assumptions caller_settings_stable_onself_refuted_reentrant.

(* the tokenizer cache keyed on macro names only / not cleared when settings.set changes PRODUCTIONS *)
Theorem history_independent_nameskey_refuted :
  exists hist c, result nameskey 5 (run nameskey 5 hist G0) c <> result nameskey 5 (run nameskey 5 (setters hist) G0) c.
Proof. exists cache_hist, cache_call. exact nameskey_cache. Qed.
Print Assumptions history_independent_nameskey_refuted.

Theorem history_independent_noclear_refuted :
  exists hist c, result noclear 5 (run noclear 5 hist G0) c <> result noclear 5 (run noclear 5 (setters hist) G0) c.
Proof. exists noclear_hist, noclear_call. exact noclear_cache. Qed.
Print Assumptions history_independent_noclear_refuted.

(* non-vacuity: a history that leaks a token, raises inside a parse and inside csscombine, changes every
   setting, serialises with indentSpecificities on, fills the tokenizer cache, parses re-entrantly on one
   parser object to depth 2 -- followed by a call that reads every cell, also from inside a callback *)
Example history_independent_nonvacuous :
  result current 20 (run current 20 busy_hist G0) busy_call =
    [([ONone; OTok None; OTok None; OFlag false 4; OSer 3 5 0 0 (Some 0%N); OSer 3 5 0 1 (Some 1%N);
       OCfg ((0, 0), 1)%N; OCfg ((7, 1), 3)%N; OProf 6;
       ONest [([OFlag false 4; ONone; OTok None; OSer 3 5 0 0 (Some 0%N)], TRet)]; OFlag false 4], TRet)] /\
  result current 20 (run current 20 busy_hist G0) busy_call = result current 20 (run current 20 (setters busy_hist) G0) busy_call /\
  observable (run current 20 busy_hist G0) = last_set_by_caller busy_hist /\
  last_set_by_caller busy_hist = (false, 3%N, 5%N, true, 6%N, 4%N).
Proof. vm_compute. repeat split. Qed.
