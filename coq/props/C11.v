(* C11 -- declaration blocks behave as an ordered, cascade-aware property list.

   Model: CssV.StyleDecl (transcription of css/cssstyledeclaration.py + the attribute plumbing of
   css/cssproperties.py).  All theorems of the first part hold for EVERY normalisation function `norm`,
   every attribute table and every block satisfying `Inv` (every entry was made by the Property
   constructor: name = norm literalname) -- a superset of the blocks reachable from the empty block by any
   finite operation sequence (reachable_inv).  No bound on block length or history length anywhere.      *)
From CssV Require Import Base StyleDecl StyleDeclFacts StyleDeclText StyleDeclTextFacts.
From CssV Require Tokenizer Skeleton SkeletonFacts.
From CssV Require Import StyleDeclAlias StyleDeclAliasFacts.

Section C11.
  Variable norm : str -> str.
  Variable attrs : list (str * str).
  Variable settable : list str.

  (* ---- the effective entry: last !important one of the name, else the last one *)
  Theorem get_is_effective : forall nm b,
    Inv norm b -> getProperty norm nm true b = effective (by_name (norm nm)) b.
  Proof. exact (StyleDeclFacts.get_is_effective norm). Qed.

  (* ... for any matching rule (also literal-name mode), without the invariant *)
  Theorem get_is_effective_any_mode : forall nm normalize b,
    getProperty norm nm normalize b = effective (matches norm nm normalize) b.
  Proof. exact (StyleDeclFacts.get_is_effective_gen norm). Qed.

  (* what `effective` means, relationally: it is an entry of the block selected by m; if any selected entry is
     !important the result is, and it is the last such; otherwise it is the last selected entry *)
  Theorem effective_is_last_important_else_last : forall m b i p,
    effective m b = Some (i, p) ->
    (nth_error b i = Some (IProp p) /\ m p = true)
    /\ (forall j q, nth_error b j = Some (IProp q) -> m q = true -> imp q = true -> imp p = true /\ j <= i)
    /\ (imp p = false -> forall j q, nth_error b j = Some (IProp q) -> m q = true -> j <= i).
  Proof.
    intros m b i p H. split; [exact (effective_sound m b i p H)|exact (effective_cascade m b i p H)].
  Qed.

  Theorem effective_none_iff : forall m b,
    effective m b = None <-> forall p, In (IProp p) b -> m p = false.
  Proof. exact effective_none. Qed.

  Theorem value_priority_of_effective : forall nm normalize b,
    getPropertyValue norm nm normalize b =
      match effective (matches norm nm normalize) b with Some (_, p) => RVal (value p) | None => REmpty end
    /\ getPropertyPriority norm nm normalize b =
      match effective (matches norm nm normalize) b with Some (_, p) => imp p | None => false end.
  Proof. exact (StyleDeclFacts.value_priority_of_effective norm). Qed.

  (* ---- keys / length / item / in / iteration / getProperties report the same list *)
  Theorem keys_spec : forall b, keys b = dedup_last (names b).
  Proof. exact StyleDeclFacts.keys_spec. Qed.

  Theorem keys_distinct : forall b, NoDup (keys b).
  Proof. exact keys_NoDup. Qed.

  Theorem length_keys : forall b, length_ b = length (keys b).
  Proof. exact StyleDeclFacts.length_keys. Qed.

  Theorem item_keys : forall b i,
    item_at b i = match py_nth (keys b) i with Some x => x | None => [] end.
  Proof. exact StyleDeclFacts.item_keys. Qed.

  Theorem py_nth_is_python_indexing : forall (l : list str) (i : Z),
    let n := Z.of_nat (length l) in
    ((0 <= i < n)%Z -> py_nth l i = nth_error l (Z.to_nat i)) /\
    ((- n <= i < 0)%Z -> py_nth l i = nth_error l (Z.to_nat (n + i))) /\
    ((i < - n \/ n <= i)%Z -> py_nth l i = None).
  Proof. exact (@py_nth_spec str). Qed.

  Theorem contains_keys : forall nm b, contains norm nm b = true <-> In (norm nm) (keys b).
  Proof. exact (StyleDeclFacts.contains_keys norm). Qed.

  Theorem iter_effective : forall b,
    iter b = map (fun n => effective (by_name n) b) (keys b) /\ Forall (fun x => x <> None) (iter b).
  Proof. exact StyleDeclFacts.iter_effective. Qed.

  Theorem getProperties_effective : forall b,
    getProperties norm [] false b = map (fun n => effective (by_name n) b) (keys b).
  Proof. exact (StyleDeclFacts.getProperties_effective norm). Qed.

  Theorem getProperties_all_is_props : forall b,
    norm [] = [] -> map (option_map snd) (getProperties norm [] true b) = map Some (props_of b).
  Proof. exact (StyleDeclFacts.getProperties_all_is_props norm). Qed.

  Theorem getProperties_name_filter : forall nm b,
    norm nm <> [] ->
    map (option_map snd) (getProperties norm nm true b) = map Some (filter (by_name (norm nm)) (props_of b)).
  Proof. exact (StyleDeclFacts.getProperties_name_filter norm). Qed.

  (* ---- setting replaces the effective entry in place, or appends; nothing else changes *)
  (* `Accepted a` : the Property constructor parsed the name (nok) and neither spelling is empty;
     the entry is looked up under the name it is STORED with (norm (plit a)), whatever the spelling *)
  Theorem set_replaces_effective_or_appends : forall raising a v pr im b,
    Inv norm b -> Accepted a -> prio_imp raising pr = Some im ->
    setProperty norm false raising (ByName a (VOk v) pr) true true b =
    Done (match effective (by_name (norm (plit a))) b with
          | Some (i, _) => replace_at i v im b
          | None => b ++ [IProp (new_prop norm a v im)]
          end) RNone.
  Proof. exact (StyleDeclFacts.set_replaces_effective_or_appends norm). Qed.

  Theorem set_frame : forall i v im b,
    length (replace_at i v im b) = length b
    /\ (forall j, j <> i -> nth_error (replace_at i v im b) j = nth_error b j)
    /\ (forall p, nth_error b i = Some (IProp p) ->
                  nth_error (replace_at i v im b) i = Some (IProp (mkProp (lit p) (name p) v im)))
    /\ others_of (replace_at i v im b) = others_of b.
  Proof. exact StyleDeclFacts.set_frame. Qed.

  Theorem set_noreplace_appends : forall raising a v pr im normalize b,
    nok a = true -> prio_imp raising pr = Some im ->
    setProperty norm false raising (ByName a (VOk v) pr) normalize false b =
    Done (b ++ [IProp (new_prop norm a v im)]) RNone.
  Proof. exact (StyleDeclFacts.set_noreplace_appends norm). Qed.

  Theorem set_invalid_rejected : forall ro raising a v pr normalize replace b,
    (nok a = false \/ v = VBad) -> v <> VEmpty ->
    after b (setProperty norm ro raising (ByName a v pr) normalize replace b) = b.
  Proof. exact (StyleDeclFacts.set_invalid_rejected norm). Qed.

  (* ---- removing deletes every entry of that name and nothing else *)
  Theorem remove_exact : forall nm b,
    removeProperty norm false nm true b =
    Done (filter (fun it => match it with IProp p => negb (by_name (norm nm) p) | _ => true end) b)
         (getPropertyValue norm nm true b).
  Proof. exact (StyleDeclFacts.remove_exact norm). Qed.

  Theorem remove_exact_views : forall nm b b' r,
    removeProperty norm false nm true b = Done b' r ->
    props_of b' = filter (fun p => negb (by_name (norm nm) p)) (props_of b)
    /\ others_of b' = others_of b
    /\ r = match effective (matches norm nm true) b with Some (_, p) => RVal (value p) | None => REmpty end.
  Proof. exact (StyleDeclFacts.remove_exact_views norm). Qed.

  (* ---- histories: the invariant holds along every operation sequence; no step crashes; read-only blocks *)
  Theorem reachable_inv : forall ro ops b,
    Inv norm b -> Forall (op_ok norm) ops -> Inv norm (run norm attrs settable ro ops b).
  Proof. exact (StyleDeclFacts.reachable_Inv norm attrs settable). Qed.

  Theorem step_never_crashes : forall ro o b, step norm attrs settable ro o b <> Raised ECrash.
  Proof. exact (StyleDeclFacts.step_never_crashes norm attrs settable). Qed.

  Theorem readonly_unchanged : forall o b, after b (step norm attrs settable true o b) = b.
  Proof. exact (StyleDeclFacts.readonly_unchanged norm attrs settable). Qed.

  (* ---- blocks without duplicate names *)
  (* no WfName side condition any more (fix C11-set-name-as-stored): every accepted spelling *)
  Theorem nodup_preserved : forall raising a v pr im b,
    Inv norm b -> Accepted a -> prio_imp raising pr = Some im -> NoDupNames b ->
    NoDupNames (after b (setProperty norm false raising (ByName a (VOk v) pr) true true b)).
  Proof. exact (StyleDeclFacts.nodup_preserved norm). Qed.

  (* value and priority read back through every spelling r that normalises to the stored name *)
  Theorem set_then_get : forall raising a v pr im b r,
    Inv norm b -> Accepted a -> prio_imp raising pr = Some im -> NoDupNames b ->
    norm r = norm (plit a) ->
    let b' := after b (setProperty norm false raising (ByName a (VOk v) pr) true true b) in
    getPropertyValue norm r true b' = RVal v /\ getPropertyPriority norm r true b' = im.
  Proof. exact (StyleDeclFacts.set_then_get norm). Qed.

  Theorem set_then_get_stored : forall raising a v pr im b,
    Inv norm b -> Accepted a -> prio_imp raising pr = Some im -> NoDupNames b ->
    let b' := after b (setProperty norm false raising (ByName a (VOk v) pr) true true b) in
    getPropertyValue norm (plit a) true b' = RVal v /\ getPropertyPriority norm (plit a) true b' = im.
  Proof. exact (StyleDeclFacts.set_then_get_stored norm). Qed.

  Theorem set_then_get_same_spelling : forall raising a v pr im b,
    Inv norm b -> Accepted a -> WfName norm a -> prio_imp raising pr = Some im -> NoDupNames b ->
    let b' := after b (setProperty norm false raising (ByName a (VOk v) pr) true true b) in
    getPropertyValue norm (raw a) true b' = RVal v /\ getPropertyPriority norm (raw a) true b' = im.
  Proof. exact (StyleDeclFacts.set_then_get_same_spelling norm). Qed.

  (* ---- literal-name mode (normalize=False): the full specification *)
  Theorem get_literal_is_effective : forall nm b,
    getProperty norm nm false b = effective (by_lit nm) b.
  Proof. exact (StyleDeclFacts.get_literal_is_effective norm). Qed.

  Theorem remove_literal_exact : forall nm b,
    removeProperty norm false nm false b =
    Done (filter (fun it => match it with IProp p => negb (eqs (lit p) nm) | _ => true end) b)
         (getPropertyValue norm nm false b).
  Proof. exact (StyleDeclFacts.remove_literal_exact norm). Qed.

  Theorem last_entry_is_last : forall f b i p,
    last_entry f b = Some (i, p) -> nth_error b i = Some (IProp p) /\ f p = true.
  Proof. exact last_entry_sound. Qed.

  Theorem set_literal_spec : forall raising a v pr im b,
    Inv norm b -> Accepted a -> prio_imp raising pr = Some im ->
    setProperty norm false raising (ByName a (VOk v) pr) false true b =
    Done (match last_entry (fun p => eqs (lit p) (set_name norm a)) b with
          | Some (i, _) => replace_at i v im b
          | None => b ++ [IProp (new_prop norm a v im)]
          end) RNone.
  Proof. exact (StyleDeclFacts.set_literal_spec norm). Qed.

  Theorem set_then_get_literal : forall raising a v pr im b,
    Inv norm b -> Accepted a -> set_name norm a = plit a -> prio_imp raising pr = Some im -> NoDupLits b ->
    let b' := after b (setProperty norm false raising (ByName a (VOk v) pr) false true b) in
    NoDupLits b' /\ getPropertyValue norm (plit a) false b' = RVal v
    /\ getPropertyPriority norm (plit a) false b' = im.
  Proof. exact (StyleDeclFacts.set_then_get_literal norm). Qed.

  Theorem nodup_names_lits : forall b, Inv norm b -> NoDupNames b -> NoDupLits b.
  Proof. exact (StyleDeclFacts.NoDupNames_Lits norm). Qed.

  Theorem literal_eq_normalized : forall nm b,
    Inv norm b -> (forall p, In (IProp p) b -> name p = norm nm -> lit p = nm) ->
    getProperty norm nm false b = getProperty norm nm true b.
  Proof. exact (StyleDeclFacts.literal_eq_normalized norm). Qed.

  (* ---- attribute access forwards to the name bound in the table *)
  Theorem attr_is_alias : forall dom c,
    mems dom settable = true -> assocs dom attrs = Some c ->
    (forall b, get_attr norm attrs dom b = Some (getPropertyValue norm c true b)) /\
    (forall ro raising v b,
        after b (step norm attrs settable ro (OSetAttr raising dom v) b) =
        after b (step norm attrs settable ro (OSet raising (ByName (cssname_arg c) v PNone) true true) b)) /\
    (forall ro b, after b (step norm attrs settable ro (ODelAttr dom) b) =
                  after b (step norm attrs settable ro (ORemove c true) b)).
  Proof. exact (StyleDeclFacts.attr_is_alias norm attrs settable). Qed.
End C11.

(* ---- style.cssText = text, through the declaration-block skeleton of C04 (CssV.Skeleton.decl_block).
   Opaque per statement: what Property.cssText / CSSUnknownRule.cssText make of ONE run (decl_digest, at_digest). *)
Section C11_text.
  Variable norm : str -> str.
  Variable attrs : list (str * str).
  Variable settable : list str.
  Variable decl_digest : list CssV.Tokenizer.tok -> option (str * val * bool) * bool.
  Variable at_digest : list CssV.Tokenizer.tok -> option N.
  Variable comment_id : CssV.Tokenizer.tok -> N.

  Theorem settext_result : forall ro raising ts b,
    step norm attrs settable ro (settext_op decl_digest at_digest comment_id raising ts) b =
    if ro then Raised EReadonly
    else if snd (text_items decl_digest at_digest comment_id ts) && raising then Raised ESyntax
    else Done (map (mk_item norm) (fst (text_items decl_digest at_digest comment_id ts))) RNone.
  Proof. exact (StyleDeclTextFacts.settext_result norm attrs settable decl_digest at_digest comment_id). Qed.

  Theorem text_items_skeleton : forall ts,
    text_items decl_digest at_digest comment_id ts =
    (kept (map (digest_item decl_digest at_digest comment_id) (CssV.Skeleton.decl_block ts)),
     existsb snd (map (digest_item decl_digest at_digest comment_id) (CssV.Skeleton.decl_block ts))).
  Proof. exact (StyleDeclTextFacts.text_items_skeleton decl_digest at_digest comment_id). Qed.

  (* every history that mixes assignments of ARBITRARY token lists with the other operations keeps the
     invariant, hence every block-level theorem above applies along it *)
  Theorem reachable_inv_with_text : forall ro ops b,
    Inv norm b ->
    Forall (fun o => op_ok norm o \/ exists raising ts, o = settext_op decl_digest at_digest comment_id raising ts) ops ->
    Inv norm (run norm attrs settable ro ops b).
  Proof. exact (StyleDeclTextFacts.reachable_inv_with_text norm attrs settable decl_digest at_digest comment_id). Qed.

  Theorem settext_props : forall raising ts b b' r,
    step norm attrs settable false (settext_op decl_digest at_digest comment_id raising ts) b = Done b' r ->
    props_of b' = flat_map (decl_of norm) (fst (text_items decl_digest at_digest comment_id ts))
    /\ keys b' = dedup_last (map name (flat_map (decl_of norm) (fst (text_items decl_digest at_digest comment_id ts))))
    /\ r = RNone.
  Proof. exact (StyleDeclTextFacts.settext_props norm attrs settable decl_digest at_digest comment_id). Qed.

  Theorem text_items_app : forall d1 d2,
    SkeletonFacts.Statements CssV.Skeleton.cls_decl d1 ->
    text_items decl_digest at_digest comment_id (d1 ++ d2) =
    (fst (text_items decl_digest at_digest comment_id d1) ++ fst (text_items decl_digest at_digest comment_id d2),
     snd (text_items decl_digest at_digest comment_id d1) || snd (text_items decl_digest at_digest comment_id d2)).
  Proof. exact (StyleDeclTextFacts.text_items_app decl_digest at_digest comment_id). Qed.

  (* a junk declaration, whatever its tokens, leaves the block that of the text without it *)
  Theorem settext_junk_same_block : forall d1 junk d2 b,
    SkeletonFacts.Statements CssV.Skeleton.cls_decl d1 -> SkeletonFacts.JunkStmt CssV.Skeleton.cls_decl CssV.Skeleton.KDeclUnexpected junk ->
    after b (step norm attrs settable false (settext_op decl_digest at_digest comment_id false (d1 ++ junk ++ d2)) b)
    = map (mk_item norm) (fst (text_items decl_digest at_digest comment_id (d1 ++ d2))).
  Proof. exact (StyleDeclTextFacts.settext_junk_same_block norm attrs settable decl_digest at_digest comment_id). Qed.
End C11_text.

(* the declaration parse inside the model (Property.cssText on one run; only the value run is opaque) *)
Theorem name_parse_spec : forall ts l,
  name_parse ts None true = (Some l, true) <->
  exists a t b, ts = a ++ t :: b /\ forallb blank a = true /\ forallb blank b = true /\
                tyis t "IDENT" = true /\ blank t = false /\ l = CssV.Tokenizer.lower (CssV.Tokenizer.val t).
Proof. exact StyleDeclTextFacts.name_parse_spec. Qed.

Theorem decl_parse_dropped_is_error : forall norm valof run e,
  decl_parse norm valof run = (None, e) -> e = true.
Proof. exact StyleDeclTextFacts.decl_parse_dropped_is_error. Qed.

Example settext_nonvacuous :
  fst (text_items dg (fun _ => None) (fun _ => 7%N) (SkeletonFacts.decl_x ++ SkeletonFacts.junk_paren ++ SkeletonFacts.decl_z))
  = [DDecl (s "x") 1%N false; DDecl (s "z") 1%N false].
Proof. exact (proj1 settext_ex). Qed.

(* ---- Property OBJECTS: when the value-passing model above is exact.
   Blocks hold references into a heap of Property objects (StyleDeclAlias.v).  The model of this file is exact for
   every world in which no object is referenced twice (Separated); setProperty(name, ...) builds a fresh object and
   keeps it so; setProperty(<Property p>) with p already stored somewhere leaves that class, and then a write through
   one block shows through every other reference (documented exclusion of the history theorems). *)
Theorem write_invisible_elsewhere : forall h o p b,
  ~ In o (refs b) -> view (upd h o p) b = view h b.
Proof. exact StyleDeclAliasFacts.write_invisible_elsewhere. Qed.

Theorem write_visible_through_every_reference : forall h o p b j,
  nth_error b j = Some (AProp o) -> nth_error (view (upd h o p) b) j = Some (Some (IProp p)).
Proof. exact StyleDeclAliasFacts.write_visible_through_every_reference. Qed.

Theorem write_is_replace_at : forall h o p v im b i,
  NoDup (refs b) -> nth_error b i = Some (AProp o) -> h o = Some p ->
  forall j, nth_error (view (overwrite h o v im) b) j =
            if Nat.eqb j i then Some (Some (IProp (set_vp p v im))) else nth_error (view h b) j.
Proof. exact StyleDeclAliasFacts.write_is_replace_at. Qed.

Theorem separated_write_local : forall h o v im b bs,
  Separated (b :: bs) -> In o (refs b) -> Forall (fun b' => view (overwrite h o v im) b' = view h b') bs.
Proof. exact StyleDeclAliasFacts.separated_write_local. Qed.

Theorem append_fresh_separated : forall o b bs,
  Separated (b :: bs) -> ~ In o (flat_map refs (b :: bs)) -> Separated (append_ref b o :: bs).
Proof. exact StyleDeclAliasFacts.append_fresh_separated. Qed.

(* the same object appended to two blocks: overwriting through the first is seen in the second *)
Example shared_object_witness :
  let h := upd (fun _ => None) 1%N (mkProp (s "color") (s "color") 1%N false) in
  let a := append_ref [] 1%N in let b := append_ref [AOther (IComment 2%N)] 1%N in
  ~ Separated [a; b] /\
  view (overwrite h 1%N 9%N true) b = [Some (IComment 2%N); Some (IProp (mkProp (s "color") (s "color") 9%N true))].
Proof.
  cbv zeta. split; [|vm_compute; reflexivity].
  unfold Separated. vm_compute. intros H. inversion H as [|? ? Hx _]; subst. apply Hx. simpl. auto.
Qed.

(* ---- finite statements over the tables regenerated from cssproperties.py / profiles.py on every run *)

(* the camel-case attribute of EVERY known property is settable and bound to its hyphenated name *)
Theorem camel_alias : forall n,
  In n CssV.Gen.CssProperties.known_names ->
  mems (toDOM n) settable_i = true /\ assocs (toDOM n) attrs_i = Some n.
Proof. exact StyleDeclFacts.camel_alias. Qed.

Theorem toDOM_matches_code :
  forallb (fun nd => eqs (toDOM (fst nd)) (snd nd)) CssV.Gen.CssProperties.dom_pairs = true.
Proof. exact toDOM_table. Qed.

Theorem known_names_are_plain :
  forallb plain_name CssV.Gen.CssProperties.known_names = true
  /\ forallb (fun n => eqs (norm_i n) n) CssV.Gen.CssProperties.known_names = true.
Proof. exact (conj known_names_plain known_names_normalized). Qed.

(* ---- the side conditions are necessary (witnesses on the instance norm = helper.normalize) *)

(* F (false for blocks with duplicates):  forall b, getPropertyValue n (setProperty n v b) = v.
   Refuted: the !important entry is effective, is overwritten in place, the other entry wins. *)
Theorem set_then_get_dup_refuted :
  exists b a v,
    Inv norm_i b /\ WfName norm_i a /\
    getPropertyValue norm_i (raw a) true
      (after b (setProperty norm_i false true (ByName a (VOk v) PNone) true true b)) <> RVal v.
Proof.
  exists blk_dup, nm_color, 3%N. destruct set_then_get_dup_witness as (H1 & H2 & H3).
  split; [exact H1|]. split; [exact H2|]. vm_compute. discriminate.
Qed.

(* Look-ups are by norm(spelling) (the API contract: only case and simple escapes are equivalent).  A spelling
   the Property constructor accepts but that does not normalise to the stored name (' color ') is stored as
   `color`, replaces `color` (no duplicate) and reads back through `color`, not through ' color ' itself:
   the hypothesis  norm r = norm (plit a)  of set_then_get is necessary for the reading spelling. *)
Theorem set_then_get_reading_spelling_refuted :
  exists b a v,
    Inv norm_i b /\ NoDupNames b /\ Accepted a /\
    let b' := after b (setProperty norm_i false true (ByName a (VOk v) PNone) true true b) in
    NoDupNames b' /\ getPropertyValue norm_i (plit a) true b' = RVal v
    /\ getPropertyValue norm_i (raw a) true b' = REmpty.
Proof.
  exists [IProp (mkProp (s "color") (s "color") 1%N false)], nm_ws, 2%N.
  destruct whitespace_spelling_witness as (_ & H2 & H3 & H4).
  split; [repeat constructor|]. split; [repeat constructor; simpl; tauto|].
  split; [repeat split; discriminate|].
  cbv zeta. rewrite H2. split; [repeat constructor; simpl; tauto|]. split; vm_compute; reflexivity.
Qed.

(* F (false):  a generated accessor may look its name up literally (normalize=False).
   Refuted: on `c\olor: v` the attribute `color` (normalised look-up) reads v and `del` removes it, a literal
   look-up of `color` reads '' and removes nothing -- so _getP/_delP must normalise (seed C11-2). *)
Theorem alias_literal_lookup_refuted :
  exists b, Inv norm_i b /\
    get_attr norm_i attrs_i (s "color") b <> Some (getPropertyValue norm_i (s "color") false b) /\
    after b (step_i false (ODelAttr (s "color")) b) <> after b (removeProperty norm_i false (s "color") false b).
Proof.
  exists blk_esc. destruct alias_needs_normalized_lookup_witness as (H1 & H2 & H3 & H4 & H5).
  split; [exact H1|]. rewrite H2, H3, H4, H5. split; discriminate.
Qed.

(* keys() reports normalised names; helper.normalize is not idempotent, so a reported name used as an
   argument may designate another name (this is why iteration must not normalise again) *)
Theorem normalize_not_idempotent : exists x, norm_i (norm_i x) <> norm_i x.
Proof. exists [111; 92; 92; 120]%N. exact StyleDeclFacts.normalize_not_idempotent. Qed.

(* literal-name mode (outside the property statement): what the code does *)
Theorem set_literal_replaces_last :
  after blk_dup (setProperty norm_i false true (ByName nm_color (VOk 3%N) PNone) false true blk_dup)
  = [IProp (mkProp (s "color") (s "color") 1%N true); IComment 1%N; IProp (mkProp (s "color") (s "color") 3%N false)].
Proof. exact set_literal_replaces_last_witness. Qed.

(* ---- non-vacuity *)
Example hypotheses_satisfiable :
  Inv norm_i blk_ex /\ NoDupNames blk_ex /\ keys blk_ex = [s "color"; s "top"]
  /\ WfName norm_i (mkName (s "C\OLOR") (s "c\olor") true)
  /\ In (s "overflow-x") CssV.Gen.CssProperties.known_names.
Proof.
  destruct blk_ex_ok as (H1 & H2 & H3).
  split; [exact H1|]. split; [exact H2|]. split; [exact H3|]. split; [exact wfname_ex|].
  apply mems_In. vm_compute. reflexivity.
Qed.

Print Assumptions get_is_effective.
Print Assumptions get_is_effective_any_mode.
Print Assumptions effective_is_last_important_else_last.
Print Assumptions effective_none_iff.
Print Assumptions value_priority_of_effective.
Print Assumptions keys_spec.
Print Assumptions keys_distinct.
Print Assumptions length_keys.
Print Assumptions item_keys.
Print Assumptions py_nth_is_python_indexing.
Print Assumptions contains_keys.
Print Assumptions iter_effective.
Print Assumptions getProperties_effective.
Print Assumptions getProperties_all_is_props.
Print Assumptions getProperties_name_filter.
Print Assumptions set_replaces_effective_or_appends.
Print Assumptions set_frame.
Print Assumptions set_noreplace_appends.
Print Assumptions set_invalid_rejected.
Print Assumptions remove_exact.
Print Assumptions remove_exact_views.
Print Assumptions reachable_inv.
Print Assumptions step_never_crashes.
Print Assumptions readonly_unchanged.
Print Assumptions nodup_preserved.
Print Assumptions set_then_get.
Print Assumptions set_then_get_stored.
Print Assumptions set_then_get_same_spelling.
Print Assumptions attr_is_alias.
Print Assumptions get_literal_is_effective.
Print Assumptions remove_literal_exact.
Print Assumptions last_entry_is_last.
Print Assumptions set_literal_spec.
Print Assumptions set_then_get_literal.
Print Assumptions nodup_names_lits.
Print Assumptions literal_eq_normalized.
Print Assumptions alias_literal_lookup_refuted.
Print Assumptions settext_result.
Print Assumptions text_items_skeleton.
Print Assumptions reachable_inv_with_text.
Print Assumptions settext_props.
Print Assumptions text_items_app.
Print Assumptions settext_junk_same_block.
Print Assumptions name_parse_spec.
Print Assumptions decl_parse_dropped_is_error.
Print Assumptions write_invisible_elsewhere.
Print Assumptions write_visible_through_every_reference.
Print Assumptions write_is_replace_at.
Print Assumptions separated_write_local.
Print Assumptions append_fresh_separated.
Print Assumptions camel_alias.
Print Assumptions toDOM_matches_code.
Print Assumptions known_names_are_plain.
Print Assumptions set_then_get_dup_refuted.
Print Assumptions set_then_get_reading_spelling_refuted.
Print Assumptions normalize_not_idempotent.
Print Assumptions set_literal_replaces_last.
