(* C12 -- getUrls / replaceUrls see every URL exactly once; URLs survive output.
   Property theorems only; proofs live in CssV.UrlsFacts and CssV.UrlQuoteFacts.
   Models: CssV.Urls (getUrls / replaceUrls over the rule tree, following /repo after the fix:
   commits c79f051 and 92d0ff9), CssV.UrlQuote (helper.uri / urivalue, _uritokenvalue over the
   constants regenerated into CssV.Gen.UrlQuote, following 57a5489 and 3f41842) on top of C03's
   CssV.Gen.Quote (helper.string / stringvalue / _stringtokenvalue, regenerated, following 546430b),
   CssV.Tokenizer (the shared tokenizer model, with the regenerated URI production).          *)
From CssV Require Import Base Regex Tokenizer Urls UrlsFacts UrlsExt Quote Gen.Quote QuoteFacts QuoteStrFacts Gen.UrlQuote UrlQuote UrlQuoteFacts.

(* "getUrls yields every URL that occurs in a sheet - the href of each @import first, then each
   url() value of any declaration in style, @font-face, @page and margin rules at any nesting
   inside @media, in document order - and nothing else": for ALL rule trees.                  *)
Theorem getUrls_spec : forall sh, getUrls sh = import_hrefs sh ++ doc_order_urls sh.
Proof. exact getUrls_spec_lemma. Qed.
Print Assumptions getUrls_spec.

Example getUrls_spec_nontrivial :
  getUrls [IImport (s "i"); IRule (RStyle [[VUri (s "a"); VOther]; [VFun [VOther; VUri (s "n")]]]);
           IRule (RPage [[VUri (s "p")]] [RMargin [[VUri (s "m")]]]);
           IRule (RMedia [RMedia [RFontFace [[VUri (s "f")]]]; ROther])]
  = [s "i"; s "a"; s "n"; s "p"; s "m"; s "f"].
Proof. vm_compute. reflexivity. Qed.

(* the transcription really is the hasattr ladder of styleDeclarations (cssRules first, then style) *)
Theorem styleDecls_is_the_ladder : forall r,
  styleDecls r =
  match cssRules_of r with
  | Some rs => (match style_of r with Some st => [st] | None => [] end) ++ flat_map styleDecls rs
  | None => match style_of r with Some st => [st] | None => [] end
  end.
Proof. exact styleDecls_literal. Qed.
Print Assumptions styleDecls_is_the_ladder.

(* "replaceUrls applies the replacer to exactly those URLs (imports optional), so that getUrls
   afterwards yields the replaced values": for ALL rule trees and ALL replacers.               *)
Theorem replace_then_get : forall f sh, getUrls (replaceUrls false f sh) = map f (getUrls sh).
Proof. exact replace_then_get_lemma. Qed.
Print Assumptions replace_then_get.

Theorem replace_then_get_ignoreImportRules : forall f sh,
  getUrls (replaceUrls true f sh) = import_hrefs sh ++ map f (doc_order_urls sh).
Proof. exact replace_then_get_ignore_lemma. Qed.
Print Assumptions replace_then_get_ignoreImportRules.

Theorem replace_style_then_get : forall f st,
  style_urls (replaceUrls_style f st) = map f (style_urls st).
Proof. exact replace_style_then_get_lemma. Qed.
Print Assumptions replace_style_then_get.

Example replace_then_get_nontrivial :
  getUrls (replaceUrls false (fun u => u ++ s "!")
            [IImport (s "i"); IRule (RPage [[VUri (s "p")]] [RMargin [[VFun [VUri (s "m")]]]])])
  = [s "i!"; s "p!"; s "m!"].
Proof. vm_compute. reflexivity. Qed.

(* frame: replaceUrls touches only the URLs -- the sheet with all URLs blanked is the same before
   and after, the identity replacer changes nothing, and a value is determined by its blanked form
   together with its URL list (so "same blank + the URL list of replace_then_get" pins the result) *)
Theorem replace_touches_only_urls : forall b f sh, blank (replaceUrls b f sh) = blank sh.
Proof. exact blank_replace_lemma. Qed.
Print Assumptions replace_touches_only_urls.

Theorem replace_identity : forall b sh, replaceUrls b (fun u => u) sh = sh.
Proof. exact replace_id_lemma. Qed.
Print Assumptions replace_identity.

Theorem value_determined_by_frame_and_urls : forall v w,
  repl_value (fun _ => []) v = repl_value (fun _ => []) w -> value_urls v = value_urls w -> v = w.
Proof. exact value_frame. Qed.
Print Assumptions value_determined_by_frame_and_urls.

(* "exactly those URLs ... and nothing else", as a statement about the replacer: two replacers give
   the same sheet IF AND ONLY IF they agree on every URL getUrls lists -- the replacer's value on
   any other string is never observable, and its value on every listed URL is.                  *)
Theorem replacer_consulted_exactly_on_listed_urls : forall f g sh,
  replaceUrls false f sh = replaceUrls false g sh <-> (forall u, In u (getUrls sh) -> f u = g u).
Proof. intros f g sh. split; [apply replace_ext_conv_lemma|apply replace_ext_lemma]. Qed.
Print Assumptions replacer_consulted_exactly_on_listed_urls.

Theorem replacer_ignoreImportRules_consulted_only_on_declaration_urls : forall f g sh,
  (forall u, In u (doc_order_urls sh) -> f u = g u) -> replaceUrls true f sh = replaceUrls true g sh.
Proof. exact replace_ext_ignore_lemma. Qed.
Print Assumptions replacer_ignoreImportRules_consulted_only_on_declaration_urls.

(* "exactly once": two calls equal one call with the composed replacer (a URL rewritten twice, or
   skipped, by one call would break this for a non-idempotent replacer); the number of URLs is
   invariant; a replacer with a left inverse can be undone exactly.                             *)
Theorem replace_compose : forall b g f sh,
  replaceUrls b g (replaceUrls b f sh) = replaceUrls b (fun u => g (f u)) sh.
Proof. exact replace_compose_lemma. Qed.
Print Assumptions replace_compose.

Theorem replace_keeps_url_count : forall b f sh, length (getUrls (replaceUrls b f sh)) = length (getUrls sh).
Proof. exact replace_count_lemma. Qed.
Print Assumptions replace_keeps_url_count.

Theorem replace_undo : forall b f finv sh,
  (forall u, finv (f u) = u) -> replaceUrls b finv (replaceUrls b f sh) = sh.
Proof. exact replace_undo_lemma. Qed.
Print Assumptions replace_undo.

Theorem replace_style_consulted_exactly_on_style_urls : forall f g st,
  replaceUrls_style f st = replaceUrls_style g st <-> (forall u, In u (style_urls st) -> f u = g u).
Proof. exact replace_style_ext_lemma. Qed.
Print Assumptions replace_style_consulted_exactly_on_style_urls.

Theorem replace_style_compose : forall g f st,
  replaceUrls_style g (replaceUrls_style f st) = replaceUrls_style (fun u => g (f u)) st.
Proof. exact replace_style_compose_lemma. Qed.
Print Assumptions replace_style_compose.

Example replace_compose_nontrivial :
  let sh := [IImport (s "i"); IRule (RMedia [RPage [[VFun [VUri (s "p"); VOther]]] [RMargin [[VUri (s "m")]]]])] in
  getUrls (replaceUrls false (fun u => u ++ s "?") (replaceUrls false (fun u => s "/" ++ u) sh))
  = [s "/i?"; s "/p?"; s "/m?"].
Proof. vm_compute. reflexivity. Qed.

(* the two defects of the pinned tree this property found (repaired by c79f051 and 92d0ff9):
   the pinned getUrls misses an @page rule's own declarations and URLs nested in function values *)
Theorem getUrls_pinned_refuted_page : exists sh, getUrls_pinned sh <> import_hrefs sh ++ doc_order_urls sh.
Proof. exact pinned_misses_page_style. Qed.
Print Assumptions getUrls_pinned_refuted_page.
Theorem getUrls_pinned_refuted_nested : exists sh, getUrls_pinned sh <> import_hrefs sh ++ doc_order_urls sh.
Proof. exact pinned_misses_nested_url. Qed.
Print Assumptions getUrls_pinned_refuted_nested.

(* "Any URL string (spaces, quotes, parentheses, commas, semicolons, non-ASCII; no backslash or
   newline) ... is serialised so that re-parsing returns the identical string."
   Proved for MORE than the property's set: every value helper.string can represent
   (CssV.QuoteStrFacts.representable_str -- any code points, backslashes and \n \r \f included; the
   only values excluded are those where a backslash run of odd length stands directly before a double
   quote: C03's open finding about helper.string / stringvalue, bs_value_not_representable there).
   Inside url("...") the tokenizer does not apply cleanstring, so helper.uri writes
   string(value, False) = Gen.Quote.hstring_uri and a backslash before a newline needs no exclusion.
   survives v: for every text following helper.uri(v), in both tokenizer modes, the first token is
   the URI token at 1:1 whose raw text is helper.uri(v), and helper.urivalue (declaration values,
   via PreDef.uri) and _uritokenvalue (@import) both return v from its value.                  *)
Theorem uri_bare : forall v, forbidden v = false -> survives v.
Proof. exact uri_bare_lemma. Qed.
Print Assumptions uri_bare.

Theorem uri_quoted : forall v, representable_str v -> forbidden v = true -> survives v.
Proof. exact uri_quoted_lemma. Qed.
Print Assumptions uri_quoted.

Theorem uri_roundtrip : forall v, representable_str v -> survives v.
Proof. exact uri_roundtrip_lemma. Qed.
Print Assumptions uri_roundtrip.

(* the statement on exactly the property's set: any code points but backslash, \n, \r, \f *)
Theorem uri_roundtrip_property_set : forall v, UrlChars v -> survives v.
Proof. intros v H. apply uri_roundtrip_lemma, UrlChars_representable, H. Qed.
Print Assumptions uri_roundtrip_property_set.

(* a value containing a backslash is never written bare (57a5489 + 3f41842) *)
Theorem backslash_forces_quotes : forall v, In 92%N v -> forbidden v = true.
Proof. exact backslash_is_quoted. Qed.
Print Assumptions backslash_forces_quotes.

(* @import "...": helper.string followed by any text is read back as the STRING token whose
   _stringtokenvalue is v (C03's theorem, on the same set; STRING path: hstring with line continuation) *)
Theorem import_string_roundtrip : forall dc fs v follow, representable_str v ->
  exists t, first_token dc fs (hstring v ++ follow) = Some t /\
            ty t = s "STRING" /\ raw t = hstring v /\ line t = 1%nat /\ col t = 1%nat /\
            stringtokenvalue (Some t) = Ok (Some v).
Proof. exact QuoteStrFacts.string_roundtrip_lemma. Qed.
Print Assumptions import_string_roundtrip.

(* non-vacuity: awkward URLs are in the sets and come out as expected; a control character, DEL
   and a backslash are quoted (the pinned tree wrote them bare, and the bare forms are not the URL) *)
Example urlchars_awkward : UrlChars (s "a b'(c),;" ++ [34%N; 233%N; 1%N; 127%N; 8232%N]).
Proof. intros c Hc. repeat (destruct Hc as [<-|Hc]; [repeat split; discriminate|]). destruct Hc. Qed.
Example representable_backslashes :
  representable_str (s "c:\dir\5c" ++ [10%N]) /\ representable_str [92%N] /\ representable_str [92%N; 92%N; 34%N] /\
  representable_str [92%N; 10%N] /\ ~ representable_str [92%N; 34%N].
Proof. unfold representable_str. vm_compute. repeat split; discriminate. Qed.
Example huri_examples :
  huri (s "a.png") = s "url(a.png)" /\
  huri (s "a b") = s "url(" ++ [34%N] ++ s "a b" ++ [34%N] ++ s ")" /\
  huri [1%N] = s "url(" ++ [34%N; 1%N; 34%N] ++ s ")" /\
  huri [97%N; 34%N] = s "url(" ++ [34%N; 97%N; 92%N; 34%N; 34%N] ++ s ")" /\
  huri [92%N] = s "url(" ++ [34%N; 92%N; 92%N; 34%N] ++ s ")" /\
  huri (s "a\b") = s "url(" ++ [34%N] ++ s "a\5c b" ++ [34%N] ++ s ")" /\
  huri [92%N; 10%N] = s "url(" ++ [34%N] ++ s "\\a " ++ [34%N] ++ s ")".
Proof. vm_compute. repeat split. Qed.
Example bare_control_char_is_no_uri :
  option_map (fun ts => map ty ts) (tokenize true false (s "url(" ++ [1%N] ++ s ")"))
  <> Some [s "URI"].
Proof. vm_compute. discriminate. Qed.
Example bare_backslash_changes_the_url :
  option_map (fun ts => map val ts) (tokenize true false (s "url(a\b)")) = Some [s "url(a" ++ [11%N] ++ s ")"].
Proof. vm_compute. reflexivity. Qed.
