(* C08 -- Tokenizing is total, lossless and reports true source positions.
   Property theorems only; proofs live in CssV.TokenizerFacts.
   Model: CssV.Tokenizer.tokenize dc fs text  (dc = doComments, fs = fullsheet) running the
   productions and tables regenerated from /repo (the CssV.Gen files).                         *)
From CssV Require Import Base Regex Tokenizer TokenizerFacts.

(* "For every text the tokenizer terminates": the model's fuel is never exhausted and some
   production always matches, for every text, both modes, comments kept or dropped.       *)
Theorem tokenize_total : forall dc fs text, exists toks, tokenize dc fs text = Some toks.
Proof. exact tokenize_total_lemma. Qed.
Print Assumptions tokenize_total.

(* "its tokens partition the text" *)
Theorem tokenize_partition : forall text toks,
  tokenize true false text = Some toks -> concat (map raw toks) = text.
Proof. exact tokenize_partition_lemma. Qed.
Print Assumptions tokenize_partition.

(* "concatenating the token values of an escape-free text reproduces it exactly" *)
Theorem tokenize_values : forall text toks,
  ~ In 92%N text -> tokenize true false text = Some toks -> concat (map val toks) = text.
Proof. exact tokenize_values_lemma. Qed.
Print Assumptions tokenize_values.

(* full-sheet mode: "followed only by the closing delimiter that completes an unterminated
   comment, string or url( and by the EOF token": at most two characters, each taken from
   the text itself (the opening quote) or from: star, slash, quote, double quote, closing paren                                 *)
Theorem tokenize_partition_full : forall text toks,
  tokenize true true text = Some toks ->
  exists cmp, concat (map raw toks) = text ++ cmp /\ completion_ok text cmp /\
              exists pre l c, toks = pre ++ [mkTok (s "EOF") [] [] l c].
Proof. exact tokenize_partition_full_lemma. Qed.
Print Assumptions tokenize_partition_full.

Theorem tokenize_values_full : forall text toks,
  ~ In 92%N text -> tokenize true true text = Some toks ->
  exists cmp, concat (map val toks) = text ++ cmp /\ completion_ok text cmp.
Proof. exact tokenize_values_full_lemma. Qed.
Print Assumptions tokenize_values_full.

(* values equal raw matches wherever the raw match has no backslash (escapes in one token do
   not disturb the others) *)
Theorem raw_is_val : forall dc fs text toks,
  tokenize dc fs text = Some toks -> forall t, In t toks -> ~ In 92%N (raw t) -> val t = raw t.
Proof. exact raw_is_val_lemma. Qed.
Print Assumptions raw_is_val.

(* "Every token, with or without escapes in the text, carries the 1-based line and column at
   which it starts in the source, a leading byte-order mark counting as zero width":
   after an optional leading BOM token (reported at 1:1), token k is at
   advance (1,1) (raw t_0 ++ ... ++ raw t_{k-1}); the only exception the code makes is spelled
   out in pos_ok (the EOF after a comment completed in full-sheet mode).                   *)
Theorem tokenize_positions : forall fs text toks,
  tokenize true fs text = Some toks ->
  exists bom rest, toks = bom ++ rest /\ is_bom_prefix bom /\ pos_ok 1 1 rest.
Proof. exact tokenize_positions_lemma. Qed.
Print Assumptions tokenize_positions.
