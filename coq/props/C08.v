From CssV Require Import Base Regex RegexFacts Tokenizer.
