(* PP.v -- theorems about the production-combinator engine (css_parser.prodparser) and the grammars built on it.
   Not a property of properties.jsonl: a shared ENGINE.  Models: CssV.ProdParser (interpreter), CssV.Gen.ProdTrees
   (the production trees of mediaquery.py / medialist.py / value.py, regenerated from the source on every run).
   Every theorem is stated for ALL production trees, environments of sub-grammars, option sets and token lists
   unless a grammar is named.                                                                                 *)
From CssV Require Import Base Regex Tokenizer ProdParser ProdParserFacts Gen.ProdTrees ProdParserSafe ProdParserBridge ProdParserItems ProdParserDepth ProdParserMedia ProdParserPushed ProdParserValue.
From CssV Require GrammarFacts.
From CssV Require Grammar.
From CssV Require Globals Gen.GlobalSites ParseTotal ParseSkel.
Local Open Scope nat_scope.

(* ---- Sequence.nextProd / Choice.nextProd and the production search of parse (prodparser.py:546-565):
   on well-formed trees (a Sequence has productions, max <> 0, an unbounded Sequence has a production that is not
   optional) the search ends within find_fuel steps with a Prod, NoMatch at the root, or Missing/Done --
   it never spins (Python: `while self._round < self._max` with max = sys.maxsize) and never raises IndexError *)
Theorem nextprod_search_total :
  forall stack tk, wf_stack stack -> notc tk -> found_ok (find (find_fuel stack) stack tk).
Proof. intros stack tk H Hn. apply find_total; [exact H|exact Hn|unfold find_fuel; lia]. Qed.
Print Assumptions nextprod_search_total.

(* the closing "all productions exhausted?" loop (l.640-676) ends with a verdict *)
Theorem closing_loop_total :
  forall stack strict wf, Forall wf_frame stack -> exists b, final stack strict wf = FinOk b.
Proof. exact final_ok. Qed.
Print Assumptions closing_loop_total.

(* the trees of the library are well-formed (recomputed on the regenerated trees) *)
Theorem env_real_wf : forallb (fun g => wf_tree (g_tree g)) env_real = true.
Proof. vm_compute. reflexivity. Qed.
Print Assumptions env_real_wf.

(* ---- pparse_total: the main loop pops one token per iteration and sub-parsers only consume, so the fuel
   |savedTokens| + |tokens| + 3 is never exhausted: for every depth budget d (Python: the interpreter stack), environment,
   tree, option set, token list.  clear = false is the pinned ProdParser() (no `del savedTokens[:]`). *)
Theorem pparse_total :
  forall d env clear o t toks sh,
  clear = true \/ length (saved sh) <= 1 ->
  pparse d env clear o t toks sh <> OutOfFuel.
Proof. exact pparse_total_lemma. Qed.
Print Assumptions pparse_total.

(* ---- pparse_consumes_prefix (stream part) and stash_discipline:
   the tokens not consumed are a suffix of the input; afterwards savedTokens holds at most ONE token, it is a token of
   the input (the stop token handed back by stopIfNoMoreMatch), and stash + rest never grow *)
Theorem pparse_stash_discipline :
  forall d env clear o t toks sh r,
  clear = true \/ length (saved sh) <= 1 ->
  pparse d env clear o t toks sh = Ret r ->
  suffix (rfull r) toks /\
  length (saved (r_stash r)) <= 1 /\
  Forall (fun x => In x ((if clear then [] else saved sh) ++ toks)) (saved (r_stash r)) /\
  length (saved (r_stash r)) + length (rfull r) <= length (if clear then [] else saved sh) + length toks.
Proof. exact pparse_stash_suffix_lemma. Qed.
Print Assumptions pparse_stash_discipline.

(* a top-level ProdParser() forgets what an earlier, unrelated parse left behind (fix 4d8a860): the result does not
   depend on the stash *)
Theorem pparse_clear_ignores_stash :
  forall d env o t toks sh sh', pparse d env true o t toks sh = pparse d env true o t toks sh'.
Proof. reflexivity. Qed.
Print Assumptions pparse_clear_ignores_stash.

(* ... and without the clearing it does (the pinned tree): MediaQuery('print x') leaves `x`, the next value parse
   reads it *)
Definition tI (v : string) : tok := mkTok (s "IDENT") (s v) (s v) 0 0.
Theorem pparse_pinned_stash_leaks :
  exists sh toks r r',
    pparse 5 env_real false opts0 tree_Value toks stash0 = Ret r /\
    pparse 5 env_real false opts0 tree_Value toks sh = Ret r' /\ r_items r <> r_items r'.
Proof.
  exists (mkStash [tI "x"] []), [tI "a"]. eexists. eexists. split; [vm_compute; reflexivity|].
  split; [vm_compute; reflexivity|]. discriminate.
Qed.
Print Assumptions pparse_pinned_stash_leaks.

(* non-vacuity: the hypotheses are satisfiable and the engine does something *)
Example pparse_example :
  exists r, pparse 5 env_real true opts0 tree_MediaQuery
                   [tI "print"; mkTok (s "S") (s " ") (s " ") 0 0; tI "x"] stash0 = Ret r /\
            r_wf r = true /\ length (r_items r) = 1 /\ saved (r_stash r) = [tI "x"].
Proof. eexists. split; [vm_compute; reflexivity|]. repeat split. Qed.

(* ---- an incomplete media query is not wellformed (fix 1 below, finding PP-mq-incomplete-accepted): on the pinned
     tree  print and ,  was reported wellformed with seq `print and` -- Missing under stopIfNoMoreMatch (l.579-589)
     stopped the parse with wellformed untouched, the exhausted-check skipped and the token pushed back.  Repaired code:
     a Missing ParseError is an error whatever stopIfNoMoreMatch says; the production search reporting Missing makes
     the main loop stop with wellformed = false and the stash untouched -- for every tree and state *)
Definition tC (v : string) : tok := mkTok (s "CHAR") (s v) (s v) 0 0.
Definition tS : tok := mkTok (s "S") (s " ") (s " ") 0 0.
Theorem missing_is_error :
  forall o sub postof t st stack, o_checkS o = false ->
  eqs (ty t) (s "COMMENT") = false -> eqs (ty t) (s "S") = false -> eqs (ty t) (s "INVALID") = false ->
  eqs (ty t) (s "EOF") = false ->
  find (find_fuel (l_stack st)) (l_stack st) t = FParseErr stack ->
  exists st', body o sub postof t st = LBreak st' /\ l_wf st' = false /\ l_stash st' = l_stash st /\ l_stopall st' = l_stopall st.
Proof.
  intros o sub postof t st stack Hc H1 H2 H3 H4 Hf. unfold body. rewrite Hc, H1, H2, H3, H4. cbn [andb negb].
  rewrite andb_false_r. cbn [andb]. cbn [l_stack set_started]. rewrite Hf. eexists. split; [reflexivity|]. repeat split.
Qed.
Print Assumptions missing_is_error.
Theorem media_query_rejects_incomplete_example :
  exists r, pparse 6 env_real true opts0 tree_MediaQuery [tI "print"; tS; tI "and"; tS; tC ","] stash0 = Ret r /\
            r_wf r = false /\ pushed (r_stash r) = [] /\ saved (r_stash r) = [].
Proof. eexists. split; [vm_compute; reflexivity|]. repeat split. Qed.
Print Assumptions media_query_rejects_incomplete_example.

(* ---- never spins: on well-formed trees no loop of the engine runs forever (for all environments, trees, token lists) *)
Theorem pparse_terminates :
  forall d env clear o t toks sh, env_wf env -> wf_tree t = true -> pparse d env clear o t toks sh <> Spin.
Proof. exact pparse_no_spin. Qed.
Print Assumptions pparse_terminates.

(* ---- pparse_never_crashes: the partial operations (IndexError of Sequence() / string[0], AttributeError of a bare
   Prod, an uninterpreted callback, an unknown grammar, seq[0] / UnboundLocalError in a constructor) are not reached:
   for all environments that pass the decidable side condition env_safe, all trees, all token lists with non-empty
   token values *)
Theorem pparse_never_crashes :
  forall d env clear o t toks sh,
  env_wf env -> env_safe env -> wf_tree t = true -> safe_tree env t -> not_prod t = true ->
  clear = true \/ length (saved sh) <= 1 ->
  Forall nev ((if clear then [] else saved sh) ++ toks) ->
  pparse d env clear o t toks sh <> Crash.
Proof. exact ProdParserSafe.pparse_never_crashes. Qed.
Print Assumptions pparse_never_crashes.

(* ---- recursion depth: in an environment whose sub-parser calls are ranked the depth budget rank + 1 suffices
   (the media part of the library is ranked: media_part_ranked; the value part is not: CSSFunction calls itself) *)
Theorem pparse_depth_bounded :
  forall rk env, ranked rk env ->
  forall d g r, rkof rk g = Some r -> r < d -> forall anc first toks, pparse_sub d env g anc first toks <> DepthOut.
Proof. exact pparse_sub_depth. Qed.
Print Assumptions pparse_depth_bounded.

(* ---- C01: the media-query-list leaf returns on every token run the tokenizer can produce (replaces the
   LMediaQuery instance of ParseSkelFacts.leaves_total); also for the MediaQuery constructor *)
Theorem media_leaf_total :
  forall toks, sane_toks toks -> exists w its mt, build 6 env_real gid_MediaList toks = Some (PRet w its mt).
Proof. exact ProdParserSafe.media_leaf_total. Qed.
Print Assumptions media_leaf_total.
Theorem media_query_total :
  forall toks, sane_toks toks -> exists w its mt, build 6 env_real gid_MediaQuery toks = Some (PRet w its mt).
Proof. exact ProdParserSafe.media_query_total. Qed.
Print Assumptions media_query_total.
Theorem leaves_total_media :
  forall (St : Type) (commit : St -> bool -> list item -> St)
         (leaf : ParseSkel.leafkind -> St -> list tok -> ParseTotal.outcome St),
  (forall st run, leaf ParseSkel.LMediaQuery st run = media_leaf St commit st run) ->
  forall st run, sane_toks run -> exists st', leaf ParseSkel.LMediaQuery st run = ParseTotal.Returned st'.
Proof. exact ProdParserBridge.leaves_total_media. Qed.
Print Assumptions leaves_total_media.

(* ---- C06: the engine touches savedTokens / tokenizer._pushed only through the primitive events of Globals.v, and
   Globals.do_ev executes them identically on the regenerated bracket table *)
Theorem stash_events :
  forall d env clear o t toks sh r,
  pparse d env clear o t toks sh = Ret r ->
  exists evs, srun ((if clear then [SInit] else []) ++ evs) sh = r_stash r.
Proof. exact ProdParserBridge.stash_events. Qed.
Print Assumptions stash_events.
Theorem stash_events_globals :
  forall (enc : tok -> N) st g sh e,
  Globals.pp_clears_saved st = true -> Globals.pp_clears_pushed st = true ->
  exists ob, Globals.do_ev st true (ev_of enc e) (embed enc g sh) = Some (embed enc g (sdo sh e), ob, true).
Proof. exact do_ev_sdo. Qed.
Print Assumptions stash_events_globals.

(* ---- pparse_consumes_prefix: the seq items, the token handed back and the unused tokens are, IN ORDER, a subsequence
   of the input: every item is anchored at its own input token (made from it by a toSeq callback, as a comment, as kept
   whitespace, or as the object of the sub-parser started on it); tokens are dropped (S/COMMENT handling, toSeq=False,
   tokens eaten by sub-parsers, the failing token), never invented, duplicated or reordered *)
Theorem pparse_consumes_prefix :
  forall d env clear o t toks sh r,
  clear = true \/ length (saved sh) <= 1 ->
  pparse d env clear o t toks sh = Ret r ->
  exists ts, Forall2 anchor (r_items r) ts /\
             Sub (ts ++ saved (r_stash r) ++ rfull r) ((if clear then [] else saved sh) ++ toks).
Proof. exact pparse_items_in_order. Qed.
Print Assumptions pparse_consumes_prefix.

(* ---- the value grammar (PropertyValue and everything below it, a cyclic call graph): on every token run the
   tokenizer can produce, for EVERY depth budget d, the constructor returns or the nesting exceeds the budget
   (Python: RecursionError) -- never Crash, never Spin, never out of loop fuel *)
Theorem property_value_total_mod_depth :
  forall d toks, sane_toks toks ->
  pparse_env d env_real gid_PropertyValue toks = DepthOut \/
  exists r, pparse_env d env_real gid_PropertyValue toks = Ret r /\ post PostPV r <> PCrash.
Proof. exact ProdParserSafe.property_value_total_mod_depth. Qed.
Print Assumptions property_value_total_mod_depth.
Theorem value_ctor_total_mod_depth :
  forall g, 8 <= g <= 11 -> forall d toks, sane_toks toks ->
  exists pc, postof_env env_real g = Some pc /\
  (pparse_env d env_real g toks = DepthOut \/ exists r, pparse_env d env_real g toks = Ret r /\ post pc r <> PCrash).
Proof. exact ProdParserSafe.value_ctor_total_mod_depth. Qed.
Print Assumptions value_ctor_total_mod_depth.
(* the public constructors Value / URIValue / DimensionValue / ColorValue read their first NON-COMMENT item and report
   "no value" when there is none (fix 2; on the pinned tree [EOF] raised IndexError, a leading comment TypeError /
   UnboundLocalError or became the value): they return on every sane token run, for every depth budget *)
Theorem value_leaf_ctor_total :
  forall g, 4 <= g <= 7 -> forall toks d, sane_toks toks ->
  exists pc, postof_env env_real g = Some pc /\
  (pparse_env d env_real g toks = DepthOut \/ exists r, pparse_env d env_real g toks = Ret r /\ post pc r <> PCrash).
Proof. exact ProdParserSafe.value_leaf_ctor_total. Qed.
Print Assumptions value_leaf_ctor_total.
Theorem value_leaf_ctor_witnesses_fixed :
  sane_toks [eof_tok] /\ sane_toks [tk "COMMENT" "/**/"; tk "NUMBER" "1"] /\
  (exists its mt, build 3 env_real gid_Value [eof_tok] = Some (PRet false its mt)) /\
  (exists its mt, build 3 env_real gid_URIValue [eof_tok] = Some (PRet false its mt)) /\
  (exists its mt, build 3 env_real gid_DimensionValue [tk "COMMENT" "/**/"; tk "NUMBER" "1"] = Some (PRet true its mt)) /\
  (exists its mt, build 3 env_real gid_ColorValue [tk "COMMENT" "/**/"; tk "IDENT" "red"] = Some (PRet true its mt)).
Proof. exact value_ctor_witnesses_fixed. Qed.
Print Assumptions value_leaf_ctor_witnesses_fixed.

(* ---- the side condition `sane` is a theorem about the tokenizer model: every token list Tokenizer.tokenize returns is
   sane (STRING tokens are quoted: C01's string_tokens_quoted_lemma; S tokens are never + or -), hence the media leaf
   returns on every run cut out of a tokenized text -- the unconditional form of C01's leaves_total for LMediaQuery *)
Theorem tokenize_sane :
  forall dc fs text toks, tokenize dc fs text = Some toks -> sane_toks toks.
Proof. exact ProdParserBridge.tokenize_sane. Qed.
Print Assumptions tokenize_sane.
Theorem media_leaf_returns_tokenized :
  forall (St : Type) (commit : St -> bool -> list item -> St) dc fs text toks run st,
  tokenize dc fs text = Some toks -> (forall t, In t run -> In t toks) ->
  exists st', media_leaf St commit st run = ParseTotal.Returned st'.
Proof. exact ProdParserBridge.media_leaf_returns_tokenized. Qed.
Print Assumptions media_leaf_returns_tokenized.

(* ---- the recursion depth of the value grammar is bounded by the number of tokens (every sub-parser consumes its first
   token with a production that starts no sub-parser: first_plain, checked on the regenerated trees), so with a depth
   budget above the token count the PropertyValue constructor RETURNS on every sane token run -- the value half of C01's
   leaf LProperty; Python's RecursionError needs more nested functions than the interpreter stack allows (C01's open
   nested-function finding), nothing else.  The bound is tight (depth_bound_tight). *)
Theorem property_value_no_depthout :
  forall toks d, length toks < d -> pparse_env d env_real gid_PropertyValue toks <> DepthOut.
Proof. exact ProdParserDepth.property_value_no_depthout. Qed.
Print Assumptions property_value_no_depthout.
Theorem property_value_total :
  forall toks d, sane_toks toks -> length toks < d ->
  exists r, pparse_env d env_real gid_PropertyValue toks = Ret r /\ post PostPV r <> PCrash.
Proof. exact ProdParserDepth.property_value_total. Qed.
Print Assumptions property_value_total.
Theorem value_ctor_total :
  forall g, 8 <= g <= 11 -> forall toks d, sane_toks toks -> length toks < d ->
  exists pc r, postof_env env_real g = Some pc /\ pparse_env d env_real g toks = Ret r /\ post pc r <> PCrash.
Proof. exact ProdParserDepth.value_ctor_total. Qed.
Print Assumptions value_ctor_total.
Theorem value_leaf_returns_tokenized :
  forall (St : Type) (commit : St -> bool -> list item -> St) dc fs text toks run st,
  tokenize dc fs text = Some toks -> (forall t, In t run -> In t toks) ->
  exists st', value_leaf St commit st run = ParseTotal.Returned st'.
Proof. exact ProdParserBridge.value_leaf_returns_tokenized. Qed.
Print Assumptions value_leaf_returns_tokenized.

(* ---- media_query_accepts (replaces C02/C05's media_grammar_faithful for the queries it covers): every media query of
   the project's AST (Grammar.mquery) with a KNOWN media type (or starting with an expression) and value-free
   expressions, rendered in ANY layout (gaps of whitespace/comments, letter case of only/not/and), is accepted by the
   MediaQuery grammar, for every depth budget; the seq is exactly the rendered tokens without whitespace (comments as
   CSSComment items), nothing is left in the stream or the stash, and mediaType is the type iff the query is simple *)
Theorem media_query_accepts :
  forall q lay, wf_mq q ->
  exists r, pparse 6 env_real true opts0 tree_MediaQuery (Grammar.r_mquery lay q) stash0 = Ret r /\
            r_wf r = true /\ r_items r = x_mquery lay q /\ mq_mediatype (r_store r) = simple_type q /\
            r_rest r = [] /\ saved (r_stash r) = [].
Proof. exact ProdParserMedia.media_query_accepts. Qed.
Print Assumptions media_query_accepts.
Theorem media_query_accepts_tokens :
  forall q lay, wf_mq q ->
  exists r, pparse 6 env_real true opts0 tree_MediaQuery (Grammar.r_mquery lay q) stash0 = Ret r /\
            r_wf r = true /\ r_items r = tok_items (Grammar.r_mquery lay q).
Proof.
  intros q lay H. destruct (ProdParserMedia.media_query_accepts_tokens q lay H) as [r Hr]. exists r.
  repeat match type of Hr with _ /\ _ => destruct Hr as [? Hr] end. repeat split; assumption.
Qed.
Print Assumptions media_query_accepts_tokens.

(* ---- the push-back cell tokenizer._pushed: on the repaired code the only write is the stopAndKeep branch, so a parse
   over trees without a stopAndKeep production leaves it as it was or emptied by a sub-parser's ProdParser(); the
   media grammars and every value constructor except PropertyValue (whose `END ;` production is the only stopAndKeep
   production of the library) never write it -- the cell of C06's Globals.v that finding PP-pushback-lost is about *)
Theorem pparse_never_pushes :
  forall dom d env clear o t toks sh r,
  nokeep_dom dom env -> tallb (nokeep dom) t = true -> clear = true \/ pushed sh = [] ->
  pparse d env clear o t toks sh = Ret r -> pushed (r_stash r) = [].
Proof. exact ProdParserPushed.pparse_never_pushes. Qed.
Print Assumptions pparse_never_pushes.
Theorem media_never_pushes :
  forall toks d r, pparse_env d env_real gid_MediaList toks = Ret r -> pushed (r_stash r) = [].
Proof. exact ProdParserPushed.media_never_pushes. Qed.
Print Assumptions media_never_pushes.
Theorem ctor_never_pushes :
  forall g, g <> gid_PropertyValue -> forall toks d r, pparse_env d env_real g toks = Ret r -> pushed (r_stash r) = [].
Proof. exact ProdParserPushed.ctor_never_pushes. Qed.
Print Assumptions ctor_never_pushes.

(* ---- value_accepts / value_grammar_faithful (C02/C03's hypothesis, for the single-token fragment of the value AST of
   Grammar.v): every declaration value whose terms are identifiers (colour keywords or not), numbers, dimensions,
   percentages, strings, URIs, hex colours or unicode ranges, with space / comma / slash separators, rendered in ANY
   layout, with or without a following !important, is accepted by the PropertyValue grammar (depth 2), the constructor
   keeps it, and the seq without comments is one object per term plus the operator items; read through the js reader
   (mirror of harness/props/c02.py x_value / x_decls) it is the specified model m_value d.  TmRgb / TmFunc / TmCalc are
   outside wf_value (not proved). *)
Theorem value_accepts :
  forall D lay d ga, wf_value d ->
  exists r, pparse_env (S (S D)) env_real gid_PropertyValue (GrammarFacts.decl_value lay d (Grammar.gopt lay ga)) = Ret r /\
            r_wf r = true /\ post PostPV r = PRet true (r_items r) [] /\ clean (r_items r) = value_items d.
Proof. exact ProdParserValue.value_accepts. Qed.
Print Assumptions value_accepts.
Theorem value_grammar_faithful_simple :
  forall lay d ga, wf_value_js d ->
  build_value (GrammarFacts.decl_value lay d (Grammar.gopt lay ga)) = GrammarFacts.m_value d.
Proof. exact ProdParserValue.value_grammar_faithful_simple. Qed.
Print Assumptions value_grammar_faithful_simple.

(* ... and with rgb(r, g, b) terms (ColorValue sub-parser with three DimensionValue components; depth 3) *)
Theorem value_accepts_x :
  forall D lay d ga, wf_valuex d ->
  exists r, pparse_env (S (S (S D))) env_real gid_PropertyValue (GrammarFacts.decl_value lay d (Grammar.gopt lay ga)) = Ret r /\
            r_wf r = true /\ post PostPV r = PRet true (r_items r) [] /\ clean (r_items r) = value_itemsx d.
Proof. exact ProdParserValue.value_accepts_x. Qed.
Print Assumptions value_accepts_x.
Theorem value_grammar_faithful_x :
  forall lay d ga, wf_valuex_js d ->
  build_valuex (GrammarFacts.decl_value lay d (Grammar.gopt lay ga)) = GrammarFacts.m_value d.
Proof. exact ProdParserValue.value_grammar_faithful_x. Qed.
Print Assumptions value_grammar_faithful_x.

(* ---- media queries with values, and the media LIST (stage 3/4 of ProdParserMedia.v):
   media_query_accepts_v: as media_query_accepts, with expression values that the grammar takes as DimensionValue
   (number / dimension / percentage) or Value (an identifier that is not a colour keyword) sub-objects, and with a bare
   UNKNOWN media type (alternative 3 of the root Choice) when there is no only|not.
   media_list_spec / media_head_spec: MediaList accepts every comma-separated list of such queries in any layout (also
   between the gaps that cssmediarule.py leaves around it), each query parsed by the MediaQuery(_partof=True) sub-parser
   whose stop token `,` travels through savedTokens; the MediaQuery objects kept are exactly Grammar.media_effective
   (duplicates of an earlier simple type dropped, a simple `all` wins: medialist.py:134-159 on normalised types, commit
   341b50d).  Side conditions wf_ml (an unknown bare type directly before a comma is rejected by the grammar: open C02
   finding) and type_plain (no escapes in the type name: the implementation keys on normalize, the specification on lower) *)
Theorem media_query_accepts_v :
  forall q lay, wf_mqv q ->
  exists r, pparse 6 env_real true opts0 tree_MediaQuery (Grammar.r_mquery lay q) stash0 = Ret r /\
            r_wf r = true /\ r_items r = x_mquery lay q /\ mq_mediatype (r_store r) = simple_type q /\
            r_rest r = [] /\ saved (r_stash r) = [].
Proof. exact ProdParserMedia.media_query_accepts_v. Qed.
Print Assumptions media_query_accepts_v.
Theorem media_list_spec :
  forall lay ml, wf_ml ml -> Forall type_plain (map snd ml) ->
  exists its ps, build 6 env_real gid_MediaList (Grammar.r_mlist lay true ml) = Some (PRet true its []) /\
                 filter is_mq_obj its = map (pobj lay) ps /\ map fst ps = Grammar.media_effective (map snd ml).
Proof. exact ProdParserMedia.media_list_spec. Qed.
Print Assumptions media_list_spec.
Theorem media_head_spec :
  forall lay g0 g1 ml, gapl g0 -> gapl g1 -> wf_ml ml -> Forall type_plain (map snd ml) ->
  exists its ps, build 6 env_real gid_MediaList (g0 ++ Grammar.r_mlist lay true ml ++ g1) = Some (PRet true its []) /\
                 filter is_mq_obj its = map (pobj lay) ps /\ map fst ps = Grammar.media_effective (map snd ml).
Proof. exact ProdParserMedia.media_head_spec. Qed.
Print Assumptions media_head_spec.
