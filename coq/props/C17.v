(* C17 -- numeric and colour values keep their meaning.
   Models: theories/Numbers.v, theories/Colors.v over the regenerated Gen/NumConsts.v, Gen/Colors.v.
   Number theorems are about normalised token values; a lexeme is (sign, integer digits, fraction digits, unit) and
   [wf] says: digits are digits, there is an integer part or a fraction, the unit does not start with a digit or '.'.
   float() is any function with [binary64_like] (error bound of binary64 round-to-nearest, sign preserving);
   the executable [dbl_exec] is compared bit-for-bit with CPython by harness/props/c17.py.                     *)
From Coq Require Import QArith Qabs Qround.
From CssV Require Import Base Regex Numbers NumbersFacts Colors ColorsFacts Gen.NumConsts Gen.Colors.
Local Open Scope Q_scope.

(* ---------------------------------------------------------------- numbers *)
(* a written number parses to exactly its lexeme: sign, digits and unit are recovered, the stored value is the
   exact integer, or float() of the exact decimal *)
Theorem number_parse_exact : forall dbl lx,
  binary64_like dbl -> wf lx -> Qabs (lex_Q lx) <= maxq ->
  parse_num dbl (render lx) = Some (lx, to_value dbl lx) /\
  (lfrac lx = None -> to_value dbl lx = PyInt (lex_num lx) /\ pyq (to_value dbl lx) == lex_Q lx) /\
  (lfrac lx <> None -> to_value dbl lx = PyFloat (dbl (lex_Q lx))) /\
  Qabs (pyq (to_value dbl lx) - lex_Q lx) <= Qabs (lex_Q lx) * eps53 + tiny.
Proof.
  intros dbl lx (H1 & H2 & H3 & H4) Hw Hr.
  destruct (to_value_spec dbl H2 lx Hw Hr) as (Hi & A & B & _).
  split; [exact (parse_render dbl lx Hw Hi)|].
  split; [exact A|]. split; [exact B|]. exact (stored_err dbl H1 H2 lx Hw Hr).
Qed.
Print Assumptions number_parse_exact.

(* the magnitude guard of the theorems is what the code enforces: a fraction that reaches the binary64 overflow
   threshold 2^1024 - 2^970 (float() gives inf) is rejected as not well-formed (value.py, fix 5180c6a) *)
Theorem number_overflow_rejected : forall dbl lx,
  wf lx -> lfrac lx <> None -> ovf_threshold <= Qabs (lex_Q lx) -> parse_num dbl (render lx) = None.
Proof. exact parse_overflow. Qed.
Print Assumptions number_overflow_rejected.

(* parse -> cssText -> parse, for every lexeme and both omitLeadingZero settings: the value comes back within half a
   unit of the 6th decimal (plus the two binary64 roundings), the unit is the same or a zero length dropped it *)
Theorem number_roundtrip : forall dbl lx olz,
  binary64_like dbl -> wf lx -> Qabs (lex_Q lx) <= roundtrip_range ->
  exists lx' v',
    roundtrip dbl olz lx = Some (lx', v') /\
    Qabs (pyq v' - lex_Q lx) <= (1 # 2000000) + Qabs (lex_Q lx) * (1 # 2251799813685248) + (1 # 100000000000000000000) /\
    (lunit lx' = lunit lx \/
     (pyq (to_value dbl lx) == 0 /\ mem_s (lunit lx) zero_units = true /\ lunit lx' = [])).
Proof.
  intros dbl lx olz (H1 & H2 & H3 & H4). exact (number_roundtrip_thm dbl H1 H2 lx olz).
Qed.
Print Assumptions number_roundtrip.

(* at most 6 decimals and below 10^9: the text that is written denotes exactly the decimal that was read, and the
   value stored after re-parsing equals the value stored before: no drift at all *)
Theorem six_digits_exact : forall dbl lx olz,
  binary64_like dbl -> wf lx -> (length (frac_digits lx) <= 6)%nat -> Qabs (lex_Q lx) <= inject_Z (10 ^ 9) ->
  exists lx' v',
    roundtrip dbl olz lx = Some (lx', v') /\
    lex_Q lx' == lex_Q lx /\
    pyq v' == pyq (to_value dbl lx) /\
    (lunit lx' = lunit lx \/
     (pyq (to_value dbl lx) == 0 /\ mem_s (lunit lx) zero_units = true /\ lunit lx' = [])).
Proof.
  intros dbl lx olz (H1 & H2 & H3 & H4). exact (six_digits_exact_thm dbl H1 H2 H3 H4 lx olz).
Qed.
Print Assumptions six_digits_exact.

(* the units a zero value may lose are CSS 2.1 lengths (4.3.2), typed here *)
Definition css21_lengths : list str := [s "em"; s "ex"; s "px"; s "cm"; s "mm"; s "in"; s "pt"; s "pc"].
Theorem zero_units_are_lengths : forall u, In u zero_units -> In u css21_lengths.
Proof.
  assert (H : forallb (fun u => mem_s u css21_lengths) zero_units = true) by (vm_compute; reflexivity).
  rewrite forallb_forall in H. intros u Hu. specialize (H u Hu).
  induction css21_lengths as [|x l IH]; [discriminate|]. cbn [mem_s] in H.
  apply orb_true_iff in H. destruct H as [H|H]; [left; symmetry; now apply eqs_spec|right; auto].
Qed.
Print Assumptions zero_units_are_lengths.

(* ---------------------------------------------------------------- binary64 discharged *)
(* the executable rounding function (integer arithmetic, compared bit-for-bit with CPython's float() by the harness)
   has the properties the number theorems assume: no hypothesis about floating point is left *)
Theorem dbl_exec_is_binary64 : binary64_like dbl_exec.
Proof. exact dbl_exec_binary64. Qed.
Print Assumptions dbl_exec_is_binary64.

(* ... and it is exact on every representable value m * 2^e, |m| < 2^53, e >= -1074 *)
Theorem dbl_exec_exact_on_representables : forall m e,
  (Z.abs m < 2 ^ 53)%Z -> (-1074 <= e)%Z -> dbl_exec (inject_Z m * two ^ e) == inject_Z m * two ^ e.
Proof. exact dbl_exec_exact. Qed.
Print Assumptions dbl_exec_exact_on_representables.

Theorem number_parse_exact_exec : forall lx,
  wf lx -> Qabs (lex_Q lx) <= maxq ->
  parse_num dbl_exec (render lx) = Some (lx, to_value dbl_exec lx) /\
  (lfrac lx = None -> to_value dbl_exec lx = PyInt (lex_num lx) /\ pyq (to_value dbl_exec lx) == lex_Q lx) /\
  (lfrac lx <> None -> to_value dbl_exec lx = PyFloat (dbl_exec (lex_Q lx))) /\
  Qabs (pyq (to_value dbl_exec lx) - lex_Q lx) <= Qabs (lex_Q lx) * eps53 + tiny.
Proof. intros lx. exact (number_parse_exact dbl_exec lx dbl_exec_binary64). Qed.
Print Assumptions number_parse_exact_exec.

Theorem number_roundtrip_exec : forall lx olz,
  wf lx -> Qabs (lex_Q lx) <= roundtrip_range ->
  exists lx' v',
    roundtrip dbl_exec olz lx = Some (lx', v') /\
    Qabs (pyq v' - lex_Q lx) <= (1 # 2000000) + Qabs (lex_Q lx) * (1 # 2251799813685248) + (1 # 100000000000000000000) /\
    (lunit lx' = lunit lx \/
     (pyq (to_value dbl_exec lx) == 0 /\ mem_s (lunit lx) zero_units = true /\ lunit lx' = [])).
Proof. intros lx olz. exact (number_roundtrip dbl_exec lx olz dbl_exec_binary64). Qed.
Print Assumptions number_roundtrip_exec.

Theorem six_digits_exact_exec : forall lx olz,
  wf lx -> (length (frac_digits lx) <= 6)%nat -> Qabs (lex_Q lx) <= inject_Z (10 ^ 9) ->
  exists lx' v',
    roundtrip dbl_exec olz lx = Some (lx', v') /\
    lex_Q lx' == lex_Q lx /\
    pyq v' == pyq (to_value dbl_exec lx) /\
    (lunit lx' = lunit lx \/
     (pyq (to_value dbl_exec lx) == 0 /\ mem_s (lunit lx) zero_units = true /\ lunit lx' = [])).
Proof. intros lx olz. exact (six_digits_exact dbl_exec lx olz dbl_exec_binary64). Qed.
Print Assumptions six_digits_exact_exec.

Example dbl_exec_examples :
  dbl_exec (1 # 10) = 3602879701896397 # 36028797018963968 /\ dbl_exec (1 # 2) = 1 # 2 /\ dbl_exec (- (3 # 4)) = - (3 # 4).
Proof. vm_compute. repeat split. Qed.

(* the hypotheses are satisfiable, the lexemes exist, and the executable binary64 gives the expected texts *)
Example binary64_like_inhabited : binary64_like (fun q => q).
Proof. exact binary64_like_id. Qed.
Example wf_example : wf (mkLex SMinus (s "0") (Some (s "50")) (s "px")) /\ wf (mkLex SPlus [] (Some (s "25")) (s "%")).
Proof. unfold wf, all_digits; cbn. repeat split; try discriminate; repeat constructor. Qed.
Example roundtrip_example :
  option_map (fun p => render (fst p)) (roundtrip dbl_exec true (mkLex SMinus (s "0") (Some (s "50")) (s "PX"))) = Some (s "-.5PX") /\
  option_map (fun p => render (fst p)) (roundtrip dbl_exec false (mkLex SPlus (s "007") (Some (s "1234565")) (s "em"))) = Some (s "+7.123456em") /\
  option_map (fun p => render (fst p)) (roundtrip dbl_exec true (mkLex SNone (s "0") (Some (s "000")) (s "px"))) = Some (s "0").
Proof. vm_compute. repeat split. Qed.
(* the defect repaired by fix e0376ad: the old surgery cut by the written sign; the repaired one keeps '1.0px' *)
Example omit_leading_zero_old_code_refuted :
  ser_num_old true SNone (to_value dbl_exec (mkLex SNone (s "0") (Some (s "9999999")) (s "px"))) (s "px") = Text (s ".0px") /\
  ser_num true SNone (to_value dbl_exec (mkLex SNone (s "0") (Some (s "9999999")) (s "px"))) (s "px") = Text (s "1.0px").
Proof. vm_compute. split; reflexivity. Qed.

(* ---------------------------------------------------------------- colours *)
(* what reHexcolor accepts, for every string *)
Theorem hex_shapes : forall v, hexmatch v = hex_shape v.
Proof. exact hexmatch_shape. Qed.
Print Assumptions hex_shapes.

Theorem hex3_rgb : forall a b c,
  is_hex a = true -> is_hex b = true -> is_hex c = true ->
  color_of_hash [35%N; a; b; c] = Rgba (css3_hex3 a b c) 1.
Proof. exact hex3_rgb_thm. Qed.
Print Assumptions hex3_rgb.

Theorem hex6_rgb : forall a1 a2 b1 b2 c1 c2,
  is_hex a1 = true -> is_hex a2 = true -> is_hex b1 = true -> is_hex b2 = true -> is_hex c1 = true -> is_hex c2 = true ->
  color_of_hash [35%N; a1; a2; b1; b2; c1; c2] = Rgba (css3_hex6 a1 a2 b1 b2 c1 c2) 1.
Proof. exact hex6_rgb_thm. Qed.
Print Assumptions hex6_rgb.

(* a string that is not of one of the two shapes is not a colour; in particular none ends in a newline *)
Theorem hex_nothing_else : forall v,
  hexmatch v = true ->
  (exists a b c, v = [35%N; a; b; c] /\ is_hex a = true /\ is_hex b = true /\ is_hex c = true) \/
  (exists a1 a2 b1 b2 c1 c2, v = [35%N; a1; a2; b1; b2; c1; c2] /\ is_hex a1 = true /\ is_hex a2 = true /\
     is_hex b1 = true /\ is_hex b2 = true /\ is_hex c1 = true /\ is_hex c2 = true).
Proof. exact hex_only_shapes. Qed.
Print Assumptions hex_nothing_else.

(* minimizeColorHash: the shortened text is again a hex colour with the same components, for every string *)
Theorem hash_min_same_rgb : forall mz v,
  hexmatch v = true -> hexmatch (hash_min mz v) = true /\ hex_rgb (hash_min mz v) = hex_rgb v.
Proof. exact hash_min_same_rgb_thm. Qed.
Print Assumptions hash_min_same_rgb.

(* every name, known or unknown: COLORS of /repo and the CSS3 table typed into Colors.v give the same answer *)
Theorem named_rgb : forall name, rgba_eqb (named_color name) (assoc_s name css3_named) = true.
Proof. exact named_rgb_thm. Qed.
Print Assumptions named_rgb.

(* rgb()/rgba() with integer arguments report them unchanged: the CSS3 value whenever 0 <= n <= 255.
   Full statement (CSS3 Color 4.2.1: components are clipped to 0..255, alpha to 0..1) is violated by the code:
     forall r g b, fn_color dbl "rgb(" [r; g; b] = FRgba (clip 0 255 r) (clip 0 255 g) (clip 0 255 b) 1 true     *)
Theorem rgb_fn_spec_partial : forall dbl r g b,
  (0 <= r <= 255)%Z -> (0 <= g <= 255)%Z -> (0 <= b <= 255)%Z ->
  fn_color dbl (s "rgb(") [CNum (PyInt r); CNum (PyInt g); CNum (PyInt b)]
  = FRgba (clip 0 (255 # 1) (inject_Z r)) (clip 0 (255 # 1) (inject_Z g)) (clip 0 (255 # 1) (inject_Z b)) 1 true.
Proof. exact rgb_fn_in_range. Qed.
Print Assumptions rgb_fn_spec_partial.
Theorem rgb_fn_spec_refuted :
  exists r g b, fn_color dbl_exec (s "rgb(") [CNum (PyInt r); CNum (PyInt g); CNum (PyInt b)]
                = FRgba (300 # 1) (- (5 # 1)) 0 1 true /\ ~ (clip 0 (255 # 1) (inject_Z r) == 300 # 1).
Proof. exact rgb_fn_clip_refuted. Qed.
Print Assumptions rgb_fn_spec_refuted.

(* colorsys' algorithm over exact rationals is the CSS3 hsl algorithm (hue already normalised to [0,1)) *)
Theorem hsl_algorithm_is_css3 : forall h sat l,
  0 <= h -> h < 1 -> let '(r, g, b) := hls_to_rgb h l sat in let '(r', g', b') := css3_hsl h sat l in
  r == r' /\ g == g' /\ b == b'.
Proof. exact hls_is_css3. Qed.
Print Assumptions hsl_algorithm_is_css3.

(* the same for any hue the author wrote (480, -120, 30.5 ...): colorsys reduces it modulo 1 as CSS3 4.2.4 says *)
Theorem hsl_any_hue_is_css3 : forall h sat l,
  let '(r, g, b) := hls_to_rgb h l sat in let '(r', g', b') := css3_hsl (qmod1 h) sat l in
  r == r' /\ g == g' /\ b == b'.
Proof. exact hls_any_hue_is_css3. Qed.
Print Assumptions hsl_any_hue_is_css3.

(* what the model of hsl() carries: the exact reals r*255, g*255, b*255 of that algorithm *)
Theorem hsl_fn_exact_stage : forall dbl h sat l,
  fn_color dbl (s "hsl(") [CNum h; CPct sat; CPct l] =
  let '(r, g, b) := hls_to_rgb (pyq h / inject_Z 360) (pyq l / inject_Z 100) (pyq sat / inject_Z 100) in
  FRgba (r * inject_Z 255) (g * inject_Z 255) (b * inject_Z 255) 1 false.
Proof. exact hsl_fn_model. Qed.
Print Assumptions hsl_fn_exact_stage.

(* DESIGN hsl_fn_spec, rounding stage: the code rounds a binary64 evaluation x of r*255 with int(round(x)); if x is
   within delta of the exact X = 255 * (CSS3 component), the reported integer is within 1/2 + delta of X.
   The binary64 stage itself (about 20 operations of colorsys) is NOT analysed in Coq: delta <= 10^-9 is the stated
   bound, measured on every hsl case by the harness (hsl_binary64_delta_max in the evidence). *)
Theorem hsl_fn_spec : forall x X delta,
  Qabs (x - X) <= delta -> Qabs (inject_Z (rhe x) - X) <= (1 # 2) + delta.
Proof. exact hsl_round_stage. Qed.
Print Assumptions hsl_fn_spec.

(* rgb() percentages: what int(255 * p / 100) is, as a function of the written percentage.
   integer p: floor of the exact value, or the next integer when the one binary64 division rounded up to it; so the
   reported component differs from the CSS3 real 255p/100 by less than 1 (the oracle's tolerance) *)
Theorem rgb_pct_int_spec : forall z,
  (0 <= z <= 10 ^ 12)%Z ->
  let x := inject_Z (255 * z) / inject_Z 100 in
  exists t, pct255 dbl_exec (PyInt z) = inject_Z t /\
    (Qfloor x <= t)%Z /\ inject_Z t <= x + x * eps53 + tiny /\ Qabs (inject_Z t - x) < 1.
Proof.
  intros z Hz x. exists (qtrunc (dbl_exec x)). split; [exact (pct255_int z)|]. exact (pct_int_spec z Hz).
Qed.
Print Assumptions rgb_pct_int_spec.

(* fractional p: the stored binary64 value v, two more roundings, truncation: within 1 + 2^-51 * w of w = 255v/100 *)
Theorem rgb_pct_float_spec : forall v,
  0 <= v -> v <= inject_Z (10 ^ 12) ->
  let w := inject_Z 255 * v / inject_Z 100 in
  let t := pct255 dbl_exec (PyFloat v) in
  w - 1 - w * (1 # 2251799813685248) - tiny * (3 # 1) < t /\ t <= w + w * (1 # 2251799813685248) + tiny * (3 # 1).
Proof. exact pct_float_spec. Qed.
Print Assumptions rgb_pct_float_spec.

Example hex_examples :
  color_of_hash (s "#fb0") = Rgba (255, 187, 0)%Z 1 /\ color_of_hash (s "#0A0ad2") = Rgba (10, 10, 210)%Z 1 /\
  hash_min true (s "#AAbbcc") = s "#Abc" /\ hash_min true (s "#aAbbcc") = s "#aAbbcc" /\
  color_of_hash [35%N; 97%N; 98%N; 99%N; 10%N] = NoColor /\ named_color (s "rebeccapurple") = None.
Proof. vm_compute. repeat split. Qed.
Example function_examples :
  fn_color dbl_exec (s "rgb(") [CPct (PyInt 50); CPct (PyInt 100); CPct (PyInt 0)] = FRgba (127 # 1) (255 # 1) 0 1 true /\
  (match fn_color dbl_exec (s "hsl(") [CNum (PyInt 120); CPct (PyInt 100); CPct (PyInt 50)] with
   | FRgba r g b a false => Qred r = 0 /\ Qred g = 255 # 1 /\ Qred b = 0 /\ a = 1
   | _ => False end) /\
  fn_color dbl_exec (s "hsl(") [CNum (PyInt 120); CNum (PyInt 100); CPct (PyInt 50)] = FInvalid.
Proof. vm_compute. repeat split. Qed.
