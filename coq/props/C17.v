From Coq Require Import QArith.
From CssV Require Import Base Numbers Colors.
