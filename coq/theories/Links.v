(* Links.v -- executable model of the hand-maintained parent / owner links of the CSSOM objects
   (property C18).  Definitions only; proofs are in LinksFacts.v.

   Python objects are cells of a heap (a list; the identity of an object is its index, objects are
   never freed).  A cell carries
     - the STORED link attributes exactly as the code keeps them:
         f_pr   _parentRule        (rules, declaration blocks, selector lists, media lists)
         f_pss  _parentStyleSheet  (rules)
         f_par  _parent / parent   (Property, Selector, PropertyValue, Value; rules: CSSRule._parent)
         f_own  _ownerRule         (style sheets)
       they are plain data, independent of the shape of the object graph, so they can be wrong;
     - kids: the objects it actually CONTAINS, by role, in list order
         (cssRules, style, selectorList, media, styleSheet, seq items, propertyValue).
   Every site of the code that changes containment or assigns one of the link attributes is one
   function below, writing exactly the attributes that the code writes at that site (line numbers
   refer to /repo/src/css_parser).  Parsing / text assignment builds its objects with the same
   constructors and setters, so it is a sequence of these functions (alloc + attach), the shape of the
   parsed text being the only external input.                                                       *)
From CssV Require Import Base Gen.LinkSites.

Definition id := nat.

Inductive kind := KSheet | KRule | KDecl | KProp | KPV | KValue | KSelList | KSelector | KMediaList.
(* KRule: every CSSRule subclass (style, media, page, margin, import, font-face, comment, charset,
   namespace, unknown, variables); the link code is in the common base classes cssrule.py          *)

Inductive role :=
| RTop        (* rule in CSSStyleSheet.cssRules *)
| RSub        (* rule in the cssRules of a container rule (@media, @page) *)
| RStyle      (* rule.style *)
| RSelList    (* styleRule.selectorList *)
| RMedia      (* mediaRule.media / importRule.media *)
| RImported   (* importRule.styleSheet *)
| RItem       (* Property in a declaration block, Selector in a SelectorList, Value in a
                 PropertyValue, component Value in a function / colour / calc Value *)
| RPV.        (* property.propertyValue *)

Record obj := mkObj {
  okind : kind;
  f_pr  : option id;
  f_pss : option id;
  f_par : option id;
  f_own : option id;
  kids  : list (role * id) }.

Definition heap := list obj.
Definition get (h : heap) (i : id) : option obj := nth_error h i.

Fixpoint upd (h : heap) (i : id) (f : obj -> obj) : heap :=
  match h, i with
  | [], _ => []
  | o :: t, O => f o :: t
  | o :: t, S j => o :: upd t j f
  end.

Definition set_pr  v o := mkObj (okind o) v (f_pss o) (f_par o) (f_own o) (kids o).
Definition set_pss v o := mkObj (okind o) (f_pr o) v (f_par o) (f_own o) (kids o).
Definition set_par v o := mkObj (okind o) (f_pr o) (f_pss o) v (f_own o) (kids o).
Definition set_own v o := mkObj (okind o) (f_pr o) (f_pss o) (f_par o) v (kids o).
Definition set_kids l o := mkObj (okind o) (f_pr o) (f_pss o) (f_par o) (f_own o) l.

(* the attribute writes of the rule-list sites are REGENERATED from the source on every run
   (translate/links.py -> Gen/LinkSites.v: lists of (attribute, None | self)); this is their reading *)
Definition lval_of (p : id) (v : lval) : option id := match v with LNone => None | LSelf => Some p end.
Definition write1 (p : id) (w : lfld * lval) (o : obj) : obj :=
  match fst w with
  | LPr => set_pr (lval_of p (snd w)) o
  | LPss => set_pss (lval_of p (snd w)) o
  | LPar => set_par (lval_of p (snd w)) o
  | LOwn => set_own (lval_of p (snd w)) o
  end.
Definition apply_writes (ws : list (lfld * lval)) (p : id) (o : obj) : obj := fold_left (fun o w => write1 p w o) ws o.
Definition fld_get (f : lfld) (o : obj) : option id :=
  match f with LPr => f_pr o | LPss => f_pss o | LPar => f_par o | LOwn => f_own o end.
(* `if rule.<attr> is self: <writes>` *)
Definition guarded (g : option lfld) (ws : list (lfld * lval)) (p : id) (o : obj) : obj :=
  match g with
  | None => apply_writes ws p o
  | Some f => match fld_get f o with
              | Some q => if Nat.eqb q p then apply_writes ws p o else o
              | None => o
              end
  end.

Definition role_eqb (a b : role) : bool :=
  match a, b with
  | RTop, RTop | RSub, RSub | RStyle, RStyle | RSelList, RSelList | RMedia, RMedia
  | RImported, RImported | RItem, RItem | RPV, RPV => true
  | _, _ => false
  end.
Definition kind_eqb (a b : kind) : bool :=
  match a, b with
  | KSheet, KSheet | KRule, KRule | KDecl, KDecl | KProp, KProp | KPV, KPV | KValue, KValue
  | KSelList, KSelList | KSelector, KSelector | KMediaList, KMediaList => true
  | _, _ => false
  end.

(* ---- list operations on kids ------------------------------------------------------------- *)
(* list.insert(idx, c) among the entries of role r *)
Fixpoint ins (r : role) (c : id) (n : nat) (l : list (role * id)) : list (role * id) :=
  match l with
  | [] => [(r, c)]
  | (r', x) :: t =>
      if role_eqb r r'
      then match n with O => (r, c) :: l | S m => (r', x) :: ins r c m t end
      else (r', x) :: ins r c n t
  end.
(* del l[idx] among the entries of role r; None = IndexError *)
Fixpoint del (r : role) (n : nat) (l : list (role * id)) : option (id * list (role * id)) :=
  match l with
  | [] => None
  | (r', x) :: t =>
      if role_eqb r r'
      then match n with
           | O => Some (x, t)
           | S m => match del r m t with Some (c, t') => Some (c, (r', x) :: t') | None => None end
           end
      else match del r n t with Some (c, t') => Some (c, (r', x) :: t') | None => None end
  end.
Definition without_role (r : role) (l : list (role * id)) := filter (fun rc => negb (role_eqb r (fst rc))) l.

(* is c an element of some container?  (the harness never passes an object that is still contained
   elsewhere to an insertion / assignment: "the object that contains it" would not be unique) *)
Definition contained (h : heap) (c : id) : bool :=
  existsb (fun o => existsb (fun rc => Nat.eqb (snd rc) c) (kids o)) h.

(* ---- attach sites ------------------------------------------------------------------------ *)
Inductive site :=
| SSheetInsert   (* cssstylesheet.py insertRule/add: _cssRules.insert + post settings l.786-788;
                    _setCssRules l.122-131 *)
| SContInsert    (* cssrule.py _finishInsertRule l.265-270 (CSSMediaRule / CSSPageRule insertRule, add,
                    cssRules.append); _setCssRules l.168-178 *)
| SSetStyle      (* cssstylerule.py _setStyle l.224-233; csspagerule.py l.392-403; marginrule.py l.200-211;
                    cssfontfacerule.py l.157-167; also CSSStyleDeclaration(parentRule=self) l.100-115 *)
| SSetSelList    (* cssstylerule.py _setSelectorList l.182-189, _setSelectorText l.214 (SelectorList(parentRule=self)) *)
| SSetMedia      (* cssmediarule.py _setMedia l.263-276; cssimportrule.py _setMedia l.327-338 *)
| SSetImported   (* cssimportrule.py _setHref l.272 (CSSStyleSheet(ownerRule=self)) and l.321 *)
| SDeclAppend    (* cssstyledeclaration.py _setCssText l.299 (Property(parent=self)), l.336-337, setProperty l.616,634 *)
| SSelAppend     (* selectorlist.py __prepareset l.79-82, _setSelectorText l.199-200 (Selector(parent=self)) *)
| SPropPV        (* property.py l.79, l.265 (PropertyValue(parent=self)); value.py l.59 *)
| SPVItem        (* value.py _ValueProd ... (parent=self) with self a PropertyValue, l.151-160; Value.__init__ l.250 *)
| SValItem.      (* value.py l.330-338, l.671 ...: component values of colour / function / calc values *)

Definition site_role (s : site) : role :=
  match s with
  | SSheetInsert => RTop | SContInsert => RSub | SSetStyle => RStyle | SSetSelList => RSelList
  | SSetMedia => RMedia | SSetImported => RImported | SDeclAppend => RItem | SSelAppend => RItem
  | SPropPV => RPV | SPVItem => RItem | SValItem => RItem
  end.
(* attributes with one value are replaced, list attributes are inserted into *)
Definition role_single (r : role) : bool :=
  match r with RStyle | RSelList | RMedia | RImported | RPV => true | _ => false end.
(* kind of the container and of the element at each site (isinstance tests / what the code constructs) *)
Definition site_kinds (s : site) : kind * kind :=
  match s with
  | SSheetInsert => (KSheet, KRule) | SContInsert => (KRule, KRule) | SSetStyle => (KRule, KDecl)
  | SSetSelList => (KRule, KSelList) | SSetMedia => (KRule, KMediaList) | SSetImported => (KRule, KSheet)
  | SDeclAppend => (KDecl, KProp) | SSelAppend => (KSelList, KSelector) | SPropPV => (KProp, KPV)
  | SPVItem => (KPV, KValue) | SValItem => (KValue, KValue)
  end.
(* the attribute writes of the site, on the element c that is being attached to p *)
Definition site_writes (s : site) (p : id) (o : obj) : obj :=
  match s with
  | SSheetInsert => apply_writes sheet_insert_post p o      (* regenerated: the post settings of CSSStyleSheet.insertRule *)
  | SContInsert => apply_writes cont_insert_writes p o      (* regenerated: CSSRuleRules._finishInsertRule *)
  | SSetStyle | SSetSelList | SSetMedia => set_pr (Some p) o     (* x._parentRule = self *)
  | SSetImported => set_own (Some p) o                   (* self._ownerRule = ownerRule *)
  | SDeclAppend | SSelAppend | SPropPV | SPVItem | SValItem => set_par (Some p) o    (* x.parent = self *)
  end.

(* an attribute with a single value forgets its old value (self._style = ..., no write on the old object) *)
Definition clear_role (r : role) (h : heap) (p : id) : heap :=
  if role_single r then upd h p (fun o => set_kids (without_role r (kids o)) o) else h.

Definition attach_gen (w : id -> obj -> obj) (r : role) (kp kc : kind) (h : heap) (p c : id) (idx : nat) : heap :=
  match get h p, get h c with
  | Some op, Some oc =>
      if negb (contained h c) && kind_eqb (okind op) kp && kind_eqb (okind oc) kc
      then upd (upd (clear_role r h p) c (w p)) p (fun o => set_kids (ins r c idx (kids o)) o)
      else h
  | _, _ => h
  end.
Definition attach (s : site) (h : heap) (p c : id) (idx : nat) : heap :=
  attach_gen (site_writes s) (site_role s) (fst (site_kinds s)) (snd (site_kinds s)) h p c idx.

(* ---- detach sites ------------------------------------------------------------------------ *)
Inductive dsite :=
| DSheetDelete    (* cssstylesheet.py deleteRule l.500-501: rule._parentStyleSheet = None; del _cssRules[i] *)
| DContDelete.    (* cssrule.py deleteRule: _cssRules[i]._parentRule = None; ._parent = None; del _cssRules[i];
                     _setCssRules: the same writes on every rule of the replaced list *)
Definition dsite_role d := match d with DSheetDelete => RTop | DContDelete => RSub end.
Definition dsite_writes d (p : id) (o : obj) : obj :=      (* regenerated *)
  match d with DSheetDelete => apply_writes sheet_delete_writes p o | DContDelete => apply_writes cont_delete_writes p o end.

Definition removed (r : role) (h : heap) (p : id) (i : nat) : option id :=
  match get h p with
  | Some op => match del r i (kids op) with Some (c, _) => Some c | None => None end
  | None => None
  end.
Definition detach_gen (w : id -> obj -> obj) (r : role) (h : heap) (p : id) (i : nat) : heap :=
  match get h p with
  | Some op =>
      match del r i (kids op) with
      | Some (c, rest) => upd (upd h p (set_kids rest)) c (w p)
      | None => h
      end
  | None => h
  end.
Definition detach (d : dsite) (h : heap) (p : id) (i : nat) : heap := detach_gen (dsite_writes d) (dsite_role d) h p i.
(* an element leaves its container without any attribute write: _setSeq(newseq) (declaration cssText,
   removeProperty, PropertyValue / Value cssText), self.seq = newseq (SelectorList), appendSelector's
   duplicate removal, the rules of a sheet replaced by its cssText / cssRules setters (rules replaced in
   an @media / @page are detached: detach_all below)                                                *)
Definition drop (r : role) (h : heap) (p : id) (i : nat) : heap :=
  match get h p with
  | Some op => match del r i (kids op) with Some (_, rest) => upd h p (set_kids rest) | None => h end
  | None => h
  end.

(* constructors: a new object with the link attributes its __init__ stores (all None by default);
   CSSRule.__init__ (cssrule.py l.70-75) stores _parent = parentRule *)
Definition alloc (h : heap) (k : kind) (pr pss par own : option id) : heap :=
  h ++ [mkObj k pr pss (if kind_eqb k KRule then pr else par) own []].

(* post settings of CSSStyleSheet.insertRule reached without an insertion (an @charset merged into
   the existing one, a duplicate @namespace): l.786-788 write the attributes of a rule that stays outside *)
Definition post_only (h : heap) (p c : id) : heap :=
  match get h p, get h c with
  | Some op, Some oc =>
      if negb (contained h c) && kind_eqb (okind op) KSheet && kind_eqb (okind oc) KRule
      then upd h c (site_writes SSheetInsert p) else h
  | _, _ => h
  end.

(* ---- histories --------------------------------------------------------------------------- *)
Inductive op :=
| OAlloc (k : kind) (pr pss par own : option id)
| OAttach (s : site) (p c : id) (idx : nat)
| ODetach (d : dsite) (p : id) (i : nat)
| ODrop (r : role) (p : id) (i : nat)
| OPost (p c : id).

Definition step (h : heap) (o : op) : heap :=
  match o with
  | OAlloc k pr pss par own => alloc h k pr pss par own
  | OAttach s p c idx => attach s h p c idx
  | ODetach d p i => detach d h p i
  | ODrop r p i => drop r h p i
  | OPost p c => post_only h p c
  end.
Definition run (ops : list op) (h : heap) : heap := fold_left step ops h.
Definition start : heap := [].

(* ---- the cssRules setters, as written (regenerated loops): the rules of the replaced list get the
   (guarded) writes of the first loop and leave the list, the rules of the new list get the writes of the
   second loop and enter it *)
Fixpoint detach_all_gen (n : nat) (w : id -> obj -> obj) (r : role) (h : heap) (p : id) : heap :=
  match n with O => h | S m => detach_all_gen m w r (detach_gen w r h p 0) p end.
Definition nkids (h : heap) (p : id) : nat := match get h p with Some op => length (kids op) | None => 0 end.
Definition sheet_set_cssRules (h : heap) (p : id) (l : list id) : heap :=       (* cssstylesheet.py _setCssRules *)
  fold_left (fun h c => attach_gen (apply_writes sheet_setrules_new) RTop KSheet KRule h p c (length h)) l
            (detach_all_gen (nkids h p) (guarded sheet_setrules_old_guard sheet_setrules_old) RTop h p).
Definition container_set_cssRules (h : heap) (p : id) (l : list id) : heap :=   (* cssrule.py _setCssRules *)
  fold_left (fun h c => attach_gen (apply_writes cont_setrules_new) RSub KRule KRule h p c (length h)) l
            (detach_all_gen (nkids h p) (guarded cont_setrules_old_guard cont_setrules_old) RSub h p).

(* ---- a REJECTED sheet.cssText (cssstylesheet.py _setCssText): the rule list is cleared (through the setter or
   raw, regenerated), n rules of the new text are constructed and inserted, then the rollback branch restores the
   saved list -- `self._cssRules = oldCssRules`: no setter, no post settings, nothing is written (regenerated) *)
Definition role_kids (r : role) (l : list (role * id)) : list id :=
  map snd (filter (fun rc => role_eqb r (fst rc)) l).
Definition raw_set_rules (h : heap) (p : id) (l : list id) : heap :=
  upd h p (fun o => set_kids (without_role RTop (kids o) ++ map (pair RTop) l) o).
Definition sheet_clear_rules (h : heap) (p : id) : heap :=
  if sheet_cssText_clear_via_setter then sheet_set_cssRules h p [] else raw_set_rules h p [].
Definition parse_one_rule (p : id) (h : heap) : heap :=       (* CSSxRule(parentStyleSheet=self); self.insertRule(rule) *)
  attach SSheetInsert (alloc h KRule None (Some p) None None) p (length h) (length h).
Definition sheet_cssText_rejected (h : heap) (p : id) (n : nat) : heap :=
  match get h p with
  | None => h
  | Some op =>
      let old := role_kids RTop (kids op) in
      let h2 := Nat.iter n (parse_one_rule p) (sheet_clear_rules h p) in
      if sheet_cssText_restore_via_setter then sheet_set_cssRules h2 p old else raw_set_rules h2 p old
  end.
(* ---- a REFUSED @namespace insertion (cssstylesheet.py insertRule, @namespace branch): the rule is put into the
   list raw, _cleanNamespaces deletes some rules with deleteRule (dels: their indices) until one deleteRule raises
   NoModificationAllowedErr, then the handler restores the saved list: del self._cssRules[:]; for r in saved:
   <regenerated writes: r._parentStyleSheet = self>; raw re-insert; raise -- the post settings are not reached *)
Definition raw_insert (h : heap) (p c : id) (idx : nat) : heap :=
  upd h p (fun o => set_kids (ins RTop c idx (kids o)) o).
Definition restore_one (p : id) (h : heap) (r : id) : heap :=
  upd (upd h r (apply_writes sheet_insert_ns_restore p)) p (fun o => set_kids (kids o ++ [(RTop, r)]) o).
Definition sheet_insert_ns_refused (h : heap) (p c : id) (idx : nat) (dels : list nat) : heap :=
  match get h p with
  | None => h
  | Some op =>
      let old := role_kids RTop (kids op) in
      let h1 := raw_insert h p c idx in
      let h2 := fold_left (fun h i => detach DSheetDelete h p i) dels h1 in
      let h3 := upd h2 p (fun o => set_kids (without_role RTop (kids o)) o) in
      fold_left (restore_one p) old h3
  end.

(* Property.__init__: the property and its PropertyValue (property.py l.74-79) *)
Definition property_ctor (h : heap) (par : option id) : heap :=
  let p := length h in
  let h1 := alloc h KProp None None par None in
  let h2 := alloc h1 KPV None None (Some p) None in
  attach SPropPV h2 p (S p) 0.

(* ---- the accessors, as the code evaluates them ------------------------------------------- *)
Definition is_rule (k : kind) : bool := kind_eqb k KRule.
Definition acc_parentRule (o : obj) : option id := f_pr o.                 (* cssrule.py l.122, selectorlist.py l.230, ... *)
Definition acc_ownerRule (o : obj) : option id := f_own o.                 (* cssstylesheet.py l.795 *)
Definition acc_parent (o : obj) : option id := f_par o.                    (* cssrule.py l.119, property.py l.380, selector.py l.186, value.py *)
(* cssrule.py _getParentStyleSheet l.128-133: derived through the chain of parent rules.
   outer None = the recursion does not end within fuel (RecursionError) *)
Fixpoint acc_parentStyleSheet (fuel : nat) (h : heap) (o : obj) : option (option id) :=
  match f_pr o with
  | None => Some (f_pss o)
  | Some p =>
      match fuel with
      | O => None
      | S n => match get h p with Some op => acc_parentStyleSheet n h op | None => None end
      end
  end.
(* the derivation as it was before the repair (one level only); kept to state what the repair changed *)
Definition acc_parentStyleSheet_one_level (h : heap) (o : obj) : option id :=
  match f_pr o with
  | None => f_pss o
  | Some p => match get h p with Some op => f_pss op | None => None end
  end.
