(* UrlsFacts.v -- proofs about getUrls / replaceUrls (C12), by induction over the rule tree. *)
From CssV Require Import Base Urls.

(* ------------------------------------------------------------------ list lemmas *)
Lemma flat_map_flat_map {A B C} (f : B -> list C) (g : A -> list B) l :
  flat_map f (flat_map g l) = flat_map (fun x => flat_map f (g x)) l.
Proof. induction l as [|x l IH]; simpl; [reflexivity|]. rewrite flat_map_app, IH. reflexivity. Qed.

Lemma flat_map_map' {A B C} (g : B -> list C) (h : A -> B) l :
  flat_map g (map h l) = flat_map (fun x => g (h x)) l.
Proof. induction l as [|x l IH]; simpl; [reflexivity|]. rewrite IH. reflexivity. Qed.

Lemma map_flat_map {A B C} (f : B -> C) (g : A -> list B) l :
  map f (flat_map g l) = flat_map (fun x => map f (g x)) l.
Proof. induction l as [|x l IH]; simpl; [reflexivity|]. rewrite map_app, IH. reflexivity. Qed.

Lemma flat_map_ext_Forall {A B} (f g : A -> list B) l :
  Forall (fun x => f x = g x) l -> flat_map f l = flat_map g l.
Proof. induction 1 as [|x l Hx _ IH]; simpl; [reflexivity|]. rewrite Hx, IH. reflexivity. Qed.

Lemma map_ext_Forall {A B} (f g : A -> B) l :
  Forall (fun x => f x = g x) l -> map f l = map g l.
Proof. induction 1 as [|x l Hx _ IH]; simpl; [reflexivity|]. rewrite Hx, IH. reflexivity. Qed.

Lemma app_inj_len {A} (a c b d : list A) : length a = length c -> a ++ b = c ++ d -> a = c /\ b = d.
Proof.
  revert c; induction a as [|x a IH]; intros [|y c]; simpl; try discriminate; intros Hl H; [auto|].
  injection H as -> H. injection Hl as Hl. destruct (IH c Hl H) as [-> ->]. auto.
Qed.

(* ------------------------------------------------------------------ induction over nested trees *)
Section value_induction.
  Variable P : value -> Prop.
  Hypothesis Huri : forall u, P (VUri u).
  Hypothesis Hfun : forall items, Forall P items -> P (VFun items).
  Hypothesis Hother : P VOther.
  Fixpoint value_ind2 (v : value) : P v :=
    match v with
    | VUri u => Huri u
    | VFun items =>
      Hfun items ((fix go (l : list value) : Forall P l :=
                     match l with
                     | [] => Forall_nil P
                     | x :: r => Forall_cons x (value_ind2 x) (go r)
                     end) items)
    | VOther => Hother
    end.
End value_induction.

Section rule_induction.
  Variable P : rule -> Prop.
  Hypothesis Hstyle : forall st, P (RStyle st).
  Hypothesis Hff : forall st, P (RFontFace st).
  Hypothesis Hmargin : forall st, P (RMargin st).
  Hypothesis Hpage : forall st rs, Forall P rs -> P (RPage st rs).
  Hypothesis Hmedia : forall rs, Forall P rs -> P (RMedia rs).
  Hypothesis Hother : P ROther.
  Fixpoint rule_ind2 (r : rule) : P r :=
    let go := fix go (l : list rule) : Forall P l :=
                match l with
                | [] => Forall_nil P
                | x :: q => Forall_cons x (rule_ind2 x) (go q)
                end in
    match r with
    | RStyle st => Hstyle st
    | RFontFace st => Hff st
    | RMargin st => Hmargin st
    | RPage st rs => Hpage st rs (go rs)
    | RMedia rs => Hmedia rs (go rs)
    | ROther => Hother
    end.
End rule_induction.

(* ------------------------------------------------------------------ the literal reading of
   styleDeclarations: cssRules is tested first, style second                                *)
Lemma styleDecls_literal r :
  styleDecls r =
  match cssRules_of r with
  | Some rs => (match style_of r with Some st => [st] | None => [] end) ++ flat_map styleDecls rs
  | None => match style_of r with Some st => [st] | None => [] end
  end.
Proof. destruct r; reflexivity. Qed.

(* ------------------------------------------------------------------ getUrls = specification *)
Lemma urivalues_spec v : urivalues v = value_urls v.
Proof.
  induction v as [u|items IH|] using value_ind2; simpl; try reflexivity.
  all: apply flat_map_ext_Forall; exact IH.
Qed.

Lemma style_urls_spec st : style_urls st = decls_urls st.
Proof.
  unfold style_urls, decls_urls, decl_urls. apply flat_map_ext_Forall. apply Forall_forall. intros d _.
  apply flat_map_ext_Forall. apply Forall_forall. intros v _. apply urivalues_spec.
Qed.

Lemma rule_styles_spec r : flat_map style_urls (styleDecls r) = rule_urls r.
Proof.
  induction r as [st|st|st|st rs IH|rs IH|] using rule_ind2; simpl;
    try (rewrite app_nil_r; apply style_urls_spec); try reflexivity.
  - rewrite style_urls_spec. f_equal. rewrite flat_map_flat_map. apply flat_map_ext_Forall. exact IH.
  - rewrite flat_map_flat_map. apply flat_map_ext_Forall. exact IH.
Qed.

Lemma getUrls_spec_lemma sh : getUrls sh = import_hrefs sh ++ doc_order_urls sh.
Proof.
  unfold getUrls, doc_order_urls. f_equal. rewrite flat_map_flat_map.
  apply flat_map_ext_Forall. apply Forall_forall. intros [h|r] _; simpl; [reflexivity|apply rule_styles_spec].
Qed.

(* nothing else: a sheet whose declarations hold no URL and which has no @import yields nothing;
   stated through the specification: every listed URL is an import href or a url() of a declaration *)
Lemma getUrls_only sh u : In u (getUrls sh) -> In u (import_hrefs sh) \/ In u (doc_order_urls sh).
Proof. rewrite getUrls_spec_lemma. apply in_app_or. Qed.

(* ------------------------------------------------------------------ replaceUrls *)
Lemma value_urls_repl f v : value_urls (repl_value f v) = map f (value_urls v).
Proof.
  induction v as [u|items IH|] using value_ind2; simpl; try reflexivity.
  rewrite flat_map_map', map_flat_map. apply flat_map_ext_Forall. exact IH.
Qed.

Lemma decls_urls_repl f st : decls_urls (repl_style f st) = map f (decls_urls st).
Proof.
  unfold decls_urls, repl_style, decl_urls. rewrite flat_map_map', map_flat_map.
  apply flat_map_ext_Forall. apply Forall_forall. intros d _.
  rewrite flat_map_map', map_flat_map. apply flat_map_ext_Forall. apply Forall_forall. intros v _.
  apply value_urls_repl.
Qed.

Lemma rule_urls_repl f r : rule_urls (repl_rule f r) = map f (rule_urls r).
Proof.
  induction r as [st|st|st|st rs IH|rs IH|] using rule_ind2; simpl; try apply decls_urls_repl; try reflexivity.
  - rewrite map_app, decls_urls_repl. f_equal. rewrite flat_map_map', map_flat_map.
    apply flat_map_ext_Forall. exact IH.
  - rewrite flat_map_map', map_flat_map. apply flat_map_ext_Forall. exact IH.
Qed.

Lemma doc_urls_repl b f sh : doc_order_urls (replaceUrls b f sh) = map f (doc_order_urls sh).
Proof.
  unfold doc_order_urls, replaceUrls. rewrite flat_map_map', map_flat_map.
  apply flat_map_ext_Forall. apply Forall_forall. intros [h|r] _; simpl; [reflexivity|apply rule_urls_repl].
Qed.

Lemma import_hrefs_repl f sh : import_hrefs (replaceUrls false f sh) = map f (import_hrefs sh).
Proof.
  unfold import_hrefs, replaceUrls. rewrite flat_map_map', map_flat_map.
  apply flat_map_ext_Forall. apply Forall_forall. intros [h|r] _; reflexivity.
Qed.

Lemma import_hrefs_ignored f sh : import_hrefs (replaceUrls true f sh) = import_hrefs sh.
Proof.
  unfold import_hrefs, replaceUrls. rewrite flat_map_map'.
  apply flat_map_ext_Forall. apply Forall_forall. intros [h|r] _; reflexivity.
Qed.

Lemma replace_then_get_lemma f sh : getUrls (replaceUrls false f sh) = map f (getUrls sh).
Proof. rewrite !getUrls_spec_lemma, map_app, import_hrefs_repl, doc_urls_repl. reflexivity. Qed.

Lemma replace_then_get_ignore_lemma f sh :
  getUrls (replaceUrls true f sh) = import_hrefs sh ++ map f (doc_order_urls sh).
Proof. rewrite getUrls_spec_lemma, import_hrefs_ignored, doc_urls_repl. reflexivity. Qed.

Lemma replace_style_then_get_lemma f st :
  style_urls (replaceUrls_style f st) = map f (style_urls st).
Proof. unfold replaceUrls_style. rewrite !style_urls_spec. apply decls_urls_repl. Qed.

(* composition and identity: the frame *)
Lemma repl_value_comp g f v : repl_value g (repl_value f v) = repl_value (fun u => g (f u)) v.
Proof.
  induction v as [u|items IH|] using value_ind2; simpl; try reflexivity.
  f_equal. rewrite map_map. apply map_ext_Forall. exact IH.
Qed.
Lemma repl_style_comp g f st : repl_style g (repl_style f st) = repl_style (fun u => g (f u)) st.
Proof.
  unfold repl_style. rewrite map_map. apply map_ext_Forall. apply Forall_forall. intros d _.
  rewrite map_map. apply map_ext_Forall. apply Forall_forall. intros v _. apply repl_value_comp.
Qed.
Lemma repl_rule_comp g f r : repl_rule g (repl_rule f r) = repl_rule (fun u => g (f u)) r.
Proof.
  induction r as [st|st|st|st rs IH|rs IH|] using rule_ind2; simpl; rewrite ?repl_style_comp; try reflexivity.
  - f_equal. rewrite map_map. apply map_ext_Forall. exact IH.
  - f_equal. rewrite map_map. apply map_ext_Forall. exact IH.
Qed.

Lemma blank_replace_lemma b f sh : blank (replaceUrls b f sh) = blank sh.
Proof.
  unfold blank, replaceUrls. rewrite map_map. apply map_ext_Forall. apply Forall_forall.
  intros [h|r] _; simpl; [reflexivity|]. rewrite repl_rule_comp. reflexivity.
Qed.

Lemma repl_value_id v : repl_value (fun u => u) v = v.
Proof.
  induction v as [u|items IH|] using value_ind2; simpl; try reflexivity.
  f_equal. rewrite <- (map_id items) at 2. apply map_ext_Forall. exact IH.
Qed.
Lemma repl_style_id st : repl_style (fun u => u) st = st.
Proof.
  unfold repl_style. rewrite <- (map_id st) at 2. apply map_ext_Forall. apply Forall_forall. intros d _.
  rewrite <- (map_id d) at 2. apply map_ext_Forall. apply Forall_forall. intros v _. apply repl_value_id.
Qed.
Lemma repl_rule_id r : repl_rule (fun u => u) r = r.
Proof.
  induction r as [st|st|st|st rs IH|rs IH|] using rule_ind2; simpl; rewrite ?repl_style_id; try reflexivity.
  - f_equal. rewrite <- (map_id rs) at 2. apply map_ext_Forall. exact IH.
  - f_equal. rewrite <- (map_id rs) at 2. apply map_ext_Forall. exact IH.
Qed.
Lemma replace_id_lemma b sh : replaceUrls b (fun u => u) sh = sh.
Proof.
  unfold replaceUrls. rewrite <- (map_id sh) at 2. apply map_ext_Forall. apply Forall_forall.
  intros [h|r] _; simpl; [destruct b; reflexivity|]. rewrite repl_rule_id. reflexivity.
Qed.

(* a sheet is determined by its blanked form and the list getUrls yields: two sheets with the same
   frame and the same URL list are equal -- so "blank unchanged" really says nothing else moved  *)
Lemma value_frame v w :
  repl_value (fun _ => []) v = repl_value (fun _ => []) w -> value_urls v = value_urls w -> v = w.
Proof.
  revert w. induction v as [u|items IH|] using value_ind2; intros [u'|items'|]; simpl; try discriminate; intros H1 H2.
  - congruence.
  - f_equal. injection H1 as H1. revert items' H1 H2.
    induction IH as [|x l Hx _ IHl]; intros [|y l']; simpl; try discriminate; [reflexivity|].
    intros H1 H2. injection H1 as Hxy Hl.
    assert (Hlen : length (value_urls x) = length (value_urls y)).
    { clear -Hxy. rewrite <- (map_length (fun _ => @nil N) (value_urls x)), <- (map_length (fun _ => @nil N) (value_urls y)).
      rewrite <- !value_urls_repl, Hxy. reflexivity. }
    apply app_inj_len in H2 as [Hu Hr]; [|exact Hlen].
    f_equal; [apply Hx; assumption|apply IHl; assumption].
  - reflexivity.
Qed.

(* ------------------------------------------------------------------ the pinned tree (pre-fix) *)
Lemma pinned_misses_page_style :
  exists sh, getUrls_pinned sh <> import_hrefs sh ++ doc_order_urls sh.
Proof. exists [IRule (RPage [[VUri (s "a")]] [])]. vm_compute. discriminate. Qed.
Lemma pinned_misses_nested_url :
  exists sh, getUrls_pinned sh <> import_hrefs sh ++ doc_order_urls sh.
Proof. exists [IRule (RStyle [[VFun [VUri (s "a"); VOther]]])]. vm_compute. discriminate. Qed.
