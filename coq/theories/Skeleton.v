(* Skeleton.v -- hand-written model of the statement / declaration skeleton of the parser:
     cssstylesheet.py:160-317   top-level dispatch ("parse and consume tokens in any case")
     cssmediarule.py:108-236    @media head split + inner dispatch
     cssstylerule.py:107-110    rule-set split at the first top-level '{' and its '}'
     cssstyledeclaration.py:307-348   declaration loop with the ident / unexpected / char handlers
                                (+ the default ATKEYWORD production of util.Base2, util.py:516-529)
     cssunknownrule.py:76-198   nesting stack of CSSUnknownRule
   Definitions only; proofs in SkeletonFacts.v.  The model follows the repaired code
   (fix commits "unexpected ... passes that token ... as start token" and "... ignores up to
   the next top-level ';' only"); `kmode_pinned` is the pinned behaviour, kept for the
   refutation witnesses.

   The `expected` 0..3 order state of cssstylesheet is modelled (`ord_step`, `sheet_ord`) with the rule objects'
   well-formedness as a parameter `wf`; flags, handler calls and order signatures are read from the generated
   Gen/UptoGen.v (translate/upto.py).  Left abstract on purpose: everything the rule objects do with the token run
   they are given (selectors, values, media queries), the optional @media "name" sub-parse.                      *)
From CssV Require Import Base Tokenizer Gen.UptoGen Upto.

Inductive kind :=
| KCharset | KImport | KNamespace | KVariables | KFontFace | KMedia | KPage
| KUnknown            (* ATKEYWORD: CSSUnknownRule, or MarginRule when the keyword is a margin name *)
| KRuleset
| KDeclIdent | KDeclUnexpected | KDeclAt.      (* handlers of the declaration loop *)

Inductive tclass := CSkip | CComment | CStmt (k : kind).
Inductive item := IComment (t : tok) | IStmt (k : kind) (run : list tok).

Definition tyis (t : tok) (x : string) : bool := eqs (ty t) (s x).

Definition at_kind (t : tok) : option kind :=
  if tyis t "CHARSET_SYM" then Some KCharset
  else if tyis t "IMPORT_SYM" then Some KImport
  else if tyis t "NAMESPACE_SYM" then Some KNamespace
  else if tyis t "VARIABLES_SYM" then Some KVariables
  else if tyis t "FONT_FACE_SYM" then Some KFontFace
  else if tyis t "MEDIA_SYM" then Some KMedia
  else if tyis t "PAGE_SYM" then Some KPage
  else if tyis t "ATKEYWORD" then Some KUnknown
  else None.

(* cssstylesheet.py:303-317 (productions dict + Base defaults S/COMMENT/ATKEYWORD/EOF, default=ruleset) *)
Definition cls_sheet (t : tok) : tclass :=
  if tyis t "S" || tyis t "CDO" || tyis t "CDC" || tyis t "EOF" then CSkip
  else if tyis t "COMMENT" then CComment
  else match at_kind t with Some k => CStmt k | None => CStmt KRuleset end.

(* cssmediarule.py:222-235: no CDO/CDC and no VARIABLES_SYM entry: they fall to `ruleset` *)
Definition cls_media (t : tok) : tclass :=
  if tyis t "S" || tyis t "EOF" then CSkip
  else if tyis t "COMMENT" then CComment
  else if tyis t "VARIABLES_SYM" then CStmt KRuleset
  else match at_kind t with Some k => CStmt k | None => CStmt KRuleset end.

(* cssstyledeclaration.py:345-348 + Base2 defaults *)
Definition cls_decl (t : tok) : tclass :=
  if tyis t "S" || tyis t "EOF" then CSkip
  else if tyis t "COMMENT" then CComment
  else if tyis t "IDENT" then CStmt KDeclIdent
  else if tyis t "CHAR" then (if eqs (val t) (s ";") then CSkip else CStmt KDeclUnexpected)
  else if tyis t "ATKEYWORD" then CStmt KDeclAt
  else CStmt KDeclUnexpected.

(* which _tokensupto2 call a handler makes: (flag, is the token passed as starttoken).
   Generated data: translate/upto.py reads, for every handler of the three dispatch loops, the flag it passes and
   whether it passes the token (Gen/UptoGen.v); `kmode` looks the handler of a kind up by its Python name.       *)
Definition handler_name (k : kind) : str :=
  match k with
  | KCharset => s "charsetrule" | KImport => s "importrule" | KNamespace => s "namespacerule"
  | KVariables => s "variablesrule" | KFontFace => s "fontfacerule" | KMedia => s "mediarule"
  | KPage => s "pagerule" | KUnknown => s "unknownrule" | KRuleset => s "ruleset"
  | KDeclIdent => s "ident" | KDeclUnexpected => s "unexpected" | KDeclAt => s "ATKEYWORD"
  end.

Definition flag_of_name (n : str) : option uptoflag :=
  match n with [] => Some FDefault | _ => find (fun fl => eqs (flag_name fl) n) all_flags end.

Definition call_of (tbl : list (str * (option (str * bool) * list str))) (h : str) : option (str * bool) :=
  match assoc_s h tbl with
  | Some (Some c, _) => Some c
  | Some (None, d :: _) => match assoc_s d tbl with Some (Some c, _) => Some c | _ => None end   (* char -> unexpected *)
  | _ => None
  end.

Definition kcall (k : kind) : option (str * bool) :=
  match k with
  | KDeclIdent | KDeclUnexpected => call_of gen_decl_calls (handler_name k)
  | KDeclAt => Some gen_base2_atkeyword_call
  | _ => call_of gen_sheet_calls (handler_name k)
  end.

Definition kmode (k : kind) : uptoflag * bool :=
  match kcall k with
  | Some (n, ws) => (match flag_of_name n with Some f => f | None => FDefault end, ws)
  | None => (FDefault, true)              (* excluded by SkeletonFacts.handlers_generated *)
  end.

Definition kmode_pinned (k : kind) : uptoflag * bool :=
  match k with
  | KDeclIdent => (FSemicolon, true)
  | KDeclUnexpected => (FPropValue, false)
  | _ => (FDefault, true)
  end.

(* the statement a handler pulls when it sees token t followed by r: (run incl. t, rest) *)
Definition pull (up : uptoflag -> option tok -> list tok -> list tok * list tok)
           (km : kind -> uptoflag * bool) (k : kind) (t : tok) (r : list tok)
  : list tok * list tok :=
  let '(fl, ws) := km k in
  if ws then up fl (Some t) r
  else let '(run, rest) := up fl None r in (t :: run, rest).

(* the `for token in tokenizer` loop of Base._parse with handlers that pull from the same
   generator.  Structural on the token list: `skip` counts the tokens that the last handler
   already pulled (SkeletonFacts.disp_stmt shows it is exactly `rest` that is resumed).      *)
Fixpoint disp_gen (up : uptoflag -> option tok -> list tok -> list tok * list tok)
         (km : kind -> uptoflag * bool) (cls : tok -> tclass) (ts : list tok) (skip : nat)
  : list item :=
  match ts with
  | [] => []
  | t :: r =>
    match skip with
    | S n => disp_gen up km cls r n
    | O =>
      match cls t with
      | CSkip => disp_gen up km cls r 0
      | CComment => IComment t :: disp_gen up km cls r 0
      | CStmt k =>
        let '(run, _) := pull up km k t r in
        IStmt k run :: disp_gen up km cls r (length run - 1)
      end
    end
  end.

Definition disp := disp_gen upto kmode.
Definition skeleton (ts : list tok) : list item := disp cls_sheet ts 0.
Definition media_inner (ts : list tok) : list item := disp cls_media ts 0.
Definition decl_block (ts : list tok) : list item := disp cls_decl ts 0.
Definition skeleton_pinned (ts : list tok) := disp_gen upto_pinned kmode_pinned cls_sheet ts 0.
Definition decl_block_pinned (ts : list tok) := disp_gen upto_pinned kmode_pinned cls_decl ts 0.

(* ---- the `expected` 0..3 order state of cssstylesheet.py:160-290 ----
   Per handler (Gen/UptoGen.gen_sheet_order): the N of `(expected or 0) > N` (statement consumed, reported, state
   unchanged), the returned state, and whether a `not rule.wellformed` branch returns the state unchanged
   (fix "a discarded statement does not advance the order state").  Whether a rule object is well-formed is
   outside the model: `wf` is a parameter.  S and COMMENT give max(1, state); the CDO/CDC no-op lambdas return
   None, which every handler reads as 0; the EOF production's 'EOF' is never read again.                     *)
Definition ord_sig (k : kind) : option nat * option nat * bool :=
  match assoc_s (handler_name k) gen_sheet_order with
  | Some x => x
  | None => (None, None, false)
  end.

Definition ord_step (wf : kind -> list tok -> bool) (st : nat) (k : kind) (run : list tok) : nat * bool :=
  let '(th, nx, keeps) := ord_sig k in
  if match th with Some t => Nat.ltb t st | None => false end then (st, false)
  else
    let kept := wf k run in
    let nxt := match nx with Some n => n | None => Nat.max 1 st end in
    (if kept || negb keeps then nxt else st, kept).

Definition skip_state (st : nat) (t : tok) : nat :=
  if tyis t "CDO" || tyis t "CDC" then 0 else if tyis t "EOF" then st else Nat.max 1 st.

(* (statement or comment, kept?) in source order, and the state at the end *)
Fixpoint sheet_ord (wf : kind -> list tok -> bool) (ts : list tok) (skip st : nat) : list (item * bool) * nat :=
  match ts with
  | [] => ([], st)
  | t :: r =>
    match skip with
    | S n => sheet_ord wf r n st
    | O =>
      match cls_sheet t with
      | CSkip => sheet_ord wf r 0 (skip_state st t)
      | CComment => let '(l, e) := sheet_ord wf r 0 (Nat.max 1 st) in ((IComment t, true) :: l, e)
      | CStmt k =>
        let '(run, _) := pull upto kmode k t r in
        let '(st', kept) := ord_step wf st k run in
        let '(l, e) := sheet_ord wf r (length run - 1) st' in
        ((IStmt k run, kept) :: l, e)
      end
    end
  end.

(* ---- rule set (cssstylerule.py:107-159) ---- *)
Record ruleset_parts := mkRS { rs_selector : list tok;   (* incl. the '{' *)
                               rs_style : list tok;      (* incl. the '}' or EOF *)
                               rs_trail : option tok;
                               rs_decls : option (list item) }.  (* None: declaration parser not reached *)

Definition ruleset_split (ts : list tok) : ruleset_parts :=
  let '(sel, r1) := upto FBlockStart None ts in
  let '(sty, r2) := upto FBlockEnd None r1 in
  let trail := hd_error r2 in
  let gate := match trail, sel with                                       (* l.110-120 *)
              | Some _, _ => false
              | None, [] => false
              | None, t0 :: _ => negb (starts (s "@") (val t0))
              end in
  (* l.140-158: the closing '}' is popped, an EOF is kept for the declaration parser *)
  let decls := match separate_end sty with
               | (b, Some e) => if is_eof e then Some (decl_block sty)
                                else if eqs (val e) (s "}") then Some (decl_block b) else None
               | (_, None) => None
               end in
  mkRS sel sty trail (if gate then decls else None).

(* ---- @media (cssmediarule.py:108-236); input: tokens after the MEDIA_SYM token ---- *)
Record media_parts := mkMP { mp_media : list tok;       (* incl. end token *)
                             mp_name : list tok;        (* second pull, only after a STRING end *)
                             mp_rules : list tok;       (* third pull incl. '}' / EOF *)
                             mp_trail : option tok;
                             mp_inner : option (list item) }.   (* None: inner loop not reached *)

Definition media_split (ts : list tok) : media_parts :=
  let '(m, r1) := upto FMQEnd None ts in
  let e1 := snd (separate_end m) in
  let is_string := match e1 with Some e => tyis e "STRING" | None => false end in
  let '(nm, r2) := if is_string then upto FBlockStart None r1 else ([], r1) in
  let e2 := if is_string then snd (separate_end nm) else e1 in
  let brace_ok := match e2 with Some e => eqs (val e) (s "{") | None => false end in
  if negb brace_ok then mkMP m nm [] None None                              (* l.141-144 *)
  else
    let '(rl, r3) := upto FMediaEnd None r2 in
    let trail := hd_error r3 in
    let '(body, e3) := separate_end rl in
    let eof := match e3 with Some e => is_eof e | None => false end in
    let body' := if eof then rl else body in                                (* l.150-156 *)
    let close_ok := eof || match e3 with Some e => eqs (val e) (s "}") | None => false end in
    mkMP m nm rl trail
         (if close_ok && match trail with None => true | Some _ => false end
          then Some (media_inner body') else None).

(* ---- CSSUnknownRule (cssunknownrule.py:76-198); input: tokens after the ATKEYWORD ---- *)
Inductive uitem := UTok (t : tok) | UClose (c : str).
Record ustate := mkU { u_nest : list str; u_eof : bool; u_wf : bool; u_seq : list uitem (* reversed *) }.

Definition opening_of (v : str) : option str :=
  if eqs v (s "}") then Some (s "{") else if eqs v (s "]") then Some (s "[")
  else if eqs v (s ")") then Some (s "(") else None.
Definition closing_of (v : str) : str :=
  if eqs v (s "{") then s "}" else if eqs v (s "[") then s "]" else s ")".

Definition u_plain (st : ustate) (t : tok) : ustate :=       (* STRING / URI / default (l.137-170) *)
  if u_eof st then mkU (u_nest st) true false (u_seq st)
  else mkU (u_nest st) false (u_wf st) (UTok t :: u_seq st).

(* CHAR (l.80-106).  CHAR values are single characters (the CHAR production matches one
   character), so `val in '{[('` is modelled as equality with one of the three.             *)
Definition u_char (st : ustate) (t : tok) : ustate :=
  if u_eof st then mkU (u_nest st) true false (u_seq st)
  else
    let v := val t in
    let '(nest, wf) :=
      if eqs v (s "{") || eqs v (s "[") || eqs v (s "(") then (v :: u_nest st, u_wf st)
      else match opening_of v with
           | Some o => match u_nest st with
                       | top :: below => if eqs top o then (below, u_wf st) else (u_nest st, false)
                       | [] => ([], false)
                       end
           | None => (u_nest st, u_wf st)
           end in
    let eof := (eqs v (s "}") || eqs v (s ";")) && match nest with [] => true | _ => false end in
    mkU nest eof wf (UTok t :: u_seq st).

Fixpoint unk_loop (st : ustate) (ts : list tok) (skip : nat) : ustate :=
  match ts with
  | [] => st
  | t :: r =>
    match skip with
    | S n => unk_loop st r n
    | O =>
      if tyis t "CHAR" then unk_loop (u_char st t) r 0
      else if tyis t "FUNCTION" then                                        (* l.108-120 *)
        unk_loop (if u_eof st then mkU (u_nest st) true false (u_seq st)
                  else mkU (s "(" :: u_nest st) false (u_wf st) (UTok t :: u_seq st)) r 0
      else if tyis t "EOF" then                                             (* l.122-128 *)
        unk_loop (mkU [] true (u_wf st) (rev (map (fun x => UClose (closing_of x)) (u_nest st)) ++ u_seq st)) r 0
      else if tyis t "INVALID" then unk_loop (mkU (u_nest st) (u_eof st) false (u_seq st)) r 0
      (* ATKEYWORD: fix "CSSUnknownRule keeps a nested at-keyword as one of its own tokens": the
         `default` handler (u_plain below), no nested pull *)
      else if tyis t "COMMENT" then                                         (* util.py:531-537 *)
        unk_loop (mkU (u_nest st) (u_eof st) (u_wf st && negb (u_eof st)) (UTok t :: u_seq st)) r 0
      else unk_loop (u_plain st t) r 0
    end
  end.

(* Some (keyword token, items) when the rule is well-formed (l.188-203) *)
Definition unknown_rule (ts : list tok) : option (tok * list uitem) :=
  match ts with
  | [] => None
  | a :: r =>
    if negb (tyis a "ATKEYWORD") then None
    else let st := unk_loop (mkU [] false true []) r 0 in
         if u_wf st && u_eof st && match u_nest st with [] => true | _ => false end
         then Some (a, rev (u_seq st)) else None
  end.
