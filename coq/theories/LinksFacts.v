(* LinksFacts.v -- proofs about the parent-link model (Links.v), property C18 *)
From CssV Require Import Base Gen.LinkSites Links.
From Coq Require Import Permutation.

(* ------------------------------------------------------------------ the invariant *)
Definition allkids (h : heap) : list id := flat_map (fun o => map snd (kids o)) h.

Definition role_kind_ok (r : role) (k : kind) : Prop :=
  match r with
  | RTop | RSub => k = KRule
  | RStyle => k = KDecl
  | RSelList => k = KSelList
  | RMedia => k = KMediaList
  | RImported => k = KSheet
  | RItem => k = KProp \/ k = KSelector \/ k = KValue
  | RPV => k = KPV
  end.

(* what the stored attributes of an element oc of container p must say *)
Definition link_spec (r : role) (p : id) (oc : obj) : Prop :=
  role_kind_ok r (okind oc) /\
  match r with
  | RTop => f_pr oc = None /\ f_pss oc = Some p /\ f_par oc = None
  | RSub => f_pr oc = Some p /\ f_pss oc = None /\ f_par oc = Some p
  | RStyle | RSelList | RMedia => f_pr oc = Some p
  | RImported => f_own oc = Some p
  | RItem | RPV => f_par oc = Some p
  end.

(* every containment edge of the heap is mirrored by the stored attributes of the element, and no
   object is an element of two containers (or twice of one) *)
Definition LinksOk (h : heap) : Prop :=
  NoDup (allkids h) /\
  forall p op r c, get h p = Some op -> In (r, c) (kids op) ->
                   exists oc, get h c = Some oc /\ link_spec r p oc.

(* ------------------------------------------------------------------ heap lemmas *)
Lemma get_upd h i f j :
  get (upd h i f) j = if Nat.eqb i j then option_map f (get h j) else get h j.
Proof.
  unfold get. revert i j; induction h as [|o t IH]; intros i j.
  - simpl. destruct (Nat.eqb i j); destruct j; reflexivity.
  - destruct i, j; simpl; auto.
Qed.

Lemma get_upd_eq h i f o : get h i = Some o -> get (upd h i f) i = Some (f o).
Proof. intros H. rewrite get_upd, Nat.eqb_refl, H. reflexivity. Qed.

Lemma get_upd_neq h i f j : i <> j -> get (upd h i f) j = get h j.
Proof. intros H. rewrite get_upd. apply Nat.eqb_neq in H. now rewrite H. Qed.

Lemma upd_ext_at h p f g op : get h p = Some op -> f op = g op -> upd h p f = upd h p g.
Proof.
  unfold get. revert p; induction h as [|o t IH]; intros [|p]; simpl; intros H E; try discriminate.
  - inversion H; subst. now rewrite E.
  - f_equal. now apply IH.
Qed.

Lemma allkids_upd h p f op :
  get h p = Some op ->
  exists a b, allkids h = a ++ map snd (kids op) ++ b /\
              allkids (upd h p f) = a ++ map snd (kids (f op)) ++ b.
Proof.
  unfold get, allkids. revert p; induction h as [|o t IH]; intros [|p]; simpl; intros H; try discriminate.
  - inversion H; subst. exists [], (flat_map (fun o => map snd (kids o)) t). simpl. auto.
  - destruct (IH _ H) as (a & b & E1 & E2). exists (map snd (kids o) ++ a), b.
    rewrite E1, E2, <- !app_assoc. auto.
Qed.

Lemma allkids_upd_same h p f : (forall o, kids (f o) = kids o) -> allkids (upd h p f) = allkids h.
Proof.
  intros K. unfold allkids. revert p; induction h as [|o t IH]; intros [|p]; simpl; auto.
  - now rewrite K.
  - now rewrite IH.
Qed.

Lemma in_allkids h p op r c : get h p = Some op -> In (r, c) (kids op) -> In c (allkids h).
Proof.
  intros G I. unfold allkids. apply in_flat_map. exists op. split.
  - eapply nth_error_In; exact G.
  - apply in_map_iff. exists (r, c). auto.
Qed.

Lemma contained_spec h c : contained h c = true <-> In c (allkids h).
Proof.
  unfold contained, allkids. rewrite existsb_exists, in_flat_map. split.
  - intros (o & Io & E). exists o. split; auto. apply existsb_exists in E as ((r, x) & Ix & Ex).
    simpl in Ex. apply Nat.eqb_eq in Ex. subst. apply in_map_iff. exists (r, c). auto.
  - intros (o & Io & Ic). exists o. split; auto. apply in_map_iff in Ic as ((r, x) & Ex & Ix).
    simpl in Ex; subst. apply existsb_exists. exists (r, c). split; auto. simpl. apply Nat.eqb_refl.
Qed.

Lemma contained_false h c : contained h c = false -> ~ In c (allkids h).
Proof. intros H I. apply contained_spec in I. congruence. Qed.

(* ------------------------------------------------------------------ list lemmas *)
Lemma role_eqb_eq a b : role_eqb a b = true <-> a = b.
Proof. destruct a, b; simpl; split; intros; congruence. Qed.
Lemma kind_eqb_eq a b : kind_eqb a b = true <-> a = b.
Proof. destruct a, b; simpl; split; intros; congruence. Qed.

Lemma ins_perm r c n l : Permutation (ins r c n l) ((r, c) :: l).
Proof.
  revert n; induction l as [|[r' x] t IH]; intros n; simpl; auto.
  destruct (role_eqb r r').
  - destruct n; auto. rewrite IH. apply perm_swap.
  - rewrite IH. apply perm_swap.
Qed.

Lemma del_perm r n l c rest : del r n l = Some (c, rest) -> Permutation l ((r, c) :: rest).
Proof.
  revert n c rest; induction l as [|[r' x] t IH]; intros n c rest; simpl; [discriminate|].
  destruct (role_eqb r r') eqn:E.
  - apply role_eqb_eq in E; subst r'. destruct n.
    + intros H; inversion H; subst. auto.
    + destruct (del r n t) as [[c' t']|] eqn:D; [|discriminate]. intros H; inversion H; subst.
      rewrite (IH _ _ _ D). apply perm_swap.
  - destruct (del r n t) as [[c' t']|] eqn:D; [|discriminate]. intros H; inversion H; subst.
    rewrite (IH _ _ _ D). apply perm_swap.
Qed.

Lemma filter_perm {A} (g : A -> bool) l :
  Permutation l (filter (fun x => negb (g x)) l ++ filter g l).
Proof.
  induction l as [|x t IH]; simpl; auto.
  destruct (g x); simpl.
  - rewrite IH at 1. apply Permutation_middle.
  - now constructor.
Qed.

Lemma nodup_app_r {A} (a b : list A) : NoDup (a ++ b) -> NoDup b.
Proof. induction a as [|x a IH]; simpl; auto. intros H. inversion H; subst. auto. Qed.

(* ------------------------------------------------------------------ link_spec is about attributes *)
Lemma link_spec_set_kids r p k o : link_spec r p (set_kids k o) <-> link_spec r p o.
Proof. unfold link_spec; destruct r; simpl; tauto. Qed.

(* ------------------------------------------------------------------ primitive steps *)
(* the elements of p shrink (nothing is written) *)
Lemma ok_shrink h p op rem kids' :
  LinksOk h -> get h p = Some op -> Permutation (kids op) (rem ++ kids') ->
  LinksOk (upd h p (set_kids kids')).
Proof.
  intros [ND E] G P. split.
  - destruct (allkids_upd h p (set_kids kids') op G) as (a & b & E1 & E2).
    rewrite E2. rewrite E1 in ND. simpl.
    apply (Permutation_map snd) in P. rewrite map_app in P.
    eapply Permutation_NoDup in ND.
    2:{ apply Permutation_app_head. apply Permutation_app_tail. exact P. }
    rewrite <- app_assoc in ND.
    assert (Permutation (a ++ map snd rem ++ map snd kids' ++ b) (map snd rem ++ a ++ map snd kids' ++ b)) as Q.
    { rewrite !app_assoc. apply Permutation_app_tail. apply Permutation_app_tail. apply Permutation_app_comm. }
    eapply Permutation_NoDup in ND; [|exact Q]. apply nodup_app_r in ND. exact ND.
  - intros q oq r c Gq I. rewrite get_upd in Gq.
    assert (exists oq0, get h q = Some oq0 /\ In (r, c) (kids oq0)) as (oq0 & G0 & I0).
    { destruct (Nat.eqb p q) eqn:Eq.
      - apply Nat.eqb_eq in Eq; subst q. rewrite G in Gq. simpl in Gq. inversion Gq; subst.
        exists op. split; auto. simpl in I. eapply Permutation_in; [symmetry; exact P|].
        apply in_or_app. now right.
      - exists oq. auto. }
    destruct (E _ _ _ _ G0 I0) as (oc & Gc & S).
    rewrite get_upd. destruct (Nat.eqb p c); rewrite Gc; simpl; eexists; split; eauto.
Qed.

(* the stored attributes of an object that is nobody's element are written *)
Lemma ok_write h c w :
  LinksOk h -> ~ In c (allkids h) -> (forall o, kids (w o) = kids o) -> LinksOk (upd h c w).
Proof.
  intros [ND E] NC K. split.
  - now rewrite allkids_upd_same.
  - intros q oq r x Gq I. rewrite get_upd in Gq.
    assert (exists oq0, get h q = Some oq0 /\ In (r, x) (kids oq0)) as (oq0 & G0 & I0).
    { destruct (Nat.eqb c q).
      - destruct (get h q) as [o0|]; simpl in Gq; [|discriminate]. inversion Gq; subst.
        exists o0. split; auto. now rewrite K in I.
      - exists oq. auto. }
    destruct (E _ _ _ _ G0 I0) as (ox & Gx & S).
    assert (c <> x) as Nx. { intros Ecx. subst x. apply NC. eapply in_allkids; [exact G0|exact I0]. }
    exists ox. split; auto. now rewrite get_upd_neq.
Qed.

(* an object that is nobody's element and whose attributes already name p becomes an element of p *)
Lemma ok_add h p op r c oc kids' :
  LinksOk h -> get h p = Some op -> get h c = Some oc -> ~ In c (allkids h) ->
  link_spec r p oc -> Permutation kids' ((r, c) :: kids op) ->
  LinksOk (upd h p (set_kids kids')).
Proof.
  intros [ND E] G Gc NC S P. split.
  - destruct (allkids_upd h p (set_kids kids') op G) as (a & b & E1 & E2).
    rewrite E2. simpl. apply (Permutation_map snd) in P. simpl in P.
    assert (Permutation (a ++ map snd kids' ++ b) (c :: allkids h)) as Q.
    { rewrite E1. rewrite P. simpl. symmetry. apply Permutation_middle. }
    eapply Permutation_NoDup; [symmetry; exact Q|]. constructor; auto.
  - intros q oq r' x Gq I. rewrite get_upd in Gq.
    assert (exists ox, get h x = Some ox /\ link_spec r' q ox) as (ox & Gx & Sx).
    { destruct (Nat.eqb p q) eqn:Eq.
      - apply Nat.eqb_eq in Eq; subst q. rewrite G in Gq. simpl in Gq. inversion Gq; subst. simpl in I.
        eapply Permutation_in in I; [|exact P]. destruct I as [I|I].
        + inversion I; subst. eauto.
        + eapply E; eauto.
      - eapply E; eauto. }
    rewrite get_upd. destruct (Nat.eqb p x); rewrite Gx; simpl; eexists; split; eauto.
Qed.

Lemma ok_push h o : LinksOk h -> kids o = [] -> LinksOk (h ++ [o]).
Proof.
  intros [ND E] Ko. split.
  - unfold allkids. rewrite flat_map_app. simpl. rewrite Ko. simpl. now rewrite app_nil_r.
  - intros q oq r x Gq I. unfold get in Gq.
    destruct (Nat.lt_ge_cases q (length h)) as [L|L].
    + rewrite nth_error_app1 in Gq by exact L. destruct (E _ _ _ _ Gq I) as (ox & Gx & S).
      exists ox. split; auto. unfold get. rewrite nth_error_app1; auto.
      apply nth_error_Some. unfold get in Gx. congruence.
    + rewrite nth_error_app2 in Gq by exact L. destruct (q - length h) as [|n]; simpl in Gq.
      * inversion Gq; subst. rewrite Ko in I. contradiction.
      * destruct n; discriminate.
Qed.

Lemma ok_alloc h k pr pss par own : LinksOk h -> LinksOk (alloc h k pr pss par own).
Proof. intros L. unfold alloc. now apply ok_push. Qed.

Lemma ok_app_nokids g : forall h, LinksOk h -> Forall (fun o => kids o = []) g -> LinksOk (h ++ g).
Proof.
  induction g as [|o g IH]; intros h L F.
  - now rewrite app_nil_r.
  - inversion F; subst. replace (h ++ o :: g) with ((h ++ [o]) ++ g) by (rewrite <- app_assoc; reflexivity).
    apply IH; auto. now apply ok_push.
Qed.

(* ------------------------------------------------------------------ the sites *)
Lemma write1_kids p w o : kids (write1 p w o) = kids o.
Proof. destruct w as [[] v]; reflexivity. Qed.
Lemma write1_kind p w o : okind (write1 p w o) = okind o.
Proof. destruct w as [[] v]; reflexivity. Qed.
Lemma apply_writes_kids ws p o : kids (apply_writes ws p o) = kids o.
Proof. unfold apply_writes. revert o; induction ws as [|w t IH]; intros o; simpl; auto. rewrite IH. apply write1_kids. Qed.
Lemma apply_writes_kind ws p o : okind (apply_writes ws p o) = okind o.
Proof. unfold apply_writes. revert o; induction ws as [|w t IH]; intros o; simpl; auto. rewrite IH. apply write1_kind. Qed.
Lemma guarded_kids g ws p o : kids (guarded g ws p o) = kids o.
Proof.
  unfold guarded. destruct g as [f|]; [|apply apply_writes_kids].
  destruct (fld_get f o) as [q|]; auto. destruct (Nat.eqb q p); auto. apply apply_writes_kids.
Qed.

Lemma site_writes_kids s p o : kids (site_writes s p o) = kids o.
Proof. destruct s; try reflexivity; apply apply_writes_kids. Qed.
Lemma site_writes_kind s p o : okind (site_writes s p o) = okind o.
Proof. destruct s; try reflexivity; apply apply_writes_kind. Qed.

(* each site writes what the role of the new edge demands *)
Lemma site_writes_spec s p o :
  okind o = snd (site_kinds s) -> link_spec (site_role s) p (site_writes s p o).
Proof.
  (* for SSheetInsert / SContInsert this computes with the REGENERATED write lists: a site that stops writing
     an attribute its role needs breaks this lemma *)
  destruct s; simpl; intros K; unfold link_spec; cbn; rewrite K; auto 6.
Qed.

Lemma ok_clear_role r h p : LinksOk h -> LinksOk (clear_role r h p).
Proof.
  intros L. unfold clear_role. destruct (role_single r); auto.
  destruct (get h p) as [op|] eqn:G.
  - rewrite (upd_ext_at h p (fun o => set_kids (without_role r (kids o)) o) (set_kids (without_role r (kids op))) op G eq_refl).
    eapply ok_shrink; eauto. unfold without_role.
    apply (filter_perm (fun rc => negb (role_eqb r (fst rc)))).
  - assert (upd h p (fun o => set_kids (without_role r (kids o)) o) = h) as ->; auto.
    clear L. unfold get in G. revert p G; induction h as [|o t IH]; intros [|p]; simpl; auto; try discriminate.
    intros G. now rewrite IH.
Qed.

Lemma allkids_clear_role_incl r h p c : In c (allkids (clear_role r h p)) -> In c (allkids h).
Proof.
  unfold clear_role. destruct (role_single r); auto.
  destruct (get h p) as [op|] eqn:G.
  - destruct (allkids_upd h p (fun o => set_kids (without_role r (kids o)) o) op G) as (a & b & E1 & E2).
    rewrite E1, E2. simpl. rewrite !in_app_iff. intros [I|[I|I]]; auto. right; left.
    apply in_map_iff in I as (e & Ee & Ie). apply in_map_iff. exists e. split; auto.
    unfold without_role in Ie. now apply filter_In in Ie.
  - assert (upd h p (fun o => set_kids (without_role r (kids o)) o) = h) as ->; auto.
    unfold get in G. revert p G; induction h as [|o t IH]; intros [|p]; simpl; auto; try discriminate.
    intros G. now rewrite IH.
Qed.

Lemma get_clear_role r h p x ox :
  get h x = Some ox -> exists ox', get (clear_role r h p) x = Some ox' /\
     okind ox' = okind ox /\ f_pr ox' = f_pr ox /\ f_pss ox' = f_pss ox /\ f_par ox' = f_par ox /\ f_own ox' = f_own ox.
Proof.
  intros G. unfold clear_role. destruct (role_single r); [|eauto 10].
  rewrite get_upd. destruct (Nat.eqb p x); rewrite G; simpl; eauto 10.
Qed.

Lemma ok_attach_gen w r kp kc h p c idx :
  (forall p o, kids (w p o) = kids o) ->
  (forall p o, okind o = kc -> link_spec r p (w p o)) ->
  LinksOk h -> LinksOk (attach_gen w r kp kc h p c idx).
Proof.
  intros Hk Hs L. unfold attach_gen.
  destruct (get h p) as [op|] eqn:Gp; auto. destruct (get h c) as [oc|] eqn:Gc; auto.
  destruct (negb (contained h c) && kind_eqb (okind op) kp && kind_eqb (okind oc) kc) eqn:C; auto.
  apply andb_true_iff in C as [C Kc]. apply andb_true_iff in C as [C Kp].
  apply negb_true_iff in C. apply contained_false in C. apply kind_eqb_eq in Kc.
  set (h1 := clear_role r h p).
  assert (LinksOk h1) as L1 by now apply ok_clear_role.
  assert (~ In c (allkids h1)) as C1. { intros I. apply C. eapply allkids_clear_role_incl; eauto. }
  destruct (get_clear_role r h p c oc Gc) as (oc1 & Gc1 & Kc1 & _).
  destruct (get_clear_role r h p p op Gp) as (op1 & Gp1 & _).
  fold h1 in Gc1, Gp1.
  set (h2 := upd h1 c (w p)).
  assert (LinksOk h2) as L2. { apply ok_write; auto. }
  assert (~ In c (allkids h2)) as C2. { unfold h2. rewrite allkids_upd_same; auto. }
  assert (get h2 c = Some (w p oc1)) as Gc2 by now apply get_upd_eq.
  assert (exists op2, get h2 p = Some op2) as (op2 & Gp2).
  { unfold h2. rewrite get_upd. destruct (Nat.eqb c p); rewrite Gp1; simpl; eauto. }
  rewrite (upd_ext_at h2 p (fun o => set_kids (ins r c idx (kids o)) o) (set_kids (ins r c idx (kids op2))) op2 Gp2 eq_refl).
  apply (ok_add h2 p op2 r c (w p oc1)); auto.
  - apply Hs. congruence.
  - apply ins_perm.
Qed.

Lemma ok_attach s h p c idx : LinksOk h -> LinksOk (attach s h p c idx).
Proof.
  intros L. unfold attach. apply ok_attach_gen; auto.
  - intros. apply site_writes_kids.
  - intros. now apply site_writes_spec.
Qed.

Lemma dsite_writes_kids d p o : kids (dsite_writes d p o) = kids o.
Proof. destruct d; apply apply_writes_kids. Qed.

Lemma removed_uncontained h p op r i c rest :
  LinksOk h -> get h p = Some op -> del r i (kids op) = Some (c, rest) ->
  LinksOk (upd h p (set_kids rest)) /\ ~ In c (allkids (upd h p (set_kids rest))).
Proof.
  intros L G D. pose proof (del_perm _ _ _ _ _ D) as P. split.
  - eapply ok_shrink with (rem := [(r, c)]); eauto.
  - destruct L as [ND _].
    destruct (allkids_upd h p (set_kids rest) op G) as (a & b & E1 & E2).
    rewrite E2. simpl. rewrite E1 in ND. apply (Permutation_map snd) in P. simpl in P.
    eapply Permutation_NoDup in ND.
    2:{ apply Permutation_app_head. apply Permutation_app_tail. exact P. }
    simpl in ND. apply NoDup_remove_2 in ND. exact ND.
Qed.

Lemma ok_detach_gen w r h p i : (forall p o, kids (w p o) = kids o) -> LinksOk h -> LinksOk (detach_gen w r h p i).
Proof.
  intros Hk L. unfold detach_gen. destruct (get h p) as [op|] eqn:G; auto.
  destruct (del r i (kids op)) as [[c rest]|] eqn:D; auto.
  destruct (removed_uncontained _ _ _ _ _ _ _ L G D) as [L1 NC].
  apply ok_write; auto.
Qed.

Lemma ok_detach d h p i : LinksOk h -> LinksOk (detach d h p i).
Proof. intros L. unfold detach. apply ok_detach_gen; auto. intros. apply dsite_writes_kids. Qed.

Lemma ok_drop r h p i : LinksOk h -> LinksOk (drop r h p i).
Proof.
  intros L. unfold drop. destruct (get h p) as [op|] eqn:G; auto.
  destruct (del r i (kids op)) as [[c rest]|] eqn:D; auto.
  now destruct (removed_uncontained _ _ _ _ _ _ _ L G D).
Qed.

Lemma ok_post h p c : LinksOk h -> LinksOk (post_only h p c).
Proof.
  intros L. unfold post_only. destruct (get h p); auto. destruct (get h c); auto.
  destruct (negb (contained h c) && _ && _) eqn:C; auto.
  apply andb_true_iff in C as [C _]. apply andb_true_iff in C as [C _].
  apply negb_true_iff in C. apply contained_false in C.
  apply ok_write; auto.
Qed.

Lemma ok_step h o : LinksOk h -> LinksOk (step h o).
Proof.
  destruct o; simpl; intros L.
  - now apply ok_alloc.
  - now apply ok_attach.
  - now apply ok_detach.
  - now apply ok_drop.
  - now apply ok_post.
Qed.

Lemma ok_start : LinksOk start.
Proof. split; [constructor|]. intros p op r c G. destruct p; discriminate. Qed.

Lemma ok_run ops h : LinksOk h -> LinksOk (run ops h).
Proof. unfold run. revert h; induction ops as [|o t IH]; simpl; intros h L; auto. apply IH. now apply ok_step. Qed.

Theorem links_invariant_l : forall ops, LinksOk (run ops start).
Proof. intros. apply ok_run, ok_start. Qed.

Lemma ok_fold_attach_gen w r kp kc p l h :
  (forall p o, kids (w p o) = kids o) -> (forall p o, okind o = kc -> link_spec r p (w p o)) ->
  LinksOk h -> LinksOk (fold_left (fun h c => attach_gen w r kp kc h p c (length h)) l h).
Proof. intros Hk Hs. revert h; induction l as [|c t IH]; simpl; intros h L; auto. apply IH. now apply ok_attach_gen. Qed.

Lemma ok_detach_all_gen n w r p h : (forall p o, kids (w p o) = kids o) -> LinksOk h -> LinksOk (detach_all_gen n w r h p).
Proof. intros Hk. revert h; induction n as [|n IH]; simpl; intros h L; auto. apply IH. now apply ok_detach_gen. Qed.

(* the second loops of the two cssRules setters (REGENERATED) write what the role of the new edges demands *)
Lemma sheet_setrules_new_spec p o : okind o = KRule -> link_spec RTop p (apply_writes sheet_setrules_new p o).
Proof. intros K. unfold link_spec. cbn. rewrite K. auto. Qed.
Lemma cont_setrules_new_spec p o : okind o = KRule -> link_spec RSub p (apply_writes cont_setrules_new p o).
Proof. intros K. unfold link_spec. cbn. rewrite K. auto. Qed.

Lemma ok_sheet_set_cssRules h p l : LinksOk h -> LinksOk (sheet_set_cssRules h p l).
Proof.
  intros L. unfold sheet_set_cssRules. apply ok_fold_attach_gen.
  - intros. apply apply_writes_kids.
  - apply sheet_setrules_new_spec.
  - apply ok_detach_all_gen; auto; intros; apply guarded_kids.
Qed.

Theorem set_cssRules_ok_l : forall h p l, LinksOk h ->
  LinksOk (sheet_set_cssRules h p l) /\ LinksOk (container_set_cssRules h p l).
Proof.
  intros h p l L. split; [now apply ok_sheet_set_cssRules|]. unfold container_set_cssRules. apply ok_fold_attach_gen.
  - intros. apply apply_writes_kids.
  - apply cont_setrules_new_spec.
  - apply ok_detach_all_gen; auto; intros; apply guarded_kids.
Qed.

Theorem property_ctor_ok_l : forall h par, LinksOk h -> LinksOk (property_ctor h par).
Proof. intros. unfold property_ctor. apply ok_attach. now do 2 apply ok_alloc. Qed.

(* ------------------------------------------------------------------ a rejected sheet.cssText *)
Lemma length_upd h p f : length (upd h p f) = length h.
Proof. revert p; induction h as [|o t IH]; intros [|p]; simpl; auto. Qed.
Lemma upd_app_l a b i f : i < length a -> upd (a ++ b) i f = upd a i f ++ b.
Proof. revert i; induction a as [|o t IH]; intros [|i] L; simpl in *; try lia; auto. rewrite IH; auto. lia. Qed.
Lemma upd_app_r a b i f : length a <= i -> upd (a ++ b) i f = a ++ upd b (i - length a) f.
Proof.
  revert i; induction a as [|o t IH]; intros i L; simpl in *.
  - now rewrite Nat.sub_0_r.
  - destruct i as [|i]; [lia|]. simpl. rewrite IH; auto. lia.
Qed.
Lemma upd_upd h p f g : upd (upd h p f) p g = upd h p (fun o => g (f o)).
Proof. revert p; induction h as [|o t IH]; intros [|p]; simpl; auto. now rewrite IH. Qed.
Lemma upd_ext h p f g : (forall o, f o = g o) -> upd h p f = upd h p g.
Proof. intros E. revert p; induction h as [|o t IH]; intros [|p]; simpl; auto. now rewrite E. now rewrite IH. Qed.
Lemma upd_id h p f : (forall o, f o = o) -> upd h p f = h.
Proof. intros E. revert p; induction h as [|o t IH]; intros [|p]; simpl; auto. now rewrite E. now rewrite IH. Qed.
Lemma set_kids_same o : set_kids (kids o) o = o.
Proof. destruct o; reflexivity. Qed.
Lemma upd_forall (P : obj -> Prop) g i f : Forall P g -> (forall o, P o -> P (f o)) -> Forall P (upd g i f).
Proof.
  intros F H. revert i; induction F as [|o t Po Ft IH]; intros [|i]; simpl; constructor; auto.
Qed.

Lemma role_eqb_refl r : role_eqb r r = true.
Proof. now apply role_eqb_eq. Qed.
Lemma without_role_ins r c i l : without_role r (ins r c i l) = without_role r l.
Proof.
  unfold without_role. revert i; induction l as [|[r' x] t IH]; intros i; simpl.
  - now rewrite role_eqb_refl.
  - destruct (role_eqb r r') eqn:E.
    + destruct i; simpl; rewrite ?role_eqb_refl, ?E; simpl; auto.
    + simpl. rewrite E. simpl. now rewrite IH.
Qed.
Lemma without_role_del r i l c rest : del r i l = Some (c, rest) -> without_role r rest = without_role r l.
Proof.
  unfold without_role. revert i c rest; induction l as [|[r' x] t IH]; intros i c rest; simpl; [discriminate|].
  destruct (role_eqb r r') eqn:E.
  - destruct i.
    + intros H; inversion H; subst. reflexivity.
    + destruct (del r i t) as [[c' t']|] eqn:D; [|discriminate]. intros H; inversion H; subst.
      simpl. rewrite E. simpl. eapply IH; eauto.
  - destruct (del r i t) as [[c' t']|] eqn:D; [|discriminate]. intros H; inversion H; subst.
    simpl. rewrite E. simpl. f_equal. eapply IH; eauto.
Qed.

Lemma perm_split_role r l : Permutation l (without_role r l ++ map (pair r) (role_kids r l)).
Proof.
  unfold without_role, role_kids. induction l as [|[r' x] t IH]; simpl; auto.
  destruct (role_eqb r r') eqn:E; simpl.
  - apply role_eqb_eq in E; subst r'. now apply Permutation_cons_app.
  - now constructor.
Qed.

Lemma role_kids_app r a b : role_kids r (a ++ b) = role_kids r a ++ role_kids r b.
Proof. unfold role_kids. now rewrite filter_app, map_app. Qed.
Lemma role_kids_pairs r' r x : role_kids r' (map (pair r) x) = if role_eqb r' r then x else [].
Proof.
  unfold role_kids. induction x as [|c t IH]; simpl; [now destruct (role_eqb r' r)|].
  destruct (role_eqb r' r) eqn:E; simpl; rewrite IH; auto.
Qed.
Lemma role_kids_cons r r2 x t :
  role_kids r ((r2, x) :: t) = if role_eqb r r2 then x :: role_kids r t else role_kids r t.
Proof. unfold role_kids. simpl. now destruct (role_eqb r r2). Qed.
Lemma without_role_cons r r2 x t :
  without_role r ((r2, x) :: t) = if role_eqb r r2 then without_role r t else (r2, x) :: without_role r t.
Proof. unfold without_role. simpl. now destruct (role_eqb r r2). Qed.
Lemma role_kids_without r' r l :
  role_kids r' (without_role r l) = if role_eqb r' r then [] else role_kids r' l.
Proof.
  induction l as [|[r2 x] t IH].
  - now destruct (role_eqb r' r).
  - rewrite without_role_cons, (role_kids_cons r' r2 x t).
    destruct (role_eqb r r2) eqn:E2.
    + apply role_eqb_eq in E2; subst r2. rewrite IH. now destruct (role_eqb r' r).
    + rewrite role_kids_cons, IH. destruct (role_eqb r' r) eqn:E.
      * apply role_eqb_eq in E; subst r'. now rewrite E2.
      * reflexivity.
Qed.
Lemma role_kids_split r' r l :
  role_kids r' (without_role r l ++ map (pair r) (role_kids r l)) = role_kids r' l.
Proof.
  rewrite role_kids_app, role_kids_pairs, role_kids_without.
  destruct (role_eqb r' r) eqn:E; simpl.
  - apply role_eqb_eq in E; now subst.
  - now rewrite app_nil_r.
Qed.

(* two objects agree in everything the code can observe: kind, stored attributes, the element list of every role *)
Definition same_obj (a b : obj) : Prop :=
  okind a = okind b /\ f_pr a = f_pr b /\ f_pss a = f_pss b /\ f_par a = f_par b /\ f_own a = f_own b /\
  forall r, role_kids r (kids a) = role_kids r (kids b).
Lemma same_obj_refl a : same_obj a a.
Proof. unfold same_obj; tauto. Qed.

(* THE fact the rollback relies on, computed from the REGENERATED first loop of CSSStyleSheet._setCssRules:
   the setter writes nothing on the rules of the list it replaces *)
Lemma sheet_setter_keeps_replaced : forall p o, guarded sheet_setrules_old_guard sheet_setrules_old p o = o.
Proof. reflexivity. Qed.

Section Rejected.
  Variables (h : heap) (p : id) (op : obj).
  Hypothesis Gp : get h p = Some op.

  Definition shaped (hx : heap) : Prop :=
    exists K g, hx = upd h p (set_kids K) ++ g /\
                without_role RTop K = without_role RTop (kids op) /\ Forall (fun o => kids o = []) g.

  Lemma p_lt : p < length h.
  Proof. apply nth_error_Some. unfold get in Gp. congruence. Qed.

  Lemma shaped_start : shaped h.
  Proof.
    exists (kids op), []. rewrite app_nil_r. repeat split; auto.
    symmetry. rewrite (upd_ext_at h p (set_kids (kids op)) (fun o => o) op Gp (set_kids_same op)).
    now apply upd_id.
  Qed.

  Lemma shaped_upd_p hx (F : list (role * id) -> list (role * id)) :
    (forall K, without_role RTop (F K) = without_role RTop K) ->
    shaped hx -> shaped (upd hx p (fun o => set_kids (F (kids o)) o)).
  Proof.
    intros HF (K & g & E & W & Fg). exists (F K), g. subst hx. repeat split; auto.
    - rewrite upd_app_l by (rewrite length_upd; apply p_lt). f_equal.
      rewrite upd_upd. now apply upd_ext.
    - now rewrite HF.
  Qed.

  Lemma shaped_get_p hx : shaped hx -> exists K, get hx p = Some (set_kids K op).
  Proof.
    intros (K & g & E & _). exists K. subst hx. unfold get.
    rewrite nth_error_app1 by (rewrite length_upd; apply p_lt). now apply get_upd_eq.
  Qed.

  Lemma shaped_detach0 w hx : (forall q o, w q o = o) -> shaped hx -> shaped (detach_gen w RTop hx p 0).
  Proof.
    intros Hw S. unfold detach_gen. destruct (shaped_get_p hx S) as (K & G). rewrite G. simpl.
    destruct (del RTop 0 K) as [[c rest]|] eqn:D; auto.
    rewrite (upd_id _ c (w p)) by apply Hw.
    destruct S as (K' & g & E & W & Fg). exists rest, g.
    assert (K' = K) as ->.
    { subst hx. unfold get in G. rewrite nth_error_app1 in G by (rewrite length_upd; apply p_lt).
      fold (get (upd h p (set_kids K')) p) in G. rewrite (get_upd_eq _ _ _ _ Gp) in G. now inversion G. }
    subst hx. repeat split; auto.
    - rewrite upd_app_l by (rewrite length_upd; apply p_lt). f_equal. rewrite upd_upd. now apply upd_ext.
    - rewrite <- W. eapply without_role_del; eauto.
  Qed.

  Lemma shaped_detach_all w n : (forall q o, w q o = o) -> forall hx, shaped hx -> shaped (detach_all_gen n w RTop hx p).
  Proof. intros Hw. induction n as [|n IH]; simpl; intros hx S; auto. apply IH. now apply shaped_detach0. Qed.

  Lemma shaped_push hx o : kids o = [] -> shaped hx -> shaped (hx ++ [o]).
  Proof.
    intros Ko (K & g & E & W & Fg). exists K, (g ++ [o]). subst hx. rewrite <- app_assoc. repeat split; auto.
    apply Forall_app. split; auto.
  Qed.

  Lemma shaped_write_new hx c w : length h <= c -> (forall o, kids (w o) = kids o) -> shaped hx -> shaped (upd hx c w).
  Proof.
    intros Lc Hk (K & g & E & W & Fg). exists K, (upd g (c - length h) w). subst hx. repeat split; auto.
    - rewrite upd_app_r by (rewrite length_upd; exact Lc). now rewrite length_upd.
    - apply upd_forall; auto. intros o Ho. now rewrite Hk.
  Qed.

  Lemma shaped_length hx : shaped hx -> length h <= length hx.
  Proof. intros (K & g & E & _). subst hx. rewrite app_length, length_upd. lia. Qed.

  Lemma shaped_parse hx : shaped hx -> shaped (parse_one_rule p hx).
  Proof.
    intros S. unfold parse_one_rule, attach, attach_gen, alloc.
    set (hx' := hx ++ _). assert (shaped hx') as S' by (apply shaped_push; auto).
    destruct (get hx' p); auto. destruct (get hx' (length hx)); auto.
    destruct (_ && _ && _); auto. simpl site_role. unfold clear_role. simpl role_single. cbv iota.
    apply (shaped_upd_p _ (ins RTop (length hx) (length hx))).
    - intros K. apply without_role_ins.
    - apply shaped_write_new; [now apply shaped_length | intros; apply site_writes_kids | exact S'].
  Qed.

  Lemma shaped_iter n hx : shaped hx -> shaped (Nat.iter n (parse_one_rule p) hx).
  Proof. intros S. induction n as [|n IH]; simpl; auto. now apply shaped_parse. Qed.

  (* the raw restore of the saved list on a shaped heap gives back h (up to the interleaving of roles in the
     element list of p, which carries no meaning) plus unreferenced garbage *)
  Lemma shaped_restore hx :
    LinksOk h -> shaped hx ->
    let R := raw_set_rules hx p (role_kids RTop (kids op)) in
    LinksOk R /\ forall i o, get h i = Some o -> exists o', get R i = Some o' /\ same_obj o o'.
  Proof.
    intros L (K & g & E & W & Fg) R. subst hx.
    set (K2 := without_role RTop (kids op) ++ map (pair RTop) (role_kids RTop (kids op))).
    assert (R = upd h p (set_kids K2) ++ g) as ER.
    { unfold R, raw_set_rules. rewrite upd_app_l by (rewrite length_upd; apply p_lt). f_equal.
      rewrite upd_upd. apply upd_ext. intros o. simpl. unfold K2. now rewrite W. }
    rewrite ER. split.
    - apply ok_app_nokids; auto. eapply ok_shrink with (rem := []); eauto. simpl. apply perm_split_role.
    - intros i o Gi. assert (i < length h) as Li by (apply nth_error_Some; unfold get in Gi; congruence).
      unfold get. rewrite nth_error_app1 by (now rewrite length_upd). fold (get (upd h p (set_kids K2)) i).
      rewrite get_upd. destruct (Nat.eqb p i) eqn:Ei.
      + apply Nat.eqb_eq in Ei; subst i. rewrite Gi. simpl. eexists; split; eauto.
        rewrite Gp in Gi. inversion Gi; subst o. unfold same_obj; simpl. repeat split; auto.
        intros r. unfold K2. now rewrite role_kids_split.
      + rewrite Gi. eexists; split; eauto. apply same_obj_refl.
  Qed.
End Rejected.

(* A rejected sheet.cssText assignment: rules cleared through the setter, n rules of the new text parsed and
   inserted, rollback by the raw restore -- the heap is what it was (every old object agrees in kind, stored
   attributes and element lists; only unreferenced new objects were added) and LinksOk still holds.
   The proof computes with the regenerated shape of _setCssText (clear through the setter, raw restore) and of the
   setter's first loop: a setter that starts to write on the rules it replaces breaks sheet_setter_keeps_replaced. *)
Theorem rejected_keeps_links_l : forall h p n, LinksOk h ->
  let R := sheet_cssText_rejected h p n in
  LinksOk R /\ forall i o, get h i = Some o -> exists o', get R i = Some o' /\ same_obj o o'.
Proof.
  intros h p n L. unfold sheet_cssText_rejected.
  destruct (get h p) as [op|] eqn:Gp.
  2:{ split; auto. intros i o Gi. exists o. split; auto. apply same_obj_refl. }
  unfold sheet_cssText_restore_via_setter, sheet_clear_rules, sheet_cssText_clear_via_setter. cbv iota.
  apply (shaped_restore h p op Gp); auto.
  apply (shaped_iter h p op Gp). unfold sheet_set_cssRules. simpl fold_left.
  apply (shaped_detach_all h p op Gp).
  - intros q o. apply sheet_setter_keeps_replaced.
  - exact (shaped_start h p op Gp).
Qed.

(* what the statement excludes: had the setter detached the replaced rules (written _parentStyleSheet = None on
   them, as CSSRuleRules._setCssRules does for _parentRule), the raw restore would leave the sheet with rules that
   name no sheet *)
Example ex_detaching_setter_breaks_rollback :
  let h := run [OAlloc KSheet None None None None; OAlloc KRule None None None None; OAttach SSheetInsert 0 1 0] start in
  let h1 := detach_all_gen 1 (guarded (Some LPss) [(LPss, LNone)]) RTop h 0 in
  option_map f_pss (get (raw_set_rules h1 0 [1]) 1) = Some None /\
  option_map f_pss (get (sheet_cssText_rejected h 0 2) 1) = Some (Some 0).
Proof. vm_compute. auto. Qed.

(* ------------------------------------------------------------------ a refused @namespace insertion *)
Definition fields_eq (a b : obj) : Prop :=
  okind a = okind b /\ f_pr a = f_pr b /\ f_pss a = f_pss b /\ f_par a = f_par b /\ f_own a = f_own b.
Definition agree_but_pss (a b : obj) : Prop :=
  okind a = okind b /\ f_pr a = f_pr b /\ f_par a = f_par b /\ f_own a = f_own b /\ kids a = kids b.
Lemma agree_refl a : agree_but_pss a a.
Proof. unfold agree_but_pss; tauto. Qed.
Lemma agree_trans a b c : agree_but_pss a b -> agree_but_pss b c -> agree_but_pss a c.
Proof. unfold agree_but_pss. intros (A1 & A2 & A3 & A4 & A5) (B1 & B2 & B3 & B4 & B5). repeat split; congruence. Qed.

Lemma link_spec_fields_eq r p a b : fields_eq a b -> link_spec r p a -> link_spec r p b.
Proof. unfold fields_eq, link_spec. intros (K & A & B & C & D). rewrite K, A, B, C, D. tauto. Qed.

Lemma allkids_pointwise : forall h R, length R = length h ->
  (forall i o, get h i = Some o -> exists o', get R i = Some o' /\ Permutation (kids o') (kids o)) ->
  Permutation (allkids R) (allkids h).
Proof.
  induction h as [|o t IH]; intros [|o' R'] L H; simpl in *; try discriminate; auto.
  destruct (H 0 o eq_refl) as (o'' & G & P). simpl in G. inversion G; subst o''.
  unfold allkids. simpl. apply Permutation_app.
  - now apply Permutation_map.
  - apply IH; [lia|]. intros i x Gi. exact (H (S i) x Gi).
Qed.

(* the heap R agrees with h: same objects, element lists permuted at most, and every object that is somebody's
   element has the same stored attributes *)
Lemma LinksOk_transfer h R : LinksOk h -> length R = length h ->
  (forall i o, get h i = Some o ->
     exists o', get R i = Some o' /\ Permutation (kids o') (kids o) /\ (In i (allkids h) -> fields_eq o o')) ->
  LinksOk R.
Proof.
  intros [ND E] L H. split.
  - eapply Permutation_NoDup; [|exact ND]. symmetry. apply allkids_pointwise; auto.
    intros i o G. destruct (H i o G) as (o' & G' & P & _). eauto.
  - intros q oq' r x Gq I.
    assert (q < length h) as Lq. { rewrite <- L. apply nth_error_Some. unfold get in Gq. congruence. }
    destruct (get h q) as [oq|] eqn:Gh.
    2:{ unfold get in Gh. apply nth_error_None in Gh. lia. }
    destruct (H q oq Gh) as (o' & G' & P & _). rewrite Gq in G'. inversion G'; subst o'.
    assert (In (r, x) (kids oq)) as I0 by (eapply Permutation_in; eauto).
    destruct (E _ _ _ _ Gh I0) as (ox & Gx & S).
    destruct (H x ox Gx) as (ox' & Gx' & _ & F).
    exists ox'. split; auto. eapply link_spec_fields_eq; [|exact S]. apply F. exact (in_allkids h q oq r x Gh I0).
Qed.

Lemma in_role_kids r x l : In x (role_kids r l) <-> In (r, x) l.
Proof.
  unfold role_kids. rewrite in_map_iff. split.
  - intros ([r' y] & E & I). simpl in E; subst y. apply filter_In in I as [I B]. simpl in B.
    apply role_eqb_eq in B. now subst.
  - intros I. exists (r, x). split; auto. apply filter_In. split; auto. simpl. apply role_eqb_refl.
Qed.

(* computed from the REGENERATED write lists: deleteRule of a sheet and the restore loop touch _parentStyleSheet
   only, and the restore loop sets it to the sheet *)
Lemma sheet_delete_only_pss p o : agree_but_pss o (dsite_writes DSheetDelete p o).
Proof. unfold agree_but_pss. cbn. tauto. Qed.
Lemma ns_restore_sets_pss p o :
  agree_but_pss o (apply_writes sheet_insert_ns_restore p o) /\ f_pss (apply_writes sheet_insert_ns_restore p o) = Some p.
Proof. unfold agree_but_pss. cbn. tauto. Qed.

Lemma restore_rel p : forall l hx opx, ~ In p l -> get hx p = Some opx ->
  let R := fold_left (restore_one p) l hx in
  length R = length hx /\
  get R p = Some (set_kids (kids opx ++ map (pair RTop) l) opx) /\
  forall i o1, i <> p -> get hx i = Some o1 ->
    exists o2, get R i = Some o2 /\ agree_but_pss o1 o2 /\ (In i l -> f_pss o2 = Some p) /\ (~ In i l -> o2 = o1).
Proof.
  induction l as [|r t IH]; intros hx opx NP Gp; simpl.
  - repeat split; auto.
    + now rewrite app_nil_r, set_kids_same.
    + intros i o1 _ G. exists o1. repeat split; auto using agree_refl. tauto.
  - assert (r <> p) as Rp by (intros ->; apply NP; now left).
    assert (~ In p t) as NP' by (intros I; apply NP; now right).
    set (hx' := restore_one p hx r).
    assert (get hx' p = Some (set_kids (kids opx ++ [(RTop, r)]) opx)) as Gp'.
    { unfold hx', restore_one.
      assert (get (upd hx r (apply_writes sheet_insert_ns_restore p)) p = Some opx) as G0 by (rewrite get_upd_neq; auto).
      now rewrite (get_upd_eq _ _ _ _ G0). }
    destruct (IH hx' _ NP' Gp') as (Ln & GR & PW). repeat split.
    + rewrite Ln. unfold hx', restore_one. now rewrite !length_upd.
    + rewrite GR. unfold set_kids; simpl. now rewrite <- app_assoc.
    + intros i o1 Ip G.
      assert (get hx' i = Some (if Nat.eqb r i then apply_writes sheet_insert_ns_restore p o1 else o1)) as G'.
      { unfold hx', restore_one. rewrite get_upd_neq by auto. rewrite get_upd, G. now destruct (Nat.eqb r i). }
      destruct (PW i _ Ip G') as (o2 & G2 & A & InT & NotT). exists o2. split; auto.
      destruct (Nat.eqb r i) eqn:Er.
      * apply Nat.eqb_eq in Er; subst i. destruct (ns_restore_sets_pss p o1) as [A1 S1].
        split; [|split].
        -- eapply agree_trans; eauto.
        -- intros _. destruct (in_dec Nat.eq_dec r t) as [I|I]; auto. rewrite (NotT I). exact S1.
        -- intros N. exfalso. apply N. now left.
      * apply Nat.eqb_neq in Er. split; [exact A|split].
        -- intros [E|I]; [congruence|auto].
        -- intros N. apply NotT. intros I. apply N. now right.
Qed.

Section NsRefused.
  Variables (h : heap) (p c : id) (op oc : obj).
  Hypothesis L : LinksOk h.
  Hypothesis Gp : get h p = Some op.
  Hypothesis Kp : okind op = KSheet.
  Hypothesis Gc : get h c = Some oc.
  Hypothesis Kc : okind oc = KRule.
  Hypothesis NC : ~ In c (allkids h).
  Let old := role_kids RTop (kids op).

  Lemma old_spec x : In x old -> exists ox, get h x = Some ox /\ link_spec RTop p ox.
  Proof. intros I. apply in_role_kids in I. destruct L as [_ E]. eapply E; eauto. Qed.
  Lemma old_ne_p x : In x old -> x <> p.
  Proof.
    intros I ->. destruct (old_spec p I) as (ox & G & (K & _)). rewrite Gp in G. inversion G; subst ox.
    simpl in K. congruence.
  Qed.
  Lemma c_ne_p : c <> p.
  Proof. intros ->. rewrite Gp in Gc. inversion Gc; subst oc. congruence. Qed.
  Lemma c_notin_old : ~ In c old.
  Proof. intros I. apply NC. apply in_role_kids in I. exact (in_allkids h p op RTop c Gp I). Qed.

  Definition nsA (hx : heap) : Prop :=
    length hx = length h /\
    (exists K, get hx p = Some (set_kids K op) /\ without_role RTop K = without_role RTop (kids op) /\
               forall x, In (RTop, x) K -> x = c \/ In x old) /\
    (forall i o, i <> p -> get h i = Some o ->
       exists o', get hx i = Some o' /\ agree_but_pss o o' /\ (~ (i = c \/ In i old) -> o' = o)).

  Lemma nsA_start idx : nsA (raw_insert h p c idx).
  Proof.
    unfold nsA, raw_insert. split; [apply length_upd|split].
    - exists (ins RTop c idx (kids op)). split; [|split].
      + now rewrite (get_upd_eq _ _ _ _ Gp).
      + apply without_role_ins.
      + intros x I. eapply Permutation_in in I; [|apply ins_perm]. destruct I as [I|I].
        * inversion I. now left.
        * right. now apply in_role_kids.
    - intros i o Ip G. exists o. rewrite get_upd_neq by auto. split; [auto|split; auto using agree_refl].
  Qed.

  Lemma nsA_step hx i : nsA hx -> nsA (detach DSheetDelete hx p i).
  Proof.
    intros (Ln & (K & GK & WK & SK) & PW). unfold detach, detach_gen. rewrite GK. simpl kids. simpl dsite_role.
    destruct (del RTop i K) as [[x rest]|] eqn:D.
    2:{ split; [auto|split; eauto]. }
    pose proof (del_perm _ _ _ _ _ D) as P.
    assert (x = c \/ In x old) as Sx. { apply SK. eapply Permutation_in; [symmetry; exact P|]. now left. }
    assert (x <> p) as Xp. { destruct Sx as [->|I]; [apply c_ne_p|now apply old_ne_p]. }
    split; [now rewrite !length_upd|split].
    - exists rest. split; [|split].
      + rewrite get_upd_neq by auto. now rewrite (get_upd_eq _ _ _ _ GK).
      + rewrite <- WK. eapply without_role_del; eauto.
      + intros y I. apply SK. eapply Permutation_in; [symmetry; exact P|]. now right.
    - intros j o Jp G. destruct (PW j o Jp G) as (o' & G' & A & U).
      rewrite get_upd, get_upd_neq by auto. rewrite G'. destruct (Nat.eqb x j) eqn:Ex; simpl.
      + apply Nat.eqb_eq in Ex; subst j. eexists; split; [reflexivity|split].
        * eapply agree_trans; [exact A|apply sheet_delete_only_pss].
        * intros N. exfalso. now apply N.
      + eexists; split; [reflexivity|split; auto].
  Qed.

  Lemma nsA_fold dels : forall hx, nsA hx -> nsA (fold_left (fun h i => detach DSheetDelete h p i) dels hx).
  Proof. induction dels as [|i t IH]; simpl; intros hx A; auto. apply IH. now apply nsA_step. Qed.

  Lemma ns_pointwise idx dels :
    let R := sheet_insert_ns_refused h p c idx dels in
    length R = length h /\
    forall i o, get h i = Some o ->
      exists o', get R i = Some o' /\ Permutation (kids o') (kids o) /\
                 (forall r, role_kids r (kids o') = role_kids r (kids o)) /\
                 (i <> p -> agree_but_pss o o') /\ (i <> c -> fields_eq o o').
  Proof.
    unfold sheet_insert_ns_refused. rewrite Gp. fold old.
    set (h2 := fold_left _ dels _).
    assert (nsA h2) as (Ln & (K & GK & WK & SK) & PW) by (apply nsA_fold, nsA_start).
    set (h3 := upd h2 p _).
    assert (get h3 p = Some (set_kids (without_role RTop K) op)) as G3 by (unfold h3; now rewrite (get_upd_eq _ _ _ _ GK)).
    assert (~ In p old) as NP by (intros I; now apply (old_ne_p p I)).
    destruct (restore_rel p old h3 _ NP G3) as (LR & GR & RW). simpl in GR. rewrite WK in GR.
    split. { rewrite LR. unfold h3. now rewrite length_upd. }
    intros i o G. destruct (Nat.eq_dec i p) as [->|Ip].
    - rewrite Gp in G. inversion G; subst o. eexists; split; [exact GR|]. simpl. split; [|split; [|split]].
      + symmetry. apply perm_split_role.
      + intros r. apply role_kids_split.
      + intros N. congruence.
      + intros _. unfold fields_eq. simpl. tauto.
    - destruct (PW i o Ip G) as (o' & G' & A & U).
      assert (get h3 i = Some o') as G3i by (unfold h3; rewrite get_upd_neq; [exact G'|congruence]).
      destruct (RW i o' Ip G3i) as (o2 & G2 & A2 & InO & NotO).
      pose proof (agree_trans _ _ _ A A2) as A3. exists o2. split; auto.
      pose proof A3 as (E1 & E2 & E3 & E4 & E5).
      split; [now rewrite E5|]. split; [intros r; now rewrite E5|]. split; [auto|].
      intros Ic. unfold fields_eq. split; [auto|]. split; [auto|]. split; [|auto]. destruct (in_dec Nat.eq_dec i old) as [I|I].
      + destruct (old_spec i I) as (ox & Gx & (_ & _ & S & _)). rewrite G in Gx. inversion Gx; subst ox.
        rewrite (InO I). exact S.
      + rewrite (NotO I). rewrite U; auto. intros [E|E]; auto.
  Qed.
End NsRefused.

(* A REFUSED @namespace insertion (raw insert, some deleteRule calls of _cleanNamespaces, then the restore handler:
   clear, re-attach writes, raw re-insert, raise): LinksOk holds, every object other than the refused rule agrees
   with itself before (kind, stored attributes, element list of every role), the refused rule keeps its elements
   and stays outside. The writes of deleteRule and of the restore loop are the regenerated ones: a restore loop
   that forgets `r._parentStyleSheet = self` breaks ns_restore_sets_pss. *)
Theorem ns_refused_keeps_links_l : forall h p c op oc idx dels, LinksOk h ->
  get h p = Some op -> okind op = KSheet -> get h c = Some oc -> okind oc = KRule -> contained h c = false ->
  let R := sheet_insert_ns_refused h p c idx dels in
  LinksOk R /\ contained R c = false /\
  (forall i o, i <> c -> get h i = Some o -> exists o', get R i = Some o' /\ same_obj o o') /\
  (exists oc', get R c = Some oc' /\ agree_but_pss oc oc').
Proof.
  intros h p c op oc idx dels L Gp Kp Gc Kc C R. apply contained_false in C.
  destruct (ns_pointwise h p c op oc L Gp Kp Gc Kc C idx dels) as (Ln & PW). fold R in Ln, PW.
  assert (Permutation (allkids R) (allkids h)) as PA.
  { apply allkids_pointwise; auto. intros i o G. destruct (PW i o G) as (o' & G' & P & _). eauto. }
  split; [|split; [|split]].
  - apply (LinksOk_transfer h R L Ln). intros i o G. destruct (PW i o G) as (o' & G' & P & _ & _ & F).
    exists o'. split; [exact G'|split; [exact P|]]. intros I. apply F. intros E. subst i. contradiction.
  - destruct (contained R c) eqn:E; auto. apply contained_spec in E. exfalso. apply C.
    eapply Permutation_in; eauto.
  - intros i o Ic G. destruct (PW i o G) as (o' & G' & _ & RK & _ & F). exists o'. split; auto.
    destruct (F Ic) as (F1 & F2 & F3 & F4 & F5). unfold same_obj. repeat split; auto.
  - destruct (PW c oc Gc) as (o' & G' & _ & _ & A & _). exists o'. split; auto. apply A.
    intros ->. rewrite Gp in Gc. inversion Gc; subst oc. congruence.
Qed.

(* rejected calls that reach no assignment site: deleteRule with an index out of range, an insertion of an object
   that is still contained elsewhere -- the step is the identity *)
Lemma detach_out_of_range d h p i : removed (dsite_role d) h p i = None -> detach d h p i = h.
Proof.
  unfold removed, detach, detach_gen. destruct (get h p); auto.
  destruct (del (dsite_role d) i (kids o)) as [[c rest]|]; auto. discriminate.
Qed.
Lemma attach_contained s h p c idx : contained h c = true -> attach s h p c idx = h.
Proof.
  intros C. unfold attach, attach_gen. destruct (get h p); auto. destruct (get h c); auto.
  rewrite C. reflexivity.
Qed.

(* ------------------------------------------------------------------ the accessors *)
(* what the accessors (as the code evaluates them) must return for an element of role r in container p *)
Definition accessors_name (r : role) (p : id) (oc : obj) : Prop :=
  match r with
  | RTop => acc_parentRule oc = None /\ acc_parent oc = None /\ f_pss oc = Some p
  | RSub => acc_parentRule oc = Some p /\ acc_parent oc = Some p
  | RStyle | RSelList | RMedia => acc_parentRule oc = Some p
  | RImported => acc_ownerRule oc = Some p
  | RItem | RPV => acc_parent oc = Some p
  end.

Lemma link_spec_accessors r p oc : link_spec r p oc -> accessors_name r p oc.
Proof.
  unfold link_spec, accessors_name, acc_parent, acc_parentRule, acc_ownerRule.
  destruct r; simpl; intros [K F]; try exact F; tauto.
Qed.

Theorem links_mirror_l : forall h, LinksOk h ->
  forall p op r c, get h p = Some op -> In (r, c) (kids op) ->
  exists oc, get h c = Some oc /\ accessors_name r p oc.
Proof.
  intros h [_ E] p op r c G I. destruct (E _ _ _ _ G I) as (oc & Gc & S).
  exists oc. split; auto. now apply link_spec_accessors.
Qed.

(* c is a rule n levels below the style sheet s: s.cssRules contains c1, c1.cssRules contains c2, ... *)
Inductive below (h : heap) (s : id) : id -> nat -> Prop :=
| below_top c os : get h s = Some os -> In (RTop, c) (kids os) -> below h s c 0
| below_sub p c op n : below h s p n -> get h p = Some op -> In (RSub, c) (kids op) -> below h s c (S n).

Theorem parentStyleSheet_any_depth_l : forall h, LinksOk h ->
  forall s c n, below h s c n ->
  forall oc fuel, get h c = Some oc -> n <= fuel -> acc_parentStyleSheet fuel h oc = Some (Some s).
Proof.
  intros h [_ E] s c n B. induction B as [c os G I|p c op n B IH G I]; intros oc fuel Gc Lf.
  - destruct (E _ _ _ _ G I) as (oc' & Gc' & _ & Fpr & Fpss & _). rewrite Gc in Gc'. inversion Gc'; subst.
    destruct fuel; simpl; rewrite Fpr; now rewrite Fpss.
  - destruct (E _ _ _ _ G I) as (oc' & Gc' & _ & Fpr & _). rewrite Gc in Gc'. inversion Gc'; subst.
    destruct fuel as [|fuel]; [lia|]. simpl. rewrite Fpr, G. apply IH; auto. lia.
Qed.

(* ------------------------------------------------------------------ deleteRule *)
Theorem deleted_detached_l : forall d h p i c, LinksOk h ->
  removed (dsite_role d) h p i = Some c ->
  let h' := detach d h p i in
  contained h' c = false /\
  exists oc, get h' c = Some oc /\
    acc_parentRule oc = None /\ acc_parent oc = None /\
    forall fuel, acc_parentStyleSheet fuel h' oc = Some None.
Proof.
  intros d h p i c L R h'. unfold removed in R. unfold h', detach, detach_gen.
  destruct (get h p) as [op|] eqn:G; [|discriminate].
  destruct (del (dsite_role d) i (kids op)) as [[c' rest]|] eqn:D; [|discriminate].
  inversion R; subst c'. clear R.
  destruct (removed_uncontained _ _ _ _ _ _ _ L G D) as [L1 NC].
  pose proof (del_perm _ _ _ _ _ D) as P.
  assert (In (dsite_role d, c) (kids op)) as I. { eapply Permutation_in; [symmetry; exact P|]. now left. }
  destruct L as [_ E]. destruct (E _ _ _ _ G I) as (oc & Gc & S).
  split.
  - destruct (contained _ c) eqn:C; auto. apply contained_spec in C.
    rewrite allkids_upd_same in C by (intros; apply dsite_writes_kids). contradiction.
  - assert (exists oc1, get (upd h p (set_kids rest)) c = Some oc1 /\ okind oc1 = okind oc /\
                        f_pr oc1 = f_pr oc /\ f_pss oc1 = f_pss oc /\ f_par oc1 = f_par oc)
      as (oc1 & Gc1 & K1 & Fpr1 & Fpss1 & Fpar1).
    { rewrite get_upd. destruct (Nat.eqb p c); rewrite Gc; simpl; eauto 10. }
    exists (dsite_writes d p oc1). split; [now apply get_upd_eq|].
    unfold acc_parentRule, acc_parent.
    (* computes with the REGENERATED deleteRule writes *)
    destruct d; cbn in *; destruct S as [K [F1 [F2 F3]]].
    + rewrite Fpr1, F1, Fpar1, F3. repeat split; auto.
      intros fuel. destruct fuel; cbn; rewrite Fpr1, F1; reflexivity.
    + repeat split; auto. intros fuel. destruct fuel; cbn; rewrite Fpss1, F2; reflexivity.
Qed.

(* ------------------------------------------------------------------ non-vacuity and the old derivation *)
(* sheet 0 ; @media 1 { @media 2 { a 3 {style 4 {prop 5 (pv 6 (value 7))} } } } ; then rule 3 is deleted *)
Definition ex_ops : list op :=
  [ OAlloc KSheet None None None None; OAlloc KRule None None None None; OAlloc KRule None None None None;
    OAlloc KRule None None None None; OAlloc KDecl None None None None; OAlloc KProp None None None None;
    OAlloc KPV None None None None; OAlloc KValue None None None None;
    OAttach SPVItem 6 7 0; OAttach SPropPV 5 6 0; OAttach SDeclAppend 4 5 0; OAttach SSetStyle 3 4 0;
    OAttach SContInsert 2 3 0; OAttach SContInsert 1 2 0; OAttach SSheetInsert 0 1 0 ].

Example ex_nested_depth : below (run ex_ops start) 0 3 2.
Proof.
  eapply below_sub with (p := 2); [eapply below_sub with (p := 1); [eapply below_top|..]|..];
    try (vm_compute; reflexivity); vm_compute; auto.
Qed.

Example ex_nested_pss :
  option_map (acc_parentStyleSheet 2 (run ex_ops start)) (get (run ex_ops start) 3) = Some (Some (Some 0)).
Proof. vm_compute. reflexivity. Qed.

(* the derivation of the unrepaired code (parentRule._parentStyleSheet, one level) answers None there *)
Example ex_one_level_derivation_wrong :
  option_map (acc_parentStyleSheet_one_level (run ex_ops start)) (get (run ex_ops start) 3) = Some None.
Proof. vm_compute. reflexivity. Qed.

Example ex_deleted :
  removed RSub (run ex_ops start) 2 0 = Some 3 /\
  option_map f_pr (get (run (ex_ops ++ [ODetach DContDelete 2 0]) start) 3) = Some None.
Proof. vm_compute. auto. Qed.

(* an attach is really performed (the executable preconditions are satisfiable) *)
Example ex_edges :
  option_map kids (get (run ex_ops start) 0) = Some [(RTop, 1)] /\
  option_map kids (get (run ex_ops start) 2) = Some [(RSub, 3)] /\
  option_map kids (get (run ex_ops start) 5) = Some [(RPV, 6)].
Proof. vm_compute. auto. Qed.
