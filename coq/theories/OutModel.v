(* OutModel.v -- property C05.  Executable model of
     serialize.py  Out._remove_last_if_S (209-212), Out.append (214-308), Out.value (310-316),
                   CSSSerializer._atkeyword (340-348), _indentblock (350-360), _propertyname (362-371),
                   _valid, _hash (382-392)
   and skeletons of do_CSSStyleSheet, do_CSSComment, do_CSSFontFaceRule, do_CSSMediaRule, do_CSSUnknownRule,
   do_CSSStyleRule, do_css_CSSStyleDeclaration, do_Property as far as the keep*/default*/omit* preferences
   need (selector, value, media-query and unknown-rule texts are opaque strings).
   The preference record, its two presets and every string constant of Out.append come from Gen/Prefs.v
   (translate/prefs.py, which also refuses to generate when the control structure of any of these
   functions differs from the one transcribed here).

   self.out is kept REVERSED (head = last element) and every element carries a ghost tag:
   Some i = the text appended for item number i,  None = a spacer / separator chosen by Out.append.
   The Python list is  map snd (rev rout). *)
From CssV Require Import Base Gen.PyTables Gen.Prefs.

(* ------------------------------------------------------------------ Python string helpers *)
Definition is_nil {A} (l : list A) : bool := match l with [] => true | _ => false end.

Fixpoint is_sub (x t : str) : bool :=            (* x in t   (substring test; '' in t is True) *)
  starts x t || match t with [] => false | _ :: t' => is_sub x t' end.

Definition ends_with (x t : str) : bool := starts (rev x) (rev t).     (* t.endswith(x) *)

Definition py_ws (c : N) : bool := mem c py_space.                   (* str.isspace per character *)

Definition blank (space : option str) (t : str) : bool :=             (* not t.strip(space) *)
  match space with
  | None => forallb py_ws t
  | Some cs => forallb (fun c => mem c cs) t
  end.

Fixpoint join (sep : str) (l : list str) : str :=
  match l with
  | [] => []
  | [x] => x
  | x :: r => x ++ sep ++ join sep r
  end.

Fixpoint split_aux (sep : str) (fuel : nat) (cur : str) (t : str) : list str :=
  match fuel with
  | O => [rev cur ++ t]
  | S f =>
    match t with
    | [] => [rev cur]
    | c :: t' => if starts sep t then rev cur :: split_aux sep f [] (skipn (length sep) t)
                 else split_aux sep f (c :: cur) t'
    end
  end.
Definition split (sep t : str) : list str := split_aux sep (S (length t)) [] t.   (* t.split(sep), sep <> '' *)

Fixpoint repeat_str (n : nat) (x : str) : str := match n with O => [] | S k => x ++ repeat_str k x end.

(* ------------------------------------------------------------------ values handed to Out.append *)
Inductive pval :=
  | VNone                                              (* None *)
  | VStr (t : str)                                     (* a str *)
  | VObj (truthy : bool) (css media : option str).     (* an object; .cssText / .mediaText if it has them *)

Record item := mkItem {
  ival : pval; ity : option str;                       (* val, type_ *)
  ispace : bool; ikeepS : bool; iindent : bool; ialwaysS : bool;
  iconv : str       (* helper.string(val) for type STRING, helper.uri(val) for type URI (owned by C03/C12) *)
}.

Definition truthy (v : pval) : bool :=
  match v with VNone => false | VStr t => negb (is_nil t) | VObj b _ _ => b end.

Definition ty_is (lit : str) (ty : option str) : bool :=
  match ty with Some t => eqs t lit | None => false end.

Definition chunk := (option nat * str)%type.

(* 209-212 *)
Definition remove_last_if_S (space : option str) (rout : list chunk) : list chunk :=
  match rout with
  | [] => []
  | (_, t) :: r => if blank space t then r else rout
  end.

(* 350-360 *)
Definition indentblock (p : prefs) (text : str) (level : nat) : str :=
  if forallb (fun c => mem c lit_indent_blank) p.(lineSeparator) then text   (* not sep.strip(' \t'), '' included *)
  else join p.(lineSeparator)
         (map (fun line => repeat_str level p.(indent) ++ line)
              (filter (fun line => negb (is_nil line)) (split p.(lineSeparator) text))).

(* 382-392 *)
Definition hash (p : prefs) (v : str) : str :=
  match v with
  | [h; a; b; c; d; e; f] =>
    if p.(minimizeColorHash) && N.eqb a b && N.eqb c d && N.eqb e f then [35%N; a; c; e] else v
  | _ => v
  end.

(* ------------------------------------------------------------------ Out.append *)
Inductive pre_res := PSkip | PCrash | PVal (v : str) (rout : list chunk).

(* the PRE part, 239-268: which text is appended and what happens to a trailing S *)
Definition pre (p : prefs) (rout : list chunk) (it : item) : pre_res :=
  let ty := it.(ity) in
  if truthy it.(ival) || ty_is lit_ty_STRING0 ty || ty_is lit_ty_URI0 ty then               (* 239 *)
    if ty_is lit_ty_COMMENT ty then                                                           (* 241 *)
      if p.(keepComments) then
        match it.(ival) with VObj _ (Some t) _ => PVal t rout | _ => PCrash end               (* 243 *)
      else PSkip                                                                              (* 245 *)
    else if ty_is lit_ty_S ty && negb it.(ikeepS) then PSkip                                  (* 246 *)
    else if ty_is lit_ty_S1 ty && it.(ikeepS) then PVal lit_keepS_val rout                    (* 248 *)
    else if ty_is lit_ty_STRING ty then                                                       (* 250 *)
      match it.(ival) with
      | VNone => PSkip                                                                        (* 252 *)
      | VStr _ => PVal it.(iconv)
                    (if is_nil p.(spacer) then remove_last_if_S None rout else rout)          (* 254-256 *)
      | VObj _ _ _ => PCrash
      end
    else if ty_is lit_ty_URI ty then                                                          (* 257 *)
      match it.(ival) with VStr _ => PVal it.(iconv) rout | _ => PCrash end
    else if ty_is lit_ty_HASH ty then                                                         (* 259 *)
      match it.(ival) with VStr t => PVal (hash p t) rout | _ => PCrash end
    else
      match it.(ival) with
      | VObj _ (Some t) _ => PVal t rout                                                      (* 261 *)
      | VObj _ None (Some t) => PVal t rout                                                   (* 263 *)
      | VObj _ None None => PCrash                    (* `obj in '...'` raises TypeError *)
      | VNone => PCrash                               (* not reachable: a falsy val has type STRING/URI *)
      | VStr t =>
        if is_sub t lit_strip_chars && negb it.(ialwaysS) then
          PVal t (remove_last_if_S None rout)                                                 (* 265 *)
        else if eqs t p.(lineSeparator) && negb it.(ialwaysS) then
          PVal t (remove_last_if_S (Some lit_linesep_strip) rout)                             (* 267 *)
        else PVal t rout
      end
  else PSkip.

(* the APPEND part, 279-284: the text that goes into self.out *)
Definition app_text (p : prefs) (lvl : nat) (it : item) (v : str) : str :=
  if it.(iindent) || (eqs v lit_closebrace && p.(indentClosingBrace)) then indentblock p v (S lvl) else v.

Definition app_strip (p : prefs) (it : item) (v : str) (rout : list chunk) : list chunk :=
  if it.(iindent) || (eqs v lit_closebrace && p.(indentClosingBrace)) then rout
  else if ends_with lit_endspace v then remove_last_if_S None rout else rout.                  (* 282 *)

(* the POST part, 287-308: (inserted before the text, appended after it) *)
Definition post (p : prefs) (it : item) (v : str) : list str * list str :=
  let ty := it.(ity) in
  if it.(ialwaysS) && is_sub v lit_calc_ops then ([], [lit_calc_space])                        (* 287 *)
  else if is_sub v lit_comb then                                                               (* 289 *)
    let cs := if ty_is lit_ty_CHAR ty && is_nil p.(selectorCombinatorSpacer)
              then lit_comb_forced       (* a plain token, not a selector combinator: never glued (fix 4b7d642) *)
              else p.(selectorCombinatorSpacer) in
    ([cs], [cs])
  else if eqs lit_funcend v && negb it.(ikeepS) then ([], [lit_funcend_space])                 (* 292 *)
  else if eqs lit_comma v then ([], [p.(listItemSpacer)])                                      (* 295 *)
  else if eqs lit_colon v then ([], [p.(propertyNameSpacer)])                                  (* 297 *)
  else if eqs lit_openbrace v then ([p.(paranthesisSpacer)], [p.(lineSeparator)])              (* 299 *)
  else if eqs lit_semicolon v || ty_is lit_ty_styletext ty then ([], [p.(lineSeparator)])      (* 302 *)
  else if negb (is_sub v lit_nospace) && it.(ispace) && negb (ty_is lit_ty_FUNCTION ty) then   (* 304 *)
    ([], p.(spacer) ::
         (if negb (ty_is lit_ty_STRING2 ty) && is_nil p.(spacer)
             && negb (ends_with lit_fallback_test p.(spacer))                                  (* 306-307 *)
          then [lit_fallback_space] else []))
  else ([], []).

Definition seps (l : list str) : list chunk := map (fun t => (None, t)) l.

(* one call of Out.append; None = the call raises *)
Definition append (p : prefs) (lvl : nat) (tag : nat) (rout : list chunk) (it : item) : option (list chunk) :=
  match pre p rout it with
  | PSkip => Some rout
  | PCrash => None
  | PVal v rout1 =>
    let rout2 := app_strip p it v rout1 in
    let '(before, after) := post p it v in
    Some (rev (seps after) ++ (Some tag, app_text p lvl it v) :: rev (seps before) ++ rout2)
  end.

Fixpoint run_from (p : prefs) (lvl : nat) (n : nat) (rout : list chunk) (items : list item)
  : option (list chunk) :=
  match items with
  | [] => Some rout
  | it :: r =>
    match append p lvl n rout it with
    | None => None
    | Some rout' => run_from p lvl (S n) rout' r
    end
  end.

Definition run (p : prefs) (lvl : nat) (items : list item) : option (list chunk) := run_from p lvl 0 [] items.

(* the Python list self.out *)
Definition out_list (rout : list chunk) : list str := map snd (rev rout).

(* 310-316 *)
Definition value (rout : list chunk) (delim : str) (end_ : option str) (keepS : bool) : str :=
  let r1 := if keepS then rout else remove_last_if_S None rout in
  let r2 := match end_ with Some e => if is_nil e then r1 else (None, e) :: r1 | None => r1 end in
  join delim (out_list r2).

Definition out_text (p : prefs) (lvl : nat) (items : list item) : option str :=
  match run p lvl items with Some r => Some (value r [] None false) | None => None end.

(* plain items as the serialisers build them *)
Definition plain (t : str) : item := mkItem (VStr t) None true false false false [].
Definition typed (t ty : str) : item := mkItem (VStr t) (Some ty) true false false false t.
Definition indented (t : str) : item := mkItem (VStr t) None true false true false [].
Definition comment_item (t : str) : item :=
  mkItem (VObj true (Some t) None) (Some lit_ty_COMMENT) true false false false [].

(* ------------------------------------------------------------------ skeletons of the per-rule serialisers *)
Record prop := mkProp {
  p_litname : str; p_name : str;            (* literalname, name (normalised) *)
  p_value : str;                            (* value.cssText under the same preferences: opaque *)
  p_hasprio : bool; p_litprio : str; p_prio : str;   (* priorityseq = ['!', literalpriority] when set *)
  p_nameseq_ok : bool;                      (* property.seqs[0] is non-empty *)
  p_wf : bool; p_valid : bool;              (* wellformed, valid *)
  p_effective : bool                        (* member of style.getProperties() *)
}.

Inductive ditem :=
  | DComment (t : str)                      (* CSSComment.cssText *)
  | DProp (q : prop)
  | DUnknown (t : str)                      (* nested CSSUnknownRule.cssText under the same preferences *)
  | DOther (t : str).                       (* anything else: appended as is *)

Inductive rule :=
  | RComment (t : str)                                              (* rule._cssText *)
  | RStyle (sel : str) (wf : bool) (ds : list ditem)               (* do_css_SelectorList text, wellformed *)
  | RMedia (kw : option str) (mq : str) (mqwf : bool) (rs : list rule)   (* rule._keyword, media text *)
  | RFontFace (kw : option str) (wf : bool) (ds : list ditem)
  | RNamespace (text : str) (prefixed : bool) (uri_used : bool) (none_used : bool)
      (* its cssText; bool(rule.prefix); namespaceURI in useduris; None in useduris *)
  | RUnknown (kw : str) (wf : bool) (formatted raw : str)          (* Out-formatted body / concatenated tokens *)
  | ROther (text : str).                                            (* @charset/@import/@page/@variables: opaque *)

Definition atkeyword_default (r : rule) : str :=
  match r with RMedia _ _ _ _ => s "@media" | RFontFace _ _ _ => s "@font-face" | _ => [] end.

(* 340-348 (after the fix: a rule without a literal keyword uses the default form) *)
Definition atkeyword (p : prefs) (lit : option str) (dflt : str) : str :=
  if p.(defaultAtKeyword) then dflt
  else match lit with Some k => if is_nil k then dflt else k | None => dflt end.

(* 362-371 *)
Definition propertyname (p : prefs) (q : prop) : str :=
  if p.(defaultPropertyName) && negb p.(keepAllProperties) then q.(p_name) else q.(p_litname).

(* _valid *)
Definition valid_ok (p : prefs) (q : prop) : bool := negb p.(validOnly) || (p.(validOnly) && q.(p_valid)).

(* do_Property 966-1010 (nameseq = [literalname], no comments in name/priority; not a media-query feature) *)
Definition do_property (p : prefs) (q : prop) : str :=
  if q.(p_nameseq_ok) && q.(p_wf) && valid_ok p q then
    propertyname p q ++ s ":" ++ p.(propertyNameSpacer) ++ q.(p_value) ++
    (if q.(p_hasprio) then s " " ++ s "!" ++ (if p.(defaultPropertyPriority) then q.(p_prio) else q.(p_litprio))
     else [])
  else [].

(* do_css_CSSStyleDeclaration 906-964; the list of appended strings, then the last-separator removal *)
Fixpoint lstrip (t : str) : str :=
  match t with c :: r => if py_ws c then lstrip r else t | [] => [] end.
Definition lstrip_lines (p : prefs) (t : str) : str :=        (* 936-940 *)
  if is_nil p.(lineSeparator) then t
  else join p.(lineSeparator) (map lstrip (split p.(lineSeparator) t)).

Fixpoint decl_out (p : prefs) (omit : bool) (seq : list ditem) : list str :=
  match seq with
  | [] => []
  | it :: r =>
    (match it with
     | DComment t => if p.(keepComments) then [lstrip_lines p t; p.(lineSeparator)] else []       (* 933-941 *)
     | DProp q =>
       let t := do_property p q in
       if is_nil t then []
       else [t] ++ (if omit && p.(omitLastSemicolon) && is_nil r then [] else [s ";"]) ++ [p.(lineSeparator)]  (* 944-948 *)
     | DUnknown t => [t; p.(lineSeparator)]                                                       (* 951 *)
     | DOther t => [t; p.(lineSeparator)]                                                         (* 955 *)
     end) ++ decl_out p omit r
  end.

Definition ditem_is_prop (d : ditem) : bool := match d with DProp _ => true | _ => false end.
Definition ditem_effective (d : ditem) : bool := match d with DProp q => q.(p_effective) | _ => true end.

Definition do_styledecl (p : prefs) (omit : bool) (seq : list ditem) : str :=
  match seq with
  | [] => []                                                                                      (* 913 *)
  | _ =>
    let seq' := if p.(keepAllProperties) then seq else filter ditem_effective seq in              (* 917-926 *)
    let out := decl_out p omit seq' in
    let out' := match rev out with
                | x :: r => if eqs x p.(lineSeparator) then rev r else out                        (* 958 *)
                | [] => out
                end in
    concat out'
  end.

Section Rules.
Variable p : prefs.

(* do_CSSStyleRule 760-817 with indentSpecificities off (_selectorlevel = 0) *)
Definition do_stylerule (lvl : nat) (sel : str) (wf : bool) (ds : list ditem) : str :=
  if is_nil sel || negb wf then []                                                                (* 795 *)
  else
    let styleText := do_styledecl p true ds in
    if is_nil styleText then
      if p.(keepEmptyRules) then sel ++ p.(paranthesisSpacer) ++ s "{}" else []                   (* 803-806 *)
    else
      indentblock p
        (sel ++ p.(paranthesisSpacer) ++ s "{" ++ p.(lineSeparator) ++
         indentblock p styleText (S lvl) ++ p.(lineSeparator) ++
         repeat_str (lvl + (if p.(indentClosingBrace) then 1 else 0)) p.(indent) ++ s "}") 0.     (* 808-817 *)

(* do_CSSFontFaceRule 470-493: the one skeleton that goes through Out *)
Definition do_fontface (lvl : nat) (kw : option str) (wf : bool) (ds : list ditem) : option str :=
  let styleText := do_styledecl p true ds in
  if negb (is_nil styleText) && wf then
    out_text p lvl [plain (atkeyword p kw (s "@font-face")); plain (s "{"); indented styleText;
                    plain p.(lineSeparator); plain (s "}")]
  else Some [].

(* do_CSSUnknownRule 713-758: formatting is opaque, the preferences decide what is returned *)
Definition do_unknown (kw : str) (wf : bool) (formatted raw : str) : str :=
  if wf && p.(keepUnknownAtRules) then
    if negb p.(formatUnknownAtRules) then kw ++ raw else formatted
  else [].

Fixpoint do_rule (lvl : nat) (r : rule) : option str :=
  match r with
  | RComment t => Some (if negb (is_nil t) && p.(keepComments) then t else [])                    (* 421-428 *)
  | RStyle sel wf ds => Some (do_stylerule lvl sel wf ds)
  | RFontFace kw wf ds => do_fontface lvl kw wf ds
  | RNamespace t _ _ _ => Some t
  | RUnknown kw wf f raw => Some (do_unknown kw wf f raw)
  | ROther t => Some t
  | RMedia kw mq mqwf rs =>                                                                       (* 561-613 *)
    if negb mqwf then Some []
    else
      let fix go (rs : list rule) : option (list str) :=
        match rs with
        | [] => Some []
        | r :: rest =>
          match do_rule lvl r, go rest with
          | Some t, Some l =>
            Some (if is_nil t then l else indentblock p t (S lvl) :: p.(lineSeparator) :: l)      (* 599-604 *)
          | _, _ => None
          end
        end in
      match go rs with
      | None => None
      | Some rulesout =>
        if negb p.(keepEmptyRules) && blank None (concat rulesout) then Some []                   (* 605 *)
        else Some (atkeyword p kw (s "@media") ++
                   (if is_nil p.(spacer) then s " " else p.(spacer)) ++ mq ++                     (* 575-581 *)
                   p.(paranthesisSpacer) ++ s "{" ++ p.(lineSeparator) ++ concat rulesout ++
                   repeat_str (lvl + (if p.(indentClosingBrace) then 1 else 0)) p.(indent) ++ s "}")
      end
  end.

(* do_CSSStyleSheet 396-410 (before line numbers and encoding): the rules that contribute text *)
Definition ns_dropped (r : rule) : bool :=                                                        (* 401-404 *)
  match r with
  | RNamespace _ prefixed uri_used none_used =>
    p.(keepUsedNamespaceRulesOnly) && negb uri_used && (prefixed || negb none_used)
  | _ => false
  end.

Fixpoint sheet_out (rs : list rule) : option (list (rule * str)) :=
  match rs with
  | [] => Some []
  | r :: rest =>
    if ns_dropped r then sheet_out rest
    else match do_rule 0 r, sheet_out rest with
         | Some t, Some l => Some (if is_nil t then l else (r, t ++ p.(linesAfterRules)) :: l)    (* 407-409 *)
         | _, _ => None
         end
  end.

Definition do_sheet (rs : list rule) : option str :=
  match sheet_out rs with
  | Some l => Some (join p.(lineSeparator) (map snd l))                                          (* 410 *)
  | None => None
  end.
End Rules.
