(* StyleDeclAliasFacts.v -- when the value-passing block model is exact, and what sharing does (C11) *)
From CssV Require Import Base StyleDecl StyleDeclAlias.

Lemma NoDup_app_disjoint {A} (l1 l2 : list A) x : NoDup (l1 ++ l2) -> In x l1 -> In x l2 -> False.
Proof.
  induction l1 as [|y r IH]; simpl; intros Hn H1 H2; [tauto|].
  inversion Hn as [|? ? Hy Hr]; subst. destruct H1 as [->|H1].
  - apply Hy. apply in_or_app. auto.
  - apply IH; auto.
Qed.

Lemma NoDup_insert {A} (l1 l2 : list A) x : NoDup (l1 ++ l2) -> ~ In x (l1 ++ l2) -> NoDup (l1 ++ x :: l2).
Proof.
  induction l1 as [|y r IH]; simpl; intros Hn Hx.
  - constructor; auto.
  - inversion Hn as [|? ? Hy Hr]; subst. constructor.
    + rewrite in_app_iff in *. simpl. intros [H|[H|H]]; [tauto|subst; tauto|tauto].
    + apply IH; auto.
Qed.

Lemma upd_same h o p : upd h o p o = Some p.
Proof. unfold upd. now rewrite N.eqb_refl. Qed.
Lemma upd_other h o p x : x <> o -> upd h o p x = h x.
Proof. intros H. unfold upd. destruct (N.eqb_spec x o); congruence. Qed.

Lemma in_refs o b : In o (refs b) <-> In (AProp o) b.
Proof.
  unfold refs. rewrite in_flat_map. split.
  - intros (a & Ha & Ho). destruct a; simpl in Ho; [|tauto]. destruct Ho as [<-|[]]. exact Ha.
  - intros H. exists (AProp o). simpl. auto.
Qed.

(* a write through object o is invisible in every block that does not reference o *)
Theorem write_invisible_elsewhere h o p b : ~ In o (refs b) -> view (upd h o p) b = view h b.
Proof.
  intros H. unfold view. apply map_ext_in. intros a Ha. destruct a as [x|it]; simpl; auto.
  rewrite upd_other; auto. intros ->. apply H. now apply in_refs.
Qed.

(* ... and visible through EVERY reference to o: in the other block, or at the other position of the same block *)
Theorem write_visible_through_every_reference h o p b j :
  nth_error b j = Some (AProp o) -> nth_error (view (upd h o p) b) j = Some (Some (IProp p)).
Proof.
  intros H. unfold view. rewrite nth_error_map, H. simpl. now rewrite upd_same.
Qed.

(* in a block that references o exactly once the write is the in-place overwrite of the value model *)
Theorem write_is_replace_at h o p v im b i :
  NoDup (refs b) -> nth_error b i = Some (AProp o) -> h o = Some p ->
  forall j, nth_error (view (overwrite h o v im) b) j =
            if Nat.eqb j i then Some (Some (IProp (set_vp p v im))) else nth_error (view h b) j.
Proof.
  intros Hn Hi Ho j. unfold overwrite. rewrite Ho.
  destruct (Nat.eqb_spec j i) as [->|Hji].
  - now apply write_visible_through_every_reference.
  - unfold view. rewrite !nth_error_map. destruct (nth_error b j) as [a|] eqn:Hj; [|reflexivity].
    simpl. destruct a as [x|it]; simpl; auto. rewrite upd_other; auto. intros ->.
    (* the same reference at two positions contradicts NoDup *)
    clear - Hn Hi Hj Hji. revert i j Hi Hj Hji. induction b as [|a b IH]; intros i j Hi Hj Hji.
    + destruct i; discriminate.
    + destruct i as [|i], j as [|j]; simpl in *; try congruence.
      * inversion Hi; subst. simpl in Hn. inversion Hn as [|? ? Hx _]; subst. apply Hx.
        apply in_refs. eapply nth_error_In; eauto.
      * inversion Hj; subst. simpl in Hn. inversion Hn as [|? ? Hx _]; subst. apply Hx.
        apply in_refs. eapply nth_error_In; eauto.
      * apply (IH ltac:(destruct a; simpl in Hn; [inversion Hn; auto|auto]) i j); auto.
Qed.

(* Separated worlds: a write through one block changes that block as the value model says and no other block *)
Theorem separated_write_local h o v im b bs :
  Separated (b :: bs) -> In o (refs b) -> Forall (fun b' => view (overwrite h o v im) b' = view h b') bs.
Proof.
  unfold Separated. simpl. intros Hn Ho. apply Forall_forall. intros b' Hb'.
  unfold overwrite. destruct (h o); [|reflexivity]. apply write_invisible_elsewhere.
  intros Ho'. apply (NoDup_app_disjoint _ _ o Hn Ho). apply in_flat_map. eauto.
Qed.

(* appending a FRESH object (what setProperty(name, value) does: it builds a new Property) keeps worlds separated;
   appending an object that is already referenced somewhere does not *)
Theorem append_fresh_separated o b bs :
  Separated (b :: bs) -> ~ In o (flat_map refs (b :: bs)) -> Separated (append_ref b o :: bs).
Proof.
  unfold Separated, append_ref. simpl. intros Hn Hf.
  assert (E : refs (b ++ [AProp o]) = refs b ++ [o]) by (unfold refs; rewrite flat_map_app; reflexivity).
  rewrite E, <- app_assoc. simpl.
  apply NoDup_insert; auto.
Qed.
