(* StyleDeclAlias.v -- Property OBJECTS shared between declaration blocks (property C11, exclusion made precise).

   StyleDecl.v passes blocks as values.  The code stores references: setProperty(<Property p>) appends the object p
   itself when nothing is replaced (cssstyledeclaration.py: `newp.parent = self; self.seq.append(newp, 'Property')`),
   and the replace path mutates the stored object in place (`property.propertyValue = ...; property.priority = ...`).
   So one object may sit in two blocks (or twice in one).  Here: a heap of Property objects and blocks of
   references; `view` dereferences.  StyleDeclAliasFacts shows that the value-passing model is exact whenever no
   object is referenced twice (Separated), that every operation with by-name arguments keeps it so, and what happens
   otherwise (the write is visible through every reference).                                                     *)
From CssV Require Import Base StyleDecl.

Definition heap := N -> option prop.
Inductive aitem := AProp (o : N) | AOther (it : item).       (* `it` is a comment / unknown rule *)
Definition ablock := list aitem.

Definition upd (h : heap) (o : N) (p : prop) : heap := fun x => if N.eqb x o then Some p else h x.

Definition deref (h : heap) (a : aitem) : option item :=
  match a with AProp o => option_map IProp (h o) | AOther it => Some it end.
Definition view (h : heap) (b : ablock) : list (option item) := map (deref h) b.

Definition refs (b : ablock) : list N :=
  flat_map (fun a => match a with AProp o => [o] | AOther _ => [] end) b.

(* the two things setProperty does to objects *)
Definition overwrite (h : heap) (o : N) (v : val) (im : bool) : heap :=         (* replace path, l.646-653 *)
  match h o with Some p => upd h o (set_vp p v im) | None => h end.
Definition append_ref (b : ablock) (o : N) : ablock := b ++ [AProp o].           (* append path, l.656-659 *)

(* no object is referenced twice, in this block or in any of the others *)
Definition Separated (bs : list ablock) : Prop := NoDup (flat_map refs bs).
