(* ProdParserValue.v -- the value grammar (css/value.py, tree_PropertyValue and its sub-grammars in Gen/ProdTrees.v)
   run by the production-engine model ProdParser.v on the rendered values of the generator grammar Grammar.v.

   Stage 1 (this file, all Qed):
     - runs / runs_cont / runs_break / runs_end / runs_parse : fuel-free reasoning about `loop` from an ARBITRARY state
       (loop_mono: more fuel never changes a result that is not OutOfFuel);
     - body_comment / body_skipS / body_find : one iteration of the main loop by token class;
     - PVStacks : the production-stack configurations stS0 / stA0 / stA k / stB k of
       Sequence(term, Sequence(Choice(op)?, END?, term) 0..inf) with the transition lemmas for `find` and `final`;
     - partial evaluation of match predicates (mev3 / tm3 / scan3): the token type is known, about the value only a
       list of facts; sound w.r.t. meval / tmatches / cho_scan.  Keeps every big computation on CLOSED terms.
   Stdlib only, no axioms. *)
From CssV Require Import Base Regex Tokenizer ProdParser ProdParserFacts Gen.ProdTrees Grammar GrammarFacts.
Local Open Scope nat_scope.


(* ================================================================== Stage 1: generic step lemmas *)
Section Steps.
  Variable o : opts.
  Variable sub : nat -> bool -> tok -> list tok -> out.
  Variable postof : nat -> option postcode.

  Lemma loop_mono n : forall m st, n <= m -> loop o sub postof n st <> OutOfFuel ->
    loop o sub postof m st = loop o sub postof n st.
  Proof.
    induction n as [|n IH]; intros m st Hle Hne; [cbn in Hne; congruence|].
    destruct m as [|m]; [lia|]. rewrite !loop_unfold in *.
    destruct (pull st) as [[t st1]|]; [|reflexivity].
    destruct (body o sub postof t st1) as [st2|st2|x]; try reflexivity.
    apply IH; [lia|exact Hne].
  Qed.

  Definition runs (st : lstate) (r : result) : Prop := exists n, loop o sub postof n st = Ret r.

  Lemma runs_cont st t st1 st2 r :
    pull st = Some (t, st1) -> body o sub postof t st1 = LCont st2 -> runs st2 r -> runs st r.
  Proof. intros Hp Hb [n Hn]. exists (S n). rewrite loop_unfold, Hp, Hb. exact Hn. Qed.
  Lemma runs_break st t st1 st2 r :
    pull st = Some (t, st1) -> body o sub postof t st1 = LBreak st2 -> finish o st2 = Ret r -> runs st r.
  Proof. intros Hp Hb Hf. exists 1. rewrite loop_unfold, Hp, Hb. exact Hf. Qed.
  Lemma runs_end st r : pull st = None -> finish o st = Ret r -> runs st r.
  Proof. intros Hp Hf. exists 1. rewrite loop_unfold, Hp. exact Hf. Qed.

  Lemma runs_loop n st r : runs st r -> loop o sub postof n st <> OutOfFuel -> loop o sub postof n st = Ret r.
  Proof.
    intros [k Hk] Hne. destruct (le_lt_dec k n) as [Hle|Hlt].
    - rewrite (loop_mono k n st Hle); [exact Hk|congruence].
    - rewrite <- Hk. symmetry. apply loop_mono; [lia|exact Hne].
  Qed.

  Lemma runs_parse tr anc first toks st0 r :
    sub_ok sub -> init_state tr anc first toks stash0 = Some st0 -> runs st0 r ->
    parse_tree sub postof true o tr anc first toks stash0 = Ret r.
  Proof.
    intros Hsub Hi Hr. unfold parse_tree. rewrite Hi. apply runs_loop; [exact Hr|].
    destruct (init_full _ _ _ _ _ _ Hi) as [Hf [Hs _]].
    apply (loop_ok o sub postof Hsub); [rewrite Hs; cbn; lia|].
    unfold meas, loop_fuel. rewrite Hf, Hs, app_length. cbn. destruct first; cbn; lia.
  Qed.

  (* ---- one iteration of the body, by token class *)
  Lemma body_comment t st : o_checkS o = false -> isC t = true ->
    body o sub postof t st = LCont (add_item st (IStr (s "CSSComment") (val t))).
  Proof. unfold body, isC. intros -> ->. reflexivity. Qed.

  Lemma body_skipS t st : o_checkS o = false -> o_keepS o = false -> isS t = true -> l_defaultS st = true ->
    body o sub postof t st = LCont st.
  Proof.
    unfold body, isS. intros -> -> Hs Hd. rewrite Hs.
    assert (eqs (ty t) (s "COMMENT") = false) as ->.
    { apply eqs_spec in Hs. rewrite Hs. reflexivity. }
    cbn [andb negb]. rewrite Hd. reflexivity.
  Qed.

  Definition plain_ty (x : str) : Prop :=
    eqs x (s "COMMENT") = false /\ eqs x (s "INVALID") = false /\ eqs x (s "EOF") = false.

  Lemma body_find t st : o_checkS o = false -> plain_ty (ty t) -> l_defaultS st && isS t = false ->
    body o sub postof t st =
    match find (find_fuel (l_stack st)) (l_stack st) t with
    | FNoMatch stack =>
        let st' := set_stack (set_started st) stack false in
        if l_stopnm st' then LBreak (set_stopall (set_stash st' (push_saved t (l_stash st')))) else LBreak (set_wf st' false)
    | FParseErr stack =>
        let st' := set_stack (set_started st) stack (l_strict (set_started st)) in
        if l_stopnm st' then LBreak (set_stopall (set_stash st' (push_pushed t (l_stash st')))) else LBreak (set_wf st' false)
    | FFound p stack =>
        process sub postof p t (set_found (set_started st) stack (negb (p_mayend p)) (p_stopnm p || l_stopnm (set_started st)))
    | FSpin => LOut Spin
    | FCrash => LOut Crash
    end.
  Proof.
    unfold body, isS. intros -> [H1 [H2 H3]] H4. rewrite H1, H2, H3. cbn [andb negb]. rewrite andb_true_r, H4. reflexivity.
  Qed.
End Steps.


Lemma tmatches_none : forall t, tmatches t None = false.
Proof.
  fix F 1. intros t. destruct t as [p|ps lo hi|ps o].
  - reflexivity.
  - rewrite tmatches_seq_scan. induction ps as [|c r IH]; [reflexivity|]. cbn [seq_scan]. rewrite (F c).
    destruct (topt c); [exact IH|reflexivity].
  - rewrite tmatches_cho. induction ps as [|c r IH]; [reflexivity|]. cbn [existsb]. rewrite (F c). exact IH.
Qed.

Lemma cho_scan_found ps tk a c b : cho_scan ps tk a = (Some c, b) -> tmatches (PCho ps None) tk = true /\ forall o, tmatches (PCho ps o) tk = true.
Proof.
  intros H. assert (G : existsb (fun c => tmatches c tk) ps = true).
  { revert a H. induction ps as [|x r IH]; intros a H; [discriminate|]. cbn [cho_scan] in H. cbn [existsb].
    destruct (tmatches x tk); [reflexivity|]. cbn. eapply IH. exact H. }
  split; [|intros o]; rewrite tmatches_cho; exact G.
Qed.

Lemma find_nprod fu fr rest tk p fr' : next (Some tk) fr = (NProd p, fr') -> find (S fu) (fr :: rest) tk = FFound p (fr' :: rest).
Proof. intros H. cbn [find]. rewrite H. reflexivity. Qed.
Lemma find_nest fu fr rest tk c fr' nf : next (Some tk) fr = (NNest c, fr') -> enter c = Some nf ->
  find (S fu) (fr :: rest) tk = find fu (nf :: fr' :: rest) tk.
Proof. intros H He. cbn [find]. rewrite H, He. reflexivity. Qed.
Lemma find_pop fu ps o r0 rest tk : find (S fu) (FCho ps o true :: r0 :: rest) tk = find fu (r0 :: rest) tk.
Proof. reflexivity. Qed.

(* ------------------------------------------------------------------ the production stacks of  Seq(term, Seq(Cho(op)?, END?, term) 0..inf)  *)
Section PVStacks.
  Variables (ts ops : list ptree) (pe : prod).
  Definition ChoT := PCho ts None.
  Definition ChoOp := PCho ops (Some true).
  Definition Seq2L := [ChoOp; PProd pe; ChoT].
  Definition Seq2 := PSeq Seq2L 0 None.
  Definition TopL := [ChoT; Seq2].
  Definition Top := PSeq TopL 1 (Some 1).
  Hypothesis Hpe : p_opt pe = true.
  Hypothesis Hot : topt ChoT = false.

  Definition fT := FCho ts false true.
  Definition topK := FSeq TopL 1 (Some 1) 0 1 true.
  Definition stS0 := [FSeq TopL 1 (Some 1) 0 0 false].
  Definition stA0 := [fT; FSeq TopL 1 (Some 1) 1 0 true].
  Definition stA (k : nat) := [fT; FSeq Seq2L 0 None 0 k true; topK].
  Definition stB (k : nat) := [FCho ops true true; FSeq Seq2L 0 None 1 k true; topK].

  Lemma enter_ChoT : enter ChoT = Some (FCho ts false false).
  Proof. unfold enter. fold ChoT. change (PCho ts None) with ChoT. rewrite Hot. reflexivity. Qed.
  Lemma enter_ChoOp : enter ChoOp = Some (FCho ops true false). Proof. reflexivity. Qed.
  Lemma enter_Seq2 : enter Seq2 = Some (FSeq Seq2L 0 None 0 0 false). Proof. reflexivity. Qed.
  Lemma topt_Seq2 : topt Seq2 = true. Proof. reflexivity. Qed.
  Lemma topt_ChoOp : topt ChoOp = true. Proof. reflexivity. Qed.

  Section Tok.
    Variable t : tok.
    (* a term token: no operator, not END, the term Choice selects production p *)
    Section Term.
      Variables (p : prod) (a : bool).
      Hypothesis Hop : tmatches ChoOp (Some t) = false.
      Hypothesis He : tok_matches pe (Some t) = false.
      Hypothesis Ht : cho_scan ts (Some t) false = (Some (PProd p), a).
      Lemma HT : tmatches ChoT (Some t) = true. Proof. exact (proj1 (cho_scan_found _ _ _ _ _ Ht)). Qed.
      Lemma HS2 : tmatches Seq2 (Some t) = true.
      Proof. unfold Seq2. rewrite tmatches_seq_scan. unfold Seq2L. cbn [seq_scan tmatches topt]. rewrite Hop, topt_ChoOp, He, Hpe, HT. reflexivity. Qed.

      Lemma next_fresh_T : next (Some t) (FCho ts false false) = (NProd p, fT).
      Proof. cbn [next]. rewrite Ht. reflexivity. Qed.

      Lemma top0_term : next (Some t) (FSeq TopL 1 (Some 1) 0 0 false) = (NNest ChoT, FSeq TopL 1 (Some 1) 1 0 true).
      Proof. unfold TopL. cbn [next seq_loop length nth_error below Nat.ltb Nat.leb Nat.eqb]. rewrite HT. reflexivity. Qed.
      Lemma top1_term : next (Some t) (FSeq TopL 1 (Some 1) 1 0 true) = (NNest Seq2, topK).
      Proof. unfold TopL. cbn [next seq_loop length nth_error below Nat.ltb Nat.leb Nat.eqb]. rewrite HS2. reflexivity. Qed.
      Lemma find_S0_term f : find (S (S f)) stS0 t = FFound p stA0.
      Proof.
        unfold stS0, stA0. rewrite (find_nest _ _ _ _ _ _ _ top0_term enter_ChoT).
        exact (find_nprod _ _ _ _ _ _ next_fresh_T).
      Qed.
      Lemma seq2_term_from0 k st0 :
        next (Some t) (FSeq Seq2L 0 None 0 k st0) = (NNest ChoT, FSeq Seq2L 0 None 0 (S k) true).
      Proof.
        unfold Seq2L. cbn [next seq_loop length nth_error below Nat.eqb tmatches topt]. rewrite Hop, topt_ChoOp, He, Hpe, HT. reflexivity.
      Qed.
      Lemma seq2_term_from1 k st0 :
        next (Some t) (FSeq Seq2L 0 None 1 k st0) = (NNest ChoT, FSeq Seq2L 0 None 0 (S k) true).
      Proof.
        unfold Seq2L. cbn [next seq_loop length nth_error below Nat.eqb tmatches topt]. rewrite He, Hpe, HT. reflexivity.
      Qed.

      Lemma find_A0_term f : find (S (S (S (S f)))) stA0 t = FFound p (stA 1).
      Proof.
        unfold stA0, stA, fT. rewrite find_pop. rewrite (find_nest _ _ _ _ _ _ _ top1_term enter_Seq2).
        rewrite (find_nest _ _ _ _ _ _ _ (seq2_term_from0 0 false) enter_ChoT).
        exact (find_nprod _ _ _ _ _ _ next_fresh_T).
      Qed.
      Lemma find_A_term k f : find (S (S (S f))) (stA k) t = FFound p (stA (S k)).
      Proof.
        unfold stA, fT. rewrite find_pop. rewrite (find_nest _ _ _ _ _ _ _ (seq2_term_from0 k true) enter_ChoT).
        exact (find_nprod _ _ _ _ _ _ next_fresh_T).
      Qed.
      Lemma find_B_term k f : find (S (S (S f))) (stB k) t = FFound p (stA (S k)).
      Proof.
        unfold stB, stA, fT. rewrite find_pop. rewrite (find_nest _ _ _ _ _ _ _ (seq2_term_from1 k true) enter_ChoT).
        exact (find_nprod _ _ _ _ _ _ next_fresh_T).
      Qed.
    End Term.

    Section Op.
      Variables (p : prod) (a : bool).
      Hypothesis Ho : cho_scan ops (Some t) false = (Some (PProd p), a).
      Lemma HO : tmatches ChoOp (Some t) = true. Proof. exact (proj2 (cho_scan_found _ _ _ _ _ Ho) _). Qed.
      Lemma HS2o : tmatches Seq2 (Some t) = true.
      Proof. unfold Seq2. rewrite tmatches_seq_scan. unfold Seq2L. cbn [seq_scan]. rewrite HO. reflexivity. Qed.
      Lemma next_fresh_O : next (Some t) (FCho ops true false) = (NProd p, FCho ops true true).
      Proof. cbn [next]. rewrite Ho. reflexivity. Qed.
      Lemma seq2_op_from0 k st0 :
        next (Some t) (FSeq Seq2L 0 None 0 k st0) = (NNest ChoOp, FSeq Seq2L 0 None 1 k true).
      Proof. unfold Seq2L. cbn [next seq_loop length nth_error below Nat.eqb]. rewrite HO. reflexivity. Qed.
      Lemma top1_op : next (Some t) (FSeq TopL 1 (Some 1) 1 0 true) = (NNest Seq2, topK).
      Proof. unfold TopL. cbn [next seq_loop length nth_error below Nat.ltb Nat.leb Nat.eqb]. rewrite HS2o. reflexivity. Qed.
      Lemma find_A0_op f : find (S (S (S (S f)))) stA0 t = FFound p (stB 0).
      Proof.
        unfold stA0, stB, fT. rewrite find_pop. rewrite (find_nest _ _ _ _ _ _ _ top1_op enter_Seq2).
        rewrite (find_nest _ _ _ _ _ _ _ (seq2_op_from0 0 false) enter_ChoOp).
        exact (find_nprod _ _ _ _ _ _ next_fresh_O).
      Qed.
      Lemma find_A_op k f : find (S (S (S f))) (stA k) t = FFound p (stB k).
      Proof.
        unfold stA, stB, fT. rewrite find_pop. rewrite (find_nest _ _ _ _ _ _ _ (seq2_op_from0 k true) enter_ChoOp).
        exact (find_nprod _ _ _ _ _ _ next_fresh_O).
      Qed.
    End Op.
  End Tok.

  (* ---- the closing loop at the end of the input *)
  Lemma final_A0 strict wf : final stA0 strict wf = FinOk wf.
  Proof.
    unfold stA0, fT, TopL. cbn [final next tend fst seq_loop length nth_error below Nat.ltb Nat.leb Nat.eqb].
    rewrite tmatches_none, topt_Seq2. cbn [tend fst]. reflexivity.
  Qed.
  Lemma final_topK strict wf : final [topK] strict wf = FinOk wf.
  Proof. unfold topK, TopL. cbn [final next below Nat.ltb Nat.leb tend fst]. reflexivity. Qed.
  Lemma final_A k strict wf : final (stA k) strict wf = FinOk wf.
  Proof.
    unfold stA, fT. cbn [final next tend fst]. unfold Seq2L.
    cbn [seq_loop length nth_error below Nat.eqb tmatches tok_matches topt]. rewrite !tmatches_none, topt_ChoOp, Hpe, Hot.
    cbn [Nat.ltb Nat.leb orb fst]. reflexivity.
  Qed.
  Lemma final_B k wf : final (stB k) false wf = FinOk wf.
  Proof.
    unfold stB. cbn [final next tend fst]. unfold Seq2L.
    cbn [seq_loop length nth_error below Nat.eqb tmatches tok_matches topt]. rewrite !tmatches_none, Hpe, Hot.
    cbn [Nat.ltb Nat.leb orb fst]. reflexivity.
  Qed.
End PVStacks.


(* ------------------------------------------------------------------ partial evaluation of match predicates:
   the type of the token is known, about its value only a list of facts (atom, truth value) *)
Fixpoint ls_eqb (a b : list str) : bool :=
  match a, b with [], [] => true | x :: a', y :: b' => eqs x y && ls_eqb a' b' | _, _ => false end.
Lemma ls_eqb_spec a : forall b, ls_eqb a b = true -> a = b.
Proof.
  induction a as [|x a IH]; intros [|y b] H; cbn in H; try discriminate; [reflexivity|].
  apply andb_true_iff in H as [H1 H2]. apply eqs_spec in H1. rewrite H1, (IH b H2). reflexivity.
Qed.
Definition atom_eqb (a b : mcode) : bool :=
  match a, b with
  | MHexRe, MHexRe => true
  | MVal x, MVal y | MValNe x, MValNe y | MValSubstr x, MValSubstr y | MValStarts x, MValStarts y | MNorm x, MNorm y => eqs x y
  | MValIn x, MValIn y | MNormIn x, MNormIn y => ls_eqb x y
  | _, _ => false
  end.
Lemma atom_eqb_spec a b : atom_eqb a b = true -> a = b.
Proof.
  destruct a, b; cbn; intros H; try discriminate; try reflexivity;
    try (apply eqs_spec in H; rewrite H; reflexivity); apply ls_eqb_spec in H; rewrite H; reflexivity.
Qed.
Definition facts := list (mcode * bool).
Fixpoint orc (fs : facts) (m : mcode) : option bool :=
  match fs with [] => None | (a, b) :: r => if atom_eqb a m then Some b else orc r m end.
Definition facts_ok (fs : facts) (t v : str) : Prop := Forall (fun ab => meval (fst ab) t v = snd ab) fs.
Lemma orc_ok fs t v m b : facts_ok fs t v -> orc fs m = Some b -> meval m t v = b.
Proof.
  intros Hf. induction Hf as [|[a c] r H1 Hr IH]; cbn [orc]; [discriminate|].
  destruct (atom_eqb a m) eqn:E; [|exact IH]. apply atom_eqb_spec in E. subst m. intros H; inversion H; subst. exact H1.
Qed.

Definition and3 (a b : option bool) : option bool :=
  match a, b with Some false, _ | _, Some false => Some false | Some true, Some true => Some true | _, _ => None end.
Definition or3 (a b : option bool) : option bool :=
  match a, b with Some true, _ | _, Some true => Some true | Some false, Some false => Some false | _, _ => None end.
Fixpoint mev3 (fs : facts) (t : str) (m : mcode) : option bool :=
  match m with
  | MTrue => Some true | MFalse => Some false
  | MTy x => Some (eqs t x)
  | MTyIn l => Some (mem_s t l)
  | MAnd a b => and3 (mev3 fs t a) (mev3 fs t b)
  | MOr a b => or3 (mev3 fs t a) (mev3 fs t b)
  | _ => orc fs m
  end.
Lemma mev3_ok fs t v : facts_ok fs t v -> forall m b, mev3 fs t m = Some b -> meval m t v = b.
Proof.
  intros Hf. induction m as [| | | | | | | | | | | |a IHa c IHc|a IHa c IHc]; intros b H; cbn [mev3] in H;
    try (inversion H; reflexivity); try (exact (orc_ok _ _ _ _ _ Hf H)).
  - cbn [meval]. destruct (mev3 fs t a) as [[|]|], (mev3 fs t c) as [[|]|]; cbn in H; inversion H; subst;
      try rewrite (IHa _ eq_refl); try rewrite (IHc _ eq_refl); try reflexivity; apply andb_false_r.
  - cbn [meval]. destruct (mev3 fs t a) as [[|]|], (mev3 fs t c) as [[|]|]; cbn in H; inversion H; subst;
      try rewrite (IHa _ eq_refl); try rewrite (IHc _ eq_refl); try reflexivity; apply orb_true_r.
Qed.

Fixpoint tm3 (fs : facts) (t : str) (tr : ptree) : option bool :=
  match tr with
  | PProd p => mev3 fs t (p_match p)
  | PSeq ps _ _ =>
      (fix go (l : list ptree) : option bool :=
         match l with
         | [] => Some false
         | c :: r => match tm3 fs t c with
                     | Some true => Some true
                     | Some false => if topt c then go r else Some false
                     | None => None
                     end
         end) ps
  | PCho ps _ =>
      (fix go (l : list ptree) : option bool :=
         match l with
         | [] => Some false
         | c :: r => match tm3 fs t c with Some true => Some true | Some false => go r | None => None end
         end) ps
  end.
Lemma tm3_ok fs tk : facts_ok fs (ty tk) (val tk) -> forall tr b, tm3 fs (ty tk) tr = Some b -> tmatches tr (Some tk) = b.
Proof.
  intros Hf. fix F 1. intros tr. destruct tr as [p|ps lo hi|ps o]; intros b H.
  - cbn [tm3] in H. cbn [tmatches tok_matches]. exact (mev3_ok _ _ _ Hf _ _ H).
  - rewrite tmatches_seq_scan. cbn [tm3] in H. revert b H. induction ps as [|c r IH]; intros b H; [inversion H; reflexivity|].
    cbn [seq_scan]. destruct (tm3 fs (ty tk) c) as [[|]|] eqn:E; [| |discriminate].
    + rewrite (F c _ E). inversion H; reflexivity.
    + rewrite (F c _ E). destruct (topt c); [exact (IH _ H)|inversion H; reflexivity].
  - rewrite tmatches_cho. cbn [tm3] in H. revert b H. induction ps as [|c r IH]; intros b H; [inversion H; reflexivity|].
    cbn [existsb]. destruct (tm3 fs (ty tk) c) as [[|]|] eqn:E; [| |discriminate].
    + rewrite (F c _ E). inversion H; reflexivity.
    + rewrite (F c _ E). exact (IH _ H).
Qed.

Fixpoint scan3 (fs : facts) (t : str) (ps : list ptree) : option ptree :=
  match ps with
  | [] => None
  | c :: r => match tm3 fs t c with Some true => Some c | Some false => scan3 fs t r | None => None end
  end.
Lemma scan3_ok fs tk : facts_ok fs (ty tk) (val tk) -> forall ps c a, scan3 fs (ty tk) ps = Some c ->
  exists a', cho_scan ps (Some tk) a = (Some c, a').
Proof.
  intros Hf. induction ps as [|x r IH]; intros c a H; [discriminate|]. cbn [scan3] in H. cbn [cho_scan].
  destruct (tm3 fs (ty tk) x) as [[|]|] eqn:E; [| |discriminate]; rewrite (tm3_ok _ _ Hf _ _ E).
  - inversion H; subst. eauto.
  - apply IH. exact H.
Qed.
