(* ProdParserValue.v -- the value grammar (css/value.py, tree_PropertyValue and its sub-grammars in Gen/ProdTrees.v)
   run by the production-engine model ProdParser.v on the rendered values of the generator grammar Grammar.v.

   STATUS: stage 1 of the plan (generic step lemmas, stack configurations, partial evaluation, leaf sub-parsers,
   token classes of tree_PropertyValue) is complete; value_accepts (stage 2+) is NOT proved here.
     - loop_mono, runs / runs_cont / runs_break / runs_end / runs_loop / runs_parse : fuel-free reasoning about `loop`
       from an ARBITRARY state (more fuel never changes a result that is not OutOfFuel);
     - body_comment / body_skipS / body_find : one iteration of the main loop by token class;
     - PVStacks : the production-stack configurations stS0 / stA0 / stA k / stB k of
       Seq(term, Seq(Cho(op)?, END?, term) 0..inf) with the transition lemmas find_S0_term, find_A0_term, find_A_term,
       find_B_term, find_A0_op, find_A_op and the closing loop final_A0 / final_A / final_B;
     - mev3 / tm3 / scan3 (+ _ok): partial evaluation of match predicates -- token type known, about the value only a
       list of facts -- sound w.r.t. meval / tmatches / cho_scan; every big computation stays on CLOSED terms;
     - process_plain_stop / process_plain_cont / process_false / process_sub : "process prod" by production kind;
     - leaf_parse (+ _cho / _seqcho / _seqprod) and leaf4_ident / leaf4_urange / leaf4_string / leaf5_hash /
       leaf5_ident / leaf6_number / leaf6_percentage / leaf6_dimension / leaf7_uri : a leaf sub-parser on
       pushtoken(t, rest) consumes exactly t through a `stop` production, returns a well-formed one-item result and
       leaves rest, anc and the stash untouched;
     - pv_tree (tree_PropertyValue is an instance of PVStacks), pv_p_flags, pv_class_* (which production a token
       selects), ex_value_accepts (closed end-to-end run).
   Stdlib only, no axioms. *)
From CssV Require Import Base Regex Tokenizer ProdParser ProdParserFacts Gen.ProdTrees Grammar GrammarFacts.
Local Open Scope nat_scope.


(* ================================================================== Stage 1: generic step lemmas *)
Section Steps.
  Variable o : opts.
  Variable sub : nat -> bool -> tok -> list tok -> out.
  Variable postof : nat -> option postcode.

  Lemma loop_mono n : forall m st, n <= m -> loop o sub postof n st <> OutOfFuel ->
    loop o sub postof m st = loop o sub postof n st.
  Proof.
    induction n as [|n IH]; intros m st Hle Hne; [cbn in Hne; congruence|].
    destruct m as [|m]; [lia|]. rewrite !loop_unfold in *.
    destruct (pull st) as [[t st1]|]; [|reflexivity].
    destruct (body o sub postof t st1) as [st2|st2|x]; try reflexivity.
    apply IH; [lia|exact Hne].
  Qed.

  Definition runs (st : lstate) (r : result) : Prop := exists n, loop o sub postof n st = Ret r.

  Lemma runs_cont st t st1 st2 r :
    pull st = Some (t, st1) -> body o sub postof t st1 = LCont st2 -> runs st2 r -> runs st r.
  Proof. intros Hp Hb [n Hn]. exists (S n). rewrite loop_unfold, Hp, Hb. exact Hn. Qed.
  Lemma runs_break st t st1 st2 r :
    pull st = Some (t, st1) -> body o sub postof t st1 = LBreak st2 -> finish o st2 = Ret r -> runs st r.
  Proof. intros Hp Hb Hf. exists 1. rewrite loop_unfold, Hp, Hb. exact Hf. Qed.
  Lemma runs_end st r : pull st = None -> finish o st = Ret r -> runs st r.
  Proof. intros Hp Hf. exists 1. rewrite loop_unfold, Hp. exact Hf. Qed.

  Lemma runs_loop n st r : runs st r -> loop o sub postof n st <> OutOfFuel -> loop o sub postof n st = Ret r.
  Proof.
    intros [k Hk] Hne. destruct (le_lt_dec k n) as [Hle|Hlt].
    - rewrite (loop_mono k n st Hle); [exact Hk|congruence].
    - rewrite <- Hk. symmetry. apply loop_mono; [lia|exact Hne].
  Qed.

  Lemma runs_parse tr anc first toks st0 r :
    sub_ok sub -> init_state tr anc first toks stash0 = Some st0 -> runs st0 r ->
    parse_tree sub postof true o tr anc first toks stash0 = Ret r.
  Proof.
    intros Hsub Hi Hr. unfold parse_tree. rewrite Hi. apply runs_loop; [exact Hr|].
    destruct (init_full _ _ _ _ _ _ Hi) as [Hf [Hs _]].
    apply (loop_ok o sub postof Hsub); [rewrite Hs; cbn; lia|].
    unfold meas, loop_fuel. rewrite Hf, Hs, app_length. cbn. destruct first; cbn; lia.
  Qed.

  (* ---- one iteration of the body, by token class *)
  Lemma body_comment t st : o_checkS o = false -> isC t = true ->
    body o sub postof t st = LCont (add_item st (IStr (s "CSSComment") (val t))).
  Proof. unfold body, isC. intros -> ->. reflexivity. Qed.

  Lemma body_skipS t st : o_checkS o = false -> o_keepS o = false -> isS t = true -> l_defaultS st = true ->
    body o sub postof t st = LCont st.
  Proof.
    unfold body, isS. intros -> -> Hs Hd. rewrite Hs.
    assert (eqs (ty t) (s "COMMENT") = false) as ->.
    { apply eqs_spec in Hs. rewrite Hs. reflexivity. }
    cbn [andb negb]. rewrite Hd. reflexivity.
  Qed.

  Definition plain_ty (x : str) : Prop :=
    eqs x (s "COMMENT") = false /\ eqs x (s "INVALID") = false /\ eqs x (s "EOF") = false.

  Lemma body_find t st : o_checkS o = false -> plain_ty (ty t) -> l_defaultS st && isS t = false ->
    body o sub postof t st =
    match find (find_fuel (l_stack st)) (l_stack st) t with
    | FNoMatch stack =>
        let st' := set_stack (set_started st) stack false in
        if l_stopnm st' then LBreak (set_stopall (set_stash st' (push_saved t (l_stash st')))) else LBreak (set_wf st' false)
    | FParseErr stack =>
        let st' := set_stack (set_started st) stack (l_strict (set_started st)) in
        if l_stopnm st' then LBreak (set_stopall (set_stash st' (push_pushed t (l_stash st')))) else LBreak (set_wf st' false)
    | FFound p stack =>
        process sub postof p t (set_found (set_started st) stack (negb (p_mayend p)) (p_stopnm p || l_stopnm (set_started st)))
    | FSpin => LOut Spin
    | FCrash => LOut Crash
    end.
  Proof.
    unfold body, isS. intros -> [H1 [H2 H3]] H4. rewrite H1, H2, H3. cbn [andb negb]. rewrite andb_true_r, H4. reflexivity.
  Qed.
End Steps.


Lemma tmatches_none : forall t, tmatches t None = false.
Proof.
  fix F 1. intros t. destruct t as [p|ps lo hi|ps o].
  - reflexivity.
  - rewrite tmatches_seq_scan. induction ps as [|c r IH]; [reflexivity|]. cbn [seq_scan]. rewrite (F c).
    destruct (topt c); [exact IH|reflexivity].
  - rewrite tmatches_cho. induction ps as [|c r IH]; [reflexivity|]. cbn [existsb]. rewrite (F c). exact IH.
Qed.

Lemma cho_scan_found ps tk a c b : cho_scan ps tk a = (Some c, b) -> tmatches (PCho ps None) tk = true /\ forall o, tmatches (PCho ps o) tk = true.
Proof.
  intros H. assert (G : existsb (fun c => tmatches c tk) ps = true).
  { revert a H. induction ps as [|x r IH]; intros a H; [discriminate|]. cbn [cho_scan] in H. cbn [existsb].
    destruct (tmatches x tk); [reflexivity|]. cbn. eapply IH. exact H. }
  split; [|intros o]; rewrite tmatches_cho; exact G.
Qed.

Lemma find_nprod fu fr rest tk p fr' : next (Some tk) fr = (NProd p, fr') -> find (S fu) (fr :: rest) tk = FFound p (fr' :: rest).
Proof. intros H. cbn [find]. rewrite H. reflexivity. Qed.
Lemma find_nest fu fr rest tk c fr' nf : next (Some tk) fr = (NNest c, fr') -> enter c = Some nf ->
  find (S fu) (fr :: rest) tk = find fu (nf :: fr' :: rest) tk.
Proof. intros H He. cbn [find]. rewrite H, He. reflexivity. Qed.
Lemma find_pop fu ps o r0 rest tk : find (S fu) (FCho ps o true :: r0 :: rest) tk = find fu (r0 :: rest) tk.
Proof. reflexivity. Qed.

(* ------------------------------------------------------------------ the production stacks of  Seq(term, Seq(Cho(op)?, END?, term) 0..inf)  *)
Section PVStacks.
  Variables (ts ops : list ptree) (pe : prod).
  Definition ChoT := PCho ts None.
  Definition ChoOp := PCho ops (Some true).
  Definition Seq2L := [ChoOp; PProd pe; ChoT].
  Definition Seq2 := PSeq Seq2L 0 None.
  Definition TopL := [ChoT; Seq2].
  Definition Top := PSeq TopL 1 (Some 1).
  Hypothesis Hpe : p_opt pe = true.
  Hypothesis Hot : topt ChoT = false.

  Definition fT := FCho ts false true.
  Definition topK := FSeq TopL 1 (Some 1) 0 1 true.
  Definition stS0 := [FSeq TopL 1 (Some 1) 0 0 false].
  Definition stA0 := [fT; FSeq TopL 1 (Some 1) 1 0 true].
  Definition stA (k : nat) := [fT; FSeq Seq2L 0 None 0 k true; topK].
  Definition stB (k : nat) := [FCho ops true true; FSeq Seq2L 0 None 1 k true; topK].

  Lemma enter_ChoT : enter ChoT = Some (FCho ts false false).
  Proof. unfold enter. fold ChoT. change (PCho ts None) with ChoT. rewrite Hot. reflexivity. Qed.
  Lemma enter_ChoOp : enter ChoOp = Some (FCho ops true false). Proof. reflexivity. Qed.
  Lemma enter_Seq2 : enter Seq2 = Some (FSeq Seq2L 0 None 0 0 false). Proof. reflexivity. Qed.
  Lemma topt_Seq2 : topt Seq2 = true. Proof. reflexivity. Qed.
  Lemma topt_ChoOp : topt ChoOp = true. Proof. reflexivity. Qed.

  Section Tok.
    Variable t : tok.
    (* a term token: no operator, not END, the term Choice selects production p *)
    Section Term.
      Variables (p : prod) (a : bool).
      Hypothesis Hop : tmatches ChoOp (Some t) = false.
      Hypothesis He : tok_matches pe (Some t) = false.
      Hypothesis Ht : cho_scan ts (Some t) false = (Some (PProd p), a).
      Lemma HT : tmatches ChoT (Some t) = true. Proof. exact (proj1 (cho_scan_found _ _ _ _ _ Ht)). Qed.
      Lemma HS2 : tmatches Seq2 (Some t) = true.
      Proof. unfold Seq2. rewrite tmatches_seq_scan. unfold Seq2L. cbn [seq_scan tmatches topt]. rewrite Hop, topt_ChoOp, He, Hpe, HT. reflexivity. Qed.

      Lemma next_fresh_T : next (Some t) (FCho ts false false) = (NProd p, fT).
      Proof. cbn [next]. rewrite Ht. reflexivity. Qed.

      Lemma top0_term : next (Some t) (FSeq TopL 1 (Some 1) 0 0 false) = (NNest ChoT, FSeq TopL 1 (Some 1) 1 0 true).
      Proof. unfold TopL. cbn [next seq_loop length nth_error below Nat.ltb Nat.leb Nat.eqb]. rewrite HT. reflexivity. Qed.
      Lemma top1_term : next (Some t) (FSeq TopL 1 (Some 1) 1 0 true) = (NNest Seq2, topK).
      Proof. unfold TopL. cbn [next seq_loop length nth_error below Nat.ltb Nat.leb Nat.eqb]. rewrite HS2. reflexivity. Qed.
      Lemma find_S0_term f : find (S (S f)) stS0 t = FFound p stA0.
      Proof.
        unfold stS0, stA0. rewrite (find_nest _ _ _ _ _ _ _ top0_term enter_ChoT).
        exact (find_nprod _ _ _ _ _ _ next_fresh_T).
      Qed.
      Lemma seq2_term_from0 k st0 :
        next (Some t) (FSeq Seq2L 0 None 0 k st0) = (NNest ChoT, FSeq Seq2L 0 None 0 (S k) true).
      Proof.
        unfold Seq2L. cbn [next seq_loop length nth_error below Nat.eqb tmatches topt]. rewrite Hop, topt_ChoOp, He, Hpe, HT. reflexivity.
      Qed.
      Lemma seq2_term_from1 k st0 :
        next (Some t) (FSeq Seq2L 0 None 1 k st0) = (NNest ChoT, FSeq Seq2L 0 None 0 (S k) true).
      Proof.
        unfold Seq2L. cbn [next seq_loop length nth_error below Nat.eqb tmatches topt]. rewrite He, Hpe, HT. reflexivity.
      Qed.

      Lemma find_A0_term f : find (S (S (S (S f)))) stA0 t = FFound p (stA 1).
      Proof.
        unfold stA0, stA, fT. rewrite find_pop. rewrite (find_nest _ _ _ _ _ _ _ top1_term enter_Seq2).
        rewrite (find_nest _ _ _ _ _ _ _ (seq2_term_from0 0 false) enter_ChoT).
        exact (find_nprod _ _ _ _ _ _ next_fresh_T).
      Qed.
      Lemma find_A_term k f : find (S (S (S f))) (stA k) t = FFound p (stA (S k)).
      Proof.
        unfold stA, fT. rewrite find_pop. rewrite (find_nest _ _ _ _ _ _ _ (seq2_term_from0 k true) enter_ChoT).
        exact (find_nprod _ _ _ _ _ _ next_fresh_T).
      Qed.
      Lemma find_B_term k f : find (S (S (S f))) (stB k) t = FFound p (stA (S k)).
      Proof.
        unfold stB, stA, fT. rewrite find_pop. rewrite (find_nest _ _ _ _ _ _ _ (seq2_term_from1 k true) enter_ChoT).
        exact (find_nprod _ _ _ _ _ _ next_fresh_T).
      Qed.
    End Term.

    Section Op.
      Variables (p : prod) (a : bool).
      Hypothesis Ho : cho_scan ops (Some t) false = (Some (PProd p), a).
      Lemma HO : tmatches ChoOp (Some t) = true. Proof. exact (proj2 (cho_scan_found _ _ _ _ _ Ho) _). Qed.
      Lemma HS2o : tmatches Seq2 (Some t) = true.
      Proof. unfold Seq2. rewrite tmatches_seq_scan. unfold Seq2L. cbn [seq_scan]. rewrite HO. reflexivity. Qed.
      Lemma next_fresh_O : next (Some t) (FCho ops true false) = (NProd p, FCho ops true true).
      Proof. cbn [next]. rewrite Ho. reflexivity. Qed.
      Lemma seq2_op_from0 k st0 :
        next (Some t) (FSeq Seq2L 0 None 0 k st0) = (NNest ChoOp, FSeq Seq2L 0 None 1 k true).
      Proof. unfold Seq2L. cbn [next seq_loop length nth_error below Nat.eqb]. rewrite HO. reflexivity. Qed.
      Lemma top1_op : next (Some t) (FSeq TopL 1 (Some 1) 1 0 true) = (NNest Seq2, topK).
      Proof. unfold TopL. cbn [next seq_loop length nth_error below Nat.ltb Nat.leb Nat.eqb]. rewrite HS2o. reflexivity. Qed.
      Lemma find_A0_op f : find (S (S (S (S f)))) stA0 t = FFound p (stB 0).
      Proof.
        unfold stA0, stB, fT. rewrite find_pop. rewrite (find_nest _ _ _ _ _ _ _ top1_op enter_Seq2).
        rewrite (find_nest _ _ _ _ _ _ _ (seq2_op_from0 0 false) enter_ChoOp).
        exact (find_nprod _ _ _ _ _ _ next_fresh_O).
      Qed.
      Lemma find_A_op k f : find (S (S (S f))) (stA k) t = FFound p (stB k).
      Proof.
        unfold stA, stB, fT. rewrite find_pop. rewrite (find_nest _ _ _ _ _ _ _ (seq2_op_from0 k true) enter_ChoOp).
        exact (find_nprod _ _ _ _ _ _ next_fresh_O).
      Qed.
    End Op.
  End Tok.

  (* ---- the closing loop at the end of the input *)
  Lemma final_A0 strict wf : final stA0 strict wf = FinOk wf.
  Proof.
    unfold stA0, fT, TopL. cbn [final next tend fst seq_loop length nth_error below Nat.ltb Nat.leb Nat.eqb].
    rewrite tmatches_none, topt_Seq2. cbn [tend fst]. reflexivity.
  Qed.
  Lemma final_topK strict wf : final [topK] strict wf = FinOk wf.
  Proof. unfold topK, TopL. cbn [final next below Nat.ltb Nat.leb tend fst]. reflexivity. Qed.
  Lemma final_A k strict wf : final (stA k) strict wf = FinOk wf.
  Proof.
    unfold stA, fT. cbn [final next tend fst]. unfold Seq2L.
    cbn [seq_loop length nth_error below Nat.eqb tmatches tok_matches topt]. rewrite !tmatches_none, topt_ChoOp, Hpe, Hot.
    cbn [Nat.ltb Nat.leb orb fst]. reflexivity.
  Qed.
  Lemma final_B k wf : final (stB k) false wf = FinOk wf.
  Proof.
    unfold stB. cbn [final next tend fst]. unfold Seq2L.
    cbn [seq_loop length nth_error below Nat.eqb tmatches tok_matches topt]. rewrite !tmatches_none, Hpe, Hot.
    cbn [Nat.ltb Nat.leb orb fst]. reflexivity.
  Qed.
End PVStacks.


(* ------------------------------------------------------------------ partial evaluation of match predicates:
   the type of the token is known, about its value only a list of facts (atom, truth value) *)
Fixpoint ls_eqb (a b : list str) : bool :=
  match a, b with [], [] => true | x :: a', y :: b' => eqs x y && ls_eqb a' b' | _, _ => false end.
Lemma ls_eqb_spec a : forall b, ls_eqb a b = true -> a = b.
Proof.
  induction a as [|x a IH]; intros [|y b] H; cbn in H; try discriminate; [reflexivity|].
  apply andb_true_iff in H as [H1 H2]. apply eqs_spec in H1. rewrite H1, (IH b H2). reflexivity.
Qed.
Definition atom_eqb (a b : mcode) : bool :=
  match a, b with
  | MHexRe, MHexRe => true
  | MVal x, MVal y | MValNe x, MValNe y | MValSubstr x, MValSubstr y | MValStarts x, MValStarts y | MNorm x, MNorm y => eqs x y
  | MValIn x, MValIn y | MNormIn x, MNormIn y => ls_eqb x y
  | _, _ => false
  end.
Lemma atom_eqb_spec a b : atom_eqb a b = true -> a = b.
Proof.
  destruct a, b; cbn; intros H; try discriminate; try reflexivity;
    try (apply eqs_spec in H; rewrite H; reflexivity); apply ls_eqb_spec in H; rewrite H; reflexivity.
Qed.
Definition facts := list (mcode * bool).
Fixpoint orc (fs : facts) (m : mcode) : option bool :=
  match fs with [] => None | (a, b) :: r => if atom_eqb a m then Some b else orc r m end.
Definition facts_ok (fs : facts) (t v : str) : Prop := Forall (fun ab => meval (fst ab) t v = snd ab) fs.
Lemma orc_ok fs t v m b : facts_ok fs t v -> orc fs m = Some b -> meval m t v = b.
Proof.
  intros Hf. induction Hf as [|[a c] r H1 Hr IH]; cbn [orc]; [discriminate|].
  destruct (atom_eqb a m) eqn:E; [|exact IH]. apply atom_eqb_spec in E. subst m. intros H; inversion H; subst. exact H1.
Qed.

Definition and3 (a b : option bool) : option bool :=
  match a, b with Some false, _ | _, Some false => Some false | Some true, Some true => Some true | _, _ => None end.
Definition or3 (a b : option bool) : option bool :=
  match a, b with Some true, _ | _, Some true => Some true | Some false, Some false => Some false | _, _ => None end.
Fixpoint mev3 (fs : facts) (t : str) (m : mcode) : option bool :=
  match m with
  | MTrue => Some true | MFalse => Some false
  | MTy x => Some (eqs t x)
  | MTyIn l => Some (mem_s t l)
  | MAnd a b => and3 (mev3 fs t a) (mev3 fs t b)
  | MOr a b => or3 (mev3 fs t a) (mev3 fs t b)
  | _ => orc fs m
  end.
Lemma mev3_ok fs t v : facts_ok fs t v -> forall m b, mev3 fs t m = Some b -> meval m t v = b.
Proof.
  intros Hf. induction m as [| | | | | | | | | | | |a IHa c IHc|a IHa c IHc]; intros b H; cbn [mev3] in H;
    try (inversion H; reflexivity); try (exact (orc_ok _ _ _ _ _ Hf H)).
  - cbn [meval]. destruct (mev3 fs t a) as [[|]|], (mev3 fs t c) as [[|]|]; cbn in H; inversion H; subst;
      try rewrite (IHa _ eq_refl); try rewrite (IHc _ eq_refl); try reflexivity; apply andb_false_r.
  - cbn [meval]. destruct (mev3 fs t a) as [[|]|], (mev3 fs t c) as [[|]|]; cbn in H; inversion H; subst;
      try rewrite (IHa _ eq_refl); try rewrite (IHc _ eq_refl); try reflexivity; apply orb_true_r.
Qed.

Fixpoint tm3 (fs : facts) (t : str) (tr : ptree) : option bool :=
  match tr with
  | PProd p => mev3 fs t (p_match p)
  | PSeq ps _ _ =>
      (fix go (l : list ptree) : option bool :=
         match l with
         | [] => Some false
         | c :: r => match tm3 fs t c with
                     | Some true => Some true
                     | Some false => if topt c then go r else Some false
                     | None => None
                     end
         end) ps
  | PCho ps _ =>
      (fix go (l : list ptree) : option bool :=
         match l with
         | [] => Some false
         | c :: r => match tm3 fs t c with Some true => Some true | Some false => go r | None => None end
         end) ps
  end.
Lemma tm3_ok fs tk : facts_ok fs (ty tk) (val tk) -> forall tr b, tm3 fs (ty tk) tr = Some b -> tmatches tr (Some tk) = b.
Proof.
  intros Hf. fix F 1. intros tr. destruct tr as [p|ps lo hi|ps o]; intros b H.
  - cbn [tm3] in H. cbn [tmatches tok_matches]. exact (mev3_ok _ _ _ Hf _ _ H).
  - rewrite tmatches_seq_scan. cbn [tm3] in H. revert b H. induction ps as [|c r IH]; intros b H; [inversion H; reflexivity|].
    cbn [seq_scan]. destruct (tm3 fs (ty tk) c) as [[|]|] eqn:E; [| |discriminate].
    + rewrite (F c _ E). inversion H; reflexivity.
    + rewrite (F c _ E). destruct (topt c); [exact (IH _ H)|inversion H; reflexivity].
  - rewrite tmatches_cho. cbn [tm3] in H. revert b H. induction ps as [|c r IH]; intros b H; [inversion H; reflexivity|].
    cbn [existsb]. destruct (tm3 fs (ty tk) c) as [[|]|] eqn:E; [| |discriminate].
    + rewrite (F c _ E). inversion H; reflexivity.
    + rewrite (F c _ E). exact (IH _ H).
Qed.

Fixpoint scan3 (fs : facts) (t : str) (ps : list ptree) : option ptree :=
  match ps with
  | [] => None
  | c :: r => match tm3 fs t c with Some true => Some c | Some false => scan3 fs t r | None => None end
  end.
Lemma scan3_ok fs tk : facts_ok fs (ty tk) (val tk) -> forall ps c a, scan3 fs (ty tk) ps = Some c ->
  exists a', cho_scan ps (Some tk) a = (Some c, a').
Proof.
  intros Hf. induction ps as [|x r IH]; intros c a H; [discriminate|]. cbn [scan3] in H. cbn [cho_scan].
  destruct (tm3 fs (ty tk) x) as [[|]|] eqn:E; [| |discriminate]; rewrite (tm3_ok _ _ Hf _ _ E).
  - inversion H; subst. eauto.
  - apply IH. exact H.
Qed.


(* ================================================================== Stage 2: PropertyValue *)
Definition subR (d : nat) : nat -> bool -> tok -> list tok -> out := fun g a t l => pparse_sub d env_real g a (Some t) l.
Definition postR := postof_env env_real.
Lemma subR_ok d : sub_ok (subR d). Proof. exact (pparse_sub_ok d env_real). Qed.
Lemma pparse_sub_S d g gr anc first toks :
  nth_error env_real g = Some gr ->
  pparse_sub (S d) env_real g anc first toks =
  parse_tree (subR d) postR true (g_opts gr) (g_tree gr) anc first toks stash0.
Proof. intros H. cbn [pparse_sub]. rewrite H. reflexivity. Qed.

(* ---- "process prod" for the three kinds of productions of the value grammars *)
Section Proc.
  Variable sub : nat -> bool -> tok -> list tok -> out.
  Variable postof : nat -> option postcode.

  (* a production with a plain toSeq callback and `stop` *)
  Lemma process_plain_stop p t st ty' v' :
    p_stopkeep p = false -> aplain (p_toseq p) t = Some (ty', v') -> p_store p = None -> p_stop p = true ->
    process sub postof p t st = LBreak (add_item st (IStr ty' v')).
  Proof.
    intros H1 H2 H3 H4. unfold process, do_store. rewrite H1, H3, H4.
    destruct (p_toseq p); cbn [aplain] in H2; try discriminate; cbn [aplain]; rewrite ?H2;
      try (inversion H2; subst); destruct st; reflexivity.
  Qed.
  (* a plain production that continues (defaultS back to True) *)
  Lemma process_plain_cont p t st ty' v' :
    p_stopkeep p = false -> aplain (p_toseq p) t = Some (ty', v') -> p_store p = None -> p_stop p = false -> p_nextsor p = false ->
    process sub postof p t st = LCont (set_defaultS (add_item st (IStr ty' v')) true).
  Proof.
    intros H1 H2 H3 H4 H5. unfold process, do_store. rewrite H1, H3, H4, H5.
    destruct (p_toseq p); cbn [aplain] in H2; try discriminate; cbn [aplain]; rewrite ?H2;
      try (inversion H2; subst); destruct st; reflexivity.
  Qed.
  (* toSeq=False *)
  Lemma process_false p t st :
    p_stopkeep p = false -> p_toseq p = AFalse -> p_stop p = false -> p_nextsor p = false ->
    process sub postof p t st = LCont (set_defaultS st true).
  Proof. intros H1 H2 H3 H4. unfold process. rewrite H1, H2, H3, H4. reflexivity. Qed.
  (* a sub-parser production *)
  Lemma process_sub p t lbl g stk seq sto wf started stopall dS stopnm afterS strict keep anc l sh r pc w its mt :
    p_stopkeep p = false -> p_toseq p = ASub lbl g -> p_store p = None -> p_stop p = false ->
    sub g anc t l = Ret r -> postof g = Some pc -> post pc r = PRet w its mt ->
    process sub postof p t (mkLs stk seq sto wf started stopall dS stopnm afterS strict keep SOff anc l sh) =
    LCont (mkLs stk (IObj (match lbl with Some x => x | None => ty t end) g w its mt :: seq) sto wf started stopall
                (negb (p_nextsor p)) stopnm afterS strict keep (if p_nextsor p then SOn else SOff) (anc && r_anc r) (r_rest r) (r_stash r)).
  Proof.
    intros H1 H2 H3 H4 H5 H6 H7. unfold process, do_store. rewrite H1, H2, H3, H4.
    cbn [l_anc l_own l_rest orb]. rewrite orb_false_r, H5, H6, H7. cbn. destruct (p_nextsor p); reflexivity.
  Qed.
End Proc.

(* ---- a leaf sub-parser: the first token selects a `stop` production with a plain callback *)
Lemma leaf_parse D g gr f0 anc t0 l p stk' ty' v' :
  nth_error env_real g = Some gr -> o_checkS (g_opts gr) = false ->
  enter (g_tree gr) = Some f0 -> plain_ty (ty t0) -> isS t0 = false ->
  find (find_fuel [f0]) [f0] t0 = FFound p stk' ->
  p_stopkeep p = false -> aplain (p_toseq p) t0 = Some (ty', v') -> p_store p = None -> p_stop p = true ->
  final stk' (negb (p_mayend p)) true = FinOk true -> eqs ty' (s "S") = false ->
  pparse_sub (S D) env_real g anc (Some t0) l = Ret (mkRes true [IStr ty' v'] [] false None SOff anc l stash0).
Proof.
  intros Hg Hck He Hpl HS Hf H1 H2 H3 H4 Hfin Hty.
  rewrite (pparse_sub_S D g gr anc _ l Hg).
  eapply runs_parse; [apply subR_ok|unfold init_state; rewrite He; reflexivity|].
  eapply runs_break; [reflexivity| |].
  - rewrite body_find; [|exact Hck|exact Hpl|cbn [l_defaultS set_stream]; rewrite HS; apply andb_false_r].
    cbn [l_stack set_stream]. rewrite Hf. rewrite (process_plain_stop _ _ _ _ _ _ _ H1 H2 H3 H4). reflexivity.
  - unfold finish. cbn [l_stopall add_item set_found set_started set_stream l_stack l_strict l_wf l_seq]. rewrite Hfin.
    cbn [rstripS item_ty]. rewrite Hty, andb_false_r. reflexivity.
Qed.

Lemma find_cho_root f ps oo t p a : cho_scan ps (Some t) false = (Some (PProd p), a) ->
  find (S f) [FCho ps oo false] t = FFound p [FCho ps oo true].
Proof. intros H. apply find_nprod. cbn [next]. rewrite H. reflexivity. Qed.

Definition plain_act (a : acode) : bool :=
  match a with ADefault | ANorm | ALower | AStrVal | AUriVal | AConstTy _ => true | _ => false end.

(* grammar = Choice(stop productions ...) : Value, ColorValue *)
Lemma leaf_parse_cho D g gr ps oo fs anc t0 l p ty' v' :
  nth_error env_real g = Some gr -> o_checkS (g_opts gr) = false -> g_tree gr = PCho ps oo ->
  plain_ty (ty t0) -> isS t0 = false -> facts_ok fs (ty t0) (val t0) -> scan3 fs (ty t0) ps = Some (PProd p) ->
  p_stopkeep p = false -> aplain (p_toseq p) t0 = Some (ty', v') -> p_store p = None -> p_stop p = true ->
  eqs ty' (s "S") = false ->
  pparse_sub (S D) env_real g anc (Some t0) l = Ret (mkRes true [IStr ty' v'] [] false None SOff anc l stash0).
Proof.
  intros Hg Hck Ht Hpl HS Hfs Hsc H1 H2 H3 H4 Hty.
  destruct (scan3_ok fs t0 Hfs ps _ false Hsc) as [a Ha].
  eapply (leaf_parse D g gr (FCho ps (topt (PCho ps oo)) false) anc t0 l p [FCho ps (topt (PCho ps oo)) true]); eauto.
  - rewrite Ht. reflexivity.
  - unfold find_fuel. cbn [length Nat.add]. eapply find_cho_root. exact Ha.
Qed.

(* grammar = Sequence(Choice(stop productions ...)) : DimensionValue *)
Lemma leaf_parse_seqcho D g gr ps fs anc t0 l p ty' v' :
  nth_error env_real g = Some gr -> o_checkS (g_opts gr) = false -> g_tree gr = PSeq [PCho ps None] 1 (Some 1) ->
  plain_ty (ty t0) -> isS t0 = false -> facts_ok fs (ty t0) (val t0) -> scan3 fs (ty t0) ps = Some (PProd p) ->
  p_stopkeep p = false -> aplain (p_toseq p) t0 = Some (ty', v') -> p_store p = None -> p_stop p = true ->
  eqs ty' (s "S") = false ->
  pparse_sub (S D) env_real g anc (Some t0) l = Ret (mkRes true [IStr ty' v'] [] false None SOff anc l stash0).
Proof.
  intros Hg Hck Ht Hpl HS Hfs Hsc H1 H2 H3 H4 Hty.
  destruct (scan3_ok fs t0 Hfs ps _ false Hsc) as [a Ha].
  destruct (cho_scan_found _ _ _ _ _ Ha) as [HT _].
  eapply (leaf_parse D g gr (FSeq [PCho ps None] 1 (Some 1) 0 0 false) anc t0 l p
            [FCho ps (topt (PCho ps None)) true; FSeq [PCho ps None] 1 (Some 1) 0 1 true]); eauto.
  - rewrite Ht. reflexivity.
  - unfold find_fuel. cbn [length Nat.add].
    rewrite (find_nest _ _ _ _ (PCho ps None) (FSeq [PCho ps None] 1 (Some 1) 0 1 true) (FCho ps (topt (PCho ps None)) false));
      [|cbn [next seq_loop length nth_error below Nat.ltb Nat.leb Nat.eqb]; rewrite HT; reflexivity|reflexivity].
    apply find_nprod. cbn [next]. rewrite Ha. reflexivity.
Qed.

(* grammar = Sequence(stop production) : URIValue *)
Lemma leaf_parse_seqprod D g gr fs anc t0 l p ty' v' :
  nth_error env_real g = Some gr -> o_checkS (g_opts gr) = false -> g_tree gr = PSeq [PProd p] 1 (Some 1) ->
  plain_ty (ty t0) -> isS t0 = false -> facts_ok fs (ty t0) (val t0) -> mev3 fs (ty t0) (p_match p) = Some true ->
  p_stopkeep p = false -> aplain (p_toseq p) t0 = Some (ty', v') -> p_store p = None -> p_stop p = true ->
  eqs ty' (s "S") = false ->
  pparse_sub (S D) env_real g anc (Some t0) l = Ret (mkRes true [IStr ty' v'] [] false None SOff anc l stash0).
Proof.
  intros Hg Hck Ht Hpl HS Hfs Hsc H1 H2 H3 H4 Hty.
  pose proof (mev3_ok _ _ _ Hfs _ _ Hsc) as Hm.
  eapply (leaf_parse D g gr (FSeq [PProd p] 1 (Some 1) 0 0 false) anc t0 l p [FSeq [PProd p] 1 (Some 1) 0 1 true]); eauto.
  - rewrite Ht. reflexivity.
  - unfold find_fuel. cbn [length Nat.add]. apply find_nprod.
    cbn [next seq_loop length nth_error below Nat.ltb Nat.leb Nat.eqb tmatches tok_matches]. rewrite Hm. reflexivity.
Qed.

Definition leaf_res (it : item) (anc : bool) (l : list tok) : result := mkRes true [it] [] false None SOff anc l stash0.

Ltac leaf_tac L g ffs tt Hfacts Hap :=
  eapply (L _ g) with (fs := ffs) (t0 := tt);
    [reflexivity|reflexivity|reflexivity|repeat split; reflexivity|reflexivity|Hfacts|vm_compute; reflexivity|reflexivity
    |Hap|reflexivity|reflexivity|reflexivity].

Lemma leaf4_ident D anc v l :
  pparse_sub (S D) env_real 4 anc (Some (T "IDENT" v)) l = Ret (leaf_res (IStr (s "IDENT") v) anc l).
Proof. leaf_tac leaf_parse_cho 4 (@nil (mcode * bool)) (T "IDENT" v) ltac:(constructor) ltac:(reflexivity). Qed.
Lemma leaf4_urange D anc v l :
  pparse_sub (S D) env_real 4 anc (Some (T "UNICODE-RANGE" v)) l = Ret (leaf_res (IStr (s "UNICODE-RANGE") (lower v)) anc l).
Proof. leaf_tac leaf_parse_cho 4 (@nil (mcode * bool)) (T "UNICODE-RANGE" v) ltac:(constructor) ltac:(reflexivity). Qed.
Lemma leaf4_string D anc v x l : stringvalue v = Some x ->
  pparse_sub (S D) env_real 4 anc (Some (T "STRING" v)) l = Ret (leaf_res (IStr (s "STRING") x) anc l).
Proof.
  intros Hx. leaf_tac leaf_parse_cho 4 (@nil (mcode * bool)) (T "STRING" v) ltac:(constructor)
    ltac:(cbn [aplain p_toseq val T]; rewrite Hx; reflexivity).
Qed.
Lemma leaf5_hash D anc v l : hexcolor_re v = true ->
  pparse_sub (S D) env_real 5 anc (Some (T "HASH" v)) l = Ret (leaf_res (IStr (s "HASH") v) anc l).
Proof.
  intros Hx. leaf_tac leaf_parse_cho 5 [(MHexRe, true)] (T "HASH" v) ltac:(repeat constructor; exact Hx) ltac:(reflexivity).
Qed.
Lemma leaf5_ident D anc v l : mem_s (normalize v) color_keys = true ->
  pparse_sub (S D) env_real 5 anc (Some (T "IDENT" v)) l = Ret (leaf_res (IStr (s "IDENT") v) anc l).
Proof.
  intros Hx. leaf_tac leaf_parse_cho 5 [(MNormIn color_keys, true)] (T "IDENT" v) ltac:(repeat constructor; exact Hx) ltac:(reflexivity).
Qed.
Lemma leaf6_number D anc v l :
  pparse_sub (S D) env_real 6 anc (Some (T "NUMBER" v)) l = Ret (leaf_res (IStr (s "NUMBER") v) anc l).
Proof. leaf_tac leaf_parse_seqcho 6 (@nil (mcode * bool)) (T "NUMBER" v) ltac:(constructor) ltac:(reflexivity). Qed.
Lemma leaf6_percentage D anc v l :
  pparse_sub (S D) env_real 6 anc (Some (T "PERCENTAGE" v)) l = Ret (leaf_res (IStr (s "PERCENTAGE") v) anc l).
Proof. leaf_tac leaf_parse_seqcho 6 (@nil (mcode * bool)) (T "PERCENTAGE" v) ltac:(constructor) ltac:(reflexivity). Qed.
Lemma leaf6_dimension D anc v l :
  pparse_sub (S D) env_real 6 anc (Some (T "DIMENSION" v)) l = Ret (leaf_res (IStr (s "DIMENSION") (normalize v)) anc l).
Proof. leaf_tac leaf_parse_seqcho 6 (@nil (mcode * bool)) (T "DIMENSION" v) ltac:(constructor) ltac:(reflexivity). Qed.
Lemma leaf7_uri D anc v x l : urivalue v = Some x ->
  pparse_sub (S D) env_real 7 anc (Some (T "URI" v)) l = Ret (leaf_res (IStr (s "URI") x) anc l).
Proof.
  intros Hx. leaf_tac leaf_parse_seqprod 7 (@nil (mcode * bool)) (T "URI" v) ltac:(constructor)
    ltac:(cbn [aplain p_toseq val T]; rewrite Hx; reflexivity).
Qed.


(* ---- tree_PropertyValue is an instance of the PVStacks shape *)
Definition pv_ts : list ptree := match tree_PropertyValue with PSeq (PCho l _ :: _) _ _ => l | _ => [] end.
Definition pv_ops : list ptree := match tree_PropertyValue with PSeq [_; PSeq (PCho l _ :: _) _ _] _ _ => l | _ => [] end.
Definition pv_pe : prod :=
  match tree_PropertyValue with
  | PSeq [_; PSeq [_; PProd p; _] _ _] _ _ => p
  | _ => mkProd [] MFalse true AFalse None false false false false false false
  end.
Lemma pv_tree : tree_PropertyValue = Top pv_ts pv_ops pv_pe.
Proof. reflexivity. Qed.
Lemma pv_pe_opt : p_opt pv_pe = true. Proof. reflexivity. Qed.
Lemma pv_ot : topt (ChoT pv_ts) = false. Proof. reflexivity. Qed.
Lemma pv_init toks : init_state tree_PropertyValue false None toks stash0 =
  Some (mkLs (stS0 pv_ts pv_ops pv_pe) [] [] true false false true false false false None SOff false toks stash0).
Proof. reflexivity. Qed.
Definition pv_p (i : nat) : prod := match nth_error pv_ts i with Some (PProd p) => p | _ => pv_pe end.
Definition pv_o (i : nat) : prod := match nth_error pv_ops i with Some (PProd p) => p | _ => pv_pe end.

(* every term production of PropertyValue: sub-parser, no store, no stop, nextSor, mayEnd unset *)
Lemma pv_p_flags i : i < 8 ->
  p_stopkeep (pv_p i) = false /\ p_store (pv_p i) = None /\ p_stop (pv_p i) = false /\ p_nextsor (pv_p i) = true /\
  p_mayend (pv_p i) = false /\ p_stopnm (pv_p i) = false /\ exists lbl g, p_toseq (pv_p i) = ASub (Some lbl) g.
Proof.
  intros H. do 8 (destruct i as [|i]; [repeat split; eexists; eexists; reflexivity|]). lia.
Qed.

(* ---- which production a token selects in the term Choice / the operator Choice (token type + facts about the value) *)
Definition okv (v : str) : Prop :=
  eqs v (s ",") = false /\ eqs v (s "/") = false /\ eqs v (s ";") = false.
Definition okv_facts : facts := [(MVal (s ","), false); (MVal (s "/"), false); (MVal (s ";"), false)].
Lemma okv_facts_ok t v : okv v -> facts_ok okv_facts t v.
Proof. intros [H1 [H2 H3]]. repeat constructor; assumption. Qed.

Lemma pv_class fs (tk : tok) i :
  facts_ok fs (ty tk) (val tk) ->
  tm3 fs (ty tk) (ChoOp pv_ops) = Some false -> mev3 fs (ty tk) (p_match pv_pe) = Some false ->
  scan3 fs (ty tk) pv_ts = Some (PProd (pv_p i)) ->
  tmatches (ChoOp pv_ops) (Some tk) = false /\ tok_matches pv_pe (Some tk) = false /\
  exists a, cho_scan pv_ts (Some tk) false = (Some (PProd (pv_p i)), a).
Proof.
  intros Hf H1 H2 H3. split; [exact (tm3_ok _ _ Hf _ _ H1)|]. split; [exact (mev3_ok _ _ _ Hf _ _ H2)|].
  exact (scan3_ok _ _ Hf _ _ false H3).
Qed.

(* the classes of the single-token terms *)
Lemma pv_class_number v : okv v -> let tk := T "NUMBER" v in
  tmatches (ChoOp pv_ops) (Some tk) = false /\ tok_matches pv_pe (Some tk) = false /\
  exists a, cho_scan pv_ts (Some tk) false = (Some (PProd (pv_p 1)), a).
Proof. intros H tk. apply (pv_class okv_facts tk 1 (okv_facts_ok _ _ H)); vm_compute; reflexivity. Qed.
Lemma pv_class_ident v : okv v -> mem_s (normalize v) color_keys = false -> let tk := T "IDENT" v in
  tmatches (ChoOp pv_ops) (Some tk) = false /\ tok_matches pv_pe (Some tk) = false /\
  exists a, cho_scan pv_ts (Some tk) false = (Some (PProd (pv_p 3)), a).
Proof.
  intros H Hc tk. apply (pv_class ((MNormIn color_keys, false) :: okv_facts) tk 3); [|vm_compute; reflexivity..].
  constructor; [exact Hc|exact (okv_facts_ok _ _ H)].
Qed.
Lemma pv_class_color_ident v : okv v -> mem_s (normalize v) color_keys = true -> let tk := T "IDENT" v in
  tmatches (ChoOp pv_ops) (Some tk) = false /\ tok_matches pv_pe (Some tk) = false /\
  exists a, cho_scan pv_ts (Some tk) false = (Some (PProd (pv_p 0)), a).
Proof.
  intros H Hc tk. apply (pv_class ((MNormIn color_keys, true) :: okv_facts) tk 0); [|vm_compute; reflexivity..].
  constructor; [exact Hc|exact (okv_facts_ok _ _ H)].
Qed.
Lemma pv_class_comma : cho_scan pv_ops (Some (ch ",")) false = (Some (PProd (pv_o 1)), false).
Proof. vm_compute. reflexivity. Qed.
Lemma pv_class_slash : cho_scan pv_ops (Some (ch "/")) false = (Some (PProd (pv_o 2)), true).
Proof. vm_compute. reflexivity. Qed.
Lemma pv_class_ws (a : tok) : isS a = true -> exists b, cho_scan pv_ops (Some a) false = (Some (PProd (pv_o 0)), b).
Proof.
  intros H. unfold isS in H. apply eqs_spec in H.
  apply (scan3_ok [] a); [constructor|]. rewrite H. vm_compute. reflexivity.
Qed.

(* ---- the whole grammar on a concrete rendered value (every separator, comments, a colour keyword, a hex colour,
   a string, a URI): accepted, well-formed, PostPV keeps all items *)
Definition ex_num := mkNum 0 (s "12") None.
Definition ex_decl := mkDecl (s "x") 0 1 (TmIdent (s "red"))
  [(SepSp 2, TmNum ex_num); (SepComma 3 4, TmDim ex_num (s "px")); (SepSlash 5 6, TmHex (s "abc"));
   (SepSp 7, TmStr 8 (s "ab")); (SepSp 9, TmUrl 10 (s "u"))] 11 None.
Definition ex_lay : layout := [0;1;2;3;4;5;6;7;8;9;10;11;12].
Example ex_value_accepts :
  exists r, pparse_env 3 env_real gid_PropertyValue (decl_value ex_lay ex_decl (gopt ex_lay 12)) = Ret r /\
            r_wf r = true /\ post PostPV r = PRet true (r_items r) [] /\ length (r_items r) = 16.
Proof. eexists. split; [vm_compute; reflexivity|]. repeat split; vm_compute; reflexivity. Qed.
