(* ProdParserValue.v -- the value grammar (css/value.py, tree_PropertyValue and its sub-grammars in Gen/ProdTrees.v)
   run by the production-engine model ProdParser.v on the rendered values of the generator grammar Grammar.v.

   STATUS: stages 1 and 2 and the reader (stage 4) for the SINGLE-TOKEN fragment are complete:
       value_accepts                   every rendered value whose terms are TmIdent (colour keyword or not) / TmNum /
                                       TmDim / TmPct / TmStr / TmUrl / TmHex / TmURange, with all separators, in every
                                       layout, d_imp = None or Some, is accepted, well-formed, kept by PostPV, and its
                                       items without comments are value_items d   (depth budget 2)
       value_grammar_faithful_simple   build_value (decl_value lay d (gopt lay ga)) = m_value d   under wf_value_js d
     Wider fragment (single-token terms + TmRgb), depth budget 3, separate names so that the statements above stay:
       value_accepts_x / value_grammar_faithful_x  over wf_valuex / wf_valuex_js, value_itemsx, build_valuex
       (find3 / next3 / seq_loop3 / cho_scan3: three-valued inner loop, so `find` on closed stacks is a vm_compute;
        step_plain / step_sub / step_stop: one token of a sub-grammar; rgb_sub: the ColorValue run on rgb(r, g, b)).
     TmFunc / TmCalc are NOT covered: wf_term / wf_termx are False for them.
     Stage 2 pieces: gap_off (G1), gap_on_until (G2), pv_gap_term (G3, incl. the SPend path), pv_tail (G4),
     pv_term_body / pv_op_body / pv_ws_body, pv_sep_term, pv_more, value_run, tspec_simple.
     Stage 1 pieces:
     - loop_mono, runs / runs_cont / runs_break / runs_end / runs_loop / runs_parse : fuel-free reasoning about `loop`
       from an ARBITRARY state (more fuel never changes a result that is not OutOfFuel);
     - body_comment / body_skipS / body_find : one iteration of the main loop by token class;
     - PVStacks : the production-stack configurations stS0 / stA0 / stA k / stB k of
       Seq(term, Seq(Cho(op)?, END?, term) 0..inf) with the transition lemmas find_S0_term, find_A0_term, find_A_term,
       find_B_term, find_A0_op, find_A_op and the closing loop final_A0 / final_A / final_B;
     - mev3 / tm3 / scan3 (+ _ok): partial evaluation of match predicates -- token type known, about the value only a
       list of facts -- sound w.r.t. meval / tmatches / cho_scan; every big computation stays on CLOSED terms;
     - process_plain_stop / process_plain_cont / process_false / process_sub : "process prod" by production kind;
     - leaf_parse (+ _cho / _seqcho / _seqprod) and leaf4_ident / leaf4_urange / leaf4_string / leaf5_hash /
       leaf5_ident / leaf6_number / leaf6_percentage / leaf6_dimension / leaf7_uri : a leaf sub-parser on
       pushtoken(t, rest) consumes exactly t through a `stop` production, returns a well-formed one-item result and
       leaves rest, anc and the stash untouched;
     - pv_tree (tree_PropertyValue is an instance of PVStacks), pv_p_flags, pv_class_* (which production a token
       selects), ex_value_accepts (closed end-to-end run).
   Stdlib only, no axioms. *)
From CssV Require Import Base Regex Tokenizer ProdParser ProdParserFacts Gen.ProdTrees Grammar GrammarFacts.
From CssV Require Selector.
Local Open Scope nat_scope.


(* ================================================================== Stage 1: generic step lemmas *)
Section Steps.
  Variable o : opts.
  Variable sub : nat -> bool -> tok -> list tok -> out.
  Variable postof : nat -> option postcode.

  Lemma loop_mono n : forall m st, n <= m -> loop o sub postof n st <> OutOfFuel ->
    loop o sub postof m st = loop o sub postof n st.
  Proof.
    induction n as [|n IH]; intros m st Hle Hne; [cbn in Hne; congruence|].
    destruct m as [|m]; [lia|]. rewrite !loop_unfold in *.
    destruct (pull st) as [[t st1]|]; [|reflexivity].
    destruct (body o sub postof t st1) as [st2|st2|x]; try reflexivity.
    apply IH; [lia|exact Hne].
  Qed.

  Definition runs (st : lstate) (r : result) : Prop := exists n, loop o sub postof n st = Ret r.

  Lemma runs_cont st t st1 st2 r :
    pull st = Some (t, st1) -> body o sub postof t st1 = LCont st2 -> runs st2 r -> runs st r.
  Proof. intros Hp Hb [n Hn]. exists (S n). rewrite loop_unfold, Hp, Hb. exact Hn. Qed.
  Lemma runs_break st t st1 st2 r :
    pull st = Some (t, st1) -> body o sub postof t st1 = LBreak st2 -> finish o st2 = Ret r -> runs st r.
  Proof. intros Hp Hb Hf. exists 1. rewrite loop_unfold, Hp, Hb. exact Hf. Qed.
  Lemma runs_end st r : pull st = None -> finish o st = Ret r -> runs st r.
  Proof. intros Hp Hf. exists 1. rewrite loop_unfold, Hp. exact Hf. Qed.

  Lemma runs_loop n st r : runs st r -> loop o sub postof n st <> OutOfFuel -> loop o sub postof n st = Ret r.
  Proof.
    intros [k Hk] Hne. destruct (le_lt_dec k n) as [Hle|Hlt].
    - rewrite (loop_mono k n st Hle); [exact Hk|congruence].
    - rewrite <- Hk. symmetry. apply loop_mono; [lia|exact Hne].
  Qed.

  Lemma runs_parse tr anc first toks st0 r :
    sub_ok sub -> init_state tr anc first toks stash0 = Some st0 -> runs st0 r ->
    parse_tree sub postof true o tr anc first toks stash0 = Ret r.
  Proof.
    intros Hsub Hi Hr. unfold parse_tree. rewrite Hi. apply runs_loop; [exact Hr|].
    destruct (init_full _ _ _ _ _ _ Hi) as [Hf [Hs _]].
    apply (loop_ok o sub postof Hsub); [rewrite Hs; cbn; lia|].
    unfold meas, loop_fuel. rewrite Hf, Hs, app_length. cbn. destruct first; cbn; lia.
  Qed.

  (* ---- one iteration of the body, by token class *)
  Lemma body_comment t st : o_checkS o = false -> isC t = true ->
    body o sub postof t st = LCont (add_item st (IStr (s "CSSComment") (val t))).
  Proof. unfold body, isC. intros -> ->. reflexivity. Qed.

  Lemma body_skipS t st : o_checkS o = false -> o_keepS o = false -> isS t = true -> l_defaultS st = true ->
    body o sub postof t st = LCont st.
  Proof.
    unfold body, isS. intros -> -> Hs Hd. rewrite Hs.
    assert (eqs (ty t) (s "COMMENT") = false) as ->.
    { apply eqs_spec in Hs. rewrite Hs. reflexivity. }
    cbn [andb negb]. rewrite Hd. reflexivity.
  Qed.

  Definition plain_ty (x : str) : Prop :=
    eqs x (s "COMMENT") = false /\ eqs x (s "INVALID") = false /\ eqs x (s "EOF") = false.

  Lemma body_find t st : o_checkS o = false -> plain_ty (ty t) -> l_defaultS st && isS t = false ->
    body o sub postof t st =
    match find (find_fuel (l_stack st)) (l_stack st) t with
    | FNoMatch stack =>
        let st' := set_stack (set_started st) stack false in
        if l_stopnm st' then LBreak (set_stopall (set_stash st' (push_saved t (l_stash st')))) else LBreak (set_wf st' false)
    | FParseErr stack =>
        LBreak (set_wf (set_stack (set_started st) stack (l_strict (set_started st))) false)
    | FFound p stack =>
        process sub postof p t (set_found (set_started st) stack (negb (p_mayend p)) (p_stopnm p || l_stopnm (set_started st)))
    | FSpin => LOut Spin
    | FCrash => LOut Crash
    end.
  Proof.
    unfold body, isS. intros -> [H1 [H2 H3]] H4. rewrite H1, H2, H3. cbn [andb negb]. rewrite andb_true_r, H4. reflexivity.
  Qed.
End Steps.


Lemma tmatches_none : forall t, tmatches t None = false.
Proof.
  fix F 1. intros t. destruct t as [p|ps lo hi|ps o].
  - reflexivity.
  - rewrite tmatches_seq_scan. induction ps as [|c r IH]; [reflexivity|]. cbn [seq_scan]. rewrite (F c).
    destruct (topt c); [exact IH|reflexivity].
  - rewrite tmatches_cho. induction ps as [|c r IH]; [reflexivity|]. cbn [existsb]. rewrite (F c). exact IH.
Qed.

Lemma cho_scan_found ps tk a c b : cho_scan ps tk a = (Some c, b) -> tmatches (PCho ps None) tk = true /\ forall o, tmatches (PCho ps o) tk = true.
Proof.
  intros H. assert (G : existsb (fun c => tmatches c tk) ps = true).
  { revert a H. induction ps as [|x r IH]; intros a H; [discriminate|]. cbn [cho_scan] in H. cbn [existsb].
    destruct (tmatches x tk); [reflexivity|]. cbn. eapply IH. exact H. }
  split; [|intros o]; rewrite tmatches_cho; exact G.
Qed.

Lemma find_nprod fu fr rest tk p fr' : next (Some tk) fr = (NProd p, fr') -> find (S fu) (fr :: rest) tk = FFound p (fr' :: rest).
Proof. intros H. cbn [find]. rewrite H. reflexivity. Qed.
Lemma find_nest fu fr rest tk c fr' nf : next (Some tk) fr = (NNest c, fr') -> enter c = Some nf ->
  find (S fu) (fr :: rest) tk = find fu (nf :: fr' :: rest) tk.
Proof. intros H He. cbn [find]. rewrite H, He. reflexivity. Qed.
Lemma find_pop fu ps o r0 rest tk : find (S fu) (FCho ps o true :: r0 :: rest) tk = find fu (r0 :: rest) tk.
Proof. reflexivity. Qed.

(* ------------------------------------------------------------------ the production stacks of  Seq(term, Seq(Cho(op)?, END?, term) 0..inf)  *)
Section PVStacks.
  Variables (ts ops : list ptree) (pe : prod).
  Definition ChoT := PCho ts None.
  Definition ChoOp := PCho ops (Some true).
  Definition Seq2L := [ChoOp; PProd pe; ChoT].
  Definition Seq2 := PSeq Seq2L 0 None.
  Definition TopL := [ChoT; Seq2].
  Definition Top := PSeq TopL 1 (Some 1).
  Hypothesis Hpe : p_opt pe = true.
  Hypothesis Hot : topt ChoT = false.

  Definition fT := FCho ts false true.
  Definition topK := FSeq TopL 1 (Some 1) 0 1 true.
  Definition stS0 := [FSeq TopL 1 (Some 1) 0 0 false].
  Definition stA0 := [fT; FSeq TopL 1 (Some 1) 1 0 true].
  Definition stA (k : nat) := [fT; FSeq Seq2L 0 None 0 k true; topK].
  Definition stB (k : nat) := [FCho ops true true; FSeq Seq2L 0 None 1 k true; topK].

  Lemma enter_ChoT : enter ChoT = Some (FCho ts false false).
  Proof. unfold enter. fold ChoT. change (PCho ts None) with ChoT. rewrite Hot. reflexivity. Qed.
  Lemma enter_ChoOp : enter ChoOp = Some (FCho ops true false). Proof. reflexivity. Qed.
  Lemma enter_Seq2 : enter Seq2 = Some (FSeq Seq2L 0 None 0 0 false). Proof. reflexivity. Qed.
  Lemma topt_Seq2 : topt Seq2 = true. Proof. reflexivity. Qed.
  Lemma topt_ChoOp : topt ChoOp = true. Proof. reflexivity. Qed.

  Section Tok.
    Variable t : tok.
    (* a term token: no operator, not END, the term Choice selects production p *)
    Section Term.
      Variables (p : prod) (a : bool).
      Hypothesis Hop : tmatches ChoOp (Some t) = false.
      Hypothesis He : tok_matches pe (Some t) = false.
      Hypothesis Ht : cho_scan ts (Some t) false = (Some (PProd p), a).
      Lemma HT : tmatches ChoT (Some t) = true. Proof. exact (proj1 (cho_scan_found _ _ _ _ _ Ht)). Qed.
      Lemma HS2 : tmatches Seq2 (Some t) = true.
      Proof. unfold Seq2. rewrite tmatches_seq_scan. unfold Seq2L. cbn [seq_scan tmatches topt]. rewrite Hop, topt_ChoOp, He, Hpe, HT. reflexivity. Qed.

      Lemma next_fresh_T : next (Some t) (FCho ts false false) = (NProd p, fT).
      Proof. cbn [next]. rewrite Ht. reflexivity. Qed.

      Lemma top0_term : next (Some t) (FSeq TopL 1 (Some 1) 0 0 false) = (NNest ChoT, FSeq TopL 1 (Some 1) 1 0 true).
      Proof. unfold TopL. cbn [next seq_loop length nth_error below Nat.ltb Nat.leb Nat.eqb]. rewrite HT. reflexivity. Qed.
      Lemma top1_term : next (Some t) (FSeq TopL 1 (Some 1) 1 0 true) = (NNest Seq2, topK).
      Proof. unfold TopL. cbn [next seq_loop length nth_error below Nat.ltb Nat.leb Nat.eqb]. rewrite HS2. reflexivity. Qed.
      Lemma find_S0_term f : find (S (S f)) stS0 t = FFound p stA0.
      Proof.
        unfold stS0, stA0. rewrite (find_nest _ _ _ _ _ _ _ top0_term enter_ChoT).
        exact (find_nprod _ _ _ _ _ _ next_fresh_T).
      Qed.
      Lemma seq2_term_from0 k st0 :
        next (Some t) (FSeq Seq2L 0 None 0 k st0) = (NNest ChoT, FSeq Seq2L 0 None 0 (S k) true).
      Proof.
        unfold Seq2L. cbn [next seq_loop length nth_error below Nat.eqb tmatches topt]. rewrite Hop, topt_ChoOp, He, Hpe, HT. reflexivity.
      Qed.
      Lemma seq2_term_from1 k st0 :
        next (Some t) (FSeq Seq2L 0 None 1 k st0) = (NNest ChoT, FSeq Seq2L 0 None 0 (S k) true).
      Proof.
        unfold Seq2L. cbn [next seq_loop length nth_error below Nat.eqb tmatches topt]. rewrite He, Hpe, HT. reflexivity.
      Qed.

      Lemma find_A0_term f : find (S (S (S (S f)))) stA0 t = FFound p (stA 1).
      Proof.
        unfold stA0, stA, fT. rewrite find_pop. rewrite (find_nest _ _ _ _ _ _ _ top1_term enter_Seq2).
        rewrite (find_nest _ _ _ _ _ _ _ (seq2_term_from0 0 false) enter_ChoT).
        exact (find_nprod _ _ _ _ _ _ next_fresh_T).
      Qed.
      Lemma find_A_term k f : find (S (S (S f))) (stA k) t = FFound p (stA (S k)).
      Proof.
        unfold stA, fT. rewrite find_pop. rewrite (find_nest _ _ _ _ _ _ _ (seq2_term_from0 k true) enter_ChoT).
        exact (find_nprod _ _ _ _ _ _ next_fresh_T).
      Qed.
      Lemma find_B_term k f : find (S (S (S f))) (stB k) t = FFound p (stA (S k)).
      Proof.
        unfold stB, stA, fT. rewrite find_pop. rewrite (find_nest _ _ _ _ _ _ _ (seq2_term_from1 k true) enter_ChoT).
        exact (find_nprod _ _ _ _ _ _ next_fresh_T).
      Qed.
    End Term.

    Section Op.
      Variables (p : prod) (a : bool).
      Hypothesis Ho : cho_scan ops (Some t) false = (Some (PProd p), a).
      Lemma HO : tmatches ChoOp (Some t) = true. Proof. exact (proj2 (cho_scan_found _ _ _ _ _ Ho) _). Qed.
      Lemma HS2o : tmatches Seq2 (Some t) = true.
      Proof. unfold Seq2. rewrite tmatches_seq_scan. unfold Seq2L. cbn [seq_scan]. rewrite HO. reflexivity. Qed.
      Lemma next_fresh_O : next (Some t) (FCho ops true false) = (NProd p, FCho ops true true).
      Proof. cbn [next]. rewrite Ho. reflexivity. Qed.
      Lemma seq2_op_from0 k st0 :
        next (Some t) (FSeq Seq2L 0 None 0 k st0) = (NNest ChoOp, FSeq Seq2L 0 None 1 k true).
      Proof. unfold Seq2L. cbn [next seq_loop length nth_error below Nat.eqb]. rewrite HO. reflexivity. Qed.
      Lemma top1_op : next (Some t) (FSeq TopL 1 (Some 1) 1 0 true) = (NNest Seq2, topK).
      Proof. unfold TopL. cbn [next seq_loop length nth_error below Nat.ltb Nat.leb Nat.eqb]. rewrite HS2o. reflexivity. Qed.
      Lemma find_A0_op f : find (S (S (S (S f)))) stA0 t = FFound p (stB 0).
      Proof.
        unfold stA0, stB, fT. rewrite find_pop. rewrite (find_nest _ _ _ _ _ _ _ top1_op enter_Seq2).
        rewrite (find_nest _ _ _ _ _ _ _ (seq2_op_from0 0 false) enter_ChoOp).
        exact (find_nprod _ _ _ _ _ _ next_fresh_O).
      Qed.
      Lemma find_A_op k f : find (S (S (S f))) (stA k) t = FFound p (stB k).
      Proof.
        unfold stA, stB, fT. rewrite find_pop. rewrite (find_nest _ _ _ _ _ _ _ (seq2_op_from0 k true) enter_ChoOp).
        exact (find_nprod _ _ _ _ _ _ next_fresh_O).
      Qed.
    End Op.
  End Tok.

  (* ---- the closing loop at the end of the input *)
  Lemma final_A0 strict wf : final stA0 strict wf = FinOk wf.
  Proof.
    unfold stA0, fT, TopL. cbn [final next tend fst seq_loop length nth_error below Nat.ltb Nat.leb Nat.eqb].
    rewrite tmatches_none, topt_Seq2. cbn [tend fst]. reflexivity.
  Qed.
  Lemma final_topK strict wf : final [topK] strict wf = FinOk wf.
  Proof. unfold topK, TopL. cbn [final next below Nat.ltb Nat.leb tend fst]. reflexivity. Qed.
  Lemma final_A k strict wf : final (stA k) strict wf = FinOk wf.
  Proof.
    unfold stA, fT. cbn [final next tend fst]. unfold Seq2L.
    cbn [seq_loop length nth_error below Nat.eqb tmatches tok_matches topt]. rewrite !tmatches_none, topt_ChoOp, Hpe, Hot.
    cbn [Nat.ltb Nat.leb orb fst]. reflexivity.
  Qed.
  Lemma final_B k wf : final (stB k) false wf = FinOk wf.
  Proof.
    unfold stB. cbn [final next tend fst]. unfold Seq2L.
    cbn [seq_loop length nth_error below Nat.eqb tmatches tok_matches topt]. rewrite !tmatches_none, Hpe, Hot.
    cbn [Nat.ltb Nat.leb orb fst]. reflexivity.
  Qed.
End PVStacks.


(* ------------------------------------------------------------------ partial evaluation of match predicates:
   the type of the token is known, about its value only a list of facts (atom, truth value) *)
Fixpoint ls_eqb (a b : list str) : bool :=
  match a, b with [], [] => true | x :: a', y :: b' => eqs x y && ls_eqb a' b' | _, _ => false end.
Lemma ls_eqb_spec a : forall b, ls_eqb a b = true -> a = b.
Proof.
  induction a as [|x a IH]; intros [|y b] H; cbn in H; try discriminate; [reflexivity|].
  apply andb_true_iff in H as [H1 H2]. apply eqs_spec in H1. rewrite H1, (IH b H2). reflexivity.
Qed.
Definition atom_eqb (a b : mcode) : bool :=
  match a, b with
  | MHexRe, MHexRe => true
  | MVal x, MVal y | MValNe x, MValNe y | MValSubstr x, MValSubstr y | MValStarts x, MValStarts y | MNorm x, MNorm y => eqs x y
  | MValIn x, MValIn y | MNormIn x, MNormIn y => ls_eqb x y
  | _, _ => false
  end.
Lemma atom_eqb_spec a b : atom_eqb a b = true -> a = b.
Proof.
  destruct a, b; cbn; intros H; try discriminate; try reflexivity;
    try (apply eqs_spec in H; rewrite H; reflexivity); apply ls_eqb_spec in H; rewrite H; reflexivity.
Qed.
Definition facts := list (mcode * bool).
Fixpoint orc (fs : facts) (m : mcode) : option bool :=
  match fs with [] => None | (a, b) :: r => if atom_eqb a m then Some b else orc r m end.
Definition facts_ok (fs : facts) (t v : str) : Prop := Forall (fun ab => meval (fst ab) t v = snd ab) fs.
Lemma orc_ok fs t v m b : facts_ok fs t v -> orc fs m = Some b -> meval m t v = b.
Proof.
  intros Hf. induction Hf as [|[a c] r H1 Hr IH]; cbn [orc]; [discriminate|].
  destruct (atom_eqb a m) eqn:E; [|exact IH]. apply atom_eqb_spec in E. subst m. intros H; inversion H; subst. exact H1.
Qed.

Definition and3 (a b : option bool) : option bool :=
  match a, b with Some false, _ | _, Some false => Some false | Some true, Some true => Some true | _, _ => None end.
Definition or3 (a b : option bool) : option bool :=
  match a, b with Some true, _ | _, Some true => Some true | Some false, Some false => Some false | _, _ => None end.
Fixpoint mev3 (fs : facts) (t : str) (m : mcode) : option bool :=
  match m with
  | MTrue => Some true | MFalse => Some false
  | MTy x => Some (eqs t x)
  | MTyIn l => Some (mem_s t l)
  | MAnd a b => and3 (mev3 fs t a) (mev3 fs t b)
  | MOr a b => or3 (mev3 fs t a) (mev3 fs t b)
  | _ => orc fs m
  end.
Lemma mev3_ok fs t v : facts_ok fs t v -> forall m b, mev3 fs t m = Some b -> meval m t v = b.
Proof.
  intros Hf. induction m as [| | | | | | | | | | | |a IHa c IHc|a IHa c IHc]; intros b H; cbn [mev3] in H;
    try (inversion H; reflexivity); try (exact (orc_ok _ _ _ _ _ Hf H)).
  - cbn [meval]. destruct (mev3 fs t a) as [[|]|], (mev3 fs t c) as [[|]|]; cbn in H; inversion H; subst;
      try rewrite (IHa _ eq_refl); try rewrite (IHc _ eq_refl); try reflexivity; apply andb_false_r.
  - cbn [meval]. destruct (mev3 fs t a) as [[|]|], (mev3 fs t c) as [[|]|]; cbn in H; inversion H; subst;
      try rewrite (IHa _ eq_refl); try rewrite (IHc _ eq_refl); try reflexivity; apply orb_true_r.
Qed.

Fixpoint tm3 (fs : facts) (t : str) (tr : ptree) : option bool :=
  match tr with
  | PProd p => mev3 fs t (p_match p)
  | PSeq ps _ _ =>
      (fix go (l : list ptree) : option bool :=
         match l with
         | [] => Some false
         | c :: r => match tm3 fs t c with
                     | Some true => Some true
                     | Some false => if topt c then go r else Some false
                     | None => None
                     end
         end) ps
  | PCho ps _ =>
      (fix go (l : list ptree) : option bool :=
         match l with
         | [] => Some false
         | c :: r => match tm3 fs t c with Some true => Some true | Some false => go r | None => None end
         end) ps
  end.
Lemma tm3_ok fs tk : facts_ok fs (ty tk) (val tk) -> forall tr b, tm3 fs (ty tk) tr = Some b -> tmatches tr (Some tk) = b.
Proof.
  intros Hf. fix F 1. intros tr. destruct tr as [p|ps lo hi|ps o]; intros b H.
  - cbn [tm3] in H. cbn [tmatches tok_matches]. exact (mev3_ok _ _ _ Hf _ _ H).
  - rewrite tmatches_seq_scan. cbn [tm3] in H. revert b H. induction ps as [|c r IH]; intros b H; [inversion H; reflexivity|].
    cbn [seq_scan]. destruct (tm3 fs (ty tk) c) as [[|]|] eqn:E; [| |discriminate].
    + rewrite (F c _ E). inversion H; reflexivity.
    + rewrite (F c _ E). destruct (topt c); [exact (IH _ H)|inversion H; reflexivity].
  - rewrite tmatches_cho. cbn [tm3] in H. revert b H. induction ps as [|c r IH]; intros b H; [inversion H; reflexivity|].
    cbn [existsb]. destruct (tm3 fs (ty tk) c) as [[|]|] eqn:E; [| |discriminate].
    + rewrite (F c _ E). inversion H; reflexivity.
    + rewrite (F c _ E). exact (IH _ H).
Qed.

Fixpoint scan3 (fs : facts) (t : str) (ps : list ptree) : option ptree :=
  match ps with
  | [] => None
  | c :: r => match tm3 fs t c with Some true => Some c | Some false => scan3 fs t r | None => None end
  end.
Lemma scan3_ok fs tk : facts_ok fs (ty tk) (val tk) -> forall ps c a, scan3 fs (ty tk) ps = Some c ->
  exists a', cho_scan ps (Some tk) a = (Some c, a').
Proof.
  intros Hf. induction ps as [|x r IH]; intros c a H; [discriminate|]. cbn [scan3] in H. cbn [cho_scan].
  destruct (tm3 fs (ty tk) x) as [[|]|] eqn:E; [| |discriminate]; rewrite (tm3_ok _ _ Hf _ _ E).
  - inversion H; subst. eauto.
  - apply IH. exact H.
Qed.


(* ================================================================== Stage 2: PropertyValue *)
Definition subR (d : nat) : nat -> bool -> tok -> list tok -> out := fun g a t l => pparse_sub d env_real g a (Some t) l.
Definition postR := postof_env env_real.
Lemma subR_ok d : sub_ok (subR d). Proof. exact (pparse_sub_ok d env_real). Qed.
Lemma pparse_sub_S d g gr anc first toks :
  nth_error env_real g = Some gr ->
  pparse_sub (S d) env_real g anc first toks =
  parse_tree (subR d) postR true (g_opts gr) (g_tree gr) anc first toks stash0.
Proof. intros H. cbn [pparse_sub]. rewrite H. reflexivity. Qed.

(* ---- "process prod" for the three kinds of productions of the value grammars *)
Section Proc.
  Variable sub : nat -> bool -> tok -> list tok -> out.
  Variable postof : nat -> option postcode.

  (* a production with a plain toSeq callback and `stop` *)
  Lemma process_plain_stop p t st ty' v' :
    p_stopkeep p = false -> aplain (p_toseq p) t = Some (ty', v') -> p_store p = None -> p_stop p = true ->
    process sub postof p t st = LBreak (add_item st (IStr ty' v')).
  Proof.
    intros H1 H2 H3 H4. unfold process, do_store. rewrite H1, H3, H4.
    destruct (p_toseq p); cbn [aplain] in H2; try discriminate; cbn [aplain]; rewrite ?H2;
      try (inversion H2; subst); destruct st; reflexivity.
  Qed.
  (* a plain production that continues (defaultS back to True) *)
  Lemma process_plain_cont p t st ty' v' :
    p_stopkeep p = false -> aplain (p_toseq p) t = Some (ty', v') -> p_store p = None -> p_stop p = false -> p_nextsor p = false ->
    process sub postof p t st = LCont (set_defaultS (add_item st (IStr ty' v')) true).
  Proof.
    intros H1 H2 H3 H4 H5. unfold process, do_store. rewrite H1, H3, H4, H5.
    destruct (p_toseq p); cbn [aplain] in H2; try discriminate; cbn [aplain]; rewrite ?H2;
      try (inversion H2; subst); destruct st; reflexivity.
  Qed.
  (* toSeq=False *)
  Lemma process_false p t st :
    p_stopkeep p = false -> p_toseq p = AFalse -> p_stop p = false -> p_nextsor p = false ->
    process sub postof p t st = LCont (set_defaultS st true).
  Proof. intros H1 H2 H3 H4. unfold process. rewrite H1, H2, H3, H4. reflexivity. Qed.
  (* a sub-parser production *)
  Lemma process_sub p t lbl g stk seq sto wf started stopall dS stopnm afterS strict keep anc l sh r pc w its mt :
    p_stopkeep p = false -> p_toseq p = ASub lbl g -> p_store p = None -> p_stop p = false ->
    sub g anc t l = Ret r -> postof g = Some pc -> post pc r = PRet w its mt ->
    process sub postof p t (mkLs stk seq sto wf started stopall dS stopnm afterS strict keep SOff anc l sh) =
    LCont (mkLs stk (IObj (match lbl with Some x => x | None => ty t end) g w its mt :: seq) sto wf started stopall
                (negb (p_nextsor p)) stopnm afterS strict keep (if p_nextsor p then SOn else SOff) (anc && r_anc r) (r_rest r) (r_stash r)).
  Proof.
    intros H1 H2 H3 H4 H5 H6 H7. unfold process, do_store. rewrite H1, H2, H3, H4.
    cbn [l_anc l_own l_rest orb]. rewrite orb_false_r, H5, H6, H7. cbn. destruct (p_nextsor p); reflexivity.
  Qed.
End Proc.

(* ---- a leaf sub-parser: the first token selects a `stop` production with a plain callback *)
Lemma leaf_parse D g gr f0 anc t0 l p stk' ty' v' :
  nth_error env_real g = Some gr -> o_checkS (g_opts gr) = false ->
  enter (g_tree gr) = Some f0 -> plain_ty (ty t0) -> isS t0 = false ->
  find (find_fuel [f0]) [f0] t0 = FFound p stk' ->
  p_stopkeep p = false -> aplain (p_toseq p) t0 = Some (ty', v') -> p_store p = None -> p_stop p = true ->
  final stk' (negb (p_mayend p)) true = FinOk true -> eqs ty' (s "S") = false ->
  pparse_sub (S D) env_real g anc (Some t0) l = Ret (mkRes true [IStr ty' v'] [] false None SOff anc l stash0).
Proof.
  intros Hg Hck He Hpl HS Hf H1 H2 H3 H4 Hfin Hty.
  rewrite (pparse_sub_S D g gr anc _ l Hg).
  eapply runs_parse; [apply subR_ok|unfold init_state; rewrite He; reflexivity|].
  eapply runs_break; [reflexivity| |].
  - rewrite body_find; [|exact Hck|exact Hpl|cbn [l_defaultS set_stream]; rewrite HS; apply andb_false_r].
    cbn [l_stack set_stream]. rewrite Hf. rewrite (process_plain_stop _ _ _ _ _ _ _ H1 H2 H3 H4). reflexivity.
  - unfold finish. cbn [l_stopall add_item set_found set_started set_stream l_stack l_strict l_wf l_seq]. rewrite Hfin.
    cbn [rstripS item_ty]. rewrite Hty, andb_false_r. reflexivity.
Qed.

Lemma find_cho_root f ps oo t p a : cho_scan ps (Some t) false = (Some (PProd p), a) ->
  find (S f) [FCho ps oo false] t = FFound p [FCho ps oo true].
Proof. intros H. apply find_nprod. cbn [next]. rewrite H. reflexivity. Qed.

Definition plain_act (a : acode) : bool :=
  match a with ADefault | ANorm | ALower | AStrVal | AUriVal | AConstTy _ => true | _ => false end.

(* grammar = Choice(stop productions ...) : Value, ColorValue *)
Lemma leaf_parse_cho D g gr ps oo fs anc t0 l p ty' v' :
  nth_error env_real g = Some gr -> o_checkS (g_opts gr) = false -> g_tree gr = PCho ps oo ->
  plain_ty (ty t0) -> isS t0 = false -> facts_ok fs (ty t0) (val t0) -> scan3 fs (ty t0) ps = Some (PProd p) ->
  p_stopkeep p = false -> aplain (p_toseq p) t0 = Some (ty', v') -> p_store p = None -> p_stop p = true ->
  eqs ty' (s "S") = false ->
  pparse_sub (S D) env_real g anc (Some t0) l = Ret (mkRes true [IStr ty' v'] [] false None SOff anc l stash0).
Proof.
  intros Hg Hck Ht Hpl HS Hfs Hsc H1 H2 H3 H4 Hty.
  destruct (scan3_ok fs t0 Hfs ps _ false Hsc) as [a Ha].
  eapply (leaf_parse D g gr (FCho ps (topt (PCho ps oo)) false) anc t0 l p [FCho ps (topt (PCho ps oo)) true]); eauto.
  - rewrite Ht. reflexivity.
  - unfold find_fuel. cbn [length Nat.add]. eapply find_cho_root. exact Ha.
Qed.

(* grammar = Sequence(Choice(stop productions ...)) : DimensionValue *)
Lemma leaf_parse_seqcho D g gr ps fs anc t0 l p ty' v' :
  nth_error env_real g = Some gr -> o_checkS (g_opts gr) = false -> g_tree gr = PSeq [PCho ps None] 1 (Some 1) ->
  plain_ty (ty t0) -> isS t0 = false -> facts_ok fs (ty t0) (val t0) -> scan3 fs (ty t0) ps = Some (PProd p) ->
  p_stopkeep p = false -> aplain (p_toseq p) t0 = Some (ty', v') -> p_store p = None -> p_stop p = true ->
  eqs ty' (s "S") = false ->
  pparse_sub (S D) env_real g anc (Some t0) l = Ret (mkRes true [IStr ty' v'] [] false None SOff anc l stash0).
Proof.
  intros Hg Hck Ht Hpl HS Hfs Hsc H1 H2 H3 H4 Hty.
  destruct (scan3_ok fs t0 Hfs ps _ false Hsc) as [a Ha].
  destruct (cho_scan_found _ _ _ _ _ Ha) as [HT _].
  eapply (leaf_parse D g gr (FSeq [PCho ps None] 1 (Some 1) 0 0 false) anc t0 l p
            [FCho ps (topt (PCho ps None)) true; FSeq [PCho ps None] 1 (Some 1) 0 1 true]); eauto.
  - rewrite Ht. reflexivity.
  - unfold find_fuel. cbn [length Nat.add].
    rewrite (find_nest _ _ _ _ (PCho ps None) (FSeq [PCho ps None] 1 (Some 1) 0 1 true) (FCho ps (topt (PCho ps None)) false));
      [|cbn [next seq_loop length nth_error below Nat.ltb Nat.leb Nat.eqb]; rewrite HT; reflexivity|reflexivity].
    apply find_nprod. cbn [next]. rewrite Ha. reflexivity.
Qed.

(* grammar = Sequence(stop production) : URIValue *)
Lemma leaf_parse_seqprod D g gr fs anc t0 l p ty' v' :
  nth_error env_real g = Some gr -> o_checkS (g_opts gr) = false -> g_tree gr = PSeq [PProd p] 1 (Some 1) ->
  plain_ty (ty t0) -> isS t0 = false -> facts_ok fs (ty t0) (val t0) -> mev3 fs (ty t0) (p_match p) = Some true ->
  p_stopkeep p = false -> aplain (p_toseq p) t0 = Some (ty', v') -> p_store p = None -> p_stop p = true ->
  eqs ty' (s "S") = false ->
  pparse_sub (S D) env_real g anc (Some t0) l = Ret (mkRes true [IStr ty' v'] [] false None SOff anc l stash0).
Proof.
  intros Hg Hck Ht Hpl HS Hfs Hsc H1 H2 H3 H4 Hty.
  pose proof (mev3_ok _ _ _ Hfs _ _ Hsc) as Hm.
  eapply (leaf_parse D g gr (FSeq [PProd p] 1 (Some 1) 0 0 false) anc t0 l p [FSeq [PProd p] 1 (Some 1) 0 1 true]); eauto.
  - rewrite Ht. reflexivity.
  - unfold find_fuel. cbn [length Nat.add]. apply find_nprod.
    cbn [next seq_loop length nth_error below Nat.ltb Nat.leb Nat.eqb tmatches tok_matches]. rewrite Hm. reflexivity.
Qed.

Definition leaf_res (it : item) (anc : bool) (l : list tok) : result := mkRes true [it] [] false None SOff anc l stash0.

Ltac leaf_tac L g ffs tt Hfacts Hap :=
  eapply (L _ g) with (fs := ffs) (t0 := tt);
    [reflexivity|reflexivity|reflexivity|repeat split; reflexivity|reflexivity|Hfacts|vm_compute; reflexivity|reflexivity
    |Hap|reflexivity|reflexivity|reflexivity].

Lemma leaf4_ident D anc v l :
  pparse_sub (S D) env_real 4 anc (Some (T "IDENT" v)) l = Ret (leaf_res (IStr (s "IDENT") v) anc l).
Proof. leaf_tac leaf_parse_cho 4 (@nil (mcode * bool)) (T "IDENT" v) ltac:(constructor) ltac:(reflexivity). Qed.
Lemma leaf4_urange D anc v l :
  pparse_sub (S D) env_real 4 anc (Some (T "UNICODE-RANGE" v)) l = Ret (leaf_res (IStr (s "UNICODE-RANGE") (lower v)) anc l).
Proof. leaf_tac leaf_parse_cho 4 (@nil (mcode * bool)) (T "UNICODE-RANGE" v) ltac:(constructor) ltac:(reflexivity). Qed.
Lemma leaf4_string D anc v x l : stringvalue v = Some x ->
  pparse_sub (S D) env_real 4 anc (Some (T "STRING" v)) l = Ret (leaf_res (IStr (s "STRING") x) anc l).
Proof.
  intros Hx. leaf_tac leaf_parse_cho 4 (@nil (mcode * bool)) (T "STRING" v) ltac:(constructor)
    ltac:(cbn [aplain p_toseq val T]; rewrite Hx; reflexivity).
Qed.
Lemma leaf5_hash D anc v l : hexcolor_re v = true ->
  pparse_sub (S D) env_real 5 anc (Some (T "HASH" v)) l = Ret (leaf_res (IStr (s "HASH") v) anc l).
Proof.
  intros Hx. leaf_tac leaf_parse_cho 5 [(MHexRe, true)] (T "HASH" v) ltac:(repeat constructor; exact Hx) ltac:(reflexivity).
Qed.
Lemma leaf5_ident D anc v l : mem_s (normalize v) color_keys = true ->
  pparse_sub (S D) env_real 5 anc (Some (T "IDENT" v)) l = Ret (leaf_res (IStr (s "IDENT") v) anc l).
Proof.
  intros Hx. leaf_tac leaf_parse_cho 5 [(MNormIn color_keys, true)] (T "IDENT" v) ltac:(repeat constructor; exact Hx) ltac:(reflexivity).
Qed.
Lemma leaf6_number D anc v l :
  pparse_sub (S D) env_real 6 anc (Some (T "NUMBER" v)) l = Ret (leaf_res (IStr (s "NUMBER") v) anc l).
Proof. leaf_tac leaf_parse_seqcho 6 (@nil (mcode * bool)) (T "NUMBER" v) ltac:(constructor) ltac:(reflexivity). Qed.
Lemma leaf6_percentage D anc v l :
  pparse_sub (S D) env_real 6 anc (Some (T "PERCENTAGE" v)) l = Ret (leaf_res (IStr (s "PERCENTAGE") v) anc l).
Proof. leaf_tac leaf_parse_seqcho 6 (@nil (mcode * bool)) (T "PERCENTAGE" v) ltac:(constructor) ltac:(reflexivity). Qed.
Lemma leaf6_dimension D anc v l :
  pparse_sub (S D) env_real 6 anc (Some (T "DIMENSION" v)) l = Ret (leaf_res (IStr (s "DIMENSION") (normalize v)) anc l).
Proof. leaf_tac leaf_parse_seqcho 6 (@nil (mcode * bool)) (T "DIMENSION" v) ltac:(constructor) ltac:(reflexivity). Qed.
Lemma leaf7_uri D anc v x l : urivalue v = Some x ->
  pparse_sub (S D) env_real 7 anc (Some (T "URI" v)) l = Ret (leaf_res (IStr (s "URI") x) anc l).
Proof.
  intros Hx. leaf_tac leaf_parse_seqprod 7 (@nil (mcode * bool)) (T "URI" v) ltac:(constructor)
    ltac:(cbn [aplain p_toseq val T]; rewrite Hx; reflexivity).
Qed.


(* ---- tree_PropertyValue is an instance of the PVStacks shape *)
Definition pv_ts : list ptree := match tree_PropertyValue with PSeq (PCho l _ :: _) _ _ => l | _ => [] end.
Definition pv_ops : list ptree := match tree_PropertyValue with PSeq [_; PSeq (PCho l _ :: _) _ _] _ _ => l | _ => [] end.
Definition pv_pe : prod :=
  match tree_PropertyValue with
  | PSeq [_; PSeq [_; PProd p; _] _ _] _ _ => p
  | _ => mkProd [] MFalse true AFalse None false false false false false false
  end.
Lemma pv_tree : tree_PropertyValue = Top pv_ts pv_ops pv_pe.
Proof. reflexivity. Qed.
Lemma pv_pe_opt : p_opt pv_pe = true. Proof. reflexivity. Qed.
Lemma pv_ot : topt (ChoT pv_ts) = false. Proof. reflexivity. Qed.
Lemma pv_init toks : init_state tree_PropertyValue false None toks stash0 =
  Some (mkLs (stS0 pv_ts pv_ops pv_pe) [] [] true false false true false false false None SOff false toks stash0).
Proof. reflexivity. Qed.
Definition pv_p (i : nat) : prod := match nth_error pv_ts i with Some (PProd p) => p | _ => pv_pe end.
Definition pv_o (i : nat) : prod := match nth_error pv_ops i with Some (PProd p) => p | _ => pv_pe end.

(* every term production of PropertyValue: sub-parser, no store, no stop, nextSor, mayEnd unset *)
Lemma pv_p_flags i : i < 8 ->
  p_stopkeep (pv_p i) = false /\ p_store (pv_p i) = None /\ p_stop (pv_p i) = false /\ p_nextsor (pv_p i) = true /\
  p_mayend (pv_p i) = false /\ p_stopnm (pv_p i) = false /\ exists lbl g, p_toseq (pv_p i) = ASub (Some lbl) g.
Proof.
  intros H. do 8 (destruct i as [|i]; [repeat split; eexists; eexists; reflexivity|]). lia.
Qed.

(* ---- which production a token selects in the term Choice / the operator Choice (token type + facts about the value) *)
Definition okv (v : str) : Prop :=
  eqs v (s ",") = false /\ eqs v (s "/") = false /\ eqs v (s ";") = false.
Definition okv_facts : facts := [(MVal (s ","), false); (MVal (s "/"), false); (MVal (s ";"), false)].
Lemma okv_facts_ok t v : okv v -> facts_ok okv_facts t v.
Proof. intros [H1 [H2 H3]]. repeat constructor; assumption. Qed.

Lemma pv_class fs (tk : tok) i :
  facts_ok fs (ty tk) (val tk) ->
  tm3 fs (ty tk) (ChoOp pv_ops) = Some false -> mev3 fs (ty tk) (p_match pv_pe) = Some false ->
  scan3 fs (ty tk) pv_ts = Some (PProd (pv_p i)) ->
  tmatches (ChoOp pv_ops) (Some tk) = false /\ tok_matches pv_pe (Some tk) = false /\
  exists a, cho_scan pv_ts (Some tk) false = (Some (PProd (pv_p i)), a).
Proof.
  intros Hf H1 H2 H3. split; [exact (tm3_ok _ _ Hf _ _ H1)|]. split; [exact (mev3_ok _ _ _ Hf _ _ H2)|].
  exact (scan3_ok _ _ Hf _ _ false H3).
Qed.

(* the classes of the single-token terms *)
Lemma pv_class_number v : okv v -> let tk := T "NUMBER" v in
  tmatches (ChoOp pv_ops) (Some tk) = false /\ tok_matches pv_pe (Some tk) = false /\
  exists a, cho_scan pv_ts (Some tk) false = (Some (PProd (pv_p 1)), a).
Proof. intros H tk. apply (pv_class okv_facts tk 1 (okv_facts_ok _ _ H)); vm_compute; reflexivity. Qed.
Lemma pv_class_ident v : okv v -> mem_s (normalize v) color_keys = false -> let tk := T "IDENT" v in
  tmatches (ChoOp pv_ops) (Some tk) = false /\ tok_matches pv_pe (Some tk) = false /\
  exists a, cho_scan pv_ts (Some tk) false = (Some (PProd (pv_p 3)), a).
Proof.
  intros H Hc tk. apply (pv_class ((MNormIn color_keys, false) :: okv_facts) tk 3); [|vm_compute; reflexivity..].
  constructor; [exact Hc|exact (okv_facts_ok _ _ H)].
Qed.
Lemma pv_class_color_ident v : okv v -> mem_s (normalize v) color_keys = true -> let tk := T "IDENT" v in
  tmatches (ChoOp pv_ops) (Some tk) = false /\ tok_matches pv_pe (Some tk) = false /\
  exists a, cho_scan pv_ts (Some tk) false = (Some (PProd (pv_p 0)), a).
Proof.
  intros H Hc tk. apply (pv_class ((MNormIn color_keys, true) :: okv_facts) tk 0); [|vm_compute; reflexivity..].
  constructor; [exact Hc|exact (okv_facts_ok _ _ H)].
Qed.
Lemma pv_class_comma : cho_scan pv_ops (Some (ch ",")) false = (Some (PProd (pv_o 1)), false).
Proof. vm_compute. reflexivity. Qed.
Lemma pv_class_slash : cho_scan pv_ops (Some (ch "/")) false = (Some (PProd (pv_o 2)), true).
Proof. vm_compute. reflexivity. Qed.
Lemma pv_class_ws (a : tok) : isS a = true -> exists b, cho_scan pv_ops (Some a) false = (Some (PProd (pv_o 0)), b).
Proof.
  intros H. unfold isS in H. apply eqs_spec in H.
  apply (scan3_ok [] a); [constructor|]. rewrite H. vm_compute. reflexivity.
Qed.

(* ---- the whole grammar on a concrete rendered value (every separator, comments, a colour keyword, a hex colour,
   a string, a URI): accepted, well-formed, PostPV keeps all items *)
Definition ex_num := mkNum 0 (s "12") None.
Definition ex_decl := mkDecl (s "x") 0 1 (TmIdent (s "red"))
  [(SepSp 2, TmNum ex_num); (SepComma 3 4, TmDim ex_num (s "px")); (SepSlash 5 6, TmHex (s "abc"));
   (SepSp 7, TmStr 8 (s "ab")); (SepSp 9, TmUrl 10 (s "u"))] 11 None.
Definition ex_lay : layout := [0;1;2;3;4;5;6;7;8;9;10;11;12].
Example ex_value_accepts :
  exists r, pparse_env 3 env_real gid_PropertyValue (decl_value ex_lay ex_decl (gopt ex_lay 12)) = Ret r /\
            r_wf r = true /\ post PostPV r = PRet true (r_items r) [] /\ length (r_items r) = 16.
Proof. eexists. split; [vm_compute; reflexivity|]. repeat split; vm_compute; reflexivity. Qed.


(* ================================================================== Stage 2: gaps *)
Ltac simpl_st :=
  unfold set_stream, set_stash, set_afterS, add_item, set_store, set_wf, set_stopall, set_started, set_found, set_stack,
         set_defaultS, set_keep;
  cbn [l_stack l_seq l_store l_wf l_started l_stopall l_defaultS l_stopnm l_afterS l_strict l_keep l_own l_anc l_rest l_stash].

(* a gap token: whitespace, or a comment (whose text is not one of the _SorTokens `until` strings) *)
Definition gtok (t : tok) : Prop := isS t = true \/ (isS t = false /\ isC t = true /\ is_sub (val t) until = false).
Definition gapT (g : list tok) : Prop := Forall gtok g.
Definition cmt (t : tok) : item := IStr (s "CSSComment") (val t).
(* the (reversed) item sequence after a gap: its comments are appended *)
Fixpoint gitems (g : list tok) (seq : list item) : list item :=
  match g with [] => seq | t :: r => gitems r (if isS t then seq else cmt t :: seq) end.

Lemma isS_ty t : isS t = true -> ty t = s "S". Proof. unfold isS. apply eqs_spec. Qed.
Lemma isS_notC t : isS t = true -> isC t = false.
Proof. intros H. unfold isC. rewrite (isS_ty t H). reflexivity. Qed.
Lemma isS_plain t : isS t = true -> plain_ty (ty t).
Proof. intros H. rewrite (isS_ty t H). repeat split; reflexivity. Qed.

Lemma gopt_gap lay g : gapT (gopt lay g).
Proof.
  unfold gopt, gap_opt. destruct (Nat.modulo (lk lay g) 7) as [|[|[|[|[|[|n]]]]]];
    repeat constructor; (left; reflexivity) || (right; repeat split; reflexivity).
Qed.
Lemma greq_gap lay g : gapT (greq lay g).
Proof.
  unfold greq, gap_req. destruct (Nat.modulo (lk lay g) 5) as [|[|[|[|n]]]];
    repeat constructor; (left; reflexivity) || (right; repeat split; reflexivity).
Qed.

Lemma dropS_app g x R : gapT g -> isS x = false -> dropS (g ++ x :: R) = dropS g ++ x :: R.
Proof.
  intros Hg Hx. induction Hg as [|a g Ha Hg IH]; cbn [app dropS]; [rewrite Hx; reflexivity|].
  destruct Ha as [Ha|[Ha _]]; rewrite Ha; [exact IH|reflexivity].
Qed.
Lemma dropS_spec g : gapT g ->
  (dropS g = [] /\ forall seq, gitems g seq = seq) \/
  (exists c g3, dropS g = c :: g3 /\ isS c = false /\ isC c = true /\ is_sub (val c) until = false /\ gapT g3 /\
                length g3 < length g /\ forall seq, gitems g seq = gitems g3 (cmt c :: seq)).
Proof.
  intros Hg. induction Hg as [|a g Ha Hg IH]; [left; split; reflexivity|].
  cbn [dropS gitems length]. destruct Ha as [Ha|[Ha [Hc Hu]]]; rewrite Ha.
  - destruct IH as [[H1 H2]|[c [g3 [H1 [H2 [H3 [H4 [H5 [H6 H7]]]]]]]]]; [left; auto|].
    right. exists c, g3. repeat split; auto.
  - right. exists a, g. repeat split; auto.
Qed.

Lemma sorC a r : isS a = false -> isC a = true -> sor_raw (a :: r) = Some (a, true, None, r).
Proof. intros H1 H2. cbn [sor_raw]. rewrite H1, H2. reflexivity. Qed.
Lemma sorT a r : isS a = false -> isC a = false -> sor_raw (a :: r) = Some (a, false, None, r).
Proof. intros H1 H2. cbn [sor_raw]. rewrite H1, H2. reflexivity. Qed.
Lemma sorS a r : isS a = true ->
  sor_raw (a :: r) = match dropS r with
                     | [] => Some (a, false, None, [])
                     | n :: r' => if is_sub (val n) until then Some (n, false, None, r')
                                  else if isC n then Some (n, true, None, r') else Some (a, false, Some n, r')
                     end.
Proof. intros H1. cbn [sor_raw]. rewrite H1. reflexivity. Qed.

Lemma pull_on stk seq sto wf started stopall dS stopnm afterS strict keep L t on pend l' :
  sor_raw L = Some (t, on, pend, l') ->
  pull (mkLs stk seq sto wf started stopall dS stopnm afterS strict keep SOn false L stash0) =
  Some (t, mkLs stk seq sto wf started stopall dS stopnm afterS strict keep
                (match pend with Some x => SPend x | None => if on then SOn else SOff end) false l' stash0).
Proof. intros H. unfold pull. cbn [l_stash saved stash0 l_own l_anc l_rest spull]. rewrite H. reflexivity. Qed.
Lemma pull_on_end stk seq sto wf started stopall dS stopnm afterS strict keep :
  pull (mkLs stk seq sto wf started stopall dS stopnm afterS strict keep SOn false [] stash0) = None.
Proof. reflexivity. Qed.

Section Gaps.
  Variable sub : nat -> bool -> tok -> list tok -> out.
  Variable postof : nat -> option postcode.
  Notation RUN := (runs opts0 sub postof).

  (* (G1) own = SOff, defaultS = True: whitespace is dropped, comments are appended *)
  Lemma gap_off g : gapT g -> forall stk seq sto wf started stopall stopnm afterS strict keep R r,
    RUN (mkLs stk (gitems g seq) sto wf started stopall true stopnm afterS strict keep SOff false R stash0) r ->
    RUN (mkLs stk seq sto wf started stopall true stopnm afterS strict keep SOff false (g ++ R) stash0) r.
  Proof.
    intros Hg. induction Hg as [|a g Ha Hg IH]; intros stk seq sto wf started stopall stopnm afterS strict keep R r H; [exact H|].
    cbn [app gitems] in *. destruct Ha as [Ha|[Ha [Hc _]]]; rewrite Ha in H.
    - eapply runs_cont; [reflexivity|rewrite body_skipS; [reflexivity|reflexivity|reflexivity|exact Ha|reflexivity]|].
      simpl_st. apply IH. exact H.
    - eapply runs_cont; [reflexivity|rewrite body_comment; [reflexivity|reflexivity|exact Hc]|].
      simpl_st. apply IH. exact H.
  Qed.

  (* (G2) own = SOn: a gap before `,` or `/`: whitespace is dropped, comments are appended, then the token itself *)
  Lemma gap_on_until x : isS x = false -> isC x = false -> is_sub (val x) until = true ->
    forall n g, length g <= n -> gapT g -> forall stk seq sto wf started stopall dS stopnm afterS strict keep R r st2,
    body opts0 sub postof x (mkLs stk (gitems g seq) sto wf started stopall dS stopnm afterS strict keep SOff false R stash0) = LCont st2 ->
    RUN st2 r ->
    RUN (mkLs stk seq sto wf started stopall dS stopnm afterS strict keep SOn false (g ++ x :: R) stash0) r.
  Proof.
    intros Hx1 Hx2 Hx3. induction n as [|n IH]; intros g Hn Hg stk seq sto wf started stopall dS stopnm afterS strict keep R r st2 Hb Hr.
    - destruct g; [|cbn in Hn; lia]. cbn [app gitems] in *.
      eapply runs_cont; [apply pull_on, sorT; assumption|exact Hb|exact Hr].
    - destruct g as [|a g]; [cbn [app gitems] in *; eapply runs_cont; [apply pull_on, sorT; assumption|exact Hb|exact Hr]|].
      inversion Hg as [|? ? Ha Hg']; subst. cbn [length] in Hn. cbn [app gitems] in *.
      destruct Ha as [Ha|[Ha [Hc Hu]]]; rewrite Ha in *.
      + (* whitespace: look at the next non-S token *)
        pose proof (sorS a (g ++ x :: R) Ha) as Hs. rewrite (dropS_app g x R Hg' Hx1) in Hs.
        destruct (dropS_spec g Hg') as [[H1 H2]|[c [g3 [H1 [H2 [H3 [H4 [H5 [H6 H7]]]]]]]]]; rewrite H1 in Hs; cbn [app] in Hs.
        * rewrite Hx3 in Hs. rewrite H2 in Hb.
          eapply runs_cont; [apply pull_on; exact Hs|exact Hb|exact Hr].
        * rewrite H4, H3 in Hs. rewrite H7 in Hb.
          eapply runs_cont; [apply pull_on; exact Hs|rewrite body_comment; [reflexivity|reflexivity|exact H3]|].
          simpl_st. eapply (IH g3); [lia|exact H5|exact Hb|exact Hr].
      + eapply runs_cont; [apply pull_on, sorC; assumption|rewrite body_comment; [reflexivity|reflexivity|exact Hc]|].
        simpl_st. eapply (IH g); [lia|exact Hg'|exact Hb|exact Hr].
  Qed.
End Gaps.


(* ================================================================== Stage 2: the PropertyValue loop *)
Section PV.
  Variable D : nat.
  Notation RUN := (runs opts0 (subR D) postR).
  Notation S0 := (stS0 pv_ts pv_ops pv_pe).
  Notation A0 := (stA0 pv_ts pv_ops pv_pe).
  Notation A := (stA pv_ts pv_ops pv_pe).
  Notation B := (stB pv_ts pv_ops pv_pe).

  (* after a term: the term productions carry nextSor, so own = SOn and defaultS = False *)
  Definition PVon (stk : list frame) (seq : list item) (rest : list tok) : lstate :=
    mkLs stk seq [] true true false false false false true None SOn false rest stash0.
  Definition PVoff (stk : list frame) (seq : list item) (started dS strict : bool) (rest : list tok) : lstate :=
    mkLs stk seq [] true started false dS false false strict None SOff false rest stash0.

  Inductive isA : list frame -> nat -> Prop := IA0 : isA A0 0 | IAk k : isA (A k) k.
  Inductive term_trans : list frame -> list frame -> Prop :=
  | TT_S0 : term_trans S0 A0
  | TT_A stk k : isA stk k -> term_trans stk (A (S k))
  | TT_B k : term_trans (B k) (A (S k)).

  (* what the loop needs to know about the first token of a term ... *)
  Definition term_head (t0 : tok) (i : nat) : Prop :=
    plain_ty (ty t0) /\ isS t0 = false /\ is_sub (val t0) until = false /\
    tmatches (ChoOp pv_ops) (Some t0) = false /\ tok_matches pv_pe (Some t0) = false /\
    (exists a, cho_scan pv_ts (Some t0) false = (Some (PProd (pv_p i)), a)) /\ i < 8.
  (* ... and about the sub-parser the selected production starts on pushtoken(t0, ts ++ R) *)
  Definition term_sub (t0 : tok) (ts : list tok) (i : nat) (obj : item) : Prop :=
    exists lbl g its pc,
      p_toseq (pv_p i) = ASub (Some lbl) g /\ obj = IObj lbl g true its [] /\ postR g = Some pc /\
      forall R, exists r, subR D g false t0 (ts ++ R) = Ret r /\ r_rest r = R /\ r_stash r = stash0 /\
                          post pc r = PRet true its [].

  Lemma isC_plain t : plain_ty (ty t) -> isC t = false. Proof. intros [H _]. exact H. Qed.

  Lemma find_term stk stk' t0 i : term_trans stk stk' -> term_head t0 i ->
    find (find_fuel stk) stk t0 = FFound (pv_p i) stk'.
  Proof.
    intros Ht [_ [_ [_ [Hop [He [[a Hc] _]]]]]]. destruct Ht as [|stk k0 [|k]|k].
    - exact (find_S0_term pv_ts pv_ops pv_pe pv_ot _ _ _ Hc _).
    - exact (find_A0_term pv_ts pv_ops pv_pe pv_pe_opt pv_ot _ _ _ Hop He Hc _).
    - exact (find_A_term pv_ts pv_ops pv_pe pv_pe_opt pv_ot _ _ _ Hop He Hc k _).
    - exact (find_B_term pv_ts pv_ops pv_pe pv_pe_opt pv_ot _ _ _ He Hc k _).
  Qed.
  Lemma find_op stk k x p a : isA stk k -> cho_scan pv_ops (Some x) false = (Some (PProd p), a) ->
    find (find_fuel stk) stk x = FFound p (B k).
  Proof.
    intros [|k'] Hc.
    - exact (find_A0_op pv_ts pv_ops pv_pe _ _ _ Hc _).
    - exact (find_A_op pv_ts pv_ops pv_pe _ _ _ Hc k' _).
  Qed.

  (* ---- one term: the body of the loop on its first token, the stream already advanced past it *)
  Lemma pv_term_body stk stk' t0 ts i obj seq started dS strict R :
    term_trans stk stk' -> term_head t0 i -> term_sub t0 ts i obj ->
    body opts0 (subR D) postR t0 (PVoff stk seq started dS strict (ts ++ R)) = LCont (PVon stk' (obj :: seq) R).
  Proof.
    intros Ht Hh [lbl [g [its [pc [Hto [Hobj [Hpc Hsub]]]]]]].
    pose proof Hh as [Hpl [HS [_ [_ [_ [_ Hi]]]]]].
    destruct (pv_p_flags i Hi) as [F1 [F2 [F3 [F4 [F5 [F6 _]]]]]].
    destruct (Hsub R) as [r [Hr [Hrest [Hst Hpost]]]].
    unfold PVoff. rewrite body_find; [|reflexivity|exact Hpl|cbn [l_defaultS]; rewrite HS; apply andb_false_r].
    cbn [l_stack]. rewrite (find_term stk stk' t0 i Ht Hh). simpl_st.
    rewrite (process_sub (subR D) postR (pv_p i) t0 (Some lbl) g _ _ _ _ _ _ _ _ _ _ _ _ _ _ r pc true its [] F1 Hto F2 F3 Hr Hpc Hpost).
    rewrite F4, F5, F6, Hrest, Hst, Hobj. reflexivity.
  Qed.

  (* ---- `,` and `/` *)
  Lemma pv_op_body stk k x seq R : isA stk k -> x = ch "," \/ x = ch "/" ->
    body opts0 (subR D) postR x (PVoff stk seq true false true R) =
    LCont (PVoff (B k) (IStr (s "operator") (val x) :: seq) true true true R).
  Proof.
    intros HA [->| ->]; unfold PVoff; (rewrite body_find; [|reflexivity|repeat split; reflexivity|reflexivity]); cbn [l_stack].
    - rewrite (find_op stk k _ _ _ HA pv_class_comma). simpl_st.
      rewrite (process_plain_cont _ _ (pv_o 1) (ch ",") _ (s "operator") (s ",") eq_refl eq_refl eq_refl eq_refl eq_refl). reflexivity.
    - rewrite (find_op stk k _ _ _ HA pv_class_slash). simpl_st.
      rewrite (process_plain_cont _ _ (pv_o 2) (ch "/") _ (s "operator") (s "/") eq_refl eq_refl eq_refl eq_refl eq_refl). reflexivity.
  Qed.
  (* ---- whitespace yielded by the _SorTokens filter: the `whitespace` operator, toSeq=False, mayEnd *)
  Lemma pv_ws_body stk k a seq own R : isA stk k -> isS a = true ->
    body opts0 (subR D) postR a (mkLs stk seq [] true true false false false false true None own false R stash0) =
    LCont (mkLs (B k) seq [] true true false true false false false None own false R stash0).
  Proof.
    intros HA Ha. destruct (pv_class_ws a Ha) as [b Hb].
    rewrite body_find; [|reflexivity|exact (isS_plain a Ha)|reflexivity]. cbn [l_stack].
    rewrite (find_op stk k _ _ _ HA Hb). simpl_st.
    rewrite (process_false _ _ (pv_o 0) a _ eq_refl eq_refl eq_refl eq_refl). reflexivity.
  Qed.

  (* (G3) own = SOn: a gap before a term.  Either the filter yields one S (then the term comes from its lookahead
     cell: stA -> stB -> stA) or the term follows a comment directly (stA -> stA); both end in the same state *)
  Lemma pv_gap_term t0 ts i obj : term_head t0 i -> term_sub t0 ts i obj ->
    forall n g, length g <= n -> gapT g -> forall stk k seq R r, isA stk k ->
    RUN (PVon (A (S k)) (obj :: gitems g seq) R) r -> RUN (PVon stk seq (g ++ t0 :: ts ++ R)) r.
  Proof.
    intros Hh Hs. pose proof Hh as [Hpl [HS [Hu _]]]. pose proof (isC_plain _ Hpl) as HC.
    assert (Hdirect : forall stk k seq R r, isA stk k ->
              RUN (PVon (A (S k)) (obj :: seq) R) r -> RUN (PVon stk seq (t0 :: ts ++ R)) r).
    { intros stk k seq R r HA H. eapply runs_cont; [apply pull_on, sorT; assumption| |exact H].
      exact (pv_term_body stk (A (S k)) t0 ts i obj seq true false true R (TT_A _ _ HA) Hh Hs). }
    induction n as [|n IH]; intros g Hn Hg stk k seq R r HA H.
    - destruct g; [|cbn in Hn; lia]. cbn [app gitems] in *. exact (Hdirect _ _ _ _ _ HA H).
    - destruct g as [|a g]; [cbn [app gitems] in *; exact (Hdirect _ _ _ _ _ HA H)|].
      inversion Hg as [|? ? Ha Hg']; subst. cbn [length] in Hn. cbn [app gitems] in *.
      destruct Ha as [Ha|[Ha [Hc Hcu]]]; rewrite Ha in *.
      + pose proof (sorS a (g ++ t0 :: ts ++ R) Ha) as Hsr. rewrite (dropS_app g t0 (ts ++ R) Hg' HS) in Hsr.
        destruct (dropS_spec g Hg') as [[H1 H2]|[c [g3 [H1 [H2 [H3 [H4 [H5 [H6 H7]]]]]]]]]; rewrite H1 in Hsr; cbn [app] in Hsr.
        * rewrite Hu, HC in Hsr. rewrite H2 in H.
          eapply runs_cont; [apply pull_on; exact Hsr|exact (pv_ws_body stk k a seq _ _ HA Ha)|].
          eapply runs_cont; [reflexivity| |exact H].
          exact (pv_term_body (B k) (A (S k)) t0 ts i obj seq true true false R (TT_B k) Hh Hs).
        * rewrite H4, H3 in Hsr. rewrite H7 in H.
          eapply runs_cont; [apply pull_on; exact Hsr|rewrite body_comment; [reflexivity|reflexivity|exact H3]|].
          simpl_st. eapply (IH g3); [lia|exact H5|exact HA|exact H].
      + eapply runs_cont; [apply pull_on, sorC; assumption|rewrite body_comment; [reflexivity|reflexivity|exact Hc]|].
        simpl_st. eapply (IH g); [lia|exact Hg'|exact HA|exact H].
  Qed.

  (* (G2') own = SOn: a gap, then `,` or `/` *)
  Lemma pv_gap_op x g stk k seq R r : x = ch "," \/ x = ch "/" -> gapT g -> isA stk k ->
    RUN (PVoff (B k) (IStr (s "operator") (val x) :: gitems g seq) true true true R) r ->
    RUN (PVon stk seq (g ++ x :: R)) r.
  Proof.
    intros Hx Hg HA H.
    eapply (gap_on_until (subR D) postR x); [..|exact (pv_op_body stk k x (gitems g seq) R HA Hx)|exact H];
      [destruct Hx as [->| ->]; reflexivity..|apply le_n|exact Hg].
  Qed.

  Lemma finish_pv stk seq dS strict own :
    final stk strict true = FinOk true -> seq <> [] ->
    finish opts0 (mkLs stk seq [] true true false dS false false strict None own false [] stash0) =
    Ret (mkRes true (rev (rstripS seq)) [] false None own false [] stash0).
  Proof. intros Hf Hne. unfold finish. simpl_st. rewrite Hf. destruct seq; [congruence|reflexivity]. Qed.

  Lemma final_isA stk k strict : isA stk k -> final stk strict true = FinOk true.
  Proof. intros [|k']; [apply final_A0|apply (final_A _ _ _ pv_pe_opt pv_ot)]. Qed.

  Lemma gitems_ne g : forall seq, seq <> [] -> gitems g seq <> [].
  Proof. induction g as [|a g IH]; intros seq H; cbn [gitems]; [exact H|]. apply IH. destruct (isS a); [exact H|discriminate]. Qed.

  (* (G4) own = SOn: the gap at the end of the value.  The parse ends after a term (stA, lastprod = the term) or after
     the `whitespace` operator (stB, mayEnd) *)
  Lemma pv_tail : forall n g, length g <= n -> gapT g -> forall stk k seq, isA stk k -> seq <> [] ->
    exists r, RUN (PVon stk seq g) r /\ r_wf r = true /\ r_items r = rev (rstripS (gitems g seq)).
  Proof.
    assert (Hend : forall stk k seq, isA stk k -> seq <> [] ->
              exists r, RUN (PVon stk seq []) r /\ r_wf r = true /\ r_items r = rev (rstripS seq)).
    { intros stk k seq HA Hne. eexists. split; [eapply runs_end; [apply pull_on_end|]; exact (finish_pv stk seq false true SOn (final_isA _ _ _ HA) Hne)|split; reflexivity]. }
    induction n as [|n IH]; intros g Hn Hg stk k seq HA Hne.
    - destruct g; [|cbn in Hn; lia]. exact (Hend _ _ _ HA Hne).
    - destruct g as [|a g]; [exact (Hend _ _ _ HA Hne)|].
      inversion Hg as [|? ? Ha Hg']; subst. cbn [length] in Hn. cbn [gitems].
      destruct Ha as [Ha|[Ha [Hc Hcu]]]; rewrite Ha.
      + pose proof (sorS a g Ha) as Hsr.
        destruct (dropS_spec g Hg') as [[H1 H2]|[c [g3 [H1 [H2 [H3 [H4 [H5 [H6 H7]]]]]]]]]; rewrite H1 in Hsr.
        * rewrite H2. eexists. split.
          { eapply runs_cont; [apply pull_on; exact Hsr|exact (pv_ws_body stk k a seq _ _ HA Ha)|].
            eapply runs_end; [reflexivity|].
            exact (finish_pv (B k) seq true false SOff (final_B _ _ _ pv_pe_opt pv_ot k true) Hne). }
          split; reflexivity.
        * rewrite H4, H3 in Hsr. rewrite H7.
          destruct (IH g3 ltac:(lia) H5 stk k (cmt c :: seq) HA ltac:(discriminate)) as [r [Hr [Hw Hi]]].
          exists r. split; [|split; assumption].
          eapply runs_cont; [apply pull_on; exact Hsr|rewrite body_comment; [reflexivity|reflexivity|exact H3]|].
          simpl_st. exact Hr.
      + destruct (IH g ltac:(lia) Hg' stk k (cmt a :: seq) HA ltac:(discriminate)) as [r [Hr [Hw Hi]]].
        exists r. split; [|split; assumption].
        eapply runs_cont; [apply pull_on, sorC; assumption|rewrite body_comment; [reflexivity|reflexivity|exact Hc]|].
        simpl_st. exact Hr.
  Qed.
End PV.


(* ================================================================== Stage 2: a whole value *)
Definition op_item (c : string) : item := IStr (s "operator") (s c).
(* the reversed item sequence after a separator *)
Definition sep_seq (lay : layout) (sp : sep) (seq : list item) : list item :=
  match sp with
  | SepSp g => gitems (greq lay g) seq
  | SepComma g1 g2 => gitems (gopt lay g2) (op_item "," :: gitems (gopt lay g1) seq)
  | SepSlash g1 g2 => gitems (gopt lay g2) (op_item "/" :: gitems (gopt lay g1) seq)
  end.

Section Value.
  Variable D : nat.
  Variable lay : layout.
  Variable tobj : term -> item.
  Notation RUN := (runs opts0 (subR D) postR).

  Definition tspec (t : term) : Prop :=
    exists t0 ts i, r_term lay t = t0 :: ts /\ term_head t0 i /\ term_sub D t0 ts i (tobj t).

  Fixpoint more_seq (more : list (sep * term)) (seq : list item) : list item :=
    match more with [] => seq | (sp, t) :: r => more_seq r (tobj t :: sep_seq lay sp seq) end.

  Lemma pv_sep_term sp t stk k seq R r : tspec t -> isA stk k ->
    RUN (PVon (stA pv_ts pv_ops pv_pe (S k)) (tobj t :: sep_seq lay sp seq) R) r ->
    RUN (PVon stk seq (r_sep lay sp ++ r_term lay t ++ R)) r.
  Proof.
    intros [t0 [ts [i [Hr [Hh Hs]]]]] HA H. rewrite Hr. cbn [app].
    assert (Hop : forall x g1 g2, x = ch "," \/ x = ch "/" ->
              RUN (PVon (stA pv_ts pv_ops pv_pe (S k))
                        (tobj t :: gitems (gopt lay g2) (IStr (s "operator") (val x) :: gitems (gopt lay g1) seq)) R) r ->
              RUN (PVon stk seq ((gopt lay g1 ++ x :: gopt lay g2) ++ t0 :: ts ++ R)) r).
    { intros x g1 g2 Hx H'. rewrite <- app_assoc. cbn [app].
      apply (pv_gap_op D x _ stk k seq _ r Hx (gopt_gap lay g1) HA). unfold PVoff.
      apply gap_off; [apply gopt_gap|]. eapply runs_cont; [reflexivity| |exact H'].
      exact (pv_term_body D _ _ t0 ts i (tobj t) _ true true true R (TT_B k) Hh Hs). }
    destruct sp as [g|g1 g2|g1 g2]; cbn [r_sep sep_seq] in *.
    - exact (pv_gap_term D t0 ts i (tobj t) Hh Hs _ _ (le_n _) (greq_gap lay g) stk k seq R r HA H).
    - apply Hop; [left; reflexivity|exact H].
    - apply Hop; [right; reflexivity|exact H].
  Qed.

  Lemma pv_more : forall more, Forall (fun p => tspec (snd p)) more -> forall stk k seq gx, isA stk k -> seq <> [] ->
    exists r, RUN (PVon stk seq (flat_map (fun p => r_sep lay (fst p) ++ r_term lay (snd p)) more ++ gopt lay gx)) r /\
              r_wf r = true /\ r_items r = rev (rstripS (gitems (gopt lay gx) (more_seq more seq))).
  Proof.
    intros more Hm. induction Hm as [|[sp t] more Ht Hm IH]; intros stk k seq gx HA Hne; cbn [flat_map more_seq app fst snd].
    - exact (pv_tail D _ _ (le_n _) (gopt_gap lay gx) stk k seq HA Hne).
    - destruct (IH _ (S k) (tobj t :: sep_seq lay sp seq) gx (IAk (S k)) ltac:(discriminate)) as [r [Hr [Hw Hi]]].
      exists r. split; [|split; assumption]. rewrite <- !app_assoc.
      exact (pv_sep_term sp t stk k seq _ r Ht HA Hr).
  Qed.

  (* the reversed item sequence of the whole value *)
  Definition value_seq (g2 : nat) (first : term) (more : list (sep * term)) (gx : nat) : list item :=
    gitems (gopt lay gx) (more_seq more (tobj first :: gitems (gopt lay g2) [])).

  Lemma value_run g2 first more gx : tspec first -> Forall (fun p => tspec (snd p)) more ->
    exists r, pparse_env (S D) env_real gid_PropertyValue
                (gopt lay g2 ++ (r_term lay first ++ flat_map (fun p => r_sep lay (fst p) ++ r_term lay (snd p)) more) ++ gopt lay gx) = Ret r /\
              r_wf r = true /\ r_items r = rev (rstripS (value_seq g2 first more gx)).
  Proof.
    intros [t0 [ts [i [Hr [Hh Hs]]]]] Hm.
    destruct (pv_more more Hm _ 0 (tobj first :: gitems (gopt lay g2) []) gx IA0 ltac:(discriminate)) as [r [Hrun [Hw Hi]]].
    exists r. split; [|split; assumption].
    unfold pparse_env. rewrite (pparse_sub_S D 3 _ false None _ eq_refl).
    eapply runs_parse; [apply subR_ok|apply pv_init|].
    apply gap_off; [apply gopt_gap|]. rewrite Hr, <- !app_assoc. cbn [app].
    eapply runs_cont; [reflexivity| |exact Hrun].
    exact (pv_term_body D _ _ t0 ts i (tobj first) _ false true false _ TT_S0 Hh Hs).
  Qed.
End Value.


(* ================================================================== Stage 2: the single-token terms *)
(* a token value that neither the _SorTokens filter (`until`) nor the operator / END productions can mistake *)
Definition okw (v : str) : Prop := is_sub v until = false /\ eqs v (s ";") = false.
Lemma okw_okv v : okw v -> okv v.
Proof.
  intros [H1 H2]. repeat split; [| |exact H2].
  - destruct (eqs v (s ",")) eqn:E; [|reflexivity]. apply eqs_spec in E. subst v. discriminate H1.
  - destruct (eqs v (s "/")) eqn:E; [|reflexivity]. apply eqs_spec in E. subst v. discriminate H1.
Qed.

Definition sobj (lbl : string) (g : nat) (t : string) (v : str) : item := IObj (s lbl) g true [IStr (s t) v] [].
(* the object the interpreter builds for a term (inner items without comments / whitespace) *)
Definition tobj (t : term) : item :=
  match t with
  | TmIdent v => if mem_s (normalize v) color_keys then sobj "ColorValue" 5 "IDENT" v else sobj "Value" 4 "IDENT" v
  | TmNum n => sobj "DIMENSION" 6 "NUMBER" (num_lex n)
  | TmDim n u => sobj "DIMENSION" 6 "DIMENSION" (normalize (num_lex n ++ u))
  | TmPct n => sobj "DIMENSION" 6 "PERCENTAGE" (num_lex n ++ s "%")
  | TmStr _ b => sobj "Value" 4 "STRING" b
  | TmUrl _ b => sobj "URIValue" 7 "URI" b
  | TmHex d => sobj "ColorValue" 5 "HASH" (35%N :: d)
  | TmURange v => sobj "Value" 4 "UNICODE-RANGE" (lower v)
  | _ => IObj [] 0 true [] []
  end.

(* side conditions on a single-token term; see the comment at value_accepts *)
Definition wf_term (t : term) : Prop :=
  match t with
  | TmIdent v => okw v
  | TmNum n => okw (num_lex n)
  | TmDim n u => okw (num_lex n ++ u)
  | TmPct n => okw (num_lex n ++ s "%")
  | TmStr _ b => stringvalue (34%N :: b ++ [34%N]) = Some b /\ stringvalue (39%N :: b ++ [39%N]) = Some b
  | TmUrl _ b => forall k, urivalue (url_text k b) = Some b
  | TmHex d => hexcolor_re (35%N :: d) = true
  | TmURange v => okw v
  | _ => False
  end.

Lemma head_of_class fs tk i :
  plain_ty (ty tk) -> isS tk = false -> is_sub (val tk) until = false -> facts_ok fs (ty tk) (val tk) ->
  tm3 fs (ty tk) (ChoOp pv_ops) = Some false -> mev3 fs (ty tk) (p_match pv_pe) = Some false ->
  scan3 fs (ty tk) pv_ts = Some (PProd (pv_p i)) -> i < 8 -> term_head tk i.
Proof.
  intros H1 H2 H3 Hf H4 H5 H6 H7. destruct (pv_class fs tk i Hf H4 H5 H6) as [G1 [G2 G3]].
  unfold term_head. auto 10.
Qed.

Lemma sub_of_leaf D t0 i lbl g it pc :
  (forall anc l, pparse_sub (S D) env_real g anc (Some t0) l = Ret (leaf_res it anc l)) ->
  p_toseq (pv_p i) = ASub (Some lbl) g -> postR g = Some pc ->
  (forall R, post pc (leaf_res it false R) = PRet true [it] []) ->
  term_sub (S D) t0 [] i (IObj lbl g true [it] []).
Proof.
  intros H1 H2 H3 H4. exists lbl, g, [it], pc. repeat split; try assumption.
  intros R. exists (leaf_res it false R). repeat split; [apply H1|apply H4].
Qed.

Ltac head_tac fs Hu Hf :=
  apply (head_of_class fs); [repeat split; reflexivity|reflexivity|Hu|Hf|vm_compute; reflexivity|vm_compute; reflexivity|vm_compute; reflexivity|lia].
Ltac okw_facts H := exact (okv_facts_ok _ _ (okw_okv _ H)).

Lemma tspec_simple D lay t : wf_term t -> tspec (S D) lay tobj t.
Proof.
  destruct t as [v|n|n u|n|gq b|gq b|d| | | |v]; cbn [wf_term]; intros H; try contradiction; unfold tspec; cbn [r_term tobj].
  - (* IDENT *)
    destruct (mem_s (normalize v) color_keys) eqn:Ec.
    + exists (T "IDENT" v), [], 0. split; [reflexivity|]. split.
      * head_tac ((MNormIn color_keys, true) :: okv_facts) ltac:(exact (proj1 H))
          ltac:(constructor; [exact Ec|okw_facts H]).
      * apply (sub_of_leaf D _ 0 _ 5 _ PostColor); [intros; apply leaf5_ident; exact Ec|reflexivity|reflexivity|reflexivity].
    + exists (T "IDENT" v), [], 3. split; [reflexivity|]. split.
      * head_tac ((MNormIn color_keys, false) :: okv_facts) ltac:(exact (proj1 H))
          ltac:(constructor; [exact Ec|okw_facts H]).
      * apply (sub_of_leaf D _ 3 _ 4 _ PostFirst); [intros; apply leaf4_ident|reflexivity|reflexivity|reflexivity].
  - exists (T "NUMBER" (num_lex n)), [], 1. split; [reflexivity|]. split.
    + head_tac okv_facts ltac:(exact (proj1 H)) ltac:(okw_facts H).
    + apply (sub_of_leaf D _ 1 _ 6 _ PostDim); [intros; apply leaf6_number|reflexivity|reflexivity|reflexivity].
  - exists (T "DIMENSION" (num_lex n ++ u)), [], 1. split; [reflexivity|]. split.
    + head_tac okv_facts ltac:(exact (proj1 H)) ltac:(okw_facts H).
    + apply (sub_of_leaf D _ 1 _ 6 _ PostDim); [intros; apply leaf6_dimension|reflexivity|reflexivity|reflexivity].
  - exists (T "PERCENTAGE" (num_lex n ++ s "%")), [], 1. split; [reflexivity|]. split.
    + head_tac okv_facts ltac:(exact (proj1 H)) ltac:(okw_facts H).
    + apply (sub_of_leaf D _ 1 _ 6 _ PostDim); [intros; apply leaf6_percentage|reflexivity|reflexivity|reflexivity].
  - (* STRING *)
    unfold r_string, quote_of. destruct H as [Hd Hs].
    destruct (Nat.even (lk lay gq)).
    + eexists _, [], 3. split; [reflexivity|]. split.
      * head_tac okv_facts ltac:(reflexivity) ltac:(repeat constructor).
      * apply (sub_of_leaf D _ 3 _ 4 _ PostFirst); [intros; apply leaf4_string; exact Hd|reflexivity|reflexivity|reflexivity].
    + eexists _, [], 3. split; [reflexivity|]. split.
      * head_tac okv_facts ltac:(reflexivity) ltac:(repeat constructor).
      * apply (sub_of_leaf D _ 3 _ 4 _ PostFirst); [intros; apply leaf4_string; exact Hs|reflexivity|reflexivity|reflexivity].
  - (* URI *)
    unfold r_url. specialize (H (lk lay gq)). revert H. unfold url_text.
    destruct (Nat.modulo (lk lay gq) 5) as [|[|[|[|m]]]]; intros H;
      (eexists _, [], 2; split; [reflexivity|]; split;
       [head_tac okv_facts ltac:(reflexivity) ltac:(repeat constructor)
       |apply (sub_of_leaf D _ 2 _ 7 _ PostFirst); [intros; apply leaf7_uri; exact H|reflexivity|reflexivity|reflexivity]]).
  - (* HASH *)
    exists (T "HASH" (35%N :: d)), [], 0. split; [reflexivity|]. split.
    + head_tac ((MHexRe, true) :: okv_facts) ltac:(reflexivity) ltac:(repeat constructor; exact H).
    + apply (sub_of_leaf D _ 0 _ 5 _ PostColor); [intros; apply leaf5_hash; exact H|reflexivity|reflexivity|reflexivity].
  - exists (T "UNICODE-RANGE" v), [], 3. split; [reflexivity|]. split.
    + head_tac okv_facts ltac:(exact (proj1 H)) ltac:(okw_facts H).
    + apply (sub_of_leaf D _ 3 _ 4 _ PostFirst); [intros; apply leaf4_urange|reflexivity|reflexivity|reflexivity].
Qed.


(* ================================================================== Stage 2: value_accepts *)
(* the insignificant items: comments (and, inside calc(), whitespace) -- removed at every nesting level *)
Definition drop_it (x : item) : bool :=
  match x with IStr t _ => eqs t (s "CSSComment") || eqs t (s "S") | _ => false end.
Fixpoint clean_it (it : item) : item :=
  match it with
  | IStr _ _ => it
  | IObj l g w sub m =>
      IObj l g w ((fix go (q : list item) : list item :=
                     match q with [] => [] | x :: r => if drop_it x then go r else clean_it x :: go r end) sub) m
  end.
Fixpoint clean (q : list item) : list item :=
  match q with [] => [] | x :: r => if drop_it x then clean r else clean_it x :: clean r end.
Lemma clean_it_obj l g w sub m : clean_it (IObj l g w sub m) = IObj l g w (clean sub) m.
Proof. reflexivity. Qed.
Lemma clean_app a b : clean (a ++ b) = clean a ++ clean b.
Proof. induction a as [|x a IH]; cbn [app clean]; [reflexivity|]. destruct (drop_it x); rewrite IH; reflexivity. Qed.
Definition cr (q : list item) : list item := clean (rev q).
Lemma cr_cons x q : cr (x :: q) = cr q ++ clean [x].
Proof. unfold cr. cbn [rev]. apply clean_app. Qed.
Lemma cr_gitems g : forall q, cr (gitems g q) = cr q.
Proof.
  induction g as [|a g IH]; intros q; cbn [gitems]; [reflexivity|]. rewrite IH. destruct (isS a); [reflexivity|].
  rewrite cr_cons. cbn. apply app_nil_r.
Qed.

Definition sep_items (sp : sep) : list item :=
  match sp with SepSp _ => [] | SepComma _ _ => [op_item ","] | SepSlash _ _ => [op_item "/"] end.
(* the expected objects of a value: one object per term, an ("operator", ",") / ("operator", "/") item per comma / slash *)
Definition value_items (d : decl) : list item :=
  clean [tobj (d_first d)] ++ flat_map (fun p => sep_items (fst p) ++ clean [tobj (snd p)]) (d_more d).

Lemma cr_sep lay sp q : cr (sep_seq lay sp q) = cr q ++ sep_items sp.
Proof.
  destruct sp as [g|g1 g2|g1 g2]; cbn [sep_seq sep_items]; rewrite ?cr_gitems, ?cr_cons, ?cr_gitems; [symmetry; apply app_nil_r|reflexivity|reflexivity].
Qed.
Lemma cr_more lay more : forall q,
  cr (more_seq lay tobj more q) = cr q ++ flat_map (fun p => sep_items (fst p) ++ clean [tobj (snd p)]) more.
Proof.
  induction more as [|[sp t] more IH]; intros q; cbn [more_seq flat_map fst snd]; [symmetry; apply app_nil_r|].
  rewrite IH, cr_cons, cr_sep, <- !app_assoc. reflexivity.
Qed.
Lemma cr_value lay d gx : cr (value_seq lay tobj (d_g2 d) (d_first d) (d_more d) gx) = value_items d.
Proof. unfold value_seq, value_items. rewrite cr_gitems, cr_more, cr_cons, cr_gitems. reflexivity. Qed.

(* ---- the sequence ends in an object or a comment: Seq.rstrip removes nothing *)
Definition notS (it : item) : Prop := eqs (item_ty it) (s "S") = false.
Lemma tobj_notS t : notS (tobj t).
Proof. destruct t; cbn [tobj]; try reflexivity. destruct (mem_s _ _); reflexivity. Qed.
Lemma gitems_head g : forall o q, notS o -> exists o' q', gitems g (o :: q) = o' :: q' /\ notS o'.
Proof.
  induction g as [|a g IH]; intros o q Ho; cbn [gitems]; [eauto|]. destruct (isS a); [apply IH; exact Ho|]. apply IH. reflexivity.
Qed.
Lemma sep_head lay sp o q : notS o -> exists o' q', sep_seq lay sp (o :: q) = o' :: q' /\ notS o'.
Proof.
  intros Ho. destruct sp as [g|g1 g2|g1 g2]; cbn [sep_seq]; [apply gitems_head; exact Ho| |];
    (destruct (gitems_head (gopt lay g1) o q Ho) as [o1 [q1 [E1 H1]]]; rewrite E1; apply gitems_head; reflexivity).
Qed.
Lemma more_head lay more : forall o q, notS o -> exists o' q', more_seq lay tobj more (o :: q) = o' :: q' /\ notS o'.
Proof.
  induction more as [|[sp t] more IH]; intros o q Ho; cbn [more_seq]; [eauto|]. apply IH. apply tobj_notS.
Qed.
Lemma rstrip_value lay g2 first more gx :
  rstripS (value_seq lay tobj g2 first more gx) = value_seq lay tobj g2 first more gx.
Proof.
  unfold value_seq. destruct (more_head lay more (tobj first) (gitems (gopt lay g2) []) (tobj_notS first)) as [o [q [E H]]].
  rewrite E. destruct (gitems_head (gopt lay gx) o q H) as [o' [q' [E' H']]]. rewrite E'. cbn [rstripS]. unfold notS in H'. rewrite H'. reflexivity.
Qed.

(* ---- PostPV: every object is well-formed and there is one *)
Definition okit (it : item) : Prop := obj_wf it = true.
Lemma tobj_ok t : okit (tobj t) /\ is_value_obj (tobj t) = true.
Proof. destruct t; cbn [tobj]; try (split; reflexivity). destruct (mem_s _ _); split; reflexivity. Qed.
Lemma gitems_ok g : forall q, Forall okit q -> Forall okit (gitems g q).
Proof. induction g as [|a g IH]; intros q H; cbn [gitems]; [exact H|]. apply IH. destruct (isS a); [exact H|constructor; [reflexivity|exact H]]. Qed.
Lemma gitems_in g x : forall q, In x q -> In x (gitems g q).
Proof. induction g as [|a g IH]; intros q H; cbn [gitems]; [exact H|]. apply IH. destruct (isS a); [exact H|right; exact H]. Qed.
Lemma sep_ok lay sp q : Forall okit q -> Forall okit (sep_seq lay sp q).
Proof.
  intros H. destruct sp; cbn [sep_seq]; [apply gitems_ok; exact H| |]; apply gitems_ok; (constructor; [reflexivity|apply gitems_ok; exact H]).
Qed.
Lemma sep_in lay sp q x : In x q -> In x (sep_seq lay sp q).
Proof. intros H. destruct sp; cbn [sep_seq]; [apply gitems_in; exact H| |]; apply gitems_in; right; apply gitems_in; exact H. Qed.
Lemma more_ok lay more : forall q, Forall okit q -> Forall okit (more_seq lay tobj more q).
Proof.
  induction more as [|[sp t] more IH]; intros q H; cbn [more_seq]; [exact H|]. apply IH. constructor; [apply tobj_ok|apply sep_ok; exact H].
Qed.
Lemma more_in lay more x : forall q, In x q -> In x (more_seq lay tobj more q).
Proof. induction more as [|[sp t] more IH]; intros q H; cbn [more_seq]; [exact H|]. apply IH. right. apply sep_in. exact H. Qed.

Lemma post_pv_value lay g2 first more gx r :
  r_wf r = true -> r_items r = rev (value_seq lay tobj g2 first more gx) -> post PostPV r = PRet true (r_items r) [].
Proof.
  intros Hw Hi. unfold post. rewrite Hw, Hi. cbn [andb].
  assert (H1 : existsb is_value_obj (rev (value_seq lay tobj g2 first more gx)) = true).
  { apply existsb_exists. exists (tobj first). split; [|apply tobj_ok]. apply -> in_rev.
    unfold value_seq. apply gitems_in, more_in. left. reflexivity. }
  assert (H2 : forallb obj_wf (rev (value_seq lay tobj g2 first more gx)) = true).
  { apply forallb_forall. intros x Hx. apply in_rev in Hx.
    assert (Hall : Forall okit (value_seq lay tobj g2 first more gx)).
    { unfold value_seq. apply gitems_ok, more_ok. constructor; [apply tobj_ok|apply gitems_ok; constructor]. }
    rewrite Forall_forall in Hall. exact (Hall x Hx). }
  rewrite H1, H2. reflexivity.
Qed.

(* ---- the theorem for values whose terms are single tokens *)
Definition wf_value (d : decl) : Prop := wf_term (d_first d) /\ Forall (fun p => wf_term (snd p)) (d_more d).

Lemma decl_value_shape lay d ga :
  decl_value lay d (gopt lay ga) =
  gopt lay (d_g2 d) ++ r_value lay d ++ gopt lay (match d_imp d with Some _ => d_g3 d | None => ga end).
Proof. unfold decl_value. destruct (d_imp d); reflexivity. Qed.

(* value_accepts (single-token fragment; d_imp = None and d_imp = Some _ alike: in both cases the value run ends with
   an optional gap).  Depth budget 2: the PropertyValue parse and one leaf sub-parser per term. *)
Theorem value_accepts D lay d ga : wf_value d ->
  exists r, pparse_env (S (S D)) env_real gid_PropertyValue (decl_value lay d (gopt lay ga)) = Ret r /\
            r_wf r = true /\ post PostPV r = PRet true (r_items r) [] /\ clean (r_items r) = value_items d.
Proof.
  intros [Hf Hm]. rewrite decl_value_shape. unfold r_value.
  set (gx := match d_imp d with Some _ => d_g3 d | None => ga end).
  destruct (value_run (S D) lay tobj (d_g2 d) (d_first d) (d_more d) gx (tspec_simple D lay _ Hf)) as [r [Hr [Hw Hi]]].
  { eapply Forall_impl; [|exact Hm]. intros p Hp. apply tspec_simple. exact Hp. }
  rewrite rstrip_value in Hi. exists r. split; [exact Hr|]. split; [exact Hw|]. split.
  - exact (post_pv_value lay _ _ _ gx r Hw Hi).
  - rewrite Hi. exact (cr_value lay d gx).
Qed.


(* the hypotheses of value_accepts are satisfiable: ex_decl = red 12, 12px / #abc "ab" url(u) *)
Example ex_wf_value : wf_value ex_decl.
Proof.
  split; [split; reflexivity|].
  repeat constructor; cbn [snd wf_term]; try (split; reflexivity); try reflexivity.
  intros k. unfold url_text. destruct (Nat.modulo k 5) as [|[|[|[|m]]]]; reflexivity.
Qed.
Example ex_value_items : value_items ex_decl =
  [sobj "ColorValue" 5 "IDENT" (s "red"); sobj "DIMENSION" 6 "NUMBER" (s "12"); op_item ",";
   sobj "DIMENSION" 6 "DIMENSION" (s "12px"); op_item "/"; sobj "ColorValue" 5 "HASH" (s "#abc");
   sobj "Value" 4 "STRING" (s "ab"); sobj "URIValue" 7 "URI" (s "u")].
Proof. vm_compute. reflexivity. Qed.


(* ================================================================== Stage 4 (single-token fragment): the reader *)
(* int(lexeme) / float(lexeme): the lexeme of a number back to sign / integer digits / fraction digits *)
Fixpoint split_dot (x : str) : str * option str :=
  match x with
  | [] => ([], None)
  | c :: r => if N.eqb c 46 then ([], Some r) else let '(i, f) := split_dot r in (c :: i, f)
  end.
Definition parse_num (x : str) : num :=
  match x with
  | [] => mkNum 0 [] None
  | c :: r => if N.eqb c 43 then let '(i, f) := split_dot r in mkNum 1 i f
              else if N.eqb c 45 then let '(i, f) := split_dot r in mkNum 2 i f
              else let '(i, f) := split_dot x in mkNum 0 i f
  end.
Lemma split_dot_digits i f : digits i = true ->
  split_dot (i ++ match f with Some f => 46%N :: f | None => [] end) = (i, f).
Proof.
  induction i as [|c i IH]; intros Hd; cbn [app].
  - destruct f; reflexivity.
  - cbn [digits forallb] in Hd. apply andb_true_iff in Hd as [Hc Hd]. cbn [split_dot].
    assert (N.eqb c 46 = false) as ->.
    { unfold is_digit in Hc. apply andb_true_iff in Hc as [H1 H2]. apply N.leb_le in H1. apply N.eqb_neq. lia. }
    rewrite (IH Hd). reflexivity.
Qed.
Lemma parse_num_lex n : digits (nint n) = true -> nsign n <= 2 -> parse_num (num_lex n) = n.
Proof.
  destruct n as [sg i f]. cbn [nint nsign]. intros Hd Hs. unfold num_lex, sign_str. cbn [nsign nint nfrac].
  pose proof (split_dot_digits i f Hd) as E.
  destruct sg as [|[|[|sg]]]; [| | |lia].
  - cbn [app s]. destruct i as [|c i]; cbn [app] in *.
    + destruct f; reflexivity.
    + cbn [digits forallb] in Hd. apply andb_true_iff in Hd as [Hc _]. unfold is_digit in Hc.
      apply andb_true_iff in Hc as [H1 H2]. apply N.leb_le in H1.
      unfold parse_num. assert (N.eqb c 43 = false) as -> by (apply N.eqb_neq; lia).
      assert (N.eqb c 45 = false) as -> by (apply N.eqb_neq; lia). match goal with |- context [split_dot ?a] => replace (split_dot a) with (c :: i, f) by (symmetry; exact E) end. reflexivity.
  - change (s "+" ++ i ++ match f with Some f0 => 46%N :: f0 | None => [] end) with (43%N :: i ++ match f with Some f0 => 46%N :: f0 | None => [] end).
    unfold parse_num. rewrite N.eqb_refl. match goal with |- context [split_dot ?a] => replace (split_dot a) with (i, f) by (symmetry; exact E) end. reflexivity.
  - change (s "-" ++ i ++ match f with Some f0 => 46%N :: f0 | None => [] end) with (45%N :: i ++ match f with Some f0 => 46%N :: f0 | None => [] end).
    unfold parse_num. change (N.eqb 45 43) with false. rewrite N.eqb_refl. match goal with |- context [split_dot ?a] => replace (split_dot a) with (i, f) by (symmetry; exact E) end. reflexivity.
Qed.

(* DimensionValue: the numeric prefix and the unit of a (normalised) DIMENSION lexeme *)
Definition numch (c : N) : bool := is_digit c || N.eqb c 43 || N.eqb c 45 || N.eqb c 46.
Fixpoint dim_split (x : str) : str * str :=
  match x with
  | c :: r => if numch c then let '(a, b) := dim_split r in (c :: a, b) else ([], x)
  | [] => ([], [])
  end.

(* the reader of the harness (c02.py x_value / canon_value / x_decls) on the item level.  The RGB triple of a colour
   keyword is known for the colours of the generator grammar (Grammar.named_colors) only. *)
Definition js_of_item (it : item) : js :=
  match it with
  | IStr t v => if eqs t (s "operator") then tag "OP" [JS v] else JL [JS t; JS v]
  | IObj _ g _ [IStr t v] _ =>
      match g with
      | 5 => if eqs t (s "HASH")
             then match hex_rgb (tl v) with Some (r, g, b) => m_color "HASH" r g b | None => tag "BAD" [] end
             else match Selector.assoc_s (lower v) named_colors with
                  | Some (r, g, b) => m_color "IDENT" r g b
                  | None => tag "COLOR-UNKNOWN" [JS v]
                  end
      | 6 => if eqs t (s "NUMBER") then tag "NUMBER" [JS (num_val (parse_num v))]
             else if eqs t (s "PERCENTAGE") then tag "PERCENTAGE" [JS (num_val (parse_num (removelast v)))]
             else let '(a, b) := dim_split v in tag "DIMENSION" [JS (num_val (parse_num a)); JS b]
      | 7 => tag "URI" [JS v]
      | 4 => JL [JS t; JS v]
      | _ => tag "UNSUPPORTED" []
      end
  | IObj _ _ _ _ _ => tag "UNSUPPORTED" []
  end.
Definition js_of_value_items (its : list item) : js := JL (map js_of_item its).

(* PropertyValue(tokens) as the harness sees it; depth 2 = the PropertyValue parse + one leaf constructor *)
Definition build_value (toks : list tok) : js :=
  match pparse_env 2 env_real gid_PropertyValue toks with
  | Ret r => js_of_value_items (clean (r_items r))
  | _ => tag "rejected" []
  end.

Definition is_some {A} (o : option A) : bool := match o with Some _ => true | None => false end.
(* additional side conditions for the object model: numbers are numbers of G, a colour keyword of the library is a
   colour of G (and vice versa), a DIMENSION splits into its number and its (lower-cased) unit after normalize *)
Definition wf_term_js (t : term) : Prop :=
  match t with
  | TmIdent v => mem_s (normalize v) color_keys = is_some (Selector.assoc_s (lower v) named_colors)
  | TmNum n | TmPct n => digits (nint n) = true /\ nsign n <= 2
  | TmDim n u => digits (nint n) = true /\ nsign n <= 2 /\ dim_split (normalize (num_lex n ++ u)) = (num_lex n, lower u)
  | _ => True
  end.
Definition wf_value_js (d : decl) : Prop :=
  wf_value d /\ wf_term_js (d_first d) /\ Forall (fun p => wf_term_js (snd p)) (d_more d).

Lemma clean_tobj t : clean [tobj t] = [tobj t].
Proof. destruct t; cbn [tobj]; try reflexivity. destruct (mem_s _ _); reflexivity. Qed.

Lemma js_tobj t : wf_term t -> wf_term_js t -> js_of_item (tobj t) = m_term t.
Proof.
  destruct t as [v|n|n u|n|gq b|gq b|d| | | |v]; cbn [wf_term wf_term_js tobj m_term]; intros Hw Hj; try contradiction.
  - rewrite Hj. destruct (Selector.assoc_s (lower v) named_colors) as [[[r g] b]|] eqn:E; cbn [is_some sobj js_of_item].
    + change (eqs (s "IDENT") (s "HASH")) with false. cbn iota. rewrite E. reflexivity.
    + reflexivity.
  - destruct Hj as [H1 H2]. unfold sobj. cbn [js_of_item]. change (eqs (s "NUMBER") (s "NUMBER")) with true. cbn iota.
    rewrite (parse_num_lex n H1 H2). reflexivity.
  - destruct Hj as [H1 [H2 H3]]. unfold sobj. cbn [js_of_item].
    change (eqs (s "DIMENSION") (s "NUMBER")) with false. change (eqs (s "DIMENSION") (s "PERCENTAGE")) with false. cbn iota.
    rewrite H3, (parse_num_lex n H1 H2). reflexivity.
  - destruct Hj as [H1 H2]. unfold sobj. cbn [js_of_item].
    change (eqs (s "PERCENTAGE") (s "NUMBER")) with false. change (eqs (s "PERCENTAGE") (s "PERCENTAGE")) with true. cbn iota.
    change (s "%") with [37%N]. rewrite removelast_last, (parse_num_lex n H1 H2). reflexivity.
  - reflexivity.
  - reflexivity.
  - unfold sobj. cbn [js_of_item tl]. change (eqs (s "HASH") (s "HASH")) with true. cbn iota.
    destruct (hex_rgb d) as [[[r g] b]|]; reflexivity.
  - reflexivity.
Qed.

Lemma js_value_items d : wf_value_js d -> js_of_value_items (value_items d) = m_value d.
Proof.
  intros [[Hf Hm] [Jf Jm]]. unfold js_of_value_items, value_items, m_value. f_equal.
  rewrite clean_tobj. cbn [map app]. rewrite (js_tobj _ Hf Jf). f_equal.
  induction (d_more d) as [|[sp t] more IH]; [reflexivity|].
  inversion Hm as [|? ? Hw Hm']; inversion Jm as [|? ? Hj Jm']; subst. cbn [snd fst] in *.
  cbn [flat_map fst snd]. rewrite !map_app, clean_tobj, (IH Hm' Jm'). cbn [map]. rewrite (js_tobj _ Hw Hj).
  destruct sp; reflexivity.
Qed.

(* value_grammar_faithful for the single-token fragment, in C02's shape *)
Theorem value_grammar_faithful_simple lay d ga : wf_value_js d ->
  build_value (decl_value lay d (gopt lay ga)) = m_value d.
Proof.
  intros Hw. destruct (value_accepts 0 lay d ga (proj1 Hw)) as [r [Hr [_ [_ Hc]]]].
  unfold build_value. rewrite Hr, Hc. exact (js_value_items d Hw).
Qed.

Example ex_wf_value_js : wf_value_js ex_decl.
Proof.
  split; [exact ex_wf_value|]. split; [vm_compute; reflexivity|].
  repeat constructor; try (vm_compute; lia); vm_compute; reflexivity.
Qed.


(* the okw side conditions of the numeric terms follow from Grammar.wf_num *)
Lemma okw_hd c r : c <> 44%N -> c <> 47%N -> c <> 59%N -> okw (c :: r).
Proof.
  intros H1 H2 H3. apply N.eqb_neq in H1, H2, H3. split.
  - unfold until. change (s ",/") with [44%N; 47%N]. cbn [is_sub starts]. rewrite H1, H2. reflexivity.
  - change (s ";") with [59%N]. cbn [eqs]. rewrite H3. reflexivity.
Qed.
Lemma digit_ok c : is_digit c = true -> c <> 44%N /\ c <> 47%N /\ c <> 59%N.
Proof. unfold is_digit. intros H. apply andb_true_iff in H as [H1 H2]. apply N.leb_le in H1, H2. lia. Qed.
Lemma okw_num_lex n tail : wf_num n = true -> okw (num_lex n ++ tail).
Proof.
  unfold wf_num. intros H. apply andb_true_iff in H as [H Hf]. apply andb_true_iff in H as [H _].
  apply andb_true_iff in H as [Hd Hs]. apply Nat.leb_le in Hs.
  destruct n as [sg i f]. cbn [nint nsign nfrac] in *. unfold num_lex, sign_str. cbn [nsign nint nfrac].
  destruct sg as [|[|[|sg]]]; [| | |lia]; cbn [app s].
  - destruct i as [|c i]; cbn [app].
    + destruct f as [f|]; [|discriminate Hf]. cbn [app]. apply okw_hd; discriminate.
    + cbn [digits forallb] in Hd. apply andb_true_iff in Hd as [Hc _]. destruct (digit_ok c Hc) as [A [B C]]. apply okw_hd; assumption.
  - change (s "+" ++ ?x) with (43%N :: x). apply okw_hd; discriminate.
  - change (s "-" ++ ?x) with (45%N :: x). apply okw_hd; discriminate.
Qed.
Lemma wf_num_terms n u : wf_num n = true ->
  wf_term (TmNum n) /\ wf_term (TmDim n u) /\ wf_term (TmPct n) /\ wf_term_js (TmNum n) /\ wf_term_js (TmPct n).
Proof.
  intros H. cbn [wf_term wf_term_js].
  assert (Hd : digits (nint n) = true /\ nsign n <= 2).
  { unfold wf_num in H. apply andb_true_iff in H as [H _]. apply andb_true_iff in H as [H _].
    apply andb_true_iff in H as [Hd Hs]. apply Nat.leb_le in Hs. auto. }
  pose proof (okw_num_lex n [] H) as H0. rewrite app_nil_r in H0.
  split; [exact H0|]. split; [exact (okw_num_lex n u H)|]. split; [exact (okw_num_lex n (s "%") H)|]. split; exact Hd.
Qed.


(* ================================================================== three-valued nextProd / find: the inner loop of parse on a
   token of known type with a list of facts about its value; sound w.r.t. seq_loop / cho_scan / next / find, so that
   `find` on the closed stacks of the sub-grammars is a vm_compute *)
Fixpoint seq_loop3 (fs : facts) (t : str) (k : nat) (ps : list ptree) (lo : nat) (hi : option nat) (i rnd : nat) (st : bool)
  : option (nres * frame) :=
  if below rnd hi then
    match k with
    | O => match hi with
           | None => Some (NSpin, FSeq ps lo hi i rnd st)
           | Some h => Some (NExh, FSeq ps lo hi 0 h false)
           end
    | S k' =>
      match nth_error ps i with
      | None => Some (NCrash, FSeq ps lo hi i rnd st)
      | Some p =>
        let st1 := if Nat.eqb i 0 then false else st in
        let i' := if Nat.eqb (S i) (length ps) then 0 else S i in
        let rnd' := if Nat.eqb (S i) (length ps) then S rnd else rnd in
        match tm3 fs t p with
        | None => None
        | Some true => Some (ret p, FSeq ps lo hi i' rnd' true)
        | Some false =>
            if topt p then seq_loop3 fs t k' ps lo hi i' rnd' st1
            else if Nat.ltb rnd lo || st1 then Some (NMissing, FSeq ps lo hi i' rnd' st1)
            else Some (NNoMatch, FSeq ps lo hi i' rnd' st1)
        end
      end
    end
  else Some (NExh, FSeq ps lo hi i rnd st).

Fixpoint cho_scan3 (fs : facts) (t : str) (ps : list ptree) (anyopt : bool) : option (option ptree * bool) :=
  match ps with
  | [] => Some (None, anyopt)
  | c :: r => match tm3 fs t c with
              | None => None
              | Some true => Some (Some c, anyopt)
              | Some false => cho_scan3 fs t r (anyopt || topt c)
              end
  end.

Definition next3 (fs : facts) (t : str) (f : frame) : option (nres * frame) :=
  match f with
  | FSeq ps lo hi i rnd st =>
      match ps with
      | [] => if below rnd hi then Some (NCrash, f) else Some (NExh, f)
      | _ => seq_loop3 fs t (length ps) ps lo hi i rnd st
      end
  | FCho ps o exh =>
      if exh then Some (NExh, f)
      else match cho_scan3 fs t ps false with
           | None => None
           | Some (Some c, _) => Some (ret c, FCho ps o true)
           | Some (None, true) => Some (NNone, f)
           | Some (None, false) => Some (NNoMatch, f)
           end
  end.

Fixpoint find3 (fs : facts) (t : str) (fu : nat) (stack : list frame) : option fres :=
  match fu with
  | O => Some FSpin
  | S fu' =>
    match stack with
    | [] => Some FCrash
    | fr :: rest =>
      match next3 fs t fr with
      | None => None
      | Some (NProd p, fr') => Some (FFound p (fr' :: rest))
      | Some (NNest c, fr') => match enter c with
                               | Some nf => find3 fs t fu' (nf :: fr' :: rest)
                               | None => Some FCrash
                               end
      | Some (NNone, fr') | Some (NExh, fr') | Some (NNoMatch, fr') =>
          match rest with [] => Some (FNoMatch [fr']) | _ => find3 fs t fu' rest end
      | Some (NMissing, fr') | Some (NDone, fr') => Some (FParseErr (fr' :: rest))
      | Some (NSpin, _) => Some FSpin
      | Some (NCrash, _) => Some FCrash
      end
    end
  end.

Section Find3.
  Variables (fs : facts) (tk : tok).
  Hypothesis Hf : facts_ok fs (ty tk) (val tk).

  Lemma seq_loop3_ok k ps lo hi : forall i rnd st r,
    seq_loop3 fs (ty tk) k ps lo hi i rnd st = Some r -> seq_loop k ps lo hi i rnd st (Some tk) = r.
  Proof.
    induction k as [|k IH]; intros i rnd st r; cbn [seq_loop3 seq_loop]; destruct (below rnd hi).
    - destruct hi; intros H; inversion H; reflexivity.
    - intros H; inversion H; reflexivity.
    - destruct (nth_error ps i) as [p|]; [|intros H; inversion H; reflexivity].
      destruct (tm3 fs (ty tk) p) as [[|]|] eqn:E; [| |discriminate]; rewrite (tm3_ok fs tk Hf p _ E).
      + intros H; inversion H; reflexivity.
      + destruct (topt p); [apply IH|]. destruct (_ || _); intros H; inversion H; reflexivity.
    - intros H; inversion H; reflexivity.
  Qed.
  Lemma cho_scan3_ok ps : forall a r, cho_scan3 fs (ty tk) ps a = Some r -> cho_scan ps (Some tk) a = r.
  Proof.
    induction ps as [|c ps IH]; intros a r; cbn [cho_scan3 cho_scan]; [intros H; inversion H; reflexivity|].
    destruct (tm3 fs (ty tk) c) as [[|]|] eqn:E; [| |discriminate]; rewrite (tm3_ok fs tk Hf c _ E).
    - intros H; inversion H; reflexivity.
    - apply IH.
  Qed.
  Lemma next3_ok f r : next3 fs (ty tk) f = Some r -> next (Some tk) f = r.
  Proof.
    destruct f as [ps lo hi i rnd st|ps o exh]; cbn [next3 next].
    - destruct ps as [|c ps]; [destruct (below rnd hi); intros H; inversion H; reflexivity|]. apply seq_loop3_ok.
    - destruct exh; [intros H; inversion H; reflexivity|].
      destruct (cho_scan3 fs (ty tk) ps false) as [[o1 b]|] eqn:E; [|discriminate]. rewrite (cho_scan3_ok _ _ _ E).
      destruct o1; [|destruct b]; intros H; inversion H; reflexivity.
  Qed.
  Lemma find3_ok fu : forall stack r, find3 fs (ty tk) fu stack = Some r -> find fu stack tk = r.
  Proof.
    induction fu as [|fu IH]; intros stack r; cbn [find3 find]; [intros H; inversion H; reflexivity|].
    destruct stack as [|fr rest]; [intros H; inversion H; reflexivity|].
    destruct (next3 fs (ty tk) fr) as [[n fr']|] eqn:E; [|discriminate]. rewrite (next3_ok _ _ E).
    destruct n; try (intros H; inversion H; reflexivity); try (destruct rest; [intros H; inversion H; reflexivity|apply IH]).
    destruct (enter t); [apply IH|intros H; inversion H; reflexivity].
  Qed.
End Find3.


Section Body3.
  Variable o : opts.
  Variable sub : nat -> bool -> tok -> list tok -> out.
  Variable postof : nat -> option postcode.
  Lemma body_find3 fs t st p stk' :
    o_checkS o = false -> plain_ty (ty t) -> l_defaultS st && isS t = false -> facts_ok fs (ty t) (val t) ->
    find3 fs (ty t) (find_fuel (l_stack st)) (l_stack st) = Some (FFound p stk') ->
    body o sub postof t st =
    process sub postof p t (set_found (set_started st) stk' (negb (p_mayend p)) (p_stopnm p || l_stopnm (set_started st))).
  Proof. intros H1 H2 H3 Hf H4. rewrite body_find; [|assumption..]. rewrite (find3_ok fs t Hf _ _ _ H4). reflexivity. Qed.

  Lemma finish_ok stk seq sto wf started dS stopnm afterS strict keep own anc rest sh wf' :
    final stk strict wf = FinOk wf' -> seq <> [] ->
    finish o (mkLs stk seq sto wf started false dS stopnm afterS strict keep own anc rest sh) =
    Ret (mkRes wf' (rev (rstripS seq)) sto false keep own anc rest sh).
  Proof.
    intros Hf Hne. unfold finish. simpl_st. rewrite Hf. destruct seq; [congruence|]. rewrite andb_false_r. reflexivity.
  Qed.
End Body3.

(* comments of a gap, in order *)
Definition gcoms (g : list tok) : list item := map cmt (filter (fun t => negb (isS t)) g).
Lemma rev_gitems g : forall q, rev (gitems g q) = rev q ++ gcoms g.
Proof.
  induction g as [|a g IH]; intros q; cbn [gitems]; [symmetry; apply app_nil_r|]. rewrite IH. unfold gcoms. cbn [filter].
  destruct (isS a); cbn [negb map rev]; [reflexivity|]. rewrite <- app_assoc. reflexivity.
Qed.

(* dec n starts with a digit *)
Lemma dec_digits_head f : forall n acc, exists c r, dec_digits (S f) n acc = c :: r /\ (48 <= c <= 57)%N.
Proof.
  induction f as [|f IH]; intros n acc; cbn [dec_digits];
    assert (H : (N.modulo n 10 < 10)%N) by (apply N.mod_lt; discriminate); set (m := N.modulo n 10) in *.
  - destruct (N.ltb n 10); eexists _, _; (split; [reflexivity|lia]).
  - destruct (N.ltb n 10); [eexists _, _; split; [reflexivity|lia]|]. apply IH.
Qed.
Lemma dec_not_sign n : mem_s (dec n) [s "+"; s "-"] = false.
Proof.
  destruct (dec_digits_head 39 n []) as [c [r [E H]]]. unfold dec. rewrite E.
  change (s "+") with [43%N]. change (s "-") with [45%N]. cbn [mem_s eqs].
  assert (N.eqb c 43 = false) as -> by (apply N.eqb_neq; lia). assert (N.eqb c 45 = false) as -> by (apply N.eqb_neq; lia). reflexivity.
Qed.


(* ---- one token of a sub-grammar whose productions carry no nextSor / stopAndKeep / store (own = SOff throughout) *)
Section SubSteps.
  Variable sub : nat -> bool -> tok -> list tok -> out.
  Variable postof : nat -> option postcode.
  Notation RUN := (runs opts0 sub postof).
  Definition Soff (stk : list frame) (seq : list item) (started dS strict : bool) (rest : list tok) : lstate :=
    mkLs stk seq [] true started false dS false false strict None SOff false rest stash0.

  Lemma step_plain fs t p stk stk' ty' v' seq started dS strict rest r :
    facts_ok fs (ty t) (val t) -> plain_ty (ty t) -> isS t = false ->
    find3 fs (ty t) (find_fuel stk) stk = Some (FFound p stk') ->
    p_stopkeep p = false -> aplain (p_toseq p) t = Some (ty', v') -> p_store p = None -> p_stop p = false ->
    p_nextsor p = false -> p_stopnm p = false ->
    RUN (Soff stk' (IStr ty' v' :: seq) true true (negb (p_mayend p)) rest) r ->
    RUN (Soff stk seq started dS strict (t :: rest)) r.
  Proof.
    intros Hf Hpl HS H3 F1 F2 F3 F4 F5 F6 H. eapply runs_cont; [reflexivity| |exact H].
    unfold Soff. rewrite (body_find3 opts0 sub postof fs t _ p stk' eq_refl Hpl); [|cbn [l_defaultS]; rewrite HS; apply andb_false_r|exact Hf|exact H3].
    simpl_st. rewrite (process_plain_cont _ _ p t _ ty' v' F1 F2 F3 F4 F5). rewrite F6. reflexivity.
  Qed.

  Lemma step_sub fs t ts p stk stk' lbl g seq started dS strict rest r r0 pc its :
    facts_ok fs (ty t) (val t) -> plain_ty (ty t) -> isS t = false ->
    find3 fs (ty t) (find_fuel stk) stk = Some (FFound p stk') ->
    p_stopkeep p = false -> p_toseq p = ASub lbl g -> p_store p = None -> p_stop p = false ->
    p_nextsor p = false -> p_stopnm p = false ->
    sub g false t (ts ++ rest) = Ret r0 -> r_rest r0 = rest -> r_stash r0 = stash0 ->
    postof g = Some pc -> post pc r0 = PRet true its [] ->
    RUN (Soff stk' (IObj (match lbl with Some x => x | None => ty t end) g true its [] :: seq) true true (negb (p_mayend p)) rest) r ->
    RUN (Soff stk seq started dS strict (t :: ts ++ rest)) r.
  Proof.
    intros Hf Hpl HS H3 F1 F2 F3 F4 F5 F6 Hs Hr Hst Hpc Hpost H. eapply runs_cont; [reflexivity| |exact H].
    unfold Soff. rewrite (body_find3 opts0 sub postof fs t _ p stk' eq_refl Hpl); [|cbn [l_defaultS]; rewrite HS; apply andb_false_r|exact Hf|exact H3].
    simpl_st. rewrite (process_sub sub postof p t lbl g _ _ _ _ _ _ _ _ _ _ _ _ _ _ r0 pc true its [] F1 F2 F3 F4 Hs Hpc Hpost).
    rewrite F5, F6, Hr, Hst. reflexivity.
  Qed.

  Lemma step_stop fs t p stk stk' ty' v' seq started dS strict rest :
    facts_ok fs (ty t) (val t) -> plain_ty (ty t) -> isS t = false ->
    find3 fs (ty t) (find_fuel stk) stk = Some (FFound p stk') ->
    p_stopkeep p = false -> aplain (p_toseq p) t = Some (ty', v') -> p_store p = None -> p_stop p = true ->
    p_stopnm p = false -> final stk' (negb (p_mayend p)) true = FinOk true ->
    RUN (Soff stk seq started dS strict (t :: rest))
        (mkRes true (rev (rstripS (IStr ty' v' :: seq))) [] false None SOff false rest stash0).
  Proof.
    intros Hf Hpl HS H3 F1 F2 F3 F4 F6 Hfin. eapply runs_break; [reflexivity| |].
    - unfold Soff. rewrite (body_find3 opts0 sub postof fs t _ p stk' eq_refl Hpl); [|cbn [l_defaultS]; rewrite HS; apply andb_false_r|exact Hf|exact H3].
      simpl_st. rewrite (process_plain_stop _ _ p t _ ty' v' F1 F2 F3 F4). reflexivity.
    - simpl_st. rewrite F6. apply finish_ok; [exact Hfin|discriminate].
  Qed.
End SubSteps.


Lemma runs_spend o sub postof stk seq started dS strict t rest r :
  runs o sub postof (Soff stk seq started dS strict (t :: rest)) r ->
  runs o sub postof (mkLs stk seq [] true started false dS false false strict None (SPend t) false rest stash0) r.
Proof.
  intros [n Hn]. exists n. destruct n as [|n]; [discriminate Hn|]. rewrite loop_unfold in *. exact Hn.
Qed.

(* ================================================================== Stage 3: rgb(r, g, b) *)
Definition nobj (x : N) : item := IObj (s "NUMBER") 6 true [IStr (s "NUMBER") (dec x)] [].
Definition chi (c : string) : item := IStr (s "CHAR") (s c).
Definition rgb_seq (lay : layout) (g0 : nat) (r : N) (g1 g2 : nat) (g : N) (g3 g4 : nat) (b : N) (g5 : nat) : list item :=
  chi ")" :: gitems (gopt lay g5) (nobj b :: gitems (gopt lay g4) (chi "," :: gitems (gopt lay g3) (nobj g ::
    gitems (gopt lay g2) (chi "," :: gitems (gopt lay g1) (nobj r :: gitems (gopt lay g0) [IStr (s "FUNCTION") (s "rgb(")]))))).

Definition fn_facts : facts := [(MNormIn [s "rgb("; s "hsl("], true)].
Definition num_facts : facts := [(MValIn [s "+"; s "-"], false)].
Definition comma_facts : facts := [(MVal (s ","), true); (MValIn [s "+"; s "-"], false)].
Definition close_facts : facts := [(MVal (s ")"), true); (MVal (s ","), false); (MValIn [s "+"; s "-"], false)].

Ltac st_gap := unfold Soff; apply gap_off; [apply gopt_gap|].
Ltac st_plain fs :=
  eapply (step_plain _ _ fs);
    [repeat constructor|repeat split; reflexivity|reflexivity|vm_compute; reflexivity|reflexivity|vm_compute; reflexivity
    |reflexivity|reflexivity|reflexivity|reflexivity|].

Lemma rgb_sub D lay g0 r g1 g2 g g3 g4 b g5 R :
  exists res,
    pparse_sub (S (S D)) env_real 5 false (Some (T "FUNCTION" (s "rgb(")))
      (gopt lay g0 ++ T "NUMBER" (dec r) :: gopt lay g1 ++ ch "," :: gopt lay g2 ++ T "NUMBER" (dec g) :: gopt lay g3 ++
       ch "," :: gopt lay g4 ++ T "NUMBER" (dec b) :: gopt lay g5 ++ ch ")" :: R) = Ret res /\
    r_rest res = R /\ r_stash res = stash0 /\ r_wf res = true /\ r_items res = rev (rgb_seq lay g0 r g1 g2 g g3 g4 b g5).
Proof.
  eexists. split.
  - rewrite (pparse_sub_S (S D) 5 _ false _ _ eq_refl).
    eapply runs_parse; [apply subR_ok|reflexivity|]. apply runs_spend.
    st_plain fn_facts. st_gap.
    (eapply (step_sub _ _ num_facts (T "NUMBER" (dec r)) []);
      [repeat constructor; apply dec_not_sign|repeat split; reflexivity|reflexivity|vm_compute; reflexivity
      |reflexivity|reflexivity|reflexivity|reflexivity|reflexivity|reflexivity
      |exact (leaf6_number D false (dec r) _)|reflexivity|reflexivity|reflexivity|reflexivity|]).
    st_gap. st_plain comma_facts. st_gap.
    eapply (step_sub _ _ num_facts (T "NUMBER" (dec g)) []);
      [repeat constructor; apply dec_not_sign|repeat split; reflexivity|reflexivity|vm_compute; reflexivity
      |reflexivity|reflexivity|reflexivity|reflexivity|reflexivity|reflexivity
      |exact (leaf6_number D false (dec g) _)|reflexivity|reflexivity|reflexivity|reflexivity|].
    st_gap. st_plain comma_facts. st_gap.
    eapply (step_sub _ _ num_facts (T "NUMBER" (dec b)) []);
      [repeat constructor; apply dec_not_sign|repeat split; reflexivity|reflexivity|vm_compute; reflexivity
      |reflexivity|reflexivity|reflexivity|reflexivity|reflexivity|reflexivity
      |exact (leaf6_number D false (dec b) _)|reflexivity|reflexivity|reflexivity|reflexivity|].
    st_gap.
    (eapply (step_stop _ _ close_facts);
      [repeat constructor|repeat split; reflexivity|reflexivity|vm_compute; reflexivity|reflexivity|vm_compute; reflexivity
      |reflexivity|reflexivity|reflexivity|vm_compute; reflexivity]).
  - repeat split; reflexivity.
Qed.


Definition fitem : item := IStr (s "FUNCTION") (s "rgb(").
Lemma rgb_fwd lay g0 r g1 g2 g g3 g4 b g5 :
  rev (rgb_seq lay g0 r g1 g2 g g3 g4 b g5) =
  fitem :: gcoms (gopt lay g0) ++ nobj r :: gcoms (gopt lay g1) ++ chi "," :: gcoms (gopt lay g2) ++ nobj g ::
  gcoms (gopt lay g3) ++ chi "," :: gcoms (gopt lay g4) ++ nobj b :: gcoms (gopt lay g5) ++ [chi ")"].
Proof.
  unfold rgb_seq. cbn [rev]. repeat (rewrite rev_gitems; cbn [rev]). repeat (rewrite <- app_assoc; cbn [app]). reflexivity.
Qed.
Lemma cs_g g l : comp_sig (gcoms g ++ l) = comp_sig l.
Proof. unfold comp_sig. rewrite flat_map_app. unfold gcoms. induction (filter _ g) as [|a q IH]; [reflexivity|exact IH]. Qed.
Lemma cr_rgb lay g0 r g1 g2 g g3 g4 b g5 :
  clean (rev (rgb_seq lay g0 r g1 g2 g g3 g4 b g5)) = [fitem; nobj r; chi ","; nobj g; chi ","; nobj b; chi ")"].
Proof. change (clean (rev ?x)) with (cr x). unfold rgb_seq. repeat (rewrite cr_cons || rewrite cr_gitems). reflexivity. Qed.
Lemma post_rgb res lay g0 r g1 g2 g g3 g4 b g5 :
  r_wf res = true -> r_items res = rev (rgb_seq lay g0 r g1 g2 g g3 g4 b g5) ->
  post PostColor res = PRet true (r_items res) [].
Proof.
  intros Hw Hi. unfold post. rewrite Hw, Hi, rgb_fwd. cbn [value_item find is_comment_item item_ty fitem negb].
  change (eqs (s "FUNCTION") (s "CSSComment")) with false. cbn [negb]. change (eqs (s "FUNCTION") (s "FUNCTION")) with true. cbn iota.
  assert (E : comp_sig (fitem :: gcoms (gopt lay g0) ++ nobj r :: gcoms (gopt lay g1) ++ chi "," :: gcoms (gopt lay g2) ++ nobj g ::
                gcoms (gopt lay g3) ++ chi "," :: gcoms (gopt lay g4) ++ nobj b :: gcoms (gopt lay g5) ++ [chi ")"]) = [true; true; true]).
  { change (comp_sig (fitem :: ?l)) with (comp_sig l). rewrite cs_g. change (comp_sig (nobj r :: ?l)) with (true :: comp_sig l).
    rewrite cs_g. change (comp_sig (chi "," :: ?l)) with (comp_sig l). rewrite cs_g. change (comp_sig (nobj g :: ?l)) with (true :: comp_sig l).
    rewrite cs_g. change (comp_sig (chi "," :: ?l)) with (comp_sig l). rewrite cs_g. change (comp_sig (nobj b :: ?l)) with (true :: comp_sig l).
    rewrite cs_g. reflexivity. }
  rewrite E. reflexivity.
Qed.

(* ---- the wider fragment: single-token terms + rgb() *)
Definition tobjx (lay : layout) (t : term) : item :=
  match t with
  | TmRgb g0 r g1 g2 g g3 g4 b g5 => IObj (s "ColorValue") 5 true (rev (rgb_seq lay g0 r g1 g2 g g3 g4 b g5)) []
  | _ => tobj t
  end.
Definition cobj (t : term) : item :=
  match t with
  | TmRgb _ r _ _ g _ _ b _ => IObj (s "ColorValue") 5 true [fitem; nobj r; chi ","; nobj g; chi ","; nobj b; chi ")"] []
  | _ => tobj t
  end.
Definition wf_termx (t : term) : Prop := match t with TmRgb _ _ _ _ _ _ _ _ _ => True | _ => wf_term t end.
Lemma clean_tobjx lay t : clean [tobjx lay t] = [cobj t].
Proof.
  destruct t; try exact (clean_tobj _). cbn [tobjx cobj clean drop_it]. rewrite clean_it_obj, cr_rgb. reflexivity.
Qed.

Definition rgb_head_facts : facts := (MNormIn [s "rgb("; s "rgba("; s "hsl("; s "hsla("], true) :: okv_facts.

Lemma tspecx D lay t : wf_termx t -> tspec (S (S D)) lay (tobjx lay) t.
Proof.
  destruct t as [v|n|n u|n|gq b|gq b|d|g0 r g1 g2 g g3 g4 b g5| | |v]; intros H;
    try exact (tspec_simple (S D) lay _ H); try contradiction.
  unfold tspec. cbn [r_term tobjx]. eexists _, _, 0. split; [reflexivity|]. split.
  - apply (head_of_class rgb_head_facts); [repeat split; reflexivity|reflexivity|reflexivity|repeat constructor
                                          |vm_compute; reflexivity|vm_compute; reflexivity|vm_compute; reflexivity|lia].
  - exists (s "ColorValue"), 5, (rev (rgb_seq lay g0 r g1 g2 g g3 g4 b g5)), PostColor.
    split; [reflexivity|]. split; [reflexivity|]. split; [reflexivity|]. intros R.
    destruct (rgb_sub D lay g0 r g1 g2 g g3 g4 b g5 R) as [res [Hr [H1 [H2 [H3 H4]]]]].
    exists res. split; [|split; [exact H1|split; [exact H2|rewrite <- H4; exact (post_rgb res lay _ _ _ _ _ _ _ _ _ H3 H4)]]].
    unfold subR. rewrite <- Hr. f_equal. repeat (rewrite <- app_assoc; cbn [app]). reflexivity.
Qed.


(* ---- the item-sequence lemmas of value_accepts, for an arbitrary object function *)
Section SeqGen.
  Variable lay : layout.
  Variable tob : term -> item.
  Hypothesis tob_notS : forall t, notS (tob t).
  Hypothesis tob_ok : forall t, okit (tob t) /\ is_value_obj (tob t) = true.

  Lemma cr_more_g more : forall q,
    cr (more_seq lay tob more q) = cr q ++ flat_map (fun p => sep_items (fst p) ++ clean [tob (snd p)]) more.
  Proof.
    induction more as [|[sp t] more IH]; intros q; cbn [more_seq flat_map fst snd]; [symmetry; apply app_nil_r|].
    rewrite IH, cr_cons, cr_sep, <- !app_assoc. reflexivity.
  Qed.
  Lemma more_head_g more : forall o q, notS o -> exists o' q', more_seq lay tob more (o :: q) = o' :: q' /\ notS o'.
  Proof. induction more as [|[sp t] more IH]; intros o q Ho; cbn [more_seq]; [eauto|]. apply IH. apply tob_notS. Qed.
  Lemma rstrip_value_g g2 first more gx :
    rstripS (value_seq lay tob g2 first more gx) = value_seq lay tob g2 first more gx.
  Proof.
    unfold value_seq. destruct (more_head_g more (tob first) (gitems (gopt lay g2) []) (tob_notS first)) as [o [q [E H]]].
    rewrite E. destruct (gitems_head (gopt lay gx) o q H) as [o' [q' [E' H']]]. rewrite E'. cbn [rstripS]. unfold notS in H'. rewrite H'. reflexivity.
  Qed.
  Lemma more_ok_g more : forall q, Forall okit q -> Forall okit (more_seq lay tob more q).
  Proof.
    induction more as [|[sp t] more IH]; intros q H; cbn [more_seq]; [exact H|]. apply IH. constructor; [apply tob_ok|apply sep_ok; exact H].
  Qed.
  Lemma more_in_g more x : forall q, In x q -> In x (more_seq lay tob more q).
  Proof. induction more as [|[sp t] more IH]; intros q H; cbn [more_seq]; [exact H|]. apply IH. right. apply sep_in. exact H. Qed.
  Lemma post_pv_value_g g2 first more gx r :
    r_wf r = true -> r_items r = rev (value_seq lay tob g2 first more gx) -> post PostPV r = PRet true (r_items r) [].
  Proof.
    intros Hw Hi. unfold post. rewrite Hw, Hi. cbn [andb].
    assert (H1 : existsb is_value_obj (rev (value_seq lay tob g2 first more gx)) = true).
    { apply existsb_exists. exists (tob first). split; [|apply tob_ok]. apply -> in_rev.
      unfold value_seq. apply gitems_in, more_in_g. left. reflexivity. }
    assert (H2 : forallb obj_wf (rev (value_seq lay tob g2 first more gx)) = true).
    { apply forallb_forall. intros x Hx. apply in_rev in Hx.
      assert (Hall : Forall okit (value_seq lay tob g2 first more gx)).
      { unfold value_seq. apply gitems_ok, more_ok_g. constructor; [apply tob_ok|apply gitems_ok; constructor]. }
      rewrite Forall_forall in Hall. exact (Hall x Hx). }
    rewrite H1, H2. reflexivity.
  Qed.
  Lemma cr_value_g d gx :
    cr (value_seq lay tob (d_g2 d) (d_first d) (d_more d) gx) =
    clean [tob (d_first d)] ++ flat_map (fun p => sep_items (fst p) ++ clean [tob (snd p)]) (d_more d).
  Proof. unfold value_seq. rewrite cr_gitems, cr_more_g, cr_cons, cr_gitems. reflexivity. Qed.
End SeqGen.

Lemma tobjx_notS lay t : notS (tobjx lay t).
Proof. destruct t; try exact (tobj_notS _). reflexivity. Qed.
Lemma tobjx_ok lay t : okit (tobjx lay t) /\ is_value_obj (tobjx lay t) = true.
Proof. destruct t; try exact (tobj_ok _). split; reflexivity. Qed.

Lemma fm_clean lay more :
  flat_map (fun p : sep * term => sep_items (fst p) ++ clean [tobjx lay (snd p)]) more =
  flat_map (fun p : sep * term => sep_items (fst p) ++ [cobj (snd p)]) more.
Proof. induction more as [|[sp t] more IH]; [reflexivity|]. cbn [flat_map fst snd]. rewrite clean_tobjx, IH. reflexivity. Qed.

Definition value_itemsx (d : decl) : list item :=
  cobj (d_first d) :: flat_map (fun p => sep_items (fst p) ++ [cobj (snd p)]) (d_more d).
Definition wf_valuex (d : decl) : Prop := wf_termx (d_first d) /\ Forall (fun p => wf_termx (snd p)) (d_more d).

(* value_accepts for single-token terms and rgb(); depth budget 3 = PropertyValue + ColorValue + DimensionValue *)
Theorem value_accepts_x D lay d ga : wf_valuex d ->
  exists r, pparse_env (S (S (S D))) env_real gid_PropertyValue (decl_value lay d (gopt lay ga)) = Ret r /\
            r_wf r = true /\ post PostPV r = PRet true (r_items r) [] /\ clean (r_items r) = value_itemsx d.
Proof.
  intros [Hf Hm]. rewrite decl_value_shape. unfold r_value.
  set (gx := match d_imp d with Some _ => d_g3 d | None => ga end).
  destruct (value_run (S (S D)) lay (tobjx lay) (d_g2 d) (d_first d) (d_more d) gx (tspecx D lay _ Hf)) as [r [Hr [Hw Hi]]].
  { eapply Forall_impl; [|exact Hm]. intros p Hp. apply tspecx. exact Hp. }
  rewrite (rstrip_value_g lay (tobjx lay) (tobjx_notS lay)) in Hi. exists r. split; [exact Hr|]. split; [exact Hw|]. split.
  - exact (post_pv_value_g lay (tobjx lay) (tobjx_ok lay) _ _ _ gx r Hw Hi).
  - rewrite Hi. change (clean (rev ?x)) with (cr x). rewrite (cr_value_g lay (tobjx lay) d gx). unfold value_itemsx.
    rewrite clean_tobjx, fm_clean. reflexivity.
Qed.

(* ---- the reader for the wider fragment *)
Definition dval (v : str) : N := fold_left (fun a c => (10 * a + (c - 48))%N) v 0%N.     (* int(lexeme) *)
Definition ndec (it : item) : option N :=     (* the integer value of an rgb() component *)
  match it with IObj _ 6 _ [IStr _ v] _ => Some (dval v) | _ => None end.
Definition js_of_itemx (it : item) : js :=
  match it with
  | IObj _ 5 _ [IStr _ _; a; _; b; _; c; _] _ =>
      match ndec a, ndec b, ndec c with Some r, Some g, Some bb => m_color "FUNCTION" r g bb | _, _, _ => tag "UNSUPPORTED" [] end
  | _ => js_of_item it
  end.
Definition build_valuex (toks : list tok) : js :=
  match pparse_env 3 env_real gid_PropertyValue toks with
  | Ret r => JL (map js_of_itemx (clean (r_items r)))
  | _ => tag "rejected" []
  end.

Definition wf_termx_js (t : term) : Prop :=
  match t with
  | TmRgb _ r _ _ g _ _ b _ => dval (dec r) = r /\ dval (dec g) = g /\ dval (dec b) = b
  | _ => wf_term_js t
  end.
Definition wf_valuex_js (d : decl) : Prop :=
  wf_valuex d /\ wf_termx_js (d_first d) /\ Forall (fun p => wf_termx_js (snd p)) (d_more d).

Lemma js_cobj t : wf_termx t -> wf_termx_js t -> js_of_itemx (cobj t) = m_term t.
Proof.
  destruct t as [v|n|n u|n|gq b|gq b|d|g0 r g1 g2 g g3 g4 b g5| | |v]; intros Hw Hj; try contradiction;
    try (rewrite <- (js_tobj _ Hw Hj); cbn [cobj tobj]; try reflexivity).
  - destruct (mem_s _ _); reflexivity.
  - destruct Hj as [H1 [H2 H3]]. cbn [cobj js_of_itemx ndec nobj m_term]. rewrite H1, H2, H3. reflexivity.
Qed.

Theorem value_grammar_faithful_x lay d ga : wf_valuex_js d ->
  build_valuex (decl_value lay d (gopt lay ga)) = m_value d.
Proof.
  intros [Hw [Jf Jm]]. destruct (value_accepts_x 0 lay d ga Hw) as [r [Hr [_ [_ Hc]]]].
  unfold build_valuex. rewrite Hr, Hc. unfold value_itemsx, m_value. f_equal. destruct Hw as [Hf Hm].
  cbn [map]. rewrite (js_cobj _ Hf Jf). f_equal.
  revert Hm Jm. generalize (d_more d). intros more. induction more as [|[sp t] more IH]; intros Hm Jm; [reflexivity|].
  inversion Hm as [|? ? Hw1 Hm']; inversion Jm as [|? ? Hj1 Jm']; subst. cbn [snd fst] in *.
  cbn [flat_map fst snd]. rewrite !map_app, (IH Hm' Jm'). cbn [map]. rewrite (js_cobj _ Hw1 Hj1).
  destruct sp; reflexivity.
Qed.

Definition ex_declx := mkDecl (s "x") 0 1 (TmRgb 0 255 2 3 0 5 6 17 8) [(SepSp 2, TmNum ex_num); (SepComma 3 4, TmRgb 1 1 1 2 2 2 3 3 3)] 11 None.
Example ex_wf_valuex_js : wf_valuex_js ex_declx.
Proof. split; [split; [exact I|repeat constructor; cbn [snd wf_termx wf_term]; try exact I; split; reflexivity]|]. split; [repeat split; reflexivity|].
  repeat constructor; cbn [snd]; try reflexivity; vm_compute; lia. Qed.
