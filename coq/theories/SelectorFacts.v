(* SelectorFacts.v -- proofs about the selector model *)
From CssV Require Import Base Gen.PyTables Tokenizer Gen.SelConsts Selector.

(* ---- the regenerated tables are what Python's `in` / `==` compute on the regenerated strings *)
Fixpoint substr (n h : str) : bool :=
  starts n h || match h with [] => false | _ :: r => substr n r end.

Lemma in_tests_are_substring_tests :
  forallb (fun nf => forallb (fun e => Bool.eqb (snd nf e) (substr (fst nf) (exp_str e))) all_exp) in_tests = true.
Proof. vm_compute. reflexivity. Qed.

Lemma eq_tests_are_equality_tests :
  forallb (fun nf => forallb (fun e => Bool.eqb (snd nf e) (eqs (fst nf) (exp_str e))) all_exp) eq_tests = true.
Proof. vm_compute. reflexivity. Qed.

Lemma all_exp_complete e : In e all_exp.
Proof. destruct e; vm_compute; tauto. Qed.
