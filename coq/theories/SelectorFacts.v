(* SelectorFacts.v -- proofs about the selector model *)
From CssV Require Import Base Gen.PyTables Tokenizer Gen.SelConsts Selector.
From CssV Require Upto UptoFacts.

(* ---- the regenerated tables are what Python's `in` / `==` compute on the regenerated strings *)
Fixpoint substr (n h : str) : bool :=
  starts n h || match h with [] => false | _ :: r => substr n r end.

Lemma in_tests_are_substring_tests :
  forallb (fun nf => forallb (fun e => Bool.eqb (snd nf e) (substr (fst nf) (exp_str e))) all_exp) in_tests = true.
Proof. vm_compute. reflexivity. Qed.

Lemma eq_tests_are_equality_tests :
  forallb (fun nf => forallb (fun e => Bool.eqb (snd nf e) (eqs (fst nf) (exp_str e))) all_exp) eq_tests = true.
Proof. vm_compute. reflexivity. Qed.

Lemma all_exp_complete e : In e all_exp.
Proof. destruct e; vm_compute; tauto. Qed.

(* ================================================================== part 1: the pre-pass on rendered selectors *)
Definition pv_csafe (p : stok) : bool := negb (eqs (sval p) (s ":")).
Definition idsafe (p : stok) : bool :=
  pv_csafe p && negb (eqs (sval p) (s ".")) && negb (starts (s ":") (sval p) && negb (last_is 40 (sval p))).
Definition calm (p : stok) : bool :=
  idsafe p && negb (is_t (sty p) Tnamespace_prefix) && negb (is_t (sty p) TIDENT) && negb (is_t (sty p) Tuniversal).
Definition anytok (p : stok) : bool := true.

Lemma calm_idsafe p : calm p = true -> idsafe p = true.
Proof. unfold calm. intros H. do 3 (apply andb_true_iff in H; destruct H as [H ?]). exact H. Qed.
Lemma idsafe_csafe p : idsafe p = true -> pv_csafe p = true.
Proof. unfold idsafe. intros H. do 2 (apply andb_true_iff in H; destruct H as [H ?]). exact H. Qed.
Lemma calm_csafe p : calm p = true -> pv_csafe p = true.
Proof. intros. now apply idsafe_csafe, calm_idsafe. Qed.

Definition hdP (P : stok -> bool) (acc : list stok) : Prop :=
  match acc with p :: _ => P p = true | [] => True end.
(* {P} a ~> g {Q}: after any glued prefix whose last token satisfies P the raw tokens a are glued into g,
   and the last token then satisfies Q *)
Definition HT (P : stok -> bool) (a g : list stok) (Q : stok -> bool) : Prop :=
  forall acc, hdP P acc -> fold_left pstep a acc = rev g ++ acc /\ hdP Q (rev g ++ acc).

Lemma HT_app P Q S a b g h : HT P a g Q -> HT Q b h S -> HT P (a ++ b) (g ++ h) S.
Proof.
  intros Ha Hb acc Hp. rewrite fold_left_app. destruct (Ha acc Hp) as [E1 Q1]. rewrite E1.
  destruct (Hb _ Q1) as [E2 S2]. rewrite E2, rev_app_distr, <- app_assoc. split; auto.
Qed.
Lemma HT_cons P Q S t b g h : HT P [t] g Q -> HT Q b h S -> HT P (t :: b) (g ++ h) S.
Proof. intros. change (t :: b) with ([t] ++ b). eapply HT_app; eauto. Qed.
Lemma HT_weaken (P P' Q Q' : stok -> bool) a g :
  (forall p, P' p = true -> P p = true) -> (forall p, Q p = true -> Q' p = true) ->
  HT P a g Q -> HT P' a g Q'.
Proof.
  intros HP HQ Hh acc Hp. destruct (Hh acc) as [E Q1].
  - destruct acc; simpl in *; auto.
  - split; auto. destruct (rev g ++ acc); simpl in *; auto.
Qed.
Lemma HT_nil P : HT P [] [] P.
Proof. intros acc Hp. simpl. auto. Qed.

Definition neutral (t : stok) : bool :=
  negb (is_t (sty t) TIDENT) && negb (is_t (sty t) TFUNCTION) &&
  negb (eqs (sval t) (s ":")) && negb (eqs (sval t) (s "*")) && negb (eqs (sval t) (s "|")).

Lemma pstep_neutral acc t : neutral t = true -> pstep acc t = t :: acc.
Proof.
  unfold neutral. intros H. repeat (apply andb_true_iff in H; destruct H as [H ?]).
  apply negb_true_iff in H, H0, H1, H2, H3.
  unfold pstep. rewrite H, H0, H1, H2, H3. destruct acc; reflexivity.
Qed.
Lemma HT_neutral P (Q : stok -> bool) t : neutral t = true -> Q t = true -> HT P [t] [t] Q.
Proof. intros Hn Hq acc _. simpl. rewrite pstep_neutral by assumption. split; auto. Qed.

(* opaque values *)
Lemma opaque_facts v : opaque v = true ->
  eqs v (s ":") = false /\ eqs v (s "*") = false /\ eqs v (s "|") = false /\ eqs v (s ".") = false /\
  starts (s ":") v = false.
Proof.
  destruct v as [|c r]; [intros; repeat split; reflexivity|].
  unfold opaque. cbn [eqs starts s_of_string].
  change (N_of_ascii ":") with 58%N. change (N_of_ascii "*") with 42%N. change (N_of_ascii "|") with 124%N.
  change (N_of_ascii ".") with 46%N. rewrite (N.eqb_sym 58 c).
  destruct (N.eqb_spec c 58), (N.eqb_spec c 42), (N.eqb_spec c 124), (N.eqb_spec c 46); subst; try discriminate;
  destruct r; simpl; intros H; try discriminate; repeat split; reflexivity.
Qed.

Lemma namechar_facts c : namechar c = true ->
  N.eqb c 58 = false /\ N.eqb c 42 = false /\ N.eqb c 124 = false /\ N.eqb c 46 = false /\ N.eqb c 92 = false
  /\ N.eqb c 40 = false.
Proof.
  unfold namechar. intros H.
  repeat split; apply N.eqb_neq; intros ->; vm_compute in H; discriminate.
Qed.
Lemma ident_opaque n : ident n = true -> opaque n = true.
Proof.
  destruct n as [|c r]; simpl; [discriminate|]. intros H. apply andb_true_iff in H as [H _].
  destruct (namechar_facts c H) as (A & B & C & D & _). rewrite A, B, C, D. reflexivity.
Qed.
Lemma quoted_opaque v : quoted v = true -> opaque v = true.
Proof.
  destruct v as [|c r]; simpl; [discriminate|]. intros H. apply orb_true_iff in H as [H|H];
    apply N.eqb_eq in H; subst; reflexivity.
Qed.

Lemma calm_of_opaque t v : opaque v = true -> negb (is_t t Tnamespace_prefix) && negb (is_t t TIDENT)
   && negb (is_t t Tuniversal) = true -> calm (mkS t v) = true.
Proof.
  intros Ho Ht. destruct (opaque_facts v Ho) as (A & B & C & D & E).
  unfold calm, idsafe, pv_csafe. cbn [sval sty]. rewrite A, D, E. cbn [negb andb].
  exact Ht.
Qed.
Lemma neutral_of_opaque t v : opaque v = true -> negb (is_t t TIDENT) && negb (is_t t TFUNCTION) = true ->
  neutral (mkS t v) = true.
Proof.
  intros Ho Ht. destruct (opaque_facts v Ho) as (A & B & C & D & E).
  unfold neutral. cbn [sval sty]. rewrite A, B, C, Ht. reflexivity.
Qed.

(* layout *)
Lemma HT_ws (P : stok -> bool) w : (forall p, calm p = true -> P p = true) -> ok_ws w = true ->
  HT P (r_ws w) (r_ws w) P.
Proof.
  intros HP. revert P HP. induction w as [|x w IH]; intros P HP Hok; [apply HT_nil|].
  simpl in Hok. apply andb_true_iff in Hok as [Hx Hw]. simpl.
  change (r_w x :: r_ws w) with ([r_w x] ++ r_ws w).
  apply HT_app with (Q := calm).
  - destruct x; simpl in *; apply HT_neutral; try (apply neutral_of_opaque; auto); apply calm_of_opaque; auto.
  - eapply HT_weaken; [| |apply (IH calm)]; auto.
Qed.
Lemma HT_cm (P : stok -> bool) c : (forall p, calm p = true -> P p = true) -> ok_cm c = true ->
  HT P (r_cm c) (r_cm c) P.
Proof.
  intros HP. revert P HP. induction c as [|x c IH]; intros P HP Hok; [apply HT_nil|].
  simpl in Hok. apply andb_true_iff in Hok as [Hx Hw]. simpl.
  change (mkS TCOMMENT x :: r_cm c) with ([mkS TCOMMENT x] ++ r_cm c).
  apply HT_app with (Q := calm).
  - apply HT_neutral; [apply neutral_of_opaque|apply calm_of_opaque]; auto.
  - eapply HT_weaken; [| |apply (IH calm)]; auto.
Qed.

(* ---- single pre-pass steps *)
Lemma ident_facts n : ident n = true ->
  eqs n (s ":") = false /\ eqs n (s "*") = false /\ eqs n (s "|") = false /\ eqs n (s ".") = false /\
  starts (s ":") n = false /\ mem 124 n = false /\ n <> [].
Proof.
  intros H. destruct (opaque_facts n (ident_opaque n H)) as (A & B & C & D & E).
  repeat split; auto.
  - destruct n; [discriminate|]. unfold ident in H. clear -H. induction (n :: n0) as [|c r IH]; [reflexivity|].
    simpl in *. apply andb_true_iff in H as [H1 H2]. destruct (namechar_facts c H1) as (_ & _ & X & _).
    rewrite X. simpl. auto.
  - intros ->. discriminate.
Qed.

Lemma unesc_name_plain b x : mem 92 x = false -> unesc_name b x = x.
Proof.
  revert b. induction x as [|c r IH]; intros b H; [reflexivity|]. cbn [mem] in H. apply orb_false_iff in H as [H1 H2].
  cbn [unesc_name]. rewrite H1. now rewrite IH.
Qed.

Lemma pstep_ident acc n : hdP idsafe acc -> ident n = true ->
  pstep acc (mkS TIDENT n) = mkS TIDENT n :: acc.
Proof.
  intros Hp Hn. destruct (ident_facts n Hn) as (A & B & C & D & E & F & G).
  destruct acc as [|p acc]; unfold pstep; cbn [sty sval is_t tty_eqb andb]; rewrite ?A, ?B, ?C; [reflexivity|].
  simpl in Hp. unfold idsafe, pv_csafe in Hp. do 2 (apply andb_true_iff in Hp; destruct Hp as [Hp ?]).
  apply negb_true_iff in Hp, H, H0. rewrite H0, H. reflexivity.
Qed.

Lemma pstep_star acc : hdP calm acc -> pstep acc (ch "*") = mkS Tuniversal (s "*") :: acc.
Proof.
  destruct acc as [|p acc]; [reflexivity|]. cbn [hdP]. unfold calm. intros H.
  do 3 (apply andb_true_iff in H; destruct H as [H ?]). apply negb_true_iff in H2.
  unfold pstep, ch. cbn [sty sval is_t tty_eqb]. rewrite H2. reflexivity.
Qed.

Lemma pstep_bar acc : hdP calm acc -> pstep acc (ch "|") = mkS Tnamespace_prefix (s "|") :: acc.
Proof.
  destruct acc as [|p acc]; [reflexivity|]. cbn [hdP]. unfold calm. intros H.
  do 3 (apply andb_true_iff in H; destruct H as [H ?]). apply negb_true_iff in H0, H1.
  unfold pstep, ch. cbn [sty sval is_t tty_eqb]. rewrite H0, H1. reflexivity.
Qed.

Lemma pstep_bar_ident acc p : ident p = true ->
  pstep (mkS TIDENT p :: acc) (ch "|") = mkS Tnamespace_prefix (p ++ s "|") :: acc.
Proof.
  intros Hn. destruct (ident_facts p Hn) as (A & B & C & D & E & F & G).
  unfold pstep, ch. cbn [sty sval is_t tty_eqb]. rewrite F. reflexivity.
Qed.

Lemma last_is_app c v : last_is c (v ++ [c]) = true.
Proof.
  induction v as [|x v IH]; simpl; [apply N.eqb_refl|].
  destruct (v ++ [c]) eqn:E; [destruct v; discriminate|]. exact IH.
Qed.

Lemma pstep_colon acc : hdP pv_csafe acc -> pstep acc (ch ":") = ch ":" :: acc.
Proof.
  destruct acc as [|p acc]; [reflexivity|]. cbn [hdP]. unfold pv_csafe. intros H. apply negb_true_iff in H.
  unfold pstep, ch. cbn [sty sval is_t tty_eqb]. rewrite H. reflexivity.
Qed.

Definition cval (dbl : bool) : str := if dbl then s "::" else s ":".
Definition pty (dbl : bool) : tty := if dbl then Tpseudo_element else Tpseudo_class.

Lemma pstep_colons acc dbl : hdP pv_csafe acc ->
  fold_left pstep (colons dbl) acc = mkS TCHAR (cval dbl) :: acc.
Proof.
  intros H. destruct dbl; cbn [colons fold_left]; rewrite (pstep_colon acc) by assumption; reflexivity.
Qed.

Lemma pstep_pseudo_ident acc dbl n : ident n = true ->
  pstep (mkS TCHAR (cval dbl) :: acc) (mkS TIDENT n) = mkS (pty dbl) (cval dbl ++ n) :: acc.
Proof.
  intros Hn. destruct (ident_facts n Hn) as (A & B & C & D & E & F & G).
  destruct dbl; unfold pstep; cbn [sty sval is_t tty_eqb cval andb]; rewrite A; reflexivity.
Qed.

Lemma unesc_plain x : mem 92 x = false -> unesc x = x.
Proof.
  induction x as [|c r IH]; [reflexivity|]. simpl. intros H. apply orb_false_iff in H as [H1 H2].
  rewrite H1. now rewrite IH.
Qed.
Lemma lower_app a b : lower (a ++ b) = lower a ++ lower b.
Proof. unfold lower. apply flat_map_app. Qed.
Lemma ident_noslash n : forallb namechar n = true -> mem 92 n = false.
Proof.
  induction n as [|c r IH]; [reflexivity|]. simpl. intros H. apply andb_true_iff in H as [H1 H2].
  destruct (namechar_facts c H1) as (_ & _ & _ & _ & X & _). rewrite X. simpl. auto.
Qed.
Lemma mem_app c a b : mem c (a ++ b) = mem c a || mem c b.
Proof. induction a; simpl; [reflexivity|]. now rewrite IHa, orb_assoc. Qed.
Lemma ident_namechars n : ident n = true -> forallb namechar n = true.
Proof. destruct n; [discriminate|]. auto. Qed.

Lemma normalize_fn pre n : mem 92 pre = false -> ident n = true ->
  normalize (pre ++ n ++ s "(") = lower pre ++ lower n ++ s "(".
Proof.
  intros Hp Hn. unfold normalize. rewrite unesc_plain.
  - now rewrite !lower_app.
  - rewrite !mem_app, Hp, (ident_noslash n (ident_namechars n Hn)). reflexivity.
Qed.
Lemma normalize_id pre n : mem 92 pre = false -> ident n = true ->
  normalize (pre ++ n) = lower pre ++ lower n.
Proof.
  intros Hp Hn. unfold normalize. rewrite unesc_plain.
  - now rewrite !lower_app.
  - rewrite !mem_app, Hp, (ident_noslash n (ident_namechars n Hn)). reflexivity.
Qed.

Lemma fn_not n : ident n = true -> eqs (lower n) (s "not") = false ->
  eqs (normalize (n ++ s "(")) (s "not(") = false.
Proof.
  intros Hn H. pose proof (normalize_fn [] n eq_refl Hn) as Z. change (lower []) with (@nil N) in Z. cbn [app] in Z. rewrite Z.
  destruct (eqs (lower n ++ s "(") (s "not(")) eqn:E; [|reflexivity].
  apply eqs_spec in E. change (s "not(") with (s "not" ++ s "(") in E. apply app_inv_tail in E.
  rewrite E in H. vm_compute in H. discriminate.
Qed.

Lemma pstep_pseudo_fn acc dbl n : ident n = true -> eqs (lower n) (s "not") = false ->
  pstep (mkS TCHAR (cval dbl) :: acc) (mkS TFUNCTION (n ++ s "(")) = mkS (pty dbl) (cval dbl ++ n ++ s "(") :: acc.
Proof.
  intros Hn Hnot. pose proof (fn_not n Hn Hnot) as X.
  assert (Y : eqs (n ++ s "(") (s ":") = false).
  { destruct n as [|c r]; [discriminate|]. simpl in Hn. apply andb_true_iff in Hn as [Hc _].
    destruct (namechar_facts c Hc) as (A & _). simpl. change (N_of_ascii ":") with 58%N. rewrite A. reflexivity. }
  destruct dbl; unfold pstep; cbn [sty sval is_t tty_eqb cval andb]; rewrite Y, X; reflexivity.
Qed.

(* ---- glued forms *)
Definition nsval (q : nsq) : str :=
  match q with NsDefault => [] | NsAny => s "*|" | NsNo => s "|" | NsP p => p ++ s "|" end.
Definition g_ns (q : nsq) : list stok :=
  match q with NsDefault => [] | _ => [mkS Tnamespace_prefix (nsval q)] end.
Definition g_univ (q : nsq) : stok := mkS Tuniversal (nsval q ++ s "*").
Definition g_attr (a : attr) : list stok :=
  ch "[" :: r_ws (at_w1 a) ++ g_ns (at_ns a) ++ mkS TIDENT (at_name a) :: r_ws (at_w2 a) ++
  match at_rest a with
  | None => []
  | Some (o, w3, v, w4) => r_op o :: r_ws w3 ++ r_av v :: r_ws w4
  end ++ [ch "]"].
Definition g_pseudo (p : pseudo) : list stok :=
  match p with
  | PsId dbl n => [mkS (pty dbl) (cval dbl ++ n)]
  | PsFn dbl n w e => mkS (pty dbl) (cval dbl ++ n ++ s "(") :: r_ws w ++ r_expr e ++ [ch ")"]
  end.
Definition g_class (n : str) : stok := mkS Tclass (s "." ++ n).
Definition g_negarg (a : negarg) : list stok :=
  match a with
  | NaType q n => g_ns q ++ [mkS TIDENT n]
  | NaUniv q => [g_univ q]
  | NaHash v => [mkS THASH v]
  | NaClass n => [g_class n]
  | NaAttr a => g_attr a
  | NaPseudo p => g_pseudo p
  end.
Definition g_simple (x : simple) : list stok :=
  match x with
  | SHash v => [mkS THASH v]
  | SClass n => [g_class n]
  | SAttr a => g_attr a
  | SPseudo p => g_pseudo p
  | SNot w1 a w2 => mkS Tnegation (s ":not(") :: r_ws w1 ++ g_negarg a ++ r_ws w2 ++ [ch ")"]
  end.
Definition g_head (h : head) : list stok :=
  match h with HNone => [] | HType q n => g_ns q ++ [mkS TIDENT n] | HUniv q => [g_univ q] end.
Definition g_compound (c : compound) : list stok :=
  g_head (c_head c) ++ flat_map (fun p => r_cm (fst p) ++ g_simple (snd p)) (c_rest c) ++
  match c_pe c with None => [] | Some (cm, p) => r_cm cm ++ g_pseudo p end.
Definition g_selector (x : selector) : list stok :=
  r_ws (s_lead x) ++ g_compound (s_first x) ++
  flat_map (fun p => r_comb (fst p) ++ g_compound (snd p)) (s_more x) ++ r_ws (s_trail x).

(* ---- units *)
Lemma idsafe_first t c r : N.eqb c 58 = false -> N.eqb c 46 = false -> idsafe (mkS t (c :: r)) = true.
Proof.
  intros A B. unfold idsafe, pv_csafe. cbn [sval].
  assert (E1 : eqs (c :: r) (s ":") = false)
    by (cbn [eqs s_of_string]; change (N_of_ascii ":") with 58%N; rewrite A; reflexivity).
  assert (E2 : eqs (c :: r) (s ".") = false)
    by (cbn [eqs s_of_string]; change (N_of_ascii ".") with 46%N; rewrite B; reflexivity).
  assert (E3 : starts (s ":") (c :: r) = false)
    by (cbn [starts s_of_string]; change (N_of_ascii ":") with 58%N; rewrite N.eqb_sym, A; reflexivity).
  rewrite E1, E2, E3. reflexivity.
Qed.
Lemma idsafe_ident t n : ident n = true -> idsafe (mkS t n) = true.
Proof.
  intros Hn. destruct n as [|c r]; [discriminate|]. simpl in Hn. apply andb_true_iff in Hn as [Hc _].
  destruct (namechar_facts c Hc) as (X1 & X2 & X3 & X4 & _). now apply idsafe_first.
Qed.
Lemma idsafe_ns ns q : declared ns q = true -> idsafe (mkS Tnamespace_prefix (nsval q)) = true.
Proof.
  intros Hd. destruct q; try reflexivity.
  simpl in Hd. apply andb_true_iff in Hd as [Hp _].
  destruct p as [|c r]; [discriminate|]. simpl in Hp. apply andb_true_iff in Hp as [Hc _].
  destruct (namechar_facts c Hc) as (X1 & X2 & X3 & X4 & _). cbn [nsval app]. now apply idsafe_first.
Qed.

Lemma HT_ns ns q : declared ns q = true -> HT calm (r_ns q) (g_ns q) idsafe.
Proof.
  intros Hd. destruct q as [| | |p].
  - simpl. eapply HT_weaken; [| |apply HT_nil]; auto using calm_idsafe.
  - intros acc Hp. cbn [r_ns fold_left]. rewrite (pstep_star acc) by assumption. split; reflexivity.
  - intros acc Hp. cbn [r_ns fold_left]. rewrite (pstep_bar acc) by assumption. split; reflexivity.
  - intros acc Hp. pose proof Hd as Hd'. simpl in Hd. apply andb_true_iff in Hd as [Hi _]. cbn [r_ns fold_left].
    rewrite (pstep_ident acc); auto.
    + rewrite pstep_bar_ident by assumption. split; [reflexivity|].
      apply (idsafe_ns ns (NsP p) Hd').
    + destruct acc; simpl in *; auto using calm_idsafe.
Qed.

Lemma HT_tname ns q n : declared ns q = true -> ident n = true ->
  HT calm (r_ns q ++ [mkS TIDENT n]) (g_ns q ++ [mkS TIDENT n]) idsafe.
Proof.
  intros Hd Hn. eapply HT_app; [apply (HT_ns ns); assumption|].
  intros acc Hp. cbn [fold_left]. rewrite pstep_ident; auto. split; [reflexivity|].
  now apply idsafe_ident.
Qed.

Lemma last_is_bar q : q <> NsDefault -> last_is 124 (nsval q) = true.
Proof. destruct q; try reflexivity; [congruence|]. intros _. apply (last_is_app 124 p). Qed.

Lemma HT_univ ns q : declared ns q = true -> HT calm (r_ns q ++ [ch "*"]) [g_univ q] idsafe.
Proof.
  intros Hd. destruct q as [| | |p].
  - intros acc Hp. cbn [r_ns app fold_left]. rewrite (pstep_star acc) by assumption. split; reflexivity.
  - intros acc Hp. cbn [r_ns app fold_left]. rewrite (pstep_star acc) by assumption. split; reflexivity.
  - intros acc Hp. cbn [r_ns app fold_left]. rewrite (pstep_bar acc) by assumption. split; reflexivity.
  - intros acc Hp. pose proof Hd as Hd'. simpl in Hd. apply andb_true_iff in Hd as [Hi _].
    cbn [r_ns app fold_left]. rewrite pstep_ident; auto.
    + rewrite pstep_bar_ident by assumption.
      unfold pstep at 1. cbn [sty sval is_t tty_eqb ch andb].
      rewrite (last_is_app 124 p : last_is 124 (p ++ s "|") = true). split; [reflexivity|].
      destruct p as [|c r]; [discriminate|]. simpl in Hi. apply andb_true_iff in Hi as [Hc _].
      destruct (namechar_facts c Hc) as (X1 & X2 & X3 & X4 & _).
      unfold g_univ. cbn [nsval app rev hdP]. now apply idsafe_first.
    + destruct acc; simpl in *; auto using calm_idsafe.
Qed.

Lemma calm_any (p : stok) : calm p = true -> anytok p = true.
Proof. reflexivity. Qed.
Lemma calm_ch x : opaque (s x) = true -> calm (ch x) = true.
Proof. intros. apply calm_of_opaque; auto. Qed.
Lemma neutral_ch x : opaque (s x) = true -> neutral (ch x) = true.
Proof. intros. apply neutral_of_opaque; auto. Qed.

Lemma HT_tok P t v : opaque v = true -> negb (is_t t TIDENT) && negb (is_t t TFUNCTION) = true ->
  negb (is_t t Tnamespace_prefix) && negb (is_t t TIDENT) && negb (is_t t Tuniversal) = true ->
  HT P [mkS t v] [mkS t v] calm.
Proof. intros. apply HT_neutral; [apply neutral_of_opaque|apply calm_of_opaque]; auto. Qed.

Lemma HT_class P n : ident n = true -> HT P [ch "."; mkS TIDENT n] [g_class n] calm.
Proof.
  intros Hn acc _. destruct (ident_facts n Hn) as (A & B & C & D & E & F & G).
  cbn [fold_left]. rewrite (pstep_neutral acc (ch ".")) by reflexivity.
  unfold pstep. cbn [sty sval is_t tty_eqb ch andb]. rewrite A. split; [reflexivity|].
  destruct n as [|c r]; [congruence|]. reflexivity.
Qed.

Lemma HT_op P o : HT P [r_op o] [r_op o] calm.
Proof. destruct o; apply HT_neutral; reflexivity. Qed.
Lemma HT_av P v : match v with AvI x => ident x | AvS x => quoted x end = true -> HT idsafe [r_av v] [r_av v] P ->
  True.
Proof. auto. Qed.

Lemma HT_attr ns P a : ok_attr ns a = true -> HT P (r_attr a) (g_attr a) calm.
Proof.
  unfold ok_attr. intros H. do 4 (apply andb_true_iff in H; destruct H as [H ?]).
  rename H into Hw1, H3 into Hd, H2 into Hn, H1 into Hw2, H0 into Hr.
  unfold r_attr, g_attr.
  change (ch "[" :: r_ws (at_w1 a) ++ ?x) with ([ch "["] ++ r_ws (at_w1 a) ++ x).
  apply HT_app with (Q := calm); [apply HT_neutral; reflexivity|].
  apply HT_app with (Q := calm); [apply HT_ws; auto|].
  apply HT_app with (Q := idsafe); [apply (HT_ns ns); auto|].
  change (mkS TIDENT (at_name a) :: ?x) with ([mkS TIDENT (at_name a)] ++ x).
  apply HT_app with (Q := idsafe).
  { intros acc Hp. cbn [fold_left]. rewrite pstep_ident by assumption. split; [reflexivity|]. now apply idsafe_ident. }
  apply HT_app with (Q := idsafe); [apply HT_ws; auto using calm_idsafe|].
  apply HT_app with (Q := idsafe).
  - destruct (at_rest a) as [[[[o w3] v] w4]|]; [|apply HT_nil].
    do 2 (apply andb_true_iff in Hr; destruct Hr as [Hr ?]).
    change (r_op o :: ?x) with ([r_op o] ++ x).
    apply HT_app with (Q := calm); [apply HT_op|].
    apply HT_app with (Q := calm); [apply HT_ws; auto|].
    change (r_av v :: ?x) with ([r_av v] ++ x).
    apply HT_app with (Q := idsafe); [|apply HT_ws; auto using calm_idsafe].
    destruct v as [x|x]; cbn [r_av].
    + intros acc Hp. cbn [fold_left]. rewrite pstep_ident; auto.
      * split; [reflexivity|]. now apply idsafe_ident.
      * destruct acc; simpl in *; auto using calm_idsafe.
    + apply HT_neutral; [apply neutral_of_opaque; auto using quoted_opaque|].
      apply calm_idsafe, calm_of_opaque; auto using quoted_opaque.
  - apply HT_neutral; reflexivity.
Qed.

Lemma HT_et t : ok_et t = true -> HT idsafe [r_et t] [r_et t] idsafe.
Proof.
  destruct t; cbn [ok_et r_et]; intros H; try (apply HT_neutral; reflexivity).
  - apply HT_neutral; [apply neutral_of_opaque|apply calm_idsafe, calm_of_opaque]; auto.
  - apply HT_neutral; [apply neutral_of_opaque|apply calm_idsafe, calm_of_opaque]; auto.
  - apply HT_neutral; [apply neutral_of_opaque|apply calm_idsafe, calm_of_opaque]; auto using quoted_opaque.
  - intros acc Hp. cbn [fold_left]. rewrite pstep_ident by assumption. split; [reflexivity|]. now apply idsafe_ident.
Qed.

Lemma HT_expr e : forallb (fun p => ok_et (fst p) && ok_ws (snd p)) e = true -> HT idsafe (r_expr e) (r_expr e) idsafe.
Proof.
  induction e as [|[t w] e IH]; [intros; apply HT_nil|]. simpl. intros H.
  apply andb_true_iff in H as [H1 H2]. apply andb_true_iff in H1 as [H0 H1].
  change (r_et t :: r_ws w ++ ?x) with ([r_et t] ++ r_ws w ++ x).
  apply HT_app with (Q := idsafe); [now apply HT_et|].
  apply HT_app with (Q := idsafe); [apply HT_ws; auto using calm_idsafe|auto].
Qed.

Lemma csafe_colon_name t dbl x : x <> [] -> pv_csafe (mkS t (cval dbl ++ x)) = true.
Proof. destruct x; [congruence|]. destruct dbl; reflexivity. Qed.

Lemma HT_pseudo p : ok_pseudo p = true -> HT pv_csafe (r_pseudo p) (g_pseudo p) pv_csafe.
Proof.
  destruct p as [dbl n|dbl n w e]; cbn [ok_pseudo r_pseudo g_pseudo]; intros H.
  - intros acc Hp. rewrite fold_left_app, pstep_colons by assumption. cbn [fold_left].
    rewrite pstep_pseudo_ident by assumption. split; [reflexivity|].
    destruct (ident_facts n H) as (_ & _ & _ & _ & _ & _ & G). now apply csafe_colon_name.
  - do 3 (apply andb_true_iff in H; destruct H as [H ?]). apply negb_true_iff in H2.
    change (mkS (pty dbl) (cval dbl ++ n ++ s "(") :: ?x) with ([mkS (pty dbl) (cval dbl ++ n ++ s "(")] ++ x).
    change (colons dbl ++ mkS TFUNCTION (n ++ s "(") :: ?x) with (colons dbl ++ [mkS TFUNCTION (n ++ s "(")] ++ x).
    rewrite app_assoc.
    apply HT_app with (Q := calm).
    + intros acc Hp. rewrite fold_left_app, pstep_colons by assumption. cbn [fold_left].
      rewrite pstep_pseudo_fn by assumption. split; [reflexivity|].
      cbn [rev app hdP]. unfold calm, idsafe, pv_csafe. cbn [sval sty].
      assert (L : last_is 40 (cval dbl ++ n ++ s "(") = true).
      { rewrite app_assoc. apply (last_is_app 40). }
      rewrite L. destruct (ident_facts n H) as (_ & _ & _ & _ & _ & _ & G).
      destruct n as [|c r]; [congruence|]. destruct dbl; reflexivity.
    + apply HT_app with (Q := idsafe);
        [eapply HT_weaken; [| |apply (HT_ws idsafe)]; auto using calm_idsafe|].
      apply HT_app with (Q := idsafe).
      * apply HT_expr. unfold ok_expr in H0. destruct e; [discriminate|exact H0].
      * eapply HT_weaken; [| |apply (HT_neutral idsafe calm (ch ")")); reflexivity]; auto using calm_csafe.
Qed.

Lemma hashv_opaque v : hashv v = true -> opaque v = true.
Proof. destruct v as [|c r]; simpl; [discriminate|]. intros H. apply N.eqb_eq in H. subst. reflexivity. Qed.
Lemma HT_hash P v : hashv v = true -> HT P [mkS THASH v] [mkS THASH v] calm.
Proof. intros. apply HT_tok; auto using hashv_opaque. Qed.

Lemma HT_negarg ns a : ok_negarg ns a = true -> HT calm (r_negarg a) (g_negarg a) pv_csafe.
Proof.
  destruct a; cbn [ok_negarg r_negarg g_negarg]; intros H.
  - apply andb_true_iff in H as [H1 H2]. eapply HT_weaken; [| |apply (HT_tname ns)]; auto using idsafe_csafe.
  - eapply HT_weaken; [| |apply (HT_univ ns)]; auto using idsafe_csafe.
  - eapply HT_weaken; [| |apply (HT_hash calm)]; auto using calm_csafe.
  - eapply HT_weaken; [| |apply (HT_class calm)]; auto using calm_csafe.
  - eapply HT_weaken; [| |apply (HT_attr ns calm)]; auto using calm_csafe.
  - eapply HT_weaken; [| |apply HT_pseudo]; auto using calm_csafe.
Qed.

Lemma HT_simple ns x : ok_simple ns x = true -> HT pv_csafe (r_simple x) (g_simple x) pv_csafe.
Proof.
  destruct x; cbn [ok_simple r_simple g_simple]; intros H.
  - eapply HT_weaken; [| |apply (HT_hash pv_csafe)]; auto using calm_csafe.
  - eapply HT_weaken; [| |apply (HT_class pv_csafe)]; auto using calm_csafe.
  - eapply HT_weaken; [| |apply (HT_attr ns pv_csafe)]; auto using calm_csafe.
  - apply andb_true_iff in H as [H _]. now apply HT_pseudo.
  - do 2 (apply andb_true_iff in H; destruct H as [H ?]).
    change (ch ":" :: mkS TFUNCTION (s "not(") :: ?x) with ([ch ":"; mkS TFUNCTION (s "not(")] ++ x).
    change (mkS Tnegation (s ":not(") :: ?x) with ([mkS Tnegation (s ":not(")] ++ x).
    apply HT_app with (Q := calm).
    { intros acc Hp. cbn [fold_left]. rewrite (pstep_colon acc) by assumption. split; reflexivity. }
    apply HT_app with (Q := calm); [apply HT_ws; auto|].
    apply HT_app with (Q := pv_csafe); [now apply (HT_negarg ns)|].
    apply HT_app with (Q := pv_csafe); [apply HT_ws; auto using calm_csafe|].
    eapply HT_weaken; [| |apply (HT_neutral pv_csafe calm (ch ")")); reflexivity]; auto using calm_csafe.
Qed.

Lemma HT_head ns h : ok_head ns h = true -> HT calm (r_head h) (g_head h) pv_csafe.
Proof.
  destruct h; cbn [ok_head r_head g_head]; intros H.
  - eapply HT_weaken; [| |apply HT_nil]; auto using calm_csafe.
  - apply andb_true_iff in H as [H1 H2]. eapply HT_weaken; [| |apply (HT_tname ns)]; auto using idsafe_csafe.
  - eapply HT_weaken; [| |apply (HT_univ ns)]; auto using idsafe_csafe.
Qed.

Lemma HT_rest ns l : forallb (fun p => ok_cm (fst p) && ok_simple ns (snd p)) l = true ->
  HT pv_csafe (flat_map (fun p => r_cm (fst p) ++ r_simple (snd p)) l)
              (flat_map (fun p => r_cm (fst p) ++ g_simple (snd p)) l) pv_csafe.
Proof.
  induction l as [|[c x] l IH]; [intros; apply HT_nil|]. cbn [forallb flat_map fst snd]. intros H.
  apply andb_true_iff in H as [H1 H2]. apply andb_true_iff in H1 as [H0 H1].
  rewrite <- !app_assoc.
  apply HT_app with (Q := pv_csafe); [apply HT_cm; auto using calm_csafe|].
  apply HT_app with (Q := pv_csafe); [now apply (HT_simple ns)|auto].
Qed.

Lemma HT_compound ns c : ok_compound ns c = true -> HT calm (r_compound c) (g_compound c) pv_csafe.
Proof.
  unfold ok_compound. intros H. do 3 (apply andb_true_iff in H; destruct H as [H ?]).
  unfold r_compound, g_compound.
  apply HT_app with (Q := pv_csafe); [now apply (HT_head ns)|].
  apply HT_app with (Q := pv_csafe); [now apply (HT_rest ns)|].
  destruct (c_pe c) as [[cm p]|]; [|apply HT_nil].
  do 2 (apply andb_true_iff in H1; destruct H1 as [H1 ?]).
  apply HT_app with (Q := pv_csafe); [apply HT_cm; auto using calm_csafe|now apply HT_pseudo].
Qed.

Lemma HT_comb c : ok_comb c = true -> HT pv_csafe (r_comb c) (r_comb c) calm.
Proof.
  destruct c; cbn [ok_comb r_comb]; intros H.
  - do 2 (apply andb_true_iff in H; destruct H as [H ?]).
    apply HT_app with (Q := pv_csafe); [apply HT_ws; auto using calm_csafe|].
    change (mkS TS sp :: ?x) with ([mkS TS sp] ++ x).
    apply HT_app with (Q := calm); [apply HT_tok; auto|apply HT_ws; auto].
  - apply andb_true_iff in H as [H1 H2].
    apply HT_app with (Q := pv_csafe); [apply HT_ws; auto using calm_csafe|].
    change (ch ">" :: ?x) with ([ch ">"] ++ x).
    apply HT_app with (Q := calm); [apply HT_neutral; reflexivity|apply HT_ws; auto].
  - apply andb_true_iff in H as [H1 H2].
    apply HT_app with (Q := pv_csafe); [apply HT_ws; auto using calm_csafe|].
    change (ch "+" :: ?x) with ([ch "+"] ++ x).
    apply HT_app with (Q := calm); [apply HT_neutral; reflexivity|apply HT_ws; auto].
  - apply andb_true_iff in H as [H1 H2].
    apply HT_app with (Q := pv_csafe); [apply HT_ws; auto using calm_csafe|].
    change (ch "~" :: ?x) with ([ch "~"] ++ x).
    apply HT_app with (Q := calm); [apply HT_neutral; reflexivity|apply HT_ws; auto].
Qed.

Lemma HT_more ns l : forallb (fun p => ok_comb (fst p) && ok_compound ns (snd p)) l = true ->
  HT pv_csafe (flat_map (fun p => r_comb (fst p) ++ r_compound (snd p)) l)
              (flat_map (fun p => r_comb (fst p) ++ g_compound (snd p)) l) pv_csafe.
Proof.
  induction l as [|[c x] l IH]; [intros; apply HT_nil|]. cbn [forallb flat_map fst snd]. intros H.
  apply andb_true_iff in H as [H1 H2]. apply andb_true_iff in H1 as [H0 H1].
  rewrite <- !app_assoc.
  apply HT_app with (Q := calm); [now apply HT_comb|].
  apply HT_app with (Q := pv_csafe); [now apply (HT_compound ns)|auto].
Qed.

Theorem prepass_render ns x : Declared ns x -> prepass (render x) = g_selector x.
Proof.
  unfold Declared, declared_b. intros H. do 3 (apply andb_true_iff in H; destruct H as [H ?]).
  assert (T : HT calm (render x) (g_selector x) pv_csafe).
  { unfold render, g_selector.
    apply HT_app with (Q := calm); [apply HT_ws; auto|].
    apply HT_app with (Q := pv_csafe); [now apply (HT_compound ns)|].
    apply HT_app with (Q := pv_csafe); [now apply (HT_more ns)|apply HT_ws; auto using calm_csafe]. }
  unfold prepass. destruct (T [] I) as [E _]. rewrite E, app_nil_r. apply rev_involutive.
Qed.

(* ================================================================== part 2: the machine on glued tokens *)
Definition octx (neg : bool) : list cx := if neg then [CNegation] else [].
Definition cont (e : exp) : bool :=
  match e with E_simple_selector_sequence | E_simple_selector_sequence__combinator
             | E_simple_selector_sequence2__combinator => true | _ => false end.
Definition hstart (e : exp) : bool :=
  match e with E_simple_selector_sequence | E_simple_selector_sequence__combinator => true | _ => false end.
Definition startok (neg : bool) (e : exp) : bool :=
  if neg then match e with E_negation_arg => true | _ => false end else cont e.
Definition hstartok (neg : bool) (e : exp) : bool :=
  if neg then match e with E_negation_arg => true | _ => false end else hstart e.
Definition after_simple (neg : bool) : exp := if neg then E_negationend else E_simple_selector_sequence2__combinator.

Ltac lsimp := repeat (progress (cbn [rev app]; rewrite ?rev_app_distr, <- ?app_assoc)).
Definition nbi (i : item) : bool := negb (blank (snd i)).
Definition nb (q : list item) : bool := existsb nbi q.
Definition pres (q q' : list item) : Prop := nb q = true -> nb q' = true.
Lemma pres_refl q : pres q q. Proof. unfold pres; auto. Qed.
Lemma pres_trans a b c : pres a b -> pres b c -> pres a c. Proof. unfold pres; auto. Qed.
Lemma pres_push i q : pres q (i :: q).
Proof. unfold pres. simpl. intros ->. apply orb_true_r. Qed.
Lemma nb_push i q : nbi i = true -> nb (i :: q) = true.
Proof. simpl. intros ->. reflexivity. Qed.
Lemma pres_nb q q' : nb q = true -> pres q q' -> nb q' = true. Proof. unfold pres; auto. Qed.

Lemma msteps_app ns σ a b :
  msteps ns σ (a ++ b) = match msteps ns σ a with Some σ' => msteps ns σ' b | None => None end.
Proof. revert σ; induction a as [|t a IH]; intros σ; simpl; [reflexivity|]. destruct (mstep ns σ t); auto. Qed.
Lemma msteps_cons ns σ t b :
  msteps ns σ (t :: b) = match msteps ns σ [t] with Some σ' => msteps ns σ' b | None => None end.
Proof. simpl. destruct (mstep ns σ t); auto. Qed.

(* ---- layout tokens *)
Lemma comment_step ns e cxs b c d w q v :
  mstep ns (mkSt e cxs None b c d w q) (mkS TCOMMENT v) = Some (mkSt e cxs None b c d w ((I_COMMENT, VComment v) :: q)).
Proof. destruct cxs as [|[] ?]; reflexivity. Qed.

Lemma ws_inert ns e cxs b c d w q ws :
  match cxs with CPseudoClass :: _ | CPseudoElement :: _ => false | CAttrib :: _ => true | _ => negb (T_S_0 e) end = true ->
  exists q', msteps ns (mkSt e cxs None b c d w q) (r_ws ws) = Some (mkSt e cxs None b c d w q') /\ pres q q' /\
             q' = rev (its_wsI ws) ++ q.
Proof.
  intros Hc. revert q. induction ws as [|x ws IH]; intros q; [exists q; repeat split; [apply pres_refl]|].
  cbn [r_ws map msteps]. destruct x as [v|v]; cbn [r_w].
  - assert (E : mstep ns (mkSt e cxs None b c d w q) (mkS TS v) = Some (mkSt e cxs None b c d w q)).
    { destruct cxs as [|[] ?]; try discriminate Hc; try reflexivity.
      - unfold mstep. change (handler_of (sty (mkS TS v))) with (Some H_S). unfold h_S. cbn [top_pseudo ctx top_is expd negb andb].
        apply negb_true_iff in Hc. rewrite Hc. reflexivity.
      - unfold mstep. change (handler_of (sty (mkS TS v))) with (Some H_S). unfold h_S. cbn [top_pseudo ctx top_is expd is_cx negb andb].
        apply negb_true_iff in Hc. rewrite Hc. reflexivity. }
    rewrite E. apply IH.
  - rewrite comment_step. destruct (IH ((I_COMMENT, VComment v) :: q)) as (q' & E & P & X). exists q'. split; auto.
    split; [eapply pres_trans; [apply pres_push|exact P]|].
    rewrite X. cbn [its_wsI flat_map app rev]. rewrite <- app_assoc. reflexivity.
Qed.

Definition is_pcx (x : cx) : bool := match x with CPseudoClass | CPseudoElement => true | _ => false end.
Lemma ws_pseudo ns e x o b c d w q ws : is_pcx x = true ->
  exists q', msteps ns (mkSt e (x :: o) None b c d w q) (r_ws ws) = Some (mkSt e (x :: o) None b c d w q') /\ pres q q' /\
             q' = sq_argws ws q.
Proof.
  intros Hx. revert q. induction ws as [|t ws IH]; intros q; [exists q; repeat split; apply pres_refl|].
  cbn [r_ws map msteps]. destruct t as [v|v]; cbn [r_w].
  - assert (E : mstep ns (mkSt e (x :: o) None b c d w q) (mkS TS v) =
                Some (mkSt e (x :: o) None b c d w (sq_argw q (WS v))) /\ pres q (sq_argw q (WS v))).
    { unfold mstep. change (handler_of (sty (mkS TS v))) with (Some H_S). unfold h_S, sq_argw.
      change (last_pm (mkSt e (x :: o) None b c d w q)) with (hPM q).
      change (nonempty_sq (mkSt e (x :: o) None b c d w q)) with (match q with [] => false | _ => true end).
      destruct x; try discriminate Hx; cbn [top_pseudo ctx];
        (destruct (match q with [] => false | _ => true end && negb (hPM q));
         [split; [reflexivity|apply pres_push]|split; [reflexivity|apply pres_refl]]). }
    destruct E as (E & P1). rewrite E. destruct (IH (sq_argw q (WS v))) as (q' & E' & P' & X). exists q'. split; auto.
    split; [eapply pres_trans; eauto|exact X].
  - rewrite comment_step. destruct (IH ((I_COMMENT, VComment v) :: q)) as (q' & E & P & X). exists q'. split; auto.
    split; [eapply pres_trans; [apply pres_push|exact P]|exact X].
Qed.

Lemma cm_any ns e cxs b c d w q cm :
  exists q', msteps ns (mkSt e cxs None b c d w q) (r_cm cm) = Some (mkSt e cxs None b c d w q') /\ pres q q' /\
             q' = rev (its_cm cm) ++ q.
Proof.
  revert q. induction cm as [|v cm IH]; intros q; [exists q; repeat split; apply pres_refl|].
  cbn [r_cm map msteps]. rewrite comment_step.
  destruct (IH ((I_COMMENT, VComment v) :: q)) as (q' & E & P & X). exists q'. split; auto.
  split; [eapply pres_trans; [apply pres_push|exact P]|].
  rewrite X. cbn [its_cm map rev]. rewrite <- app_assoc. reflexivity.
Qed.

(* root-level layout: class A = {sss} is kept, class B = after a compound is kept *)
Definition clsB (e : exp) : bool :=
  match e with E_simple_selector_sequence__combinator | E_simple_selector_sequence2__combinator | E_combinator => true
             | _ => false end.
Lemma ws_root_B ns e b c d w q ws : clsB e = true ->
  exists e' q', msteps ns (mkSt e [] None b c d w q) (r_ws ws) = Some (mkSt e' [] None b c d w q') /\ pres q q' /\
                clsB e' = true /\ (e = E_simple_selector_sequence__combinator -> e' = e) /\ q' = rev (its_wsB ws) ++ q.
Proof.
  revert e q. induction ws as [|t ws IH]; intros e q He; [exists e, q; repeat split; auto using pres_refl|].
  cbn [r_ws map msteps]. destruct t as [v|v]; cbn [r_w].
  - assert (E : mstep ns (mkSt e [] None b c d w q) (mkS TS v) =
                Some (mkSt E_simple_selector_sequence__combinator [] None b c d w ((I_descendant, VStr (s " ")) :: q))).
    { destruct e; try discriminate He; reflexivity. }
    rewrite E. destruct (IH E_simple_selector_sequence__combinator ((I_descendant, VStr (s " ")) :: q) eq_refl)
      as (e' & q' & E' & P & B & K & X).
    exists e', q'. split; [exact E'|]. split; [eapply pres_trans; [apply pres_push|exact P]|].
    split; [exact B|]. split; [intros ->; auto|].
    rewrite X. cbn [its_wsB map rev]. rewrite <- app_assoc. reflexivity.
  - rewrite comment_step. destruct (IH e ((I_COMMENT, VComment v) :: q) He) as (e' & q' & E' & P & B & K & X).
    exists e', q'. split; [exact E'|]. split; [eapply pres_trans; [apply pres_push|exact P]|].
    split; [exact B|]. split; [exact K|].
    rewrite X. cbn [its_wsB map rev]. rewrite <- app_assoc. reflexivity.
Qed.


Lemma hash_ok ns neg e b c d w q v : startok neg e = true ->
  msteps ns (mkSt e (octx neg) None b c d w q) [mkS THASH v] =
  Some (mkSt (after_simple neg) (octx neg) None (S b) c d w ((I_id, VStr v) :: q)).
Proof. intros He. destruct neg, e; try discriminate He; reflexivity. Qed.

Lemma class_ok ns neg e b c d w q n : startok neg e = true ->
  msteps ns (mkSt e (octx neg) None b c d w q) [g_class n] =
  Some (mkSt (after_simple neg) (octx neg) None b (S c) d w ((I_class, VStr (s "." ++ n)) :: q)).
Proof. intros He. destruct neg, e; try discriminate He; reflexivity. Qed.

Definition tsel (neg : bool) : ityp := if neg then I_negation_type_selector else I_type_selector.

Lemma nsprefix_step ns neg e b c d w q (p : str) : hstartok neg e = true ->
  mstep ns (mkSt e (octx neg) None b c d w q) (mkS Tnamespace_prefix (p ++ s "|")) =
  Some (mkSt E_element_name (octx neg) (Some p) b c d w q).
Proof.
  intros He. unfold mstep. change (handler_of _) with (Some H_namespace_prefix). unfold h_namespace_prefix.
  destruct neg, e; try discriminate He; cbn; change (s "|") with [124%N]; rewrite removelast_last; reflexivity.
Qed.
Lemma ident_prefixed_step ns neg b c d w q p u n : ident p = true -> assoc_s p ns = Some u ->
  mstep ns (mkSt E_element_name (octx neg) (Some p) b c d w q) (mkS TIDENT n) =
  Some (mkSt (after_simple neg) (octx neg) None b c (S d) w ((tsel neg, VPair (UStr u) n) :: q)).
Proof.
  intros Hp Hu. destruct (ident_facts p Hp) as (A & B & C & D & E & F & G).
  pose proof (unesc_name_plain true p (ident_noslash p (ident_namechars p Hp))) as Un.
  unfold mstep. change (handler_of _) with (Some H_ident). unfold h_ident.
  destruct neg; cbn [top_is ctx octx is_cx expd andb orb T_ident_0 T_ident_1 T_ident_2 T_ident_3 top_pseudo];
    unfold append; cbn [pfx]; cbn [ends_selector orb andb negb]; rewrite B; (destruct p as [|c0 r]; [congruence|]);
    rewrite Un, Hu; reflexivity.
Qed.

Lemma tname_ok ns neg e b c d w q qn n : hstartok neg e = true -> declared ns qn = true -> ident n = true ->
  msteps ns (mkSt e (octx neg) None b c d w q) (g_ns qn ++ [mkS TIDENT n]) =
  Some (mkSt (after_simple neg) (octx neg) None b c (S d) w ((tsel neg, VPair (uri_of ns qn) n) :: q)).
Proof.
  intros He Hd Hn. destruct qn as [| | |p].
  - destruct neg, e; try discriminate He; reflexivity.
  - destruct neg, e; try discriminate He; reflexivity.
  - destruct neg, e; try discriminate He; reflexivity.
  - simpl in Hd. apply andb_true_iff in Hd as [Hp Ha].
    destruct (assoc_s p ns) as [u|] eqn:Eu; [|discriminate].
    cbn [g_ns nsval app msteps]. rewrite nsprefix_step by assumption. cbv beta iota.
    pose proof (ident_prefixed_step ns neg b c d w q p u n Hp Eu) as X.
    rewrite X. cbn [uri_of]. rewrite Eu. reflexivity.
Qed.

Lemma split_bar_ok p x : mem 124 p = false -> mem 124 x = false -> split_bar (p ++ 124%N :: x) = Some (p, x).
Proof.
  intros Hp Hx. induction p as [|c r IH]; simpl.
  - rewrite Hx. reflexivity.
  - simpl in Hp. apply orb_false_iff in Hp as [H1 H2]. rewrite H1, (IH H2). reflexivity.
Qed.

Lemma univ_ok ns neg e b c d w q qn : hstartok neg e = true -> declared ns qn = true ->
  msteps ns (mkSt e (octx neg) None b c d w q) [g_univ qn] =
  Some (mkSt (after_simple neg) (octx neg) None b c d w ((I_universal, VPair (uri_of ns qn) (s "*")) :: q)).
Proof.
  intros He Hd. destruct qn as [| | |p].
  - destruct neg, e; try discriminate He; reflexivity.
  - destruct neg, e; try discriminate He; reflexivity.
  - destruct neg, e; try discriminate He; reflexivity.
  - simpl in Hd. apply andb_true_iff in Hd as [Hp Ha]. destruct (ident_facts p Hp) as (A & B & C & D & E & F & G).
    pose proof (unesc_name_plain true p (ident_noslash p (ident_namechars p Hp))) as Un.
    destruct (assoc_s p ns) as [u|] eqn:Eu; [|discriminate].
    assert (M : mem 124 (nsval (NsP p) ++ s "*") = true).
    { cbn [nsval]. rewrite <- app_assoc, mem_app. simpl. apply orb_true_r. }
    assert (Sp : split_bar (nsval (NsP p) ++ s "*") = Some (p, s "*")).
    { cbn [nsval]. rewrite <- app_assoc. apply split_bar_ok; auto. }
    unfold g_univ. cbn [msteps]. unfold mstep. change (handler_of _) with (Some H_universal). unfold h_universal.
    destruct neg, e; try discriminate He; cbn [expd T_universal_0 top_is ctx octx is_cx];
      unfold append; cbn [pfx vstr sval]; rewrite M, Sp; cbn [ends_selector orb andb negb]; rewrite B;
      (destruct p as [|c0 r]; [congruence|]); rewrite Un, Eu; cbn [uri_of]; rewrite Eu; reflexivity.
Qed.

(* ---- attribute selectors *)
Lemma attname_ok ns o b c d w q qn n : declared ns qn = true -> ident n = true ->
  exists q', msteps ns (mkSt E_attname (CAttrib :: o) None b c d w q) (g_ns qn ++ [mkS TIDENT n]) =
             Some (mkSt E_attcombinator (CAttrib :: o) None b c d w q') /\ pres q q' /\ q' = it_attname ns qn n :: q.
Proof.
  intros Hd Hn. destruct qn as [| | |p].
  - eexists; split; [reflexivity|split; [apply pres_push|reflexivity]].
  - eexists; split; [reflexivity|split; [apply pres_push|reflexivity]].
  - eexists; split; [reflexivity|split; [apply pres_push|reflexivity]].
  - simpl in Hd. apply andb_true_iff in Hd as [Hp Ha]. destruct (ident_facts p Hp) as (A & B & C & D & E & F & G).
    pose proof (unesc_name_plain true p (ident_noslash p (ident_namechars p Hp))) as Un.
    destruct (assoc_s p ns) as [u|] eqn:Eu; [|discriminate].
    exists ((I_attribute_selector, VPair (UStr u) n) :: q).
    split; [|split; [apply pres_push|cbn [it_attname uri_of]; rewrite Eu; reflexivity]].
    cbn [g_ns nsval app msteps].
    assert (S1 : mstep ns (mkSt E_attname (CAttrib :: o) None b c d w q) (mkS Tnamespace_prefix (p ++ s "|")) =
                 Some (mkSt E_attname2 (CAttrib :: o) (Some p) b c d w q)).
    { unfold mstep. change (handler_of _) with (Some H_namespace_prefix). unfold h_namespace_prefix.
      cbn. change (s "|") with [124%N]. rewrite removelast_last. reflexivity. }
    rewrite S1. cbv beta iota.
    unfold mstep. change (handler_of _) with (Some H_ident). unfold h_ident.
    cbn [top_is ctx is_cx expd andb T_ident_0]. unfold append. cbn [pfx]. cbn [ends_selector orb andb negb].
    rewrite B. destruct p as [|c0 r]; [congruence|]. rewrite Un, Eu. reflexivity.
Qed.

Lemma nb_cons_true i q : nbi i = true -> nb (i :: q) = true.
Proof. apply nb_push. Qed.

Definition g_rest (a : attr) : list stok :=
  match at_rest a with None => [] | Some (o, w3, v, w4) => [r_op o] ++ r_ws w3 ++ [r_av v] ++ r_ws w4 end.
Lemma g_attr_eq a : g_attr a = [ch "["] ++ r_ws (at_w1 a) ++ (g_ns (at_ns a) ++ [mkS TIDENT (at_name a)]) ++
                                r_ws (at_w2 a) ++ g_rest a ++ [ch "]"].
Proof.
  unfold g_attr, g_rest. destruct (at_rest a) as [[[[o w3] v] w4]|]; cbn [app]; repeat rewrite <- app_assoc;
    cbn [app]; reflexivity.
Qed.

Definition its_rest (a : attr) : list item :=
  match at_rest a with None => [] | Some (o, w3, v, w4) => it_op o :: its_wsI w3 ++ it_av v :: its_wsI w4 end.
Lemma rest_ok ns o b c d w q a :
  match at_rest a with
  | None => true
  | Some (_, w3, v, w4) => ok_ws w3 && ok_ws w4 && match v with AvI x => ident x | AvS x => quoted x end
  end = true ->
  exists e' q', msteps ns (mkSt E_attcombinator (CAttrib :: o) None b c d w q) (g_rest a) =
             Some (mkSt e' (CAttrib :: o) None b c d w q') /\ pres q q' /\ T_char_0 e' = true /\
             q' = rev (its_rest a) ++ q.
Proof.
  unfold g_rest, its_rest. destruct (at_rest a) as [[[[op w3] v] w4]|]; intros H.
  - do 2 (apply andb_true_iff in H; destruct H as [H ?]).
    rewrite msteps_app.
    assert (S1 : msteps ns (mkSt E_attcombinator (CAttrib :: o) None b c d w q) [r_op op] =
                 Some (mkSt E_attvalue (CAttrib :: o) None b c d w (it_op op :: q))).
    { destruct op; reflexivity. }
    rewrite S1. rewrite msteps_app.
    destruct (ws_inert ns E_attvalue (CAttrib :: o) b c d w (it_op op :: q) w3 eq_refl) as (q2 & E2 & P2 & X2). rewrite E2.
    rewrite msteps_app.
    assert (S3 : msteps ns (mkSt E_attvalue (CAttrib :: o) None b c d w q2) [r_av v] =
                 Some (mkSt E_attend (CAttrib :: o) None b c d w (it_av v :: q2))).
    { destruct v as [x|x].
      - reflexivity.
      - destruct x as [|c0 r]; [discriminate|]. reflexivity. }
    rewrite S3.
    destruct (ws_inert ns E_attend (CAttrib :: o) b c d w (it_av v :: q2) w4 eq_refl) as (q4 & E4 & P4 & X4).
    exists E_attend, q4. split; [exact E4|]. split; [|split; [reflexivity|]].
    + eapply pres_trans; [apply pres_push|]. eapply pres_trans; [exact P2|]. eapply pres_trans; [apply pres_push|exact P4].
    + rewrite X4, X2. cbn [rev]. rewrite !rev_app_distr. cbn [rev app]. rewrite <- !app_assoc. reflexivity.
  - exists E_attcombinator, q. repeat split; auto using pres_refl.
Qed.

Lemma attr_ok ns neg e b c d w q a : startok neg e = true -> ok_attr ns a = true ->
  exists q', msteps ns (mkSt e (octx neg) None b c d w q) (g_attr a) =
             Some (mkSt (after_simple neg) (octx neg) None b (S c) d w q') /\ nb q' = true /\
             q' = rev (its_attr ns a) ++ q.
Proof.
  intros He H. unfold ok_attr in H. do 4 (apply andb_true_iff in H; destruct H as [H ?]).
  rename H into Hw1, H3 into Hd, H2 into Hn, H1 into Hw2, H0 into Hr.
  rewrite g_attr_eq, msteps_app.
  assert (S1 : msteps ns (mkSt e (octx neg) None b c d w q) [ch "["] =
               Some (mkSt E_attname (CAttrib :: octx neg) None b (S c) d w ((I_attribute_start, VStr (s "[")) :: q))).
  { destruct neg, e; try discriminate He; reflexivity. }
  rewrite S1. set (q0 := (I_attribute_start, VStr (s "[")) :: q). assert (N0 : nb q0 = true) by reflexivity.
  rewrite msteps_app.
  destruct (ws_inert ns E_attname (CAttrib :: octx neg) b (S c) d w q0 (at_w1 a) eq_refl) as (q1 & E1 & P1 & X1). rewrite E1.
  rewrite msteps_app.
  destruct (attname_ok ns (octx neg) b (S c) d w q1 _ _ Hd Hn) as (q2 & E2 & P2 & X2). rewrite E2.
  rewrite msteps_app.
  destruct (ws_inert ns E_attcombinator (CAttrib :: octx neg) b (S c) d w q2 (at_w2 a) eq_refl) as (q3 & E3 & P3 & X3).
  rewrite E3. rewrite msteps_app.
  destruct (rest_ok ns (octx neg) b (S c) d w q3 a Hr) as (e4 & q4 & E4 & P4 & T4 & X4). rewrite E4.
  exists ((I_attribute_end, VStr (s "]")) :: q4). split; [|split].
  - destruct neg, e4; try discriminate T4; reflexivity.
  - apply (pres_nb q0); auto. eapply pres_trans; [|apply pres_push]. eauto using pres_trans.
  - rewrite X4, X3, X2, X1. unfold q0, its_attr. fold (its_rest a).
    lsimp. reflexivity.
Qed.

(* ---- functional pseudo arguments *)
Lemma pres_replace i x q : blank (snd x) = true -> pres (x :: q) (i :: q).
Proof. unfold pres, nb. simpl. unfold nbi at 1. intros ->. simpl. intros ->. apply orb_true_r. Qed.

Lemma last_S_blank e cxs p b c d w x q : last_S (mkSt e cxs p b c d w (x :: q)) = true -> blank (snd x) = true.
Proof.
  unfold last_S. cbn [sq]. destruct x as [t v]. cbn [snd]. destruct v; try discriminate. unfold ival_is.
  intros H. apply eqs_spec in H. subst. reflexivity.
Qed.

Definition estart (e : exp) : bool := match e with E_expressionstart | E_expression => true | _ => false end.

Lemma et_step ns x o b c d w e0 q t : is_pcx x = true -> estart e0 = true -> ok_et t = true ->
  exists q1, mstep ns (mkSt e0 (x :: o) None b c d w q) (r_et t) = Some (mkSt E_expression (x :: o) None b c d w q1)
             /\ pres q q1 /\ q1 = sq_et t q.
Proof.
  intros Hx He Ht. destruct t; cbn [r_et ok_et sq_et] in *.
  - unfold mstep. change (handler_of _) with (Some H_char). unfold h_char.
    change (hS q) with (last_S (mkSt e0 (x :: o) None b c d w q)).
    destruct (last_S (mkSt e0 (x :: o) None b c d w q)) eqn:L.
    + destruct q as [|i q]; [discriminate L|]. exists ((I_plus, VStr (s "+")) :: q). split; [|split; [|reflexivity]].
      * destruct x, e0; try discriminate; reflexivity.
      * apply pres_replace. eapply last_S_blank; eauto.
    + exists ((I_plus, VStr (s "+")) :: q). split; [|split; [apply pres_push|reflexivity]].
      destruct x, e0; try discriminate; reflexivity.
  - eexists. split; [|split; [apply pres_push|reflexivity]]. destruct x, e0; try discriminate; reflexivity.
  - eexists. split; [|split; [apply pres_push|reflexivity]]. destruct x, e0; try discriminate; reflexivity.
  - eexists. split; [|split; [apply pres_push|reflexivity]]. destruct x, e0; try discriminate; reflexivity.
  - destruct v as [|c0 r]; [discriminate|]. eexists. split; [|split; [apply pres_push|reflexivity]].
    destruct x, e0; try discriminate; reflexivity.
  - eexists. split; [|split; [apply pres_push|reflexivity]]. destruct x, e0; try discriminate; reflexivity.
Qed.

Lemma expr_ok ns x o b c d w e0 q l : is_pcx x = true -> estart e0 = true ->
  forallb (fun p => ok_et (fst p) && ok_ws (snd p)) l = true ->
  exists q', msteps ns (mkSt e0 (x :: o) None b c d w q) (r_expr l) =
             Some (mkSt (match l with [] => e0 | _ => E_expression end) (x :: o) None b c d w q') /\ pres q q' /\
             q' = sq_expr l q.
Proof.
  intros Hx. revert e0 q. induction l as [|[t ws] l IH]; intros e0 q He Hl.
  - exists q. split; [reflexivity|split; [apply pres_refl|reflexivity]].
  - cbn [forallb fst snd] in Hl. apply andb_true_iff in Hl as [H1 H2]. apply andb_true_iff in H1 as [H0 H1].
    cbn [r_expr flat_map fst snd app]. rewrite msteps_cons. cbn [msteps].
    destruct (et_step ns x o b c d w e0 q t Hx He H0) as (q1 & E1 & P1 & X1). rewrite E1. rewrite msteps_app.
    destruct (ws_pseudo ns E_expression x o b c d w q1 ws Hx) as (q2 & E2 & P2 & X2). rewrite E2.
    destruct (IH E_expression q2 eq_refl H2) as (q3 & E3 & P3 & X3). exists q3. split; [|split].
    + fold (r_expr l). rewrite E3. destruct l; reflexivity.
    + eauto using pres_trans.
    + rewrite X3, X2, X1. reflexivity.
Qed.

(* ---- str.lower() keeps identifiers identifiers (ASCII by arithmetic, the rest by a check of the generated table) *)
Lemma lower_table_namechars :
  forallb (fun kv => forallb namechar (snd kv) && negb (match snd kv with [] => true | _ => false end)) lower_table = true.
Proof. vm_compute. reflexivity. Qed.
Lemma assoc_lower_nc c tb :
  forallb (fun kv : N * str => forallb namechar (snd kv) && negb (match snd kv with [] => true | _ => false end)) tb = true ->
  namechar c = true -> forallb namechar (assoc_lower c tb) = true /\ assoc_lower c tb <> [].
Proof.
  induction tb as [|[k v] tb IH]; cbn [assoc_lower forallb snd]; intros H Hc.
  - rewrite Hc. split; [reflexivity|discriminate].
  - apply andb_true_iff in H as [H1 H2]. apply andb_true_iff in H1 as [H1 H3].
    destruct (N.eqb k c); [|auto]. split; [exact H1|]. destruct v; [discriminate|discriminate].
Qed.
Lemma lower_char_nc c : namechar c = true -> forallb namechar (lower_char c) = true /\ lower_char c <> [].
Proof.
  intros Hc. unfold lower_char. destruct (N.ltb c 128) eqn:L.
  - destruct (N.leb 65 c && N.leb c 90) eqn:U.
    + apply andb_true_iff in U as [U1 U2]. apply N.leb_le in U1, U2. split; [|discriminate].
      cbn [forallb]. rewrite andb_true_r. unfold namechar.
      assert (A : N.leb 97 (c + 32) = true) by (apply N.leb_le; lia).
      assert (B : N.leb (c + 32) 122 = true) by (apply N.leb_le; lia).
      rewrite A, B. reflexivity.
    + split; [|discriminate]. cbn [forallb]. rewrite Hc. reflexivity.
  - apply assoc_lower_nc; [exact lower_table_namechars|exact Hc].
Qed.
Lemma lower_ident n : ident n = true -> ident (lower n) = true.
Proof.
  intros H. pose proof (ident_namechars n H) as Hf.
  assert (F : forallb namechar (lower n) = true).
  { clear H. induction n as [|c r IH]; [reflexivity|]. cbn [forallb] in Hf. apply andb_true_iff in Hf as [H1 H2].
    unfold lower. cbn [flat_map]. rewrite forallb_app. fold (lower r). rewrite (proj1 (lower_char_nc c H1)), (IH H2).
    reflexivity. }
  destruct n as [|c r]; [discriminate|]. cbn [forallb] in Hf. apply andb_true_iff in Hf as [H1 _].
  unfold lower in *. cbn [flat_map] in *. destruct (lower_char_nc c H1) as [_ Hne].
  destruct (lower_char c) as [|x xs]; [congruence|]. cbn [app]. unfold ident. exact F.
Qed.

(* ---- pseudo-classes and pseudo-elements *)
Lemma last_is_app2 c pre x : x <> [] -> last_is c (pre ++ x) = last_is c x.
Proof.
  intros Hx. induction pre as [|y pre IH]; [reflexivity|]. cbn [app last_is].
  destruct (pre ++ x) eqn:E; [destruct pre; [contradiction|discriminate]|]. exact IH.
Qed.
Lemma last_is_nc x : forallb namechar x = true -> last_is 40 x = false.
Proof.
  induction x as [|c r IH]; [reflexivity|]. cbn [forallb last_is]. intros H. apply andb_true_iff in H as [H1 H2].
  destruct r; [|auto]. destruct (namechar_facts c H1) as (_ & _ & _ & _ & _ & X). exact X.
Qed.
Lemma last_is_ident pre x : ident x = true -> last_is 40 (pre ++ x) = false.
Proof.
  intros H. rewrite last_is_app2; [apply last_is_nc, ident_namechars, H|].
  intros ->. discriminate.
Qed.
Lemma last40_not_where v : last_is 40 v = false -> eqs v (s ":where(") = false.
Proof. intros H. destruct (eqs v (s ":where(")) eqn:E; [|reflexivity]. apply eqs_spec in E. subst. discriminate. Qed.
Lemma last40_not_legacy v : last_is 40 v = true -> mem_str v legacy_pseudo_elements = false.
Proof.
  intros H. destruct (mem_str v legacy_pseudo_elements) eqn:E; [|reflexivity].
  unfold legacy_pseudo_elements in E. cbn [mem_str] in E.
  repeat (apply orb_true_iff in E; destruct E as [E|E]; [apply eqs_spec in E; subst; discriminate|]).
  discriminate.
Qed.
Lemma cval_noslash dbl : mem 92 (cval dbl) = false. Proof. destruct dbl; reflexivity. Qed.
Lemma lower_cval dbl : lower (cval dbl) = cval dbl. Proof. destruct dbl; reflexivity. Qed.

Definition after_pseudo (neg : bool) (p : pseudo) : exp :=
  if neg then E_negationend else
  match p with
  | PsId _ _ => if pseudo_is_element p then E_combinator else E_simple_selector_sequence2__combinator
  | PsFn dbl _ _ _ => if dbl then E_combinator else E_simple_selector_sequence__combinator
  end.
Definition bumped (e : exp) (o : list cx) (v : v3) (b c d : nat) (w : bool) (q : list item) : st :=
  match v with (x, y, z) => mkSt e o None (x + b) (y + c) (z + d) w q end.

Lemma pseudo_id_ok ns neg e b c d w q dbl n : startok neg e = true -> ident n = true -> ident (lower n) = true ->
  exists q', msteps ns (mkSt e (octx neg) None b c d w q) (g_pseudo (PsId dbl n)) =
             Some (bumped (after_pseudo neg (PsId dbl n)) (octx neg) (sp_pseudo (PsId dbl n)) b c d w q') /\ nb q' = true /\
             q' = sq_pseudo (PsId dbl n) q.
Proof.
  intros He Hn Hl.
  pose proof (normalize_id (cval dbl) n (cval_noslash dbl) Hn) as Nm. rewrite lower_cval in Nm.
  pose proof (last_is_ident (cval dbl) (lower n) Hl) as L40.
  pose proof (last40_not_where _ L40) as NW.
  cbn [g_pseudo msteps]. unfold mstep.
  assert (Hh : handler_of (sty (mkS (pty dbl) (cval dbl ++ n))) = Some H_pseudo) by (destruct dbl; reflexivity).
  rewrite Hh. unfold h_pseudo. cbn [sval sty]. rewrite Nm, L40.
  destruct dbl.
  - cbn [pty is_t tty_eqb]. rewrite orb_true_r.
    exists ((I_pseudo_element, VStr (cval true ++ lower n)) :: q). split; [|split; reflexivity].
    destruct neg, e; try discriminate He; reflexivity.
  - cbn [pty is_t tty_eqb]. rewrite orb_false_r. change (mem_str (cval false ++ lower n) legacy_pseudo_elements) with (is_legacy n).
    cbn [sp_pseudo after_pseudo pseudo_is_element orb].
    destruct (is_legacy n) eqn:Lg.
    + exists ((I_pseudo_element, VStr (cval false ++ lower n)) :: q).
      split; [|split; [reflexivity|cbn [sq_pseudo pseudo_ityp orb]; rewrite Lg; reflexivity]].
      destruct neg, e; try discriminate He; cbn [after_pseudo pseudo_is_element orb]; rewrite ?Lg; reflexivity.
    + exists ((I_pseudo_class, VStr (cval false ++ lower n)) :: q).
      split; [|split; [reflexivity|cbn [sq_pseudo pseudo_ityp orb]; rewrite Lg; reflexivity]].
      destruct neg, e; try discriminate He; cbn [after_pseudo pseudo_is_element orb]; rewrite ?Lg;
        cbn; cbn in NW; rewrite NW; reflexivity.
Qed.

Lemma eqs_app_tail a b c : eqs (a ++ c) (b ++ c) = eqs a b.
Proof.
  destruct (eqs a b) eqn:E.
  - apply eqs_spec in E. subst. apply eqs_refl.
  - destruct (eqs (a ++ c) (b ++ c)) eqn:E2; [|reflexivity]. apply eqs_spec in E2. apply app_inv_tail in E2.
    subst. rewrite eqs_refl in E. discriminate.
Qed.
Lemma where_eq x : eqs (s ":" ++ x ++ s "(") (s ":where(") = eqs x (s "where").
Proof.
  change (s ":where(") with (s ":" ++ s "where" ++ s "("). cbn [app s_of_string eqs]. rewrite N.eqb_refl.
  cbn [andb]. apply (eqs_app_tail x (s "where") (s "(")).
Qed.

Definition pcx (dbl : bool) : cx := if dbl then CPseudoElement else CPseudoClass.

Lemma pseudo_fn_ok ns neg e b c d w q dbl n ws l : startok neg e = true -> ok_pseudo (PsFn dbl n ws l) = true ->
  exists q', msteps ns (mkSt e (octx neg) None b c d w q) (g_pseudo (PsFn dbl n ws l)) =
             Some (bumped (after_pseudo neg (PsFn dbl n ws l)) (octx neg) (sp_pseudo (PsFn dbl n ws l)) b c d w q')
             /\ nb q' = true /\ q' = sq_pseudo (PsFn dbl n ws l) q.
Proof.
  intros He H. cbn [ok_pseudo] in H. do 3 (apply andb_true_iff in H; destruct H as [H ?]).
  rename H into Hn, H1 into Hws, H0 into Hl.
  pose proof (normalize_fn (cval dbl) n (cval_noslash dbl) Hn) as Nm. rewrite lower_cval in Nm.
  assert (L40 : last_is 40 (cval dbl ++ lower n ++ s "(") = true) by (rewrite app_assoc; apply (last_is_app 40)).
  pose proof (last40_not_legacy _ L40) as NL.
  cbn [g_pseudo]. rewrite msteps_cons.
  assert (S1 : exists q1, msteps ns (mkSt e (octx neg) None b c d w q) [mkS (pty dbl) (cval dbl ++ n ++ s "(")] =
      Some (bumped E_expressionstart (pcx dbl :: octx neg) (sp_pseudo (PsFn dbl n ws l)) b c d w q1) /\ nb q1 = true /\
      q1 = (pseudo_ityp (PsFn dbl n ws l), VStr (colon_str dbl ++ lower n ++ s "(")) :: q).
  { cbn [msteps]. unfold mstep.
    assert (Hh : handler_of (sty (mkS (pty dbl) (cval dbl ++ n ++ s "("))) = Some H_pseudo) by (destruct dbl; reflexivity).
    rewrite Hh. unfold h_pseudo. cbn [sval sty]. rewrite Nm, L40, NL. cbn [orb].
    destruct dbl.
    - exists ((I_pseudo_element, VStr (cval true ++ lower n ++ s "(")) :: q). split; [|split; reflexivity].
      destruct neg, e; try discriminate He; reflexivity.
    - exists ((I_pseudo_class, VStr (cval false ++ lower n ++ s "(")) :: q). split; [|split; reflexivity].
      pose proof (where_eq (lower n)) as W. cbn [sp_pseudo]. unfold is_where.
      destruct (eqs (lower n) (s "where")) eqn:Ew;
        destruct neg, e; try discriminate He; cbn; cbn in W; rewrite W; reflexivity. }
  destruct S1 as (q1 & E1 & N1 & X1). rewrite E1.
  destruct (sp_pseudo (PsFn dbl n ws l)) as [[x y] z]. cbn [bumped].
  assert (Hx : is_pcx (pcx dbl) = true) by (destruct dbl; reflexivity).
  rewrite msteps_app.
  destruct (ws_pseudo ns E_expressionstart (pcx dbl) (octx neg) (x + b) (y + c) (z + d) w q1 ws Hx) as (q2 & E2 & P2 & X2).
  rewrite E2. rewrite msteps_app.
  unfold ok_expr in Hl. destruct l as [|t0 l0]; [discriminate|].
  destruct (expr_ok ns (pcx dbl) (octx neg) (x + b) (y + c) (z + d) w E_expressionstart q2 (t0 :: l0) Hx eq_refl Hl)
    as (q3 & E3 & P3 & X3). rewrite E3.
  exists ((I_function_end, VStr (s ")")) :: q3). split; [|split].
  - destruct dbl, neg; reflexivity.
  - apply (pres_nb q1); auto. eapply pres_trans; [|apply pres_push]. eauto using pres_trans.
  - rewrite X3, X2, X1. reflexivity.
Qed.

Lemma pseudo_ok ns neg e b c d w q p : startok neg e = true -> ok_pseudo p = true ->
  exists q', msteps ns (mkSt e (octx neg) None b c d w q) (g_pseudo p) =
             Some (bumped (after_pseudo neg p) (octx neg) (sp_pseudo p) b c d w q') /\ nb q' = true /\ q' = sq_pseudo p q.
Proof.
  intros He H. destruct p as [dbl n|dbl n ws l].
  - cbn [ok_pseudo] in H. apply pseudo_id_ok; auto using lower_ident.
  - now apply pseudo_fn_ok.
Qed.

(* ---- simple selectors, compounds, combinators *)
Lemma bumped_bumped e o (u v : v3) b c d w q :
  match u with (x, y, z) => bumped e o v (x + b) (y + c) (z + d) w q end = bumped e o (add3 u v) b c d w q.
Proof. destruct u as [[x y] z], v as [[x' y'] z']. cbn [bumped add3]. f_equal; lia. Qed.

Lemma nb_hash t v q : hashv v = true -> nb ((t, VStr v) :: q) = true.
Proof. destruct v as [|c r]; [discriminate|]. cbn [hashv]. intros H. apply N.eqb_eq in H. subst. reflexivity. Qed.

Definition hblank (q : list item) : bool := match q with (_, v) :: _ => blank v | [] => false end.
Lemma hblank_hS q : hblank q = false -> hS q = false.
Proof.
  destruct q as [|[t v] q]; [reflexivity|]. cbn [hblank hS]. destruct v; try reflexivity. unfold ival_is.
  intros H. destruct (eqs v (s " ")) eqn:E; [|reflexivity]. apply eqs_spec in E. subst. discriminate H.
Qed.
Lemma hblank_pseudo p q : hblank (sq_pseudo p q) = false.
Proof. destruct p as [dbl n|dbl n w e]; [destruct dbl; reflexivity|reflexivity]. Qed.

(* the argument steps only look at / replace the head of the seq: they commute with a non-empty prefix *)
Lemma sq_argw_local a q x : a <> [] -> sq_argw (a ++ q) x = sq_argw a x ++ q /\ sq_argw a x <> [].
Proof.
  destruct a as [|i a]; [congruence|]. intros _. destruct x as [v|v]; cbn [sq_argw app hPM].
  - destruct (negb (let (_, v0) := i in ival_is v0 (s "+") || ival_is v0 (s "-"))); cbn [andb]; split; try reflexivity; discriminate.
  - split; [reflexivity|discriminate].
Qed.
Lemma sq_argws_local w : forall a q, a <> [] -> sq_argws w (a ++ q) = sq_argws w a ++ q /\ sq_argws w a <> [].
Proof.
  induction w as [|x w IH]; intros a q Ha; [split; [reflexivity|exact Ha]|].
  unfold sq_argws. cbn [fold_left]. destruct (sq_argw_local a q x Ha) as [E N]. rewrite E. apply (IH _ q N).
Qed.
Lemma sq_et_local t a q : a <> [] -> sq_et t (a ++ q) = sq_et t a ++ q /\ sq_et t a <> [].
Proof.
  destruct a as [|i a]; [congruence|]. intros _. destruct t; cbn [sq_et app hS tl]; try (split; [reflexivity|discriminate]).
  destruct (let (_, v) := i in ival_is v (s " ")); split; try reflexivity; discriminate.
Qed.
Lemma sq_expr_local e : forall a q, a <> [] -> sq_expr e (a ++ q) = sq_expr e a ++ q /\ sq_expr e a <> [].
Proof.
  induction e as [|[t w] e IH]; intros a q Ha; [split; [reflexivity|exact Ha]|].
  cbn [sq_expr]. destruct (sq_et_local t a q Ha) as [E1 N1]. rewrite E1.
  destruct (sq_argws_local w _ q N1) as [E2 N2]. rewrite E2. apply (IH _ q N2).
Qed.
Lemma sq_pseudo_its p q : sq_pseudo p q = rev (its_pseudo p) ++ q.
Proof.
  unfold its_pseudo. rewrite rev_involutive. destruct p as [dbl n|dbl n w e]; [reflexivity|].
  unfold sq_pseudo.
  pose proof (sq_argws_local w [(pseudo_ityp (PsFn dbl n w e), VStr (colon_str dbl ++ lower n ++ s "("))] q
                ltac:(discriminate)) as [E1 N1].
  cbn [app] in E1. cbn [app]. f_equal.
  destruct (sq_expr_local e _ q N1) as [E2 _]. etransitivity; [|exact E2]. f_equal. exact E1.
Qed.

Lemma negarg_ok ns b c d w q a : ok_negarg ns a = true ->
  exists q', msteps ns (mkSt E_negation_arg [CNegation] None b c d w q) (g_negarg a) =
             Some (bumped E_negationend [CNegation] (sp_negarg a) b c d w q') /\ nb q' = true /\
             q' = rev (its_negarg ns a) ++ q.
Proof.
  destruct a; cbn [ok_negarg g_negarg sp_negarg its_negarg]; intros H.
  - apply andb_true_iff in H as [H1 H2]. eexists. split; [apply (tname_ok ns true); auto|split; reflexivity].
  - eexists. split; [apply (univ_ok ns true); auto|split; reflexivity].
  - eexists. split; [apply (hash_ok ns true); auto|split; [now apply nb_hash|reflexivity]].
  - eexists. split; [apply (class_ok ns true); auto|split; reflexivity].
  - apply (attr_ok ns true); auto.
  - destruct (pseudo_ok ns true E_negation_arg b c d w q p eq_refl H) as (q' & E & N & X).
    exists q'. split; [exact E|]. split; [exact N|]. rewrite X. apply sq_pseudo_its.
Qed.

Definition contB (e : exp) : bool :=
  match e with E_simple_selector_sequence__combinator | E_simple_selector_sequence2__combinator => true | _ => false end.
Lemma contB_cont e : contB e = true -> cont e = true. Proof. destruct e; auto. Qed.
Lemma contB_clsB e : contB e = true -> clsB e = true. Proof. destruct e; auto. Qed.
Lemma hstart_cont e : hstart e = true -> cont e = true. Proof. destruct e; auto. Qed.

Lemma simple_ok ns e b c d w q x : cont e = true -> ok_simple ns x = true ->
  exists e' q', msteps ns (mkSt e [] None b c d w q) (g_simple x) = Some (bumped e' [] (sp_simple x) b c d w q')
                /\ nb q' = true /\ contB e' = true /\ q' = rev (its_simple ns x) ++ q /\ hblank q' = false.
Proof.
  intros He. destruct x; cbn [ok_simple g_simple sp_simple its_simple]; intros H.
  - do 2 eexists. split; [apply (hash_ok ns false); auto|]. split; [now apply nb_hash|split; [reflexivity|split; [reflexivity|]]].
    destruct v as [|c0 r0]; [discriminate|]. cbn [hashv] in H. apply N.eqb_eq in H. subst. reflexivity.
  - do 2 eexists. split; [apply (class_ok ns false); auto|]. repeat split; reflexivity.
  - destruct (attr_ok ns false e b c d w q a He H) as (q' & E & N & X). do 2 eexists. split; [exact E|]. repeat split; auto.
    rewrite X. unfold its_attr. lsimp. reflexivity.
  - apply andb_true_iff in H as [H1 H2]. apply negb_true_iff in H2.
    destruct (pseudo_ok ns false e b c d w q p He H1) as (q' & E & N & X). do 2 eexists. split; [exact E|]. split; auto.
    split; [|split; [rewrite X; apply sq_pseudo_its|rewrite X; apply hblank_pseudo]].
    destruct p; cbn [after_pseudo pseudo_is_element] in *; rewrite ?H2; reflexivity.
  - do 2 (apply andb_true_iff in H; destruct H as [H ?]).
    rewrite msteps_cons.
    assert (S1 : msteps ns (mkSt e [] None b c d w q) [mkS Tnegation (s ":not(")] =
                 Some (mkSt E_negation_arg [CNegation] None b c d w ((I_negation_start, VStr (s ":not(")) :: q))).
    { destruct e; try discriminate He; reflexivity. }
    rewrite S1. set (q0 := (I_negation_start, VStr (s ":not(")) :: q). assert (N0 : nb q0 = true) by reflexivity.
    rewrite msteps_app.
    destruct (ws_inert ns E_negation_arg [CNegation] b c d w q0 w1 eq_refl) as (q1 & E1 & P1 & X1). rewrite E1.
    rewrite msteps_app.
    destruct (negarg_ok ns b c d w q1 a H1) as (q2 & E2 & N2 & X2). rewrite E2.
    destruct (sp_negarg a) as [[x y] z]. cbn [bumped]. rewrite msteps_app.
    destruct (ws_inert ns E_negationend [CNegation] (x + b) (y + c) (z + d) w q2 w2 eq_refl) as (q3 & E3 & P3 & X3). rewrite E3.
    exists E_simple_selector_sequence__combinator, ((I_negation_end, VStr (s ")")) :: q3).
    split; [reflexivity|]. split; [|split; [reflexivity|split; [|reflexivity]]].
    + apply (pres_nb q2); auto. eapply pres_trans; [exact P3|apply pres_push].
    + rewrite X3, X2, X1. unfold q0. lsimp. reflexivity.
Qed.

Lemma head_ok ns e b c d w q h : hstart e = true -> ok_head ns h = true ->
  exists e' q', msteps ns (mkSt e [] None b c d w q) (g_head h) = Some (bumped e' [] (sp_head h) b c d w q')
                /\ pres q q' /\ match h with HNone => e' = e | _ => contB e' = true /\ nb q' = true end
                /\ q' = rev (its_head ns h) ++ q /\ (h <> HNone -> hblank q' = false).
Proof.
  intros He. destruct h; cbn [ok_head g_head sp_head its_head]; intros H.
  - exists e, q. repeat split; auto using pres_refl. congruence.
  - apply andb_true_iff in H as [H1 H2]. do 2 eexists. split; [apply (tname_ok ns false); auto|].
    split; [apply pres_push|]. repeat split; reflexivity.
  - do 2 eexists. split; [apply (univ_ok ns false); auto|]. split; [apply pres_push|]. repeat split; reflexivity.
Qed.

Lemma rest_simples_ok ns l : forall e b c d w q, cont e = true ->
  forallb (fun p => ok_cm (fst p) && ok_simple ns (snd p)) l = true ->
  exists e' q', msteps ns (mkSt e [] None b c d w q) (flat_map (fun p => r_cm (fst p) ++ g_simple (snd p)) l) =
                Some (bumped e' [] (sum3 (map (fun p => sp_simple (snd p)) l)) b c d w q')
                /\ pres q q' /\ match l with [] => e' = e | _ => contB e' = true /\ nb q' = true end
                /\ q' = rev (flat_map (fun p => its_cm (fst p) ++ its_simple ns (snd p)) l) ++ q
                /\ (l <> [] -> hblank q' = false).
Proof.
  induction l as [|[cm x] l IH]; intros e b c d w q He Hl.
  - exists e, q. repeat split; auto using pres_refl. congruence.
  - cbn [forallb fst snd] in Hl. apply andb_true_iff in Hl as [H1 H2]. apply andb_true_iff in H1 as [H0 H1].
    cbn [flat_map fst snd map sum3 fold_right]. rewrite <- app_assoc, msteps_app.
    destruct (cm_any ns e [] b c d w q cm) as (q1 & E1 & P1 & X1). rewrite E1. rewrite msteps_app.
    destruct (simple_ok ns e b c d w q1 x He H1) as (e2 & q2 & E2 & N2 & C2 & X2 & B2). rewrite E2.
    destruct (sp_simple x) as [[x1 y1] z1] eqn:Esp. cbn [bumped].
    destruct (IH e2 (x1 + b) (y1 + c) (z1 + d) w q2 (contB_cont _ C2) H2) as (e3 & q3 & E3 & P3 & M3 & X3 & B3).
    exists e3, q3. split; [|split; [|split; [|split]]].
    + rewrite E3. f_equal. apply (bumped_bumped e3 [] (x1, y1, z1)).
    + intros _; apply (pres_nb q2); auto.
    + destruct l as [|y l']; [rewrite M3; split; [exact C2|apply (pres_nb q2); auto]|exact M3].
    + rewrite X3, X2, X1. lsimp. reflexivity.
    + intros _. destruct l as [|y l']; [cbn [flat_map rev app] in X3; rewrite X3; exact B2|apply B3; discriminate].
Qed.

Lemma compound_ok ns e b c d w q cp : hstart e = true -> ok_compound ns cp = true ->
  exists e' q', msteps ns (mkSt e [] None b c d w q) (g_compound cp) = Some (bumped e' [] (sp_compound cp) b c d w q')
                /\ nb q' = true /\ clsB e' = true /\ q' = rev (its_compound ns cp) ++ q /\ hblank q' = false.
Proof.
  intros He H. unfold ok_compound in H. do 3 (apply andb_true_iff in H; destruct H as [H ?]).
  rename H into Hh, H2 into Hr, H1 into Hp, H0 into Hne. apply negb_true_iff in Hne.
  unfold g_compound, sp_compound, its_compound. rewrite msteps_app.
  destruct (head_ok ns e b c d w q (c_head cp) He Hh) as (e1 & q1 & E1 & P1 & M1 & X1 & B1). rewrite E1.
  destruct (sp_head (c_head cp)) as [[x1 y1] z1] eqn:Eh. cbn [bumped]. rewrite msteps_app.
  assert (C1 : cont e1 = true).
  { destruct (c_head cp); [subst; now apply hstart_cont|apply contB_cont, M1|apply contB_cont, M1]. }
  destruct (rest_simples_ok ns (c_rest cp) e1 (x1 + b) (y1 + c) (z1 + d) w q1 C1 Hr) as (e2 & q2 & E2 & P2 & M2 & X2 & B2).
  rewrite E2.
  destruct (sum3 (map (fun p => sp_simple (snd p)) (c_rest cp))) as [[x2 y2] z2] eqn:Er. cbn [bumped].
  assert (C2 : cont e2 = true).
  { destruct (c_rest cp); [subst; exact C1|apply contB_cont, M2]. }
  destruct (c_pe cp) as [[cm p]|] eqn:Epe.
  - do 2 (apply andb_true_iff in Hp; destruct Hp as [Hp ?]). rewrite msteps_app.
    destruct (cm_any ns e2 [] (x2 + (x1 + b)) (y2 + (y1 + c)) (z2 + (z1 + d)) w q2 cm) as (q3 & E3 & P3 & X3). rewrite E3.
    destruct (pseudo_ok ns false e2 (x2 + (x1 + b)) (y2 + (y1 + c)) (z2 + (z1 + d)) w q3 p C2 H0) as (q4 & E4 & N4 & X4).
    exists (after_pseudo false p), q4. split; [|split; [|split; [|split]]].
    + cbn [octx] in E4. rewrite E4. destruct (sp_pseudo p) as [[x3 y3] z3]. cbn [bumped add3]. f_equal. f_equal; lia.
    + exact N4.
    + destruct p; cbn [after_pseudo pseudo_is_element] in *; rewrite ?H; reflexivity.
    + rewrite X4, sq_pseudo_its, X3, X2, X1. lsimp. reflexivity.
    + rewrite X4. apply hblank_pseudo.
  - exists e2, q2. split; [|split; [|split; [|split]]].
    + cbn [msteps add3]. f_equal. cbn [bumped]. f_equal; lia.
    + destruct (c_rest cp) as [|s0 l0].
      * subst e2. destruct (c_head cp); [discriminate Hne| |]; destruct M1 as [M1 M1']; apply (pres_nb q1); auto.
      * destruct M2 as [M2 M2']. exact M2'.
    + destruct (c_rest cp) as [|s0 l0].
      * subst e2. destruct (c_head cp); [discriminate Hne| |]; destruct M1 as [M1 M1']; apply contB_clsB; auto.
      * destruct M2 as [M2 M2']. apply contB_clsB; auto.
    + rewrite X2, X1. lsimp. reflexivity.
    + destruct (c_rest cp) as [|s0 l0].
      * cbn [flat_map rev app] in X2. rewrite X2. apply B1. destruct (c_head cp); [discriminate Hne| |]; discriminate.
      * apply B2. discriminate.
Qed.

Lemma comb_char_step ns e b c d w q x nm : clsB e = true ->
  (x = ">"%string /\ nm = I_child \/ x = "+"%string /\ nm = I_adjacent_sibling \/ x = "~"%string /\ nm = I_following_sibling) ->
  exists q', mstep ns (mkSt e [] None b c d w q) (ch x) = Some (mkSt E_simple_selector_sequence [] None b c d w q')
             /\ pres q q' /\ q' = (nm, VStr (s x)) :: (if hS q then tl q else q).
Proof.
  intros He Hx. unfold mstep. change (handler_of _) with (Some H_char). unfold h_char.
  change (hS q) with (last_S (mkSt e [] None b c d w q)).
  destruct (last_S (mkSt e [] None b c d w q)) eqn:L.
  - destruct q as [|i q]; [discriminate L|]. exists ((nm, VStr (s x)) :: q). split; [|split; [|reflexivity]].
    + destruct Hx as [[-> ->]|[[-> ->]|[-> ->]]]; destruct e; try discriminate He; reflexivity.
    + apply pres_replace. eapply last_S_blank; eauto.
  - exists ((nm, VStr (s x)) :: q). split; [|split; [apply pres_push|reflexivity]].
    destruct Hx as [[-> ->]|[[-> ->]|[-> ->]]]; destruct e; try discriminate He; reflexivity.
Qed.

Lemma its_wsB_snoc w x : its_wsB (w ++ [x]) = its_wsB w ++ [match x with WS _ => it_desc | WC v => it_comment v end].
Proof. unfold its_wsB. now rewrite map_app. Qed.
(* the head of the seq after root-level layout, and what a following combinator does with it *)
Lemma wsB_head w q : hblank q = false ->
  hS (rev (its_wsB w) ++ q) = ends_WS w /\
  (if ends_WS w then tl (rev (its_wsB w) ++ q) else rev (its_wsB w) ++ q) =
  rev (if ends_WS w then removelast (its_wsB w) else its_wsB w) ++ q /\
  hblank (rev (its_wsB w) ++ q) = ends_WS w.
Proof.
  intros Hq. unfold ends_WS. destruct (rev w) as [|x r] eqn:E.
  - apply (f_equal (@rev _)) in E. rewrite rev_involutive in E. subst w. cbn. auto using hblank_hS.
  - apply (f_equal (@rev _)) in E. rewrite rev_involutive in E. cbn [rev] in E. subst w.
    rewrite its_wsB_snoc, rev_app_distr. cbn [rev app].
    destruct x as [v|v]; cbn [hS hblank it_desc it_comment ival_is tl]; repeat split; try reflexivity.
    + now rewrite removelast_last.
    + now rewrite rev_app_distr.
Qed.

Lemma comb_ok ns e b c d w q cb : clsB e = true -> ok_comb cb = true ->
  hblank q = false ->
  exists e' q', msteps ns (mkSt e [] None b c d w q) (r_comb cb) = Some (mkSt e' [] None b c d w q')
                /\ pres q q' /\ hstart e' = true /\ q' = rev (its_comb cb) ++ q.
Proof.
  intros He H Hq.
  assert (G : forall w1 w2 x nm, ok_ws w1 = true -> ok_ws w2 = true ->
     (x = ">"%string /\ nm = I_child \/ x = "+"%string /\ nm = I_adjacent_sibling \/ x = "~"%string /\ nm = I_following_sibling) ->
     exists e' q', msteps ns (mkSt e [] None b c d w q) (r_ws w1 ++ ch x :: r_ws w2) = Some (mkSt e' [] None b c d w q')
                /\ pres q q' /\ hstart e' = true /\
                q' = rev ((if ends_WS w1 then removelast (its_wsB w1) else its_wsB w1) ++ (nm, VStr (s x)) :: its_wsI w2) ++ q).
  { intros w1 w2 x nm _ _ Hx. rewrite msteps_app.
    destruct (ws_root_B ns e b c d w q w1 He) as (e1 & q1 & E1 & P1 & B1 & _ & X1). rewrite E1.
    rewrite msteps_cons. cbn [msteps].
    destruct (comb_char_step ns e1 b c d w q1 x nm B1 Hx) as (q2 & E2 & P2 & X2). rewrite E2.
    destruct (ws_inert ns E_simple_selector_sequence [] b c d w q2 w2 eq_refl) as (q3 & E3 & P3 & X3).
    exists E_simple_selector_sequence, q3. split; [exact E3|]. split; [eauto using pres_trans|split; [reflexivity|]].
    rewrite X3, X2, X1. destruct (wsB_head w1 q Hq) as (A1 & A2 & _). rewrite A1. lsimp. f_equal. f_equal. exact A2. }
  destruct cb; cbn [ok_comb r_comb its_comb] in *.
  - do 2 (apply andb_true_iff in H; destruct H as [H ?]). rewrite msteps_app.
    destruct (ws_root_B ns e b c d w q w1 He) as (e1 & q1 & E1 & P1 & B1 & _ & X1). rewrite E1.
    rewrite msteps_cons.
    assert (S2 : msteps ns (mkSt e1 [] None b c d w q1) [mkS TS sp] =
                 Some (mkSt E_simple_selector_sequence__combinator [] None b c d w ((I_descendant, VStr (s " ")) :: q1))).
    { destruct e1; try discriminate B1; reflexivity. }
    rewrite S2.
    destruct (ws_root_B ns E_simple_selector_sequence__combinator b c d w ((I_descendant, VStr (s " ")) :: q1) w2 eq_refl)
      as (e3 & q3 & E3 & P3 & B3 & K3 & X3).
    exists e3, q3. split; [exact E3|]. split; [|split].
    + eapply pres_trans; [exact P1|]. eapply pres_trans; [apply pres_push|exact P3].
    + rewrite (K3 eq_refl). reflexivity.
    + rewrite X3, X1. unfold it_desc. lsimp. reflexivity.
  - apply andb_true_iff in H as [H1 H2]. apply (G w1 w2 ">"%string I_child); auto.
  - apply andb_true_iff in H as [H1 H2]. apply (G w1 w2 "+"%string I_adjacent_sibling); auto.
  - apply andb_true_iff in H as [H1 H2]. apply (G w1 w2 "~"%string I_following_sibling); auto.
Qed.

Lemma more_ok ns l : forall e b c d w q, clsB e = true -> nb q = true -> hblank q = false ->
  forallb (fun p => ok_comb (fst p) && ok_compound ns (snd p)) l = true ->
  exists e' q', msteps ns (mkSt e [] None b c d w q) (flat_map (fun p => r_comb (fst p) ++ g_compound (snd p)) l) =
                Some (bumped e' [] (sum3 (map (fun p => sp_compound (snd p)) l)) b c d w q')
                /\ nb q' = true /\ clsB e' = true /\
                q' = rev (flat_map (fun p => its_comb (fst p) ++ its_compound ns (snd p)) l) ++ q /\ hblank q' = false.
Proof.
  induction l as [|[cb cp] l IH]; intros e b c d w q He Hq Hb Hl.
  - exists e, q. repeat split; auto.
  - cbn [forallb fst snd] in Hl. apply andb_true_iff in Hl as [H1 H2]. apply andb_true_iff in H1 as [H0 H1].
    cbn [flat_map fst snd map sum3 fold_right]. rewrite <- app_assoc, msteps_app.
    destruct (comb_ok ns e b c d w q cb He H0 Hb) as (e1 & q1 & E1 & P1 & S1 & X1). rewrite E1. rewrite msteps_app.
    destruct (compound_ok ns e1 b c d w q1 cp S1 H1) as (e2 & q2 & E2 & N2 & B2 & X2 & Hb2). rewrite E2.
    destruct (sp_compound cp) as [[x1 y1] z1] eqn:Esp. cbn [bumped].
    destruct (IH e2 (x1 + b) (y1 + c) (z1 + d) w q2 B2 N2 Hb2 H2) as (e3 & q3 & E3 & N3 & B3 & X3 & Hb3).
    exists e3, q3. split; [|split; [assumption|split; [assumption|split; [|assumption]]]].
    + rewrite E3. f_equal. apply (bumped_bumped e3 [] (x1, y1, z1)).
    + rewrite X3, X2, X1. lsimp. reflexivity.
Qed.

Definition trim (q : list item) : list item := if hblank q then tl q else q.
Lemma finish_ok e b c d q : clsB e = true -> nb q = true ->
  exists seq, finish (mkSt e [] None b c d true q) = Accepted b c d seq /\ seq = rev (trim q).
Proof.
  intros He Hq. destruct q as [|[t v] r]; [discriminate|].
  unfold finish. cbn [wf ctx expd sq nonempty_sq andb negb orb spb spc spd].
  assert (T : negb (Tpost_0 e) && negb (Tpost_1 e && true) = true) by (destruct e; try discriminate He; reflexivity).
  rewrite T. destruct (blank v) eqn:Bv.
  - cbn [nb existsb] in Hq. unfold nbi at 1 in Hq. cbn [snd] in Hq. rewrite Bv in Hq. cbn [negb orb] in Hq.
    destruct r; [discriminate|]. eexists. split; [reflexivity|]. unfold trim. cbn [hblank]. rewrite Bv. reflexivity.
  - eexists. split; [reflexivity|]. unfold trim. cbn [hblank]. rewrite Bv. reflexivity.
Qed.

Theorem run_glued ns x : Declared ns x ->
  exists seq, run ns (g_selector x) =
              Some (match sp_selector x with (b, c, d) => Accepted b c d seq end) /\ seq = seq_of ns x.
Proof.
  unfold Declared, declared_b. intros H. do 3 (apply andb_true_iff in H; destruct H as [H ?]).
  rename H into Hl, H2 into Hf, H1 into Hm, H0 into Ht.
  unfold run, g_selector, st0. change E_initial with E_simple_selector_sequence.
  rewrite msteps_app.
  destruct (ws_inert ns E_simple_selector_sequence [] 0 0 0 true [] (s_lead x) eq_refl) as (q1 & E1 & _ & X1). rewrite E1.
  rewrite msteps_app.
  destruct (compound_ok ns E_simple_selector_sequence 0 0 0 true q1 (s_first x) eq_refl Hf) as (e2 & q2 & E2 & N2 & B2 & X2 & Hb2).
  rewrite E2. unfold sp_selector.
  destruct (sp_compound (s_first x)) as [[x1 y1] z1]. cbn [bumped]. rewrite msteps_app.
  destruct (more_ok ns (s_more x) e2 (x1 + 0) (y1 + 0) (z1 + 0) true q2 B2 N2 Hb2 Hm) as (e3 & q3 & E3 & N3 & B3 & X3 & Hb3).
  rewrite E3.
  destruct (sum3 (map (fun p => sp_compound (snd p)) (s_more x))) as [[x2 y2] z2]. cbn [bumped add3].
  destruct (ws_root_B ns e3 (x2 + (x1 + 0)) (y2 + (y1 + 0)) (z2 + (z1 + 0)) true q3 (s_trail x) B3)
    as (e4 & q4 & E4 & P4 & B4 & _ & X4).
  rewrite E4. cbn [option_map].
  destruct (finish_ok e4 (x2 + (x1 + 0)) (y2 + (y1 + 0)) (z2 + (z1 + 0)) q4 B4 (P4 N3)) as (seq & F & XF).
  exists seq. split; [rewrite F; f_equal; f_equal; lia|].
  rewrite XF. unfold trim. rewrite X4. destruct (wsB_head (s_trail x) q3 Hb3) as (_ & A2 & A3). rewrite A3.
  transitivity (rev (rev (if ends_WS (s_trail x) then removelast (its_wsB (s_trail x)) else its_wsB (s_trail x)) ++ q3)).
  { f_equal. destruct (ends_WS (s_trail x)); exact A2. }
  rewrite X3, X2, X1. unfold seq_of. lsimp. rewrite !rev_involutive. reflexivity.
Qed.

Theorem seq_is_expected_lemma ns x : Declared ns x -> seq (run ns (prepass (render x))) = seq_of ns x.
Proof.
  intros H. rewrite (prepass_render ns x H). destruct (run_glued ns x H) as (q & E & X). rewrite E.
  destruct (sp_selector x) as [[b c] d]. exact X.
Qed.

Theorem specificity_correct_lemma ns x : Declared ns x ->
  wellformed (run ns (prepass (render x))) = true /\
  spec (run ns (prepass (render x))) = (0, ids x, classes_attrs_pseudoclasses x, types_pseudoelements x)%nat.
Proof.
  intros H. rewrite (prepass_render ns x H). destruct (run_glued ns x H) as (seq & E & _). rewrite E.
  unfold ids, classes_attrs_pseudoclasses, types_pseudoelements.
  destruct (sp_selector x) as [[b c] d]. split; reflexivity.
Qed.

(* ================================================================== part 3: re-assignment histories *)
Fixpoint assigns_glued (ns : ns_map) (h : held) (hist : list (list stok)) : option held :=
  match hist with
  | [] => Some h
  | g :: r => match assign_glued ns h g with Some h' => assigns_glued ns h' r | None => None end
  end.

Lemma rejected_keeps ns h rej :
  Forall (fun g => run ns g = Some Rejected) rej -> assigns_glued ns h rej = Some h.
Proof.
  induction 1 as [|g rej Hg _ IH]; [reflexivity|]. cbn [assigns_glued]. unfold assign_glued. rewrite Hg. exact IH.
Qed.

Theorem held_specificity_lemma ns h0 before sel rej :
  Declared ns sel ->
  Forall (fun g => run ns g = Some Rejected) rej ->
  forall h1, assigns_glued ns h0 before = Some h1 ->
  exists seq, assigns_glued ns h0 (before ++ prepass (render sel) :: rej) =
              Some (mkHeld (sp_selector sel) seq).
Proof.
  intros Hd Hr h1. revert h0. induction before as [|g before IH]; intros h0 Hb.
  - cbn [app assigns_glued]. unfold assign_glued. rewrite (prepass_render ns sel Hd).
    destruct (run_glued ns sel Hd) as (seq & E & _). rewrite E. cbn [option_map].
    destruct (sp_selector sel) as [[b c] d]. cbn [commit]. exists seq. now apply rejected_keeps.
  - cbn [app assigns_glued] in *. destruct (assign_glued ns h0 g) as [h'|]; [|discriminate]. now apply IH.
Qed.

(* ================================================================== part 4: @page selectors *)
Lemma prun_ws e wf er ls n f l q w r :
  exists ls' q', prun (mkP e wf er ls n f l q) (r_ws w ++ r) = prun (mkP e wf er ls' n f l q') r
                 /\ (e <> PE_colon_or_EOF -> ls' = ls).
Proof.
  revert ls q. induction w as [|x w IH]; intros ls q; [exists ls, q; split; auto|].
  destruct x as [v|v]; cbn [r_ws map r_w app prun sty].
  - destruct e; cbn [is_pe p_e].
    + destruct (IH ls q) as (ls' & q' & E & K). exists ls', q'. split; auto.
    + destruct (IH true q) as (ls' & q' & E & K). exists ls', q'. split; [exact E|congruence].
    + destruct (IH ls q) as (ls' & q' & E & K). exists ls', q'. split; auto.
  - unfold p_push. cbn [p_e p_wf p_err p_lastS p_name p_first p_lr p_seq].
    destruct (IH ls ((s "COMMENT", v) :: q)) as (ls' & q' & E & K). exists ls', q'. split; auto.
Qed.
Lemma prun_cm e wf er ls n f l q c r :
  exists q', prun (mkP e wf er ls n f l q) (r_cm c ++ r) = prun (mkP e wf er ls n f l q') r.
Proof.
  revert q. induction c as [|v c IH]; intros q; [exists q; reflexivity|].
  cbn [r_cm map app prun sty]. unfold p_push. cbn [p_e p_wf p_err p_lastS p_name p_first p_lr p_seq].
  destruct (IH ((s "COMMENT", v) :: q)) as (q' & E). exists q'. exact E.
Qed.

Lemma prun_name ls q n r : eqs (normalize n) (s "auto") = false ->
  prun (mkP PE_page true false ls 0 0 0 q) (mkS TIDENT n :: r) =
  prun (mkP PE_colon_or_EOF true false ls 1 0 0 ((s "IDENT", n) :: q)) r.
Proof. intros H. cbn [prun sty sval is_pe p_e]. rewrite H. reflexivity. Qed.

Definition pp_first (x : ppseudo) : nat := match x with PFirst => 1 | _ => 0 end.
Definition pp_lr (x : ppseudo) : nat := match x with PFirst => 0 | _ => 1 end.
Lemma prun_pseudo e n q x r : e <> PE_EOF ->
  prun (mkP e true false false n 0 0 q) (ch ":" :: mkS TIDENT (ppseudo_name x) :: r) =
  prun (mkP PE_EOF true false false n (pp_first x) (pp_lr x) ((s "pseudo", s ":" ++ ppseudo_name x) :: q)) r.
Proof. intros He. destruct e; [| |congruence]; destruct x; reflexivity. Qed.

Lemma run_page_final raising e ls n f l q :
  (if p_wf (mkP e true false ls n f l q) && negb (raising && p_err (mkP e true false ls n f l q))
   then PAccepted n f l (rev q) else PRejected) = PAccepted n f l (rev q).
Proof. cbn [p_wf p_err]. rewrite andb_false_r. reflexivity. Qed.

Definition pgood (σ : pst) (n f l : nat) : Prop :=
  p_wf σ = true /\ p_err σ = false /\ p_name σ = n /\ p_first σ = f /\ p_lr σ = l.

Lemma page_tail_ok p e n q : e <> PE_EOF ->
  exists σ', prun (mkP e true false false n 0 0 q)
                  (match pg_pseudo p with Some x => [ch ":"; mkS TIDENT (ppseudo_name x)] | None => [] end ++ r_ws (pg_trail p))
             = Some σ' /\ pgood σ' n (first_page p) (left_or_right p).
Proof.
  intros He. unfold first_page, left_or_right. destruct (pg_pseudo p) as [x|].
  - cbn [app]. rewrite prun_pseudo by assumption.
    destruct (prun_ws PE_EOF true false false n (pp_first x) (pp_lr x) ((s "pseudo", s ":" ++ ppseudo_name x) :: q)
                (pg_trail p) []) as (ls' & q' & E & _).
    rewrite app_nil_r in E. rewrite E. eexists. split; [reflexivity|]. destruct x; repeat split.
  - cbn [app]. destruct (prun_ws e true false false n 0 0 q (pg_trail p) []) as (ls' & q' & E & _).
    rewrite app_nil_r in E. rewrite E. eexists. split; [reflexivity|]. repeat split.
Qed.

Theorem page_specificity_lemma raising p : ok_page p = true ->
  exists seq, run_page raising (render_page p) = PAccepted (named p) (first_page p) (left_or_right p) seq.
Proof.
  intros Hok. unfold run_page, render_page, pst0.
  destruct (prun_ws PE_page true false false 0 0 0 [] (pg_lead p)
              (match pg_name p with Some n => [mkS TIDENT n] | None => [] end ++ r_cm (pg_cm p) ++
               match pg_pseudo p with Some x => [ch ":"; mkS TIDENT (ppseudo_name x)] | None => [] end ++
               r_ws (pg_trail p))) as (ls1 & q1 & E1 & K1).
  rewrite E1, (K1 ltac:(discriminate)). clear E1 K1 ls1.
  assert (F : forall σ n f l, pgood σ n f l ->
     exists seq, (if p_wf σ && negb (raising && p_err σ) then PAccepted (p_name σ) (p_first σ) (p_lr σ) (rev (p_seq σ))
                  else PRejected) = PAccepted n f l seq).
  { intros σ n f l (A & B & C & D & E). rewrite A, B, C, D, E, andb_false_r. eexists. reflexivity. }
  unfold ok_page, named in *. destruct (pg_name p) as [n|].
  - apply negb_true_iff in Hok. cbn [app]. rewrite prun_name by assumption.
    destruct (prun_cm PE_colon_or_EOF true false false 1 0 0 ((s "IDENT", n) :: q1) (pg_cm p)
                (match pg_pseudo p with Some x => [ch ":"; mkS TIDENT (ppseudo_name x)] | None => [] end ++
                 r_ws (pg_trail p))) as (q2 & E2).
    rewrite E2.
    destruct (page_tail_ok p PE_colon_or_EOF 1 q2 ltac:(discriminate)) as (σ' & E3 & G). rewrite E3. now apply F.
  - cbn [app].
    destruct (prun_cm PE_page true false false 0 0 0 q1 (pg_cm p)
                (match pg_pseudo p with Some x => [ch ":"; mkS TIDENT (ppseudo_name x)] | None => [] end ++
                 r_ws (pg_trail p))) as (q2 & E2).
    rewrite E2.
    destruct (page_tail_ok p PE_page 0 q2 ltac:(discriminate)) as (σ' & E3 & G). rewrite E3. now apply F.
Qed.

Lemma page_rejected_keeps raising h rej :
  Forall (fun a => forall h', page_assign raising h' a = Some h') rej -> page_assigns raising h rej = Some h.
Proof. induction 1 as [|a rej Ha _ IH]; [reflexivity|]. cbn [page_assigns]. rewrite Ha. exact IH. Qed.

(* a successful assignment of a page selector: through selectorText, or through cssText with a block that is
   committed in the given mode *)
Definition good_assign (raising : bool) (p : pagesel) (a : passign) : Prop :=
  a = ASel (render_page p) \/ a = ACss true (render_page p) BOk \/ (raising = false /\ a = ACss true (render_page p) BLogged).

Theorem page_held_specificity_lemma raising h0 before p a rej :
  ok_page p = true -> good_assign raising p a ->
  Forall (fun a => forall h', page_assign raising h' a = Some h') rej ->
  forall h1, page_assigns raising h0 before = Some h1 ->
  exists seq, page_assigns raising h0 (before ++ a :: rej) = Some (mkPH (named p, first_page p, left_or_right p) seq).
Proof.
  intros Hok Ha Hr h1. revert h0. induction before as [|b before IH]; intros h0 Hb.
  - cbn [app page_assigns]. destruct (page_specificity_lemma raising p Hok) as (seq & E).
    assert (X : page_assign raising h0 a = Some (mkPH (named p, first_page p, left_or_right p) seq)).
    { destruct Ha as [->|[->|[-> ->]]]; cbn [page_assign]; rewrite E; reflexivity. }
    rewrite X. exists seq. now apply page_rejected_keeps.
  - cbn [app page_assigns] in *. destruct (page_assign raising h0 b) as [h'|]; [|discriminate]. now apply IH.
Qed.

(* ================================================================== part 5: SelectorList *)

Lemma tty_roundtrip t : tty_of_str (tty_name t) = t.
Proof. destruct t; reflexivity. Qed.

Lemma select_sel_toks ns ts :
  select ns (map tok_pair (map to_tok ts)) = run ns (prepass ts).
Proof.
  unfold select. f_equal. f_equal. rewrite !map_map. rewrite <- (map_id ts) at 2. apply map_ext.
  intros [t v]. unfold tok_pair, to_tok. cbn. now rewrite tty_roundtrip.
Qed.

Lemma render_nonempty ns x : Declared ns x -> sel_toks x <> [].
Proof.
  intros Hd E. unfold sel_toks in E. apply map_eq_nil in E.
  destruct (specificity_correct_lemma ns x Hd) as [W _]. rewrite E in W. discriminate W.
Qed.

Definition mem_of (ns : ns_map) (x : selector) : option member :=
  match run ns (prepass (render x)) with Some (Accepted b c d q) => Some (b, c, d, q) | _ => None end.

Lemma member_spec ns x : Declared ns x -> exists q, mem_of ns x = Some (sp_selector x, q).
Proof.
  intros Hd. unfold mem_of. rewrite (prepass_render ns x Hd). destruct (run_glued ns x Hd) as (q & E & _). rewrite E.
  destruct (sp_selector x) as [[b c] d]. exists q. reflexivity.
Qed.

Lemma last_app_single {A} (l : list A) (e d : A) : last (l ++ [e]) d = e.
Proof. induction l as [|a l IH]; [reflexivity|]. cbn [app]. destruct (l ++ [e]) eqn:E; [destruct l; discriminate|]. exact IH. Qed.

Lemma last_indep {A} (l : list A) d d' : l <> [] -> last l d = last l d'.
Proof.
  induction l as [|a l IH]; [congruence|]. intros _. destruct l as [|b l]; [reflexivity|].
  change (last (a :: b :: l) d) with (last (b :: l) d). change (last (a :: b :: l) d') with (last (b :: l) d').
  apply IH. discriminate.
Qed.

Lemma upto_member x rest : sep_free x = true ->
  Upto.upto Upto.FListSep None (sel_toks x ++ comma_tok :: rest) = (sel_toks x ++ [comma_tok], rest).
Proof.
  unfold sep_free. intros H. apply andb_true_iff in H as [H _]. apply andb_true_iff in H as [Hc Hz].
  unfold Upto.upto, Upto.upto_md. apply UptoFacts.upto_closed_run_lemma; [exact Hc|]. right.
  change (Upto.c0 (Upto.mode_of Upto.FListSep None)) with (0, 0, 0)%Z.
  destruct (Upto.after (0, 0, 0)%Z (sel_toks x)) as [[a b] c]. cbn in Hz.
  repeat (apply andb_true_iff in Hz; destruct Hz as [Hz ?]).
  apply Z.eqb_eq in Hz, H, H0. subst. reflexivity.
Qed.

Lemma upto_last_member x : sep_free x = true ->
  Upto.upto Upto.FListSep None (sel_toks x) = (sel_toks x, []).
Proof.
  unfold sep_free. intros H. apply andb_true_iff in H as [H _]. apply andb_true_iff in H as [Hc Hz].
  unfold Upto.upto, Upto.upto_md.
  pose proof (UptoFacts.upto_closed_prefix md_list (sel_toks x) (0, 0, 0)%Z [] Hc) as P.
  rewrite app_nil_r in P. cbn [Upto.upto_loop] in P. rewrite app_nil_r in P. exact P.
Qed.

Fixpoint members_of (ns : ns_map) (l : list selector) : list member :=
  match l with [] => [] | x :: r => match mem_of ns x with Some m => m :: members_of ns r | None => members_of ns r end end.

Lemma sl_step ns x f rest acc wf e comma_after :
  Declared ns x -> sep_free x = true ->
  (comma_after = true -> Upto.upto Upto.FListSep None (sel_toks x ++ comma_tok :: rest) = (sel_toks x ++ [comma_tok], rest)) ->
  forall m, mem_of ns x = Some m ->
  sl_loop (S f) ns (if comma_after then sel_toks x ++ comma_tok :: rest else sel_toks x) acc wf e =
  sl_loop f ns (if comma_after then rest else []) (acc ++ [m]) wf (if comma_after then SL_comma else SL_none).
Proof.
  intros Hd Hs Hu m Hm. pose proof (render_nonempty ns x Hd) as Hnz.
  assert (Hsel : select ns (map tok_pair (sel_toks x)) = Some (match m with (b, c, d, q) => Accepted b c d q end)).
  { unfold sel_toks. rewrite select_sel_toks. unfold mem_of in Hm.
    destruct (run ns (prepass (render x))) as [[|b c d q']|]; try discriminate. injection Hm as <-. reflexivity. }
  revert Hsel. destruct comma_after; cbn [sl_loop]; intros Hsel.
  - rewrite (Hu eq_refl). revert Hsel. destruct (sel_toks x) as [|t0 r0] eqn:Et; [congruence|]. intros Hsel.
    cbn [app]. rewrite last_app_single. cbn [Tokenizer.val comma_tok]. rewrite eqs_refl.
    rewrite app_comm_cons, removelast_last, Hsel. destruct m as [[[b c] d] q]. reflexivity.
  - rewrite (upto_last_member x Hs).
    unfold sep_free in Hs. apply andb_true_iff in Hs as [_ Hl]. apply negb_true_iff in Hl.
    revert Hsel Hl. destruct (sel_toks x) as [|t0 r0] eqn:Et; [congruence|]. intros Hsel Hl.
    assert (L : last r0 t0 = last (t0 :: r0) comma_tok).
    { destruct r0 as [|a r]; [reflexivity|]. change (last (t0 :: a :: r) comma_tok) with (last (a :: r) comma_tok). apply last_indep. discriminate. }
    rewrite L, Hl, Hsel. destruct m as [[[b c] d] q]. reflexivity.
Qed.


Lemma sl_members ns : forall sels fuel acc e,
  sels <> [] -> Forall (fun x => Declared ns x /\ sep_free x = true) sels ->
  (length (join_commas (map sel_toks sels)) < fuel)%nat ->
  sl_loop fuel ns (join_commas (map sel_toks sels)) acc true e = Some (SLAccepted (acc ++ members_of ns sels)).
Proof.
  induction sels as [|x sels IH]; intros fuel acc e Hne Hall Hf; [congruence|].
  inversion Hall as [|? ? [Hd Hs] Hall']; subst.
  destruct (member_spec ns x Hd) as (q & Hm).
  destruct fuel as [|f]; [inversion Hf|].
  destruct sels as [|y sels].
  - cbn [map join_commas members_of] in *. rewrite Hm.
    rewrite (sl_step ns x f [] acc true e false Hd Hs ltac:(discriminate) _ Hm).
    destruct f as [|f']; [pose proof (render_nonempty ns x Hd); destruct (sel_toks x); [congruence|cbn in Hf; lia]|].
    reflexivity.
  - change (join_commas (map sel_toks (x :: y :: sels))) with
      (sel_toks x ++ comma_tok :: join_commas (map sel_toks (y :: sels))) in *.
    rewrite (sl_step ns x f (join_commas (map sel_toks (y :: sels))) acc true e true Hd Hs
               (fun _ => upto_member x _ Hs) _ Hm).
    rewrite IH; [|discriminate|exact Hall'|rewrite app_length in Hf; cbn [length] in Hf; lia].
    cbn [members_of]. rewrite Hm, <- app_assoc. reflexivity.
Qed.

Lemma members_specs ns sels : Forall (fun x => Declared ns x /\ sep_free x = true) sels ->
  map fst (members_of ns sels) = map sp_selector sels.
Proof.
  induction 1 as [|x sels [Hd _] _ IH]; [reflexivity|]. cbn [members_of map].
  destruct (member_spec ns x Hd) as (q & Hm). rewrite Hm. cbn [map fst]. now rewrite IH.
Qed.

Theorem selectorlist_specificities_lemma ns sels :
  sels <> [] -> Forall (fun x => Declared ns x /\ sep_free x = true) sels ->
  exists ms, sl_run ns (join_commas (map sel_toks sels)) = Some (SLAccepted ms) /\
             map fst ms = map sp_selector sels.
Proof.
  intros Hne Hall. exists (members_of ns sels). split; [|now apply members_specs].
  unfold sl_run. rewrite sl_members; auto.
Qed.

(* a rejected member rejects the list: once wf is false the result can only be SLRejected *)
Lemma sl_false_rejects ns : forall fuel ts acc e r,
  sl_loop fuel ns ts acc false e = Some r -> r = SLRejected.
Proof.
  induction fuel as [|f IH]; intros ts acc e r H; [discriminate|]. cbn [sl_loop] in H.
  destruct (Upto.upto Upto.FListSep None ts) as [[|x run] rest].
  - destruct e; injection H as <-; reflexivity.
  - destruct (select ns _) as [[|b c d q]|]; [|eauto|discriminate]; eauto.
Qed.
