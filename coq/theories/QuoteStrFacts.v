(* QuoteStrFacts.v -- C03: the string round trip for helper.string with linecontinuation=True (the default, used for
   STRING tokens):  helper.string -> STRING production -> unicodesub -> cleanstring -> Base._stringtokenvalue.
   Proved for every value except an escape-introducing backslash directly before a double quote (kept by
   helper.string because the pinned test test_value.py:411 asserts that output; refuted below).  A backslash before
   a newline character is written as \5c + line continuation (backslash form feed) + newline escape: unicodesub resolves the escapes,
   cleanstring removes the continuation (and only it).  The facts about the writer without line continuation
   (hstring_loop, used by helper.uri) and everything generic are in QuoteFacts.v.                              *)
From CssV Require Import Base Regex RegexFacts RegexTotal Gen.Productions Gen.TokTables Gen.PyTables
     Tokenizer TokenizerFacts Quote Gen.Quote QuoteFacts.

Lemma str_isnl_spec c : str_isnl c = isnl c.
Proof.
  unfold str_isnl, str_newlines, isnl. cbn [map fst mem].
  rewrite (N.eqb_sym 10 c), (N.eqb_sym 13 c), (N.eqb_sym 12 c), orb_false_r, orb_assoc. reflexivity.
Qed.

(* every value but the pinned quote case *)
Fixpoint rep_okc (st : sstate) (v : str) : bool :=
  match v with
  | [] => true
  | c :: r =>
    match st with
    | SN => if N.eqb c 92%N then rep_okc S1 r else rep_okc SN r
    | S1 => if N.eqb c 92%N then rep_okc S2 r else negb (N.eqb c 34%N) && rep_okc SN r
    | S2 => if N.eqb c 92%N then rep_okc S1 r else rep_okc SN r
    end
  end.
Definition representable_str (v : str) : Prop := rep_okc SN v = true.

Lemma rep_ok_okc : forall v st, rep_ok st v = true -> rep_okc st v = true.
Proof.
  induction v as [|c v IH]; intros st H; [reflexivity|]. cbn [rep_ok rep_okc] in *.
  destruct st; destruct (N.eqb c 92); auto.
  - apply andb_true_iff in H as [H H3]. apply andb_true_iff in H as [H1 _]. rewrite H1. cbn [andb]. auto.
  - apply andb_true_iff in H as [_ H3]. auto.
Qed.
Lemma representable_representable_str v : representable v -> representable_str v.
Proof. apply rep_ok_okc. Qed.
Lemma nobs_representable_str v : no_backslash v -> representable_str v.
Proof. intros H. apply representable_representable_str, nobs_representable, H. Qed.

(* the text after unicodesub: as bloop, with the line continuation still there *)
Fixpoint uloopc (st : sstate) (v : str) : str :=
  match v with
  | [] => match st with SN => [] | _ => [92; 92]%N end
  | c :: r =>
    match st with
    | SN => if N.eqb c 92%N then uloopc S1 r else bplain c ++ uloopc SN r
    | S1 => if N.eqb c 92%N then 92%N :: uloopc S2 r
            else 92%N :: (if isnl c then [92; 12]%N else []) ++ bplain c ++ uloopc SN r
    | S2 => if N.eqb c 92%N then 92%N :: uloopc S1 r
            else 92%N :: (if isnl c then [92; 12]%N else []) ++ bplain c ++ uloopc SN r
    end
  end.

Lemma hstringc_unfold v : hstring v = 34%N :: hstringc_loop SN v ++ [34%N].
Proof. reflexivity. Qed.

Lemma loopc_head st r tl : st <> SN -> exists t', hstringc_loop st r ++ tl = 92%N :: t'.
Proof.
  intros Hs. destruct r as [|c r]; destruct st; try congruence; cbn [hstringc_loop];
    unfold str_end1, str_end2, str_s1_first, str_s2_first, str_s1_hex, str_s1_else, str_s2_hex, str_s2_else,
           str_s1_nl, str_s2_nl, str_bs;
    repeat match goal with |- context [if ?b then _ else _] => destruct b end; cbn [app]; eauto.
Qed.
Lemma uloopc_head st r tl : st <> SN -> exists t', uloopc st r ++ tl = 92%N :: t'.
Proof.
  intros Hs. destruct r as [|c r]; destruct st; try congruence; cbn [uloopc];
    repeat match goal with |- context [if ?b then _ else _] => destruct b end; cbn [app]; eauto.
Qed.

Lemma isnl_cases c : isnl c = true -> (c = 10 \/ c = 13 \/ c = 12)%N.
Proof.
  unfold isnl. intros H. repeat (apply orb_true_iff in H as [H|H]); apply N.eqb_eq in H; auto.
Qed.
Lemma isnl_not_hex c : isnl c = true -> ishex c = false.
Proof. intros H. destruct (isnl_cases c H) as [->|[->| ->]]; reflexivity. Qed.
Lemma isnl_plain c : isnl c = true -> c <> 92%N /\ c <> 34%N /\ bplain c = [c] /\
  exists h, (h = 97 \/ h = 100 \/ h = 99)%N /\ str_plain c = [92%N; h; 32%N] /\
            (if N.eqb h 97 then 10 else if N.eqb h 100 then 13 else 12)%N = c.
Proof.
  intros H. destruct (isnl_cases c H) as [->|[->| ->]]; (split; [discriminate|]; split; [discriminate|]; split; [reflexivity|]).
  - exists 97%N. auto.
  - exists 100%N. auto.
  - exists 99%N. auto.
Qed.

(* ------------------------------------------------------------------ the STRING production on the written text *)
Section UnitsC.
  Variable R : Type.
  Variables (kq : cont R) (res : R) (follow : str).
  Hypothesis Hkq : forall p, kq p (34%N :: follow) = Some res.

  (* a line continuation: backslash newline *)
  Lemma unit_cont : Unit R [92; 12]%N.
  Proof. intros prev t kk r Hk. unfold body_dq. cbn -[Nat.ltb]. rewrite Hk. reflexivity. Qed.

  Lemma body_iterc : forall r st, rep_okc st r = true ->
    Iter R kq res (pre st ++ hstringc_loop st r ++ 34%N :: follow).
  Proof.
    assert (Upair : Unit R [92; 92]%N) by (apply unit_pair; reflexivity).
    assert (P53 : Unit R [53%N]) by (apply unit_plain; discriminate).
    assert (P99 : Unit R [99%N]) by (apply unit_plain; discriminate).
    assert (P32 : Unit R [32%N]) by (apply unit_plain; discriminate).
    assert (Hclose : Iter R kq res (34%N :: follow)) by (apply Iter_close; exact Hkq).
    induction r as [|c r IH]; intros st Hok.
    - destruct st; cbn [pre hstringc_loop app]; unfold str_end1, str_end2.
      + exact Hclose.
      + apply (Iter_unit R kq res [92; 92]%N); [exact Upair|discriminate|exact Hclose].
      + apply (Iter_unit R kq res [92; 92]%N); [exact Upair|discriminate|].
        apply (Iter_unit R kq res [92; 53; 99; 32]%N); [apply unit_5c|discriminate|exact Hclose].
    - cbn [rep_okc] in Hok. cbn [hstringc_loop].
      unfold str_bs, str_s1_first, str_s2_first, str_s1_hex, str_s2_hex, str_s1_else, str_s2_else, str_s1_nl, str_s2_nl.
      rewrite ?str_isnl_spec. change (mem c str_hexdigits) with (ishex c).
      destruct st; destruct (N.eqb_spec c 92) as [->|Hc].
      + apply (IH S1 Hok).
      + destruct (unit_str_plain R c Hc) as (us & -> & Hu & Hn). cbn [pre app]. rewrite <- app_assoc.
        apply Iter_units; auto. apply (IH SN Hok).
      + cbn [pre app]. apply (IH S2 Hok).
      + apply andb_true_iff in Hok as [H1 H3]. apply negb_true_iff in H1. apply N.eqb_neq in H1.
        cbn [pre app]. destruct (ishex c) eqn:Eh; [|destruct (isnl c) eqn:En]; cbn [app].
        * destruct (str_plain_cases c Hc) as [[-> _]|[[-> _]|[[-> _]|[[-> _]|(_ & _ & ->)]]]]; try congruence; try discriminate.
          apply (Iter_unit R kq res [92; 53; 99; 32]%N); [apply unit_5c|discriminate|].
          apply (Iter_unit R kq res [c]); [apply plain_hexdigit; exact Eh|discriminate|apply (IH SN H3)].
        * destruct (isnl_plain c En) as (_ & _ & _ & h & Hh & -> & _).
          apply (Iter_unit R kq res [92; 53; 99; 32]%N); [apply unit_5c|discriminate|].
          apply (Iter_unit R kq res [92; 12]%N); [apply unit_cont|discriminate|].
          apply (Iter_unit R kq res [92%N; h; 32%N]); [apply unit_nl; exact Hh|discriminate|apply (IH SN H3)].
        * destruct (str_plain_cases c Hc) as [[-> _]|[[-> _]|[[-> _]|[[-> _]|(_ & _ & ->)]]]]; try congruence; try discriminate.
          apply (Iter_unit R kq res [92%N; c]); [apply unit_pair; assumption|discriminate|apply (IH SN H3)].
      + cbn [pre app]. apply (Iter_unit R kq res [92; 92]%N); [exact Upair|discriminate|]. apply (IH S1 Hok).
      + cbn [pre app]. destruct (ishex c) eqn:Eh; [|destruct (isnl c) eqn:En]; cbn [app].
        * apply (Iter_unit R kq res [92; 92]%N); [exact Upair|discriminate|].
          apply (Iter_unit R kq res [53%N]); [exact P53|discriminate|]. apply (Iter_unit R kq res [99%N]); [exact P99|discriminate|].
          apply (Iter_unit R kq res [32%N]); [exact P32|discriminate|].
          destruct (str_plain_cases c Hc) as [[-> _]|[[-> _]|[[-> _]|[[-> _]|(_ & _ & ->)]]]]; try discriminate.
          apply (Iter_unit R kq res [c]); [apply plain_hexdigit; exact Eh|discriminate|apply (IH SN Hok)].
        * destruct (isnl_plain c En) as (_ & _ & _ & h & Hh & -> & _).
          apply (Iter_unit R kq res [92; 92]%N); [exact Upair|discriminate|].
          apply (Iter_unit R kq res [53%N]); [exact P53|discriminate|]. apply (Iter_unit R kq res [99%N]); [exact P99|discriminate|].
          apply (Iter_unit R kq res [32%N]); [exact P32|discriminate|].
          apply (Iter_unit R kq res [92; 12]%N); [apply unit_cont|discriminate|].
          apply (Iter_unit R kq res [92%N; h; 32%N]); [apply unit_nl; exact Hh|discriminate|apply (IH SN Hok)].
        * apply (Iter_unit R kq res [92; 92]%N); [exact Upair|discriminate|].
          destruct (unit_str_plain R c Hc) as (us & -> & Hu & Hn). rewrite <- app_assoc.
          apply Iter_units; auto. apply (IH SN Hok).
  Qed.
End UnitsC.

Lemma rmatch_string_rep prev v follow : representable_str v ->
  rmatch re_STRING prev (hstring v ++ follow) = Some (length (hstring v)).
Proof.
  intros Hr. unfold rmatch. rewrite hstringc_unfold, re_STRING_shape. cbn [app m]. rewrite N.eqb_refl.
  rewrite <- app_assoc. cbn [app].
  match goal with |- context [rep_iter (m body_dq) ?k _ _ _ _ _] =>
    assert (HK : forall p, k p (34%N :: follow) = Some (length (34%N :: hstringc_loop SN v ++ [34%N])));
      [|pose proof (body_iterc nat k _ follow HK v SN Hr) as H] end.
  { intros p. rewrite N.eqb_refl. f_equal. cbn [length]. rewrite !app_length. cbn [length]. lia. }
  unfold Iter in H. cbn [pre app] in H. rewrite H by lia. reflexivity.
Qed.

Lemma try_prods_string dc fs prev v follow : representable_str v ->
  try_prods productions dc fs prev (hstring v ++ follow) = Some (Step (s "STRING") (hstring v) true).
Proof.
  intros Hr. pose proof (rmatch_string_rep prev v follow Hr) as Hm. revert Hm.
  rewrite productions_split. rewrite hstringc_unfold. cbn [app]. intros Hm.
  rewrite try_prods_skip; [|discriminate|exact before_STRING_fail].
  cbn [try_prods].
  change (eqs (s "STRING") (s "CHAR")) with false. rewrite andb_false_r. cbn [andb].
  rewrite Hm.
  change (eqs (s "STRING") (s "IDENT")) with false. cbn [andb].
  change (eqs (s "STRING") (s "INVALID")) with false. rewrite andb_false_r. cbn [andb].
  change (eqs (s "STRING") (s "FUNCTION")) with false. rewrite andb_false_r. cbn [andb].
  f_equal. f_equal.
  change (34%N :: (hstringc_loop SN v ++ [34%N]) ++ follow) with ((34%N :: hstringc_loop SN v ++ [34%N]) ++ follow).
  rewrite firstn_app, firstn_all, Nat.sub_diag. cbn [firstn]. apply app_nil_r.
Qed.


(* ------------------------------------------------------------------ escape resolution of the token value *)
Lemma bplain_str_plain_u c t b : c <> 92%N -> Us t b -> Us (str_plain c ++ t) (bplain c ++ b).
Proof. intros Hc Ht. apply bplain_str_plain; auto. Qed.

Lemma unicodesubc_loop tl tb : Us tl tb -> (exists x t', tl = x :: t' /\ ishex x = false) ->
  forall r st, rep_okc st r = true -> Us (hstringc_loop st r ++ tl) (uloopc st r ++ tb).
Proof.
  intros Htl (x0 & t0 & Etl & Hx0). induction r as [|c r IH]; intros st Hok.
  - destruct st; cbn [hstringc_loop uloopc app]; unfold str_end1, str_end2; cbn [app].
    + exact Htl.
    + apply Us_bs; [reflexivity|]. rewrite Etl. apply Us_bs; [exact Hx0|]. rewrite <- Etl. exact Htl.
    + apply Us_bs; [reflexivity|]. apply Us_5c. exact Htl.
  - cbn [rep_okc] in Hok. cbn [hstringc_loop uloopc].
    unfold str_bs, str_s1_first, str_s2_first, str_s1_hex, str_s2_hex, str_s1_else, str_s2_else, str_s1_nl, str_s2_nl.
    rewrite ?str_isnl_spec. change (mem c str_hexdigits) with (ishex c).
    destruct st; destruct (N.eqb_spec c 92) as [->|Hc].
    + apply (IH S1 Hok).
    + rewrite <- !app_assoc. apply bplain_str_plain_u; [exact Hc|apply (IH SN Hok)].
    + cbn [app]. destruct (loopc_head S2 r tl) as [t' Et']; [discriminate|]. rewrite Et'.
      apply Us_bs; [reflexivity|]. rewrite <- Et'. apply (IH S2 Hok).
    + apply andb_true_iff in Hok as [H1 H3]. apply negb_true_iff in H1. apply N.eqb_neq in H1.
      destruct (ishex c) eqn:Eh; [|destruct (isnl c) eqn:En]; cbn [app].
      * assert (En : isnl c = false) by (destruct (isnl c) eqn:E; [rewrite (isnl_not_hex c E) in Eh; discriminate|reflexivity]).
        rewrite En. cbn [app].
        destruct (str_plain_cases c Hc) as [[-> _]|[[-> _]|[[-> _]|[[-> _]|(_ & _ & Ep)]]]]; try congruence; try discriminate.
        rewrite Ep. unfold bplain. replace (N.eqb c 34) with false by (symmetry; apply N.eqb_neq; exact H1). cbn [app].
        apply Us_5c. apply Us_plain; [exact Hc|]. apply (IH SN H3).
      * destruct (isnl_plain c En) as (_ & _ & Eb & h & Hh & Ep & Ec). rewrite Ep, Eb. cbn [app].
        apply Us_5c. apply Us_bs; [reflexivity|]. apply Us_plain; [discriminate|].
        rewrite <- Ec. apply Us_nl; [exact Hh|]. apply (IH SN H3).
      * destruct (str_plain_cases c Hc) as [[-> _]|[[-> _]|[[-> _]|[[-> _]|(_ & _ & Ep)]]]]; try congruence; try discriminate.
        rewrite Ep. unfold bplain. replace (N.eqb c 34) with false by (symmetry; apply N.eqb_neq; exact H1). cbn [app].
        apply Us_bs; [exact Eh|]. apply Us_plain; [exact Hc|]. apply (IH SN H3).
    + cbn [app]. destruct (loopc_head S1 r tl) as [t' Et']; [discriminate|]. rewrite Et'.
      apply Us_bs; [reflexivity|]. rewrite <- Et'. apply (IH S1 Hok).
    + destruct (ishex c) eqn:Eh; [|destruct (isnl c) eqn:En]; cbn [app].
      * assert (En : isnl c = false) by (destruct (isnl c) eqn:E; [rewrite (isnl_not_hex c E) in Eh; discriminate|reflexivity]).
        rewrite En. cbn [app].
        destruct (str_plain_cases c Hc) as [[-> _]|[[-> _]|[[-> _]|[[-> _]|(H34 & _ & Ep)]]]]; try discriminate.
        rewrite Ep. unfold bplain. replace (N.eqb c 34) with false by (symmetry; apply N.eqb_neq; exact H34). cbn [app].
        apply Us_5c. apply Us_plain; [exact Hc|]. apply (IH SN Hok).
      * destruct (isnl_plain c En) as (_ & _ & Eb & h & Hh & Ep & Ec). rewrite Ep, Eb. cbn [app].
        apply Us_5c. apply Us_bs; [reflexivity|]. apply Us_plain; [discriminate|].
        rewrite <- Ec. apply Us_nl; [exact Hh|]. apply (IH SN Hok).
      * rewrite <- !app_assoc.
        assert (Hhd : exists y t', str_plain c ++ hstringc_loop SN r ++ tl = y :: t' /\ ishex y = false).
        { destruct (str_plain_cases c Hc) as [[-> ->]|[[-> ->]|[[-> ->]|[[-> ->]|(_ & _ & ->)]]]]; cbn [app]; eauto. }
        destruct Hhd as (y & t' & Ey & Hy). rewrite Ey. apply Us_bs; [exact Hy|]. rewrite <- Ey.
        apply bplain_str_plain_u; [exact Hc|apply (IH SN Hok)].
Qed.

(* cleanstring removes the line continuations and nothing else *)
Definition Cs2 (t b : str) : Prop :=
  forall fuel prev, (length t < fuel)%nat -> sub_all_fuel fuel re_cleanstring (fun _ => []) prev t = b.
Lemma Cs2_plain c t b : c <> 92%N -> Cs2 t b -> Cs2 (c :: t) (c :: b).
Proof.
  intros Hc Ht fuel prev Hf. destruct fuel as [|f]; [simpl in Hf; lia|]. unfold re_cleanstring.
  rewrite sub_all_fuel_plain by exact Hc. f_equal. apply Ht. simpl in Hf. lia.
Qed.
Lemma Cs2_bs x t b : isnl x = false -> Cs2 (x :: t) b -> Cs2 (92%N :: x :: t) (92%N :: b).
Proof.
  intros Hx Ht fuel prev Hf. destruct fuel as [|f]; [simpl in Hf; lia|]. cbn [sub_all_fuel].
  rewrite rmatch_cs_nonnl by exact Hx. f_equal. apply Ht. simpl in Hf |- *. lia.
Qed.
Lemma rmatch_cs_cont prev t : rmatch re_cleanstring prev (92 :: 12 :: t)%N = Some 2%nat.
Proof. unfold rmatch, re_cleanstring. cbn -[Nat.sub]. f_equal. cbn [length]. lia. Qed.
Lemma Cs2_cont t b : Cs2 t b -> Cs2 (92 :: 12 :: t)%N b.
Proof.
  intros Ht fuel prev Hf. destruct fuel as [|f]; [simpl in Hf; lia|]. cbn [sub_all_fuel].
  rewrite rmatch_cs_cont. cbn [firstn skipn app]. apply Ht. simpl in Hf. lia.
Qed.
Lemma Cs2_bplain c t b : c <> 92%N -> Cs2 t b -> Cs2 (bplain c ++ t) (bplain c ++ b).
Proof.
  intros Hc Ht. unfold bplain. destruct (N.eqb_spec c 34) as [->|H34]; cbn [app].
  - apply Cs2_bs; [reflexivity|]. apply Cs2_plain; [discriminate|exact Ht].
  - apply Cs2_plain; assumption.
Qed.
Lemma cleanstringc_loop : forall r st, rep_okc st r = true -> Cs2 (uloopc st r ++ [34%N]) (bloop st r ++ [34%N]).
Proof.
  assert (C34 : Cs2 [34%N] [34%N]).
  { intros fuel prev Hf. destruct fuel as [|f]; [simpl in Hf; lia|]. unfold re_cleanstring.
    rewrite sub_all_fuel_plain by discriminate. destruct f; reflexivity. }
  induction r as [|c r IH]; intros st Hok.
  - destruct st; cbn [uloopc bloop app]; [exact C34| |]; (apply Cs2_bs; [reflexivity|]; apply Cs2_bs; [reflexivity|exact C34]).
  - cbn [rep_okc] in Hok. cbn [uloopc bloop]. destruct st; destruct (N.eqb_spec c 92) as [->|Hc].
    + apply (IH S1 Hok).
    + rewrite <- !app_assoc. apply Cs2_bplain; [exact Hc|apply (IH SN Hok)].
    + cbn [app]. destruct (uloopc_head S2 r [34%N]) as [t' Et']; [discriminate|]. rewrite Et'.
      apply Cs2_bs; [reflexivity|]. rewrite <- Et'. apply (IH S2 Hok).
    + apply andb_true_iff in Hok as [H1 H3]. apply negb_true_iff in H1. apply N.eqb_neq in H1.
      unfold bplain. replace (N.eqb c 34) with false by (symmetry; apply N.eqb_neq; exact H1).
      destruct (isnl c) eqn:En; cbn [app].
      * apply Cs2_bs; [reflexivity|]. apply Cs2_cont. apply Cs2_plain; [exact Hc|apply (IH SN H3)].
      * apply Cs2_bs; [exact En|]. apply Cs2_plain; [exact Hc|apply (IH SN H3)].
    + cbn [app]. destruct (uloopc_head S1 r [34%N]) as [t' Et']; [discriminate|]. rewrite Et'.
      apply Cs2_bs; [reflexivity|]. rewrite <- Et'. apply (IH S1 Hok).
    + destruct (isnl c) eqn:En; cbn [app].
      * destruct (isnl_plain c En) as (_ & _ & Eb & _). rewrite Eb. cbn [app].
        apply Cs2_bs; [reflexivity|]. apply Cs2_cont. apply Cs2_plain; [exact Hc|apply (IH SN Hok)].
      * rewrite <- !app_assoc. unfold bplain. destruct (N.eqb_spec c 34) as [->|H34]; cbn [app].
        -- apply Cs2_bs; [reflexivity|]. apply Cs2_bs; [reflexivity|]. apply Cs2_plain; [discriminate|apply (IH SN Hok)].
        -- apply Cs2_bs; [exact En|]. apply Cs2_plain; [exact Hc|apply (IH SN Hok)].
Qed.

Lemma finish_string_rep v after : representable_str v ->
  finish_token (s "STRING") (hstring v) after = (s "STRING", hstring v, 34%N :: bloop SN v ++ [34%N]).
Proof.
  intros Hr. unfold finish_token.
  change (mem_str (s "STRING") resolved_types) with true. change (mem_str (s "STRING") clean_types) with true.
  cbv iota. f_equal.
  assert (U34 : Us [34%N] [34%N]) by (apply Us_plain; [discriminate|apply Us_nil]).
  assert (Hu : unicodesub (hstring v) = 34%N :: uloopc SN v ++ [34%N]).
  { rewrite hstringc_unfold. unfold unicodesub, sub_all.
    apply (Us_plain 34); [discriminate| |cbn [length]; lia].
    apply unicodesubc_loop; [exact U34| |exact Hr]. exists 34%N, []. split; reflexivity. }
  rewrite Hu. unfold cleanstring, sub_all.
  apply (Cs2_plain 34); [discriminate|apply (cleanstringc_loop v SN Hr)|cbn [length]; lia].
Qed.

(* ------------------------------------------------------------------ Base._stringtokenvalue on that value *)
Lemma replacec_loop : forall r st, rep_okc st r = true -> Rp (bloop st r ++ [34%N]) (vsuf st r ++ [34%N]).
Proof.
  assert (R34 : Rp [34%N] [34%N]) by (apply Rp_plain; [discriminate|apply Rp_nil]).
  induction r as [|c r IH]; intros st Hok.
  - destruct st; cbn [bloop vsuf app]; [exact R34| |]; (apply Rp_bs; [discriminate|]; apply Rp_bsq; apply Rp_nil).
  - cbn [rep_okc] in Hok. cbn [bloop]. destruct st; destruct (N.eqb_spec c 92) as [->|Hc]; cbn [vsuf].
    + apply (IH S1 Hok).
    + rewrite <- app_assoc. cbn [app]. apply Rp_bplain; [exact Hc|apply (IH SN Hok)].
    + cbn [app]. destruct (bloop_head S2 r [34%N]) as [t' Et']; [discriminate|]. rewrite Et'.
      apply Rp_bs; [discriminate|]. rewrite <- Et'. apply (IH S2 Hok).
    + apply andb_true_iff in Hok as [H1 H3]. apply negb_true_iff in H1. apply N.eqb_neq in H1.
      unfold bplain. replace (N.eqb c 34) with false by (symmetry; apply N.eqb_neq; exact H1). cbn [app].
      apply Rp_bs; [exact H1|]. apply Rp_plain; [exact Hc|apply (IH SN H3)].
    + cbn [app]. destruct (bloop_head S1 r [34%N]) as [t' Et']; [discriminate|]. rewrite Et'.
      apply Rp_bs; [discriminate|]. rewrite <- Et'. apply (IH S1 Hok).
    + cbn [app]. rewrite <- app_assoc.
      unfold bplain. destruct (N.eqb_spec c 34) as [->|H34]; cbn [app].
      * apply Rp_bs; [discriminate|]. apply Rp_bsq. apply (IH SN Hok).
      * apply Rp_bs; [exact H34|]. apply Rp_plain; [exact Hc|apply (IH SN Hok)].
Qed.

Lemma stringtokenvalue_str v ty0 raw0 l c : representable_str v ->
  stringtokenvalue (Some (mkTok ty0 raw0 (34%N :: bloop SN v ++ [34%N]) l c)) = Ok (Some v).
Proof.
  intros Hr. unfold stringtokenvalue. cbn [val py_index0 app].
  unfold py_replace. cbn [length].
  rewrite (Rp_plain 34 (bloop SN v ++ [34%N]) (v ++ [34%N])); [|discriminate|apply (replacec_loop v SN Hr)|cbn [length]; lia].
  rewrite py_slice_1_1. reflexivity.
Qed.

(* ------------------------------------------------------------------ the round trip *)
Lemma hstring_shape v : exists y, hstring v = 34%N :: y.
Proof. rewrite hstringc_unfold. eauto. Qed.

Theorem string_roundtrip_lemma : forall dc fs v follow,
  representable_str v ->
  exists t, first_token dc fs (hstring v ++ follow) = Some t /\
            ty t = s "STRING" /\ raw t = hstring v /\ line t = 1%nat /\ col t = 1%nat /\
            stringtokenvalue (Some t) = Ok (Some v).
Proof.
  intros dc fs v follow Hn.
  exists (mkTok (s "STRING") (hstring v) (34%N :: bloop SN v ++ [34%N]) 1 1).
  split; [|repeat split; apply stringtokenvalue_str; exact Hn].
  destruct (hstring_shape v) as [y Hy].
  unfold first_token, tokenize.
  assert (Hb : rmatch (snd bom_production) None (hstring v ++ follow) = None).
  { rewrite Hy. unfold rmatch. apply fails_on_sound. exact bom_fails_dq. }
  rewrite Hb.
  assert (Hs : starts (s "@charset ") (hstring v ++ follow) = false) by (rewrite Hy; reflexivity).
  rewrite Hs.
  set (text := hstring v ++ follow).
  assert (Htext : text = 34%N :: y ++ follow) by (unfold text; rewrite Hy; reflexivity).
  assert (Hl : loop (S (length text)) dc fs None text 1 1 =
               option_map (cons (mkTok (s "STRING") (hstring v) (34%N :: bloop SN v ++ [34%N]) 1 1))
                 (let '(l', c') := upd_pos 1 1 (hstring v) in
                  loop (length text) dc fs (last_opt None (hstring v)) follow l' c')).
  { rewrite Htext at 2. cbn [loop]. change (mem 34%N fastchars) with false. cbv iota.
    rewrite <- Htext. unfold text. rewrite (try_prods_string dc fs None v follow Hn).
    rewrite skipn_app, skipn_all, Nat.sub_diag. cbn [skipn app].
    rewrite (finish_string_rep v follow Hn).
    rewrite skipn_app, skipn_all, Nat.sub_diag. cbn [skipn app].
    destruct (upd_pos 1 1 (hstring v)) as [l' c'].
    change (eqs (s "STRING") (s "COMMENT")) with false. cbn [negb]. rewrite orb_true_r.
    destruct (loop (length (hstring v ++ follow)) dc fs (last_opt None (hstring v)) follow l' c'); reflexivity. }
  rewrite Hl. destruct (upd_pos 1 1 (hstring v)) as [l' c'].
  destruct (loop_total (length text) dc fs (last_opt None (hstring v)) follow l' c') as [ts Hts].
  { rewrite Htext. cbn [length]. rewrite app_length. lia. }
  rewrite Hts. reflexivity.
Qed.

(* the second half of the property at this level: writing the re-read value gives the same text *)
Corollary string_fixpoint_lemma : forall dc fs v follow t w,
  representable_str v -> first_token dc fs (hstring v ++ follow) = Some t ->
  stringtokenvalue (Some t) = Ok (Some w) -> hstring w = hstring v.
Proof.
  intros dc fs v follow t w Hn Ht Hw.
  destruct (string_roundtrip_lemma dc fs v follow Hn) as (t' & Ht' & _ & _ & _ & _ & Hv).
  rewrite Ht in Ht'. injection Ht' as <-. rewrite Hw in Hv. injection Hv as ->. reflexivity.
Qed.

(* ------------------------------------------------------------------ the value that is still not restored *)
(* The single-quoted source  apostrophe backslash quote apostrophe  is one STRING token whose string value is
   backslash quote  (Base._stringtokenvalue removes the backslash only in front of the token's own quote
   character).  helper.string writes that value as  quote backslash backslash quote quote  (this very output is
   asserted by the pinned test test_value.py:411, so the writer keeps it); its first token is the string
   quote backslash backslash quote  with the value  backslash,  and an unterminated string follows.        *)
Definition bs_source : str := [39; 92; 34; 39]%N.
Definition bs_value : str := [92; 34]%N.

Lemma bs_value_is_parsed : forall fs,
  option_map (fun t => (ty t, stringtokenvalue (Some t))) (first_token true fs bs_source)
  = Some (s "STRING", Ok (Some bs_value)).
Proof. intros [|]; vm_compute; reflexivity. Qed.

Lemma bs_value_not_representable : representable_str bs_value -> False.
Proof. vm_compute. discriminate. Qed.

Lemma bs_value_not_restored : forall fs,
  hstring bs_value = [34; 92; 92; 34; 34]%N /\
  option_map (fun t => (raw t, stringtokenvalue (Some t))) (first_token true fs (hstring bs_value))
  = Some ([34; 92; 92; 34]%N, Ok (Some [92%N])).
Proof. intros [|]; vm_compute; split; reflexivity. Qed.

(* values with backslashes that ARE representable: a backslash before a hex digit (was C03-backslash-reread-as-escape),
   a backslash pair before a hex digit, trailing backslashes, a simple escape *)
Example backslash_values_representable :
  representable_str [92; 53; 50; 99]%N /\ representable_str [252; 92; 92; 100; 48]%N /\ representable_str [97; 92]%N /\
  representable_str [97; 92; 92]%N /\ representable_str [50; 92; 92; 32; 49; 92; 32; 50; 92]%N /\
  representable_str [92; 39; 92; 103]%N /\ representable_str [92; 10]%N /\ representable_str [97; 92; 92; 13; 10]%N.
Proof. vm_compute. repeat split; reflexivity. Qed.

(* the former finding C03-backslash-before-newline: an escaped backslash pair and a newline *)
Example backslash_newline_roundtrip :
  let v := [97; 92; 92; 10]%N in
  hstring v = [34; 97; 92; 92; 53; 99; 32; 92; 12; 92; 97; 32; 34]%N /\
  option_map (fun t => stringtokenvalue (Some t)) (first_token true true (hstring v ++ s ";")) = Some (Ok (Some v)).
Proof. vm_compute. split; reflexivity. Qed.
