(* UrlsExt.v -- further laws of getUrls / replaceUrls (C12): the replacer is consulted on exactly
   the URLs getUrls lists (extensionality in both directions), replacing composes (each URL is
   rewritten once per call, so two calls equal one call with the composed replacer), and the
   number of URLs is invariant.  Proofs by induction over the nested rule tree.               *)
From CssV Require Import Base Urls UrlsFacts.

Lemma Forall_flat_map_in {A B} (P : B -> Prop) (g : A -> list B) l :
  (forall u, In u (flat_map g l) -> P u) -> Forall (fun x => forall u, In u (g x) -> P u) l.
Proof.
  intros H. apply Forall_forall. intros x Hx u Hu. apply H. apply in_flat_map. exists x. split; assumption.
Qed.

Lemma repl_value_ext f g v :
  (forall u, In u (value_urls v) -> f u = g u) -> repl_value f v = repl_value g v.
Proof.
  induction v as [u|items IH|] using value_ind2; simpl; intros H; try reflexivity.
  - f_equal. apply H. left. reflexivity.
  - f_equal. apply map_ext_Forall.
    apply Forall_flat_map_in in H. revert H. induction IH as [|x l Hx _ IHl]; intros H; constructor.
    + apply Hx. inversion H; assumption.
    + apply IHl. inversion H; assumption.
Qed.

Lemma repl_style_ext f g st :
  (forall u, In u (decls_urls st) -> f u = g u) -> repl_style f st = repl_style g st.
Proof.
  intros H. unfold repl_style. apply map_ext_Forall. apply Forall_forall. intros d Hd.
  apply map_ext_Forall. apply Forall_forall. intros v Hv. apply repl_value_ext. intros u Hu.
  apply H. unfold decls_urls. apply in_flat_map. exists d. split; [exact Hd|].
  unfold decl_urls. apply in_flat_map. exists v. split; assumption.
Qed.

Lemma repl_rules_ext_aux f g rs :
  Forall (fun r => (forall u, In u (rule_urls r) -> f u = g u) -> repl_rule f r = repl_rule g r) rs ->
  (forall u, In u (flat_map rule_urls rs) -> f u = g u) -> map (repl_rule f) rs = map (repl_rule g) rs.
Proof.
  intros IH H. apply map_ext_Forall. apply Forall_flat_map_in in H.
  revert H. induction IH as [|x l Hx _ IHl]; intros H; constructor.
  - apply Hx. inversion H; assumption.
  - apply IHl. inversion H; assumption.
Qed.

Lemma repl_rule_ext f g r :
  (forall u, In u (rule_urls r) -> f u = g u) -> repl_rule f r = repl_rule g r.
Proof.
  induction r as [st|st|st|st rs IH|rs IH|] using rule_ind2; simpl; intros H; try reflexivity.
  - f_equal. apply repl_style_ext. exact H.
  - f_equal. apply repl_style_ext. exact H.
  - f_equal. apply repl_style_ext. exact H.
  - f_equal.
    + apply repl_style_ext. intros u Hu. apply H. apply in_or_app. left. exact Hu.
    + apply repl_rules_ext_aux; [exact IH|]. intros u Hu. apply H. apply in_or_app. right. exact Hu.
  - f_equal. apply repl_rules_ext_aux; [exact IH|exact H].
Qed.

(* the replacer is consulted only on the URLs getUrls lists: two replacers that agree there give
   the same sheet ... *)
Lemma replace_ext_lemma f g sh :
  (forall u, In u (getUrls sh) -> f u = g u) -> replaceUrls false f sh = replaceUrls false g sh.
Proof.
  rewrite getUrls_spec_lemma. intros H. unfold replaceUrls. apply map_ext_Forall. apply Forall_forall.
  intros [h|r] Hi.
  - f_equal. apply H. apply in_or_app. left. unfold import_hrefs. apply in_flat_map.
    exists (IImport h). split; [exact Hi|left; reflexivity].
  - f_equal. apply repl_rule_ext. intros u Hu. apply H. apply in_or_app. right.
    unfold doc_order_urls. apply in_flat_map. exists (IRule r). split; [exact Hi|exact Hu].
Qed.

(* ... and on every one of them: replacers giving the same sheet agree on every listed URL *)
Lemma map_eq_In {A B} (f g : A -> B) l : map f l = map g l -> forall u, In u l -> f u = g u.
Proof.
  induction l as [|x l IH]; simpl; intros H u Hu; [contradiction|].
  injection H as Hx Hl. destruct Hu as [<-|Hu]; [exact Hx|apply IH; assumption].
Qed.

Lemma replace_ext_conv_lemma f g sh :
  replaceUrls false f sh = replaceUrls false g sh -> forall u, In u (getUrls sh) -> f u = g u.
Proof.
  intros H. apply map_eq_In. rewrite <- !replace_then_get_lemma, H. reflexivity.
Qed.

(* with ignoreImportRules the same holds for the declaration URLs alone *)
Lemma replace_ext_ignore_lemma f g sh :
  (forall u, In u (doc_order_urls sh) -> f u = g u) -> replaceUrls true f sh = replaceUrls true g sh.
Proof.
  intros H. unfold replaceUrls. apply map_ext_Forall. apply Forall_forall. intros [h|r] Hi; [reflexivity|].
  f_equal. apply repl_rule_ext. intros u Hu. apply H.
  unfold doc_order_urls. apply in_flat_map. exists (IRule r). split; [exact Hi|exact Hu].
Qed.

(* two calls = one call with the composed replacer: each URL is rewritten exactly once per call *)
Lemma replace_compose_lemma b g f sh :
  replaceUrls b g (replaceUrls b f sh) = replaceUrls b (fun u => g (f u)) sh.
Proof.
  unfold replaceUrls. rewrite map_map. apply map_ext_Forall. apply Forall_forall.
  intros [h|r] _; simpl; [destruct b; reflexivity|]. rewrite repl_rule_comp. reflexivity.
Qed.

(* the number of URLs never changes, whatever the replacer returns *)
Lemma replace_count_lemma b f sh : length (getUrls (replaceUrls b f sh)) = length (getUrls sh).
Proof.
  destruct b.
  - rewrite replace_then_get_ignore_lemma, getUrls_spec_lemma, !app_length, map_length. reflexivity.
  - rewrite replace_then_get_lemma, map_length. reflexivity.
Qed.

(* an injective replacer can be undone: replacing with a left inverse restores the sheet *)
Lemma replace_undo_lemma b f finv sh :
  (forall u, finv (f u) = u) -> replaceUrls b finv (replaceUrls b f sh) = sh.
Proof.
  intros H. rewrite replace_compose_lemma.
  transitivity (replaceUrls b (fun u => u) sh); [|apply replace_id_lemma].
  unfold replaceUrls. apply map_ext_Forall. apply Forall_forall.
  intros [h|r] _; [destruct b; [reflexivity|rewrite H; reflexivity]|].
  f_equal. apply repl_rule_ext. intros u _. apply H.
Qed.

(* replaceUrls(style, replacer): the same laws for a bare declaration block *)
Lemma replace_style_ext_lemma f g st :
  replaceUrls_style f st = replaceUrls_style g st <-> (forall u, In u (style_urls st) -> f u = g u).
Proof.
  split.
  - intros H. apply map_eq_In. rewrite <- !replace_style_then_get_lemma, H. reflexivity.
  - intros H. unfold replaceUrls_style. apply repl_style_ext. intros u Hu. apply H.
    rewrite style_urls_spec. exact Hu.
Qed.

Lemma replace_style_compose_lemma g f st :
  replaceUrls_style g (replaceUrls_style f st) = replaceUrls_style (fun u => g (f u)) st.
Proof. unfold replaceUrls_style. apply repl_style_comp. Qed.
