(* GrammarWf.v -- `Delimited sh lay` follows from AST-level well-formedness, for EVERY layout (property C02).

   wf_sheet is a boolean function of the derivation alone (no layout, nothing rendered with a layout):
   numbers are decimal lexemes, unicode-ranges / at-keywords / soup do not start with a delimiter character,
   the prelude of an unknown at-rule has no top-level block, the first token of a rule set is a selector token,
   and every selector (AST of CssV.Selector, rendered without any layout) is a closed, counter-neutral run
   in the three modes that cut it.  Everything that depends on the layout -- whitespace / comment gaps, quote kinds,
   url forms, keyword case, and the whole value / declaration / media / statement structure -- is proved.        *)
From CssV Require Import Base Gen.TokTables Tokenizer Gen.UptoGen Upto UptoFacts Skeleton SkeletonFacts.
From CssV Require Import Grammar GrammarFacts.
From CssV Require Selector.
Open Scope Z_scope.

(* ================================================================== atoms *)
Definition BR : str := [123; 125; 91; 93; 40; 41]%N.          (* { } [ ] ( ) *)
Definition EN : str := [59; 125; 123; 58; 33; 44]%N.          (* ; } { : ! , *)

(* an atom whose first character is neither a bracket nor an end character other than those listed in A
   (for IDENT tokens the code would not even look at the value; G's identifiers satisfy it anyway) *)
Definition atomq (A : str) (t : tok) : bool :=
  negb (is_eof t) && negb (is_function t) &&
  match val t with c :: _ => negb (mem c BR) && (negb (mem c EN) || mem c A) | [] => false end.

Lemma mem_false_cons c x l : mem c (x :: l) = false -> N.eqb x c = false /\ mem c l = false.
Proof. cbn [mem]. now intros H; apply orb_false_iff in H. Qed.

Lemma eqs_head_ne c r x : N.eqb x c = false -> eqs (c :: r) [x] = false.
Proof. intros H. cbn [eqs]. rewrite N.eqb_sym, H. reflexivity. Qed.

Lemma atomq_parts A t :
  atomq A t = true ->
  is_eof t = false /\ is_function t = false /\
  (exists c r, val t = c :: r /\ mem c BR = false /\ (mem c EN = false \/ mem c A = true)).
Proof.
  unfold atomq. intros H. apply andb_true_iff in H as [H H3]. apply andb_true_iff in H as [H1 H2].
  apply negb_true_iff in H1, H2. repeat split; auto.
  destruct (val t) as [|c r]; [discriminate|]. exists c, r. apply andb_true_iff in H3 as [Ha Hb].
  apply negb_true_iff in Ha. split; [reflexivity|split; [exact Ha|]].
  apply orb_true_iff in Hb as [Hb|Hb]; [left; now apply negb_true_iff in Hb|now right].
Qed.

Lemma atomq_atom A t : atomq A t = true -> bclass_of t = BAtom /\ is_eof t = false.
Proof.
  intros H. destruct (atomq_parts _ _ H) as (He & Hf & Hv). split; [|exact He].
  unfold bclass_of. destruct Hv as (c & r & Hv & Hb & _).
  destruct (is_ident t); [reflexivity|]. rewrite Hv, Hf.
  unfold BR in Hb. repeat (apply mem_false_cons in Hb as [? Hb]).
  change (s "{") with [123%N]. change (s "}") with [125%N]. change (s "[") with [91%N].
  change (s "]") with [93%N]. change (s "(") with [40%N]. change (s ")") with [41%N].
  rewrite !eqs_head_ne by assumption. reflexivity.
Qed.

Lemma is_sub_head c r text : is_sub (c :: r) text = true -> mem c text = true.
Proof.
  induction text as [|d text IH]; cbn [is_sub starts mem]; intros H.
  - rewrite orb_false_r in H. discriminate.
  - apply orb_true_iff in H as [H|H].
    + apply andb_true_iff in H as [H _]. apply N.eqb_eq in H. subst. now rewrite N.eqb_refl.
    + rewrite (IH H). apply orb_true_r.
Qed.

(* the end characters of md are end characters not allowed by A *)
Definition ends_avoid (md : mode) (A : str) : bool := forallb (fun c => mem c EN && negb (mem c A)) (ends md).

Lemma atomq_notend A t md :
  atomq A t = true -> ends_avoid md A = true -> endtypes md = [] -> isendtok md t = false.
Proof.
  intros H Hav Het. destruct (atomq_parts _ _ H) as (He & Hf & Hv). unfold isendtok. rewrite Het. cbn [mem_str].
  rewrite orb_false_r. destruct Hv as (c & r & Hv & Hb & Hc).
  destruct (is_ident t); [reflexivity|]. cbn [negb andb]. rewrite Hv.
  destruct (is_sub (c :: r) (ends md)) eqn:E; [|reflexivity]. exfalso.
  apply is_sub_head in E. apply mem_In in E. unfold ends_avoid in Hav. rewrite forallb_forall in Hav.
  specialize (Hav _ E). apply andb_true_iff in Hav as [H1 H2]. apply negb_true_iff in H2.
  destruct Hc as [Hc|Hc]; congruence.
Qed.

(* ================================================================== soup: atoms satisfying P and ( ... ) groups *)
Inductive Soup (P : tok -> bool) : list tok -> Prop :=
| So_nil : Soup P []
| So_atom t x : P t = true -> Soup P x -> Soup P (t :: x)
| So_group o b x : bclass_of o = BOpen 2 -> is_eof o = false -> Balanced b -> Soup P x ->
                   Soup P (o :: b ++ ch ")" :: x).

Lemma Soup_atoms P l : forallb P l = true -> Soup P l.
Proof.
  induction l as [|t l IH]; intros H; [constructor|]. cbn [forallb] in H. apply andb_true_iff in H as [H1 H2].
  constructor; auto.
Qed.

Lemma Soup_app P x y : Soup P x -> Soup P y -> Soup P (x ++ y).
Proof.
  induction 1 as [|t x Ht Hx IH|o b x Ho He Hb Hx IH]; intros Hy; [exact Hy| |].
  - cbn [app]. apply So_atom; [exact Ht|exact (IH Hy)].
  - cbn [app]. rewrite <- app_assoc. cbn [app]. apply So_group; [exact Ho|exact He|exact Hb|exact (IH Hy)].
Qed.

Lemma Soup_mono P Q x : (forall t, P t = true -> Q t = true) -> Soup P x -> Soup Q x.
Proof.
  intros H. induction 1 as [|t x Ht Hx IH|o b x Ho He Hb Hx IH];
    [apply So_nil|apply So_atom; auto|apply So_group; auto].
Qed.

Lemma Soup_group1 P o b : bclass_of o = BOpen 2 -> is_eof o = false -> Balanced b -> Soup P (o :: b ++ [ch ")"]).
Proof. intros. apply So_group; auto. apply So_nil. Qed.

Lemma close_paren : bclass_of (ch ")") = BClose 2 /\ is_eof (ch ")") = false.
Proof. split; reflexivity. Qed.

Lemma Soup_Balanced A x : Soup (atomq A) x -> Balanced x.
Proof.
  induction 1 as [|t x Ht Hx IH|o b x Ho He Hb Hx IH]; [constructor| |].
  - destruct (atomq_atom _ _ Ht). constructor; auto.
  - eapply Bal_group; eauto; reflexivity.
Qed.

Definition closer_quiet (md : mode) : bool := negb (isendtok md (ch ")")) && negb (stops md (c0 md) (ch ")")).

Lemma Soup_TopFree A md x :
  ends_avoid md A = true -> endtypes md = [] -> Soup (atomq A) x -> TopFree md x.
Proof.
  intros Hav Het. induction 1 as [|t x Ht Hx IH|o b x Ho He Hb Hx IH]; [constructor| |].
  - destruct (atomq_atom _ _ Ht). constructor; auto. eapply atomq_notend; eauto.
  - eapply TF_group; eauto; try reflexivity.
    unfold isendtok. rewrite Het. cbn [mem_str]. rewrite orb_false_r.
    change (is_ident (ch ")")) with false. cbn [negb andb val ch T].
    unfold ends_avoid in Hav. destruct (is_sub (s ")") (ends md)) eqn:E; [|reflexivity]. exfalso.
    change (s ")") with [41%N] in E. apply is_sub_head, mem_In in E. rewrite forallb_forall in Hav.
    specialize (Hav _ E). apply andb_true_iff in Hav as [H1 _]. discriminate.
Qed.

(* in front of the first top-level brace (modes starting at brace = -1): any atom that is not a STRING in the armed
   media-query mode *)
Lemma Soup_PreBrace P md x :
  (forall t, P t = true -> bclass_of t = BAtom /\ is_eof t = false /\ stops md (c0 md) t = false) ->
  stops md (c0 md) (ch ")") = false -> Soup P x -> PreBrace md x.
Proof.
  intros HP Hc. induction 1 as [|t x Ht Hx IH|o b x Ho He Hb Hx IH]; [constructor| |].
  - destruct (HP _ Ht) as (H1 & H2 & H3). constructor; auto.
  - eapply (PB_group md o b (ch ")") x 1); eauto; reflexivity.
Qed.

Lemma Soup_last P x : Soup P x -> x <> [] -> exists y t, x = y ++ [t] /\ (P t = true \/ t = ch ")").
Proof.
  induction 1 as [|t x Ht Hx IH|o b x Ho He Hb Hx IH]; intros Hne; [congruence| |].
  - destruct x as [|u x']; [exists [], t; split; [reflexivity|now left]|].
    destruct IH as (y & l & E & Hl); [discriminate|]. exists (t :: y), l. split; [now rewrite E|exact Hl].
  - destruct x as [|u x'].
    + exists (o :: b), (ch ")"). split; [reflexivity|now right].
    + destruct IH as (y & l & E & Hl); [discriminate|]. exists (o :: b ++ ch ")" :: y), l.
      split; [rewrite E; cbn [app]; rewrite <- app_assoc; reflexivity|exact Hl].
Qed.

(* ================================================================== neutral runs *)
Definition Neu (md : mode) (c : counters) (x : list tok) : Prop := closed md c x = true /\ after c x = c.

Lemma Neu_nil md c : Neu md c []. Proof. split; reflexivity. Qed.
Lemma Neu_app md c x y : Neu md c x -> Neu md c y -> Neu md c (x ++ y).
Proof. intros [H1 H2] [H3 H4]. split; [now rewrite closed_app, H1, H2, H3|now rewrite after_app, H2, H4]. Qed.

Lemma Neu_topfree md x : mq md = false -> TopFree md x -> Neu md (0, 0, 0) x.
Proof. intros Hmq H. exact (balanced_closed_lemma md x Hmq H). Qed.
Lemma Neu_prebrace md br0 x : c0 md = (br0, 0, 0) -> PreBrace md x -> Neu md (c0 md) x.
Proof. intros Hc H. exact (prebrace_closed md br0 x Hc H). Qed.
Lemma Neu_pos md c x : mq md = false -> pos c -> Balanced x -> Neu md c x.
Proof. intros Hmq Hp H. exact (balanced_closed_nested md x Hmq H c Hp). Qed.

Lemma cut_ok_snoc md c run e :
  closed md c run = true -> is_eof e = false -> stops md (bump (after c run) e) e = true ->
  cut_ok md c (run ++ [e]) = true.
Proof. intros H1 H2 H3. unfold cut_ok. rewrite separate_end_snoc, H1, H2, H3. reflexivity. Qed.

(* a '{' body '}' group at depth 0 of a mode without the media-query special case *)
Lemma Neu_block md body :
  mq md = false -> Balanced body ->
  closed md (0, 0, 0) (ch "{" :: body) = true /\ after (0, 0, 0) (ch "{" :: body) = (1, 0, 0).
Proof.
  intros Hmq Hb. assert (pos (1, 0, 0)) as Hp by (unfold pos, nonneg; lia).
  destruct (Neu_pos md _ _ Hmq Hp Hb) as [H1 H2]. rewrite closed_cons, after_cons.
  change (bump (0, 0, 0) (ch "{")) with (1, 0, 0). change (is_eof (ch "{")) with false.
  rewrite (stops_pos _ _ _ Hmq Hp), H1, H2. split; reflexivity.
Qed.

(* ================================================================== tokens of G are atoms *)
Definition headok (v : str) : bool :=
  match v with c :: _ => negb (mem c BR) && negb (mem c EN) | [] => false end.

Lemma atomq_head A y v :
  eqs (s y) (s "EOF") = false -> eqs (s y) (s "FUNCTION") = false -> headok v = true -> atomq A (T y v) = true.
Proof.
  intros H1 H2 Hv. unfold atomq, is_eof, is_function, T. cbn [ty val]. rewrite H1, H2. cbn [negb andb].
  destruct v as [|c r]; [discriminate|]. cbn [headok] in Hv. apply andb_true_iff in Hv as [Ha Hb].
  rewrite Ha, Hb. reflexivity.
Qed.

Lemma atomq_ident A v : headok v = true -> atomq A (T "IDENT" v) = true.
Proof. intros H. now apply atomq_head. Qed.

Lemma atomq_val_ne A t x : atomq A t = true -> mem x EN = true -> mem x A = false -> eqs (val t) [x] = false.
Proof.
  intros H H1 H2. destruct (atomq_parts _ _ H) as (_ & _ & c & r & Hv & _ & Hc). rewrite Hv. cbn [eqs].
  destruct (N.eqb_spec c x); [subst; destruct Hc; congruence|reflexivity].
Qed.

Lemma headok_app v u : headok v = true -> headok (v ++ u) = true.
Proof. destruct v; [discriminate|]. intros H; exact H. Qed.

Lemma digit_ok c : is_digit c = true -> negb (mem c BR) && negb (mem c EN) = true.
Proof.
  unfold is_digit. intros H. apply andb_true_iff in H as [H1 H2]. apply N.leb_le in H1, H2.
  unfold BR, EN. cbn [mem].
  repeat match goal with |- context [N.eqb ?x c] =>
    let E := fresh in assert (N.eqb x c = false) as E by (apply N.eqb_neq; lia); rewrite E; clear E end.
  reflexivity.
Qed.

Lemma num_head n u : wf_num n = true -> headok (num_lex n ++ u) = true.
Proof.
  unfold wf_num. intros H. apply andb_true_iff in H as [H H4]. apply andb_true_iff in H as [H _].
  apply andb_true_iff in H as [H1 _]. unfold num_lex, sign_str.
  assert (headok (nint n ++ match nfrac n with Some f => 46%N :: f | None => [] end) = true) as Hb.
  { destruct (nint n) as [|c r] eqn:E.
    - destruct (nfrac n); [reflexivity|discriminate].
    - cbn [app headok]. cbn [digits forallb] in H1. apply andb_true_iff in H1 as [H1 _]. now apply digit_ok. }
  destruct (nsign n) as [|[|[|k]]]; cbn [app]; try reflexivity; now apply headok_app.
Qed.

Lemma dec_digits_ok f : forall n acc,
  forallb is_digit acc = true -> acc <> [] ->
  forallb is_digit (dec_digits f n acc) = true /\ dec_digits f n acc <> [].
Proof.
  induction f as [|f IH]; intros n acc Ha Hne; [split; assumption|].
  cbn [dec_digits].
  assert (is_digit (48 + n mod 10) = true) as Hd.
  { unfold is_digit. assert (n mod 10 < 10)%N as Hm by (apply N.mod_lt; lia).
    set (m := (n mod 10)%N) in *. clearbody m. apply andb_true_iff. split; apply N.leb_le; lia. }
  assert (forallb is_digit ((48 + n mod 10)%N :: acc) = true) as Ha' by (cbn [forallb]; now rewrite Hd).
  destruct (N.ltb n 10); [split; [exact Ha'|discriminate]|]. apply IH; [exact Ha'|discriminate].
Qed.

Lemma dec_head r : headok (dec r) = true.
Proof.
  unfold dec. change 40%nat with (S 39). cbn [dec_digits].
  assert (is_digit (48 + r mod 10) = true) as Hd.
  { unfold is_digit. assert (r mod 10 < 10)%N as Hm by (apply N.mod_lt; lia).
    set (m := (r mod 10)%N) in *. clearbody m. apply andb_true_iff. split; apply N.leb_le; lia. }
  assert (forall l, forallb is_digit l = true -> l <> [] -> headok l = true) as Hh.
  { intros [|c l] Hl Hn; [congruence|]. cbn [forallb] in Hl. apply andb_true_iff in Hl as [Hc _]. now apply digit_ok. }
  destruct (N.ltb r 10).
  - apply Hh; [cbn [forallb]; now rewrite Hd|discriminate].
  - destruct (dec_digits_ok 39 (r / 10) [(48 + r mod 10)%N]) as [H1 H2]; [cbn [forallb]; now rewrite Hd|discriminate|].
    now apply Hh.
Qed.

(* ---- gaps: whitespace and comments are atoms under every A *)
Lemma gopt_atoms A lay g : forallb (atomq A) (gopt lay g) = true.
Proof. unfold gopt, gap_opt. destruct (Nat.modulo (lk lay g) 7) as [|[|[|[|[|[|n]]]]]]; reflexivity. Qed.
Lemma greq_atoms A lay g : forallb (atomq A) (greq lay g) = true.
Proof. unfold greq, gap_req. destruct (Nat.modulo (lk lay g) 5) as [|[|[|[|n]]]]; reflexivity. Qed.
Lemma gws_atoms A lay g : forallb (atomq A) (gws lay g) = true.
Proof. unfold gws, gap_ws. destruct (Nat.modulo (lk lay g) 3) as [|[|n]]; reflexivity. Qed.
Lemma gsep_atoms A lay g : forallb (atomq A) (gsep lay g) = true.
Proof. unfold gsep, gap_sep. destruct (Nat.modulo (lk lay g) 4) as [|[|[|n]]]; reflexivity. Qed.

Lemma gopt_soup A lay g : Soup (atomq A) (gopt lay g). Proof. apply Soup_atoms, gopt_atoms. Qed.
Lemma greq_soup A lay g : Soup (atomq A) (greq lay g). Proof. apply Soup_atoms, greq_atoms. Qed.
Lemma gws_soup A lay g : Soup (atomq A) (gws lay g). Proof. apply Soup_atoms, gws_atoms. Qed.
Lemma gsep_soup A lay g : Soup (atomq A) (gsep lay g). Proof. apply Soup_atoms, gsep_atoms. Qed.

Lemma one_soup A t : atomq A t = true -> Soup (atomq A) [t].
Proof. intros H. apply So_atom; [exact H|apply So_nil]. Qed.

Lemma string_atom A lay g b : atomq A (r_string lay g b) = true.
Proof. unfold r_string, quote_of. destruct (Nat.even (lk lay g)); reflexivity. Qed.
Lemma url_atom A lay g b : atomq A (r_url lay g b) = true.
Proof. unfold r_url, url_text. destruct (Nat.modulo (lk lay g) 5) as [|[|[|[|n]]]]; reflexivity. Qed.
Lemma strform_atom A lay f b : atomq A (r_strform lay f b) = true.
Proof. destruct f; [apply string_atom|apply url_atom]. Qed.

Lemma num_atom A y n u :
  eqs (s y) (s "EOF") = false -> eqs (s y) (s "FUNCTION") = false -> wf_num n = true ->
  atomq A (T y (num_lex n ++ u)) = true.
Proof. intros. apply atomq_head; auto. now apply num_head. Qed.

(* ================================================================== well-formed values *)
Definition wf_cterm (c : cterm) : bool := match c with CtN n | CtD n _ | CtP n => wf_num n end.

Fixpoint wf_term (t : term) : bool :=
  match t with
  | TmIdent v => headok v
  | TmStr _ _ | TmUrl _ _ | TmHex _ | TmRgb _ _ _ _ _ _ _ _ _ => true
  | TmNum n | TmDim n _ | TmPct n => wf_num n
  | TmFunc _ _ first more _ =>
      wf_term first &&
      (fix go (l : list (nat * nat * nat * term)) : bool :=
         match l with [] => true | (_, _, _, x) :: r => wf_term x && go r end) more
  | TmCalc _ _ first more _ => wf_cterm first && forallb (fun p => wf_cterm (snd p)) more
  | TmURange v => headok v
  end.

Lemma cterm_atom A c : wf_cterm c = true -> atomq A (r_cterm c) = true.
Proof.
  destruct c as [n|n u|n]; cbn [wf_cterm r_cterm]; intros H.
  - rewrite <- (app_nil_r (num_lex n)). now apply num_atom.
  - now apply num_atom.
  - now apply num_atom.
Qed.

Lemma char_atom A (c : string) : headok (s c) = true -> atomq A (ch c) = true.
Proof. intros H. unfold ch. now apply atomq_head. Qed.

Lemma eqs_snoc_one name (x : N) : N.eqb 40 x = false -> eqs (name ++ [40%N]) [x] = false.
Proof.
  intros H. destruct name as [|c r]; cbn [app eqs]; [now rewrite H|].
  destruct r; cbn [app eqs]; apply andb_false_r.
Qed.

Lemma function_open name :
  bclass_of (T "FUNCTION" (name ++ s "(")) = BOpen 2 /\ is_eof (T "FUNCTION" (name ++ s "(")) = false.
Proof.
  split; [|reflexivity]. unfold bclass_of. change (is_ident (T "FUNCTION" (name ++ s "("))) with false.
  change (is_function (T "FUNCTION" (name ++ s "("))) with true. cbn [val T]. rewrite orb_true_r.
  change (s "(") with [40%N]. change (s "{") with [123%N]. change (s "}") with [125%N].
  change (s "[") with [91%N]. change (s "]") with [93%N].
  rewrite !eqs_snoc_one by reflexivity. reflexivity.
Qed.

Lemma calc_open lay gc :
  bclass_of (T "FUNCTION" (cased lay gc (s "calc("))) = BOpen 2 /\ is_eof (T "FUNCTION" (cased lay gc (s "calc("))) = false.
Proof. unfold cased. destruct (Nat.odd (lk lay gc)); split; reflexivity. Qed.

(* ---- terms: under every A, a value term is soup (its atoms do not start with any delimiter) *)
Definition wf_more (l : list (nat * nat * nat * term)) : bool :=
  (fix go (l : list (nat * nat * nat * term)) : bool :=
     match l with [] => true | (_, _, _, x) :: r => wf_term x && go r end) l.
Definition r_more (lay : layout) (l : list (nat * nat * nat * term)) : list tok :=
  (fix go (l : list (nat * nat * nat * term)) : list tok :=
     match l with
     | [] => []
     | (k, ga, gb, x) :: r =>
         match k with
         | 0%nat => greq lay ga
         | 1%nat => gopt lay ga ++ ch "," :: gopt lay gb
         | _ => gopt lay ga ++ ch "/" :: gopt lay gb
         end ++ r_term lay x ++ go r
     end) l.

Lemma comma_balanced : Balanced [ch ","].
Proof. apply Bal_atom; [reflexivity|reflexivity|apply Bal_nil]. Qed.

Lemma term_soup lay : forall A t, wf_term t = true -> Soup (atomq A) (r_term lay t).
Proof.
  fix IH 2. intros A t H. destruct t; cbn [r_term]; cbn [wf_term] in H.
  - apply one_soup. now apply atomq_ident.
  - apply one_soup. rewrite <- (app_nil_r (num_lex n)). now apply num_atom.
  - apply one_soup. now apply num_atom.
  - apply one_soup. now apply num_atom.
  - apply one_soup, string_atom.
  - apply one_soup, url_atom.
  - apply one_soup. reflexivity.
  - (* rgb *)
    set (inner := gopt lay g0 ++ T "NUMBER" (dec r) :: gopt lay g1 ++ ch "," :: gopt lay g2 ++
            T "NUMBER" (dec g) :: gopt lay g3 ++ ch "," :: gopt lay g4 ++ T "NUMBER" (dec b) :: gopt lay g5).
    match goal with |- Soup _ (_ :: ?l) =>
      replace l with (inner ++ [ch ")"]) by (unfold inner; repeat (rewrite <- app_assoc; cbn [app]); reflexivity) end.
    apply Soup_group1; [reflexivity|reflexivity|].
    apply (Soup_Balanced EN).
    assert (forall n, atomq EN (T "NUMBER" (dec n)) = true) as Hn by (intros; apply atomq_head; [reflexivity|reflexivity|apply dec_head]).
    unfold inner.
    repeat first [apply Soup_app; [apply gopt_soup|] | apply So_atom; [first [apply Hn|reflexivity]|] | apply gopt_soup].
  - (* function *)
    apply andb_true_iff in H as [H1 H2].
    change (Soup (atomq A) (T "FUNCTION" (name ++ s "(") :: gopt lay g0 ++ r_term lay t ++ r_more lay more ++ gopt lay g1 ++ [ch ")"])).
    replace (gopt lay g0 ++ r_term lay t ++ r_more lay more ++ gopt lay g1 ++ [ch ")"])
      with ((gopt lay g0 ++ r_term lay t ++ r_more lay more ++ gopt lay g1) ++ [ch ")"])
      by (repeat (rewrite <- app_assoc; cbn [app]); reflexivity).
    destruct (function_open name) as [Ho He]. apply Soup_group1; [exact Ho|exact He|].
    apply (Soup_Balanced EN).
    apply Soup_app; [apply gopt_soup|]. apply Soup_app; [apply IH; exact H1|]. apply Soup_app; [|apply gopt_soup].
    fold (wf_more more) in H2. revert H2. clear H1. induction more as [|[[[k ga] gb] x] r IHr]; intros H2; [apply So_nil|].
    cbn [wf_more] in H2. apply andb_true_iff in H2 as [Hx Hr].
    change (r_more lay ((k, ga, gb, x) :: r))
      with (match k with 0%nat => greq lay ga | 1%nat => gopt lay ga ++ ch "," :: gopt lay gb
                       | _ => gopt lay ga ++ ch "/" :: gopt lay gb end ++ r_term lay x ++ r_more lay r).
    apply Soup_app; [|apply Soup_app; [apply IH; exact Hx|apply IHr; exact Hr]].
    destruct k as [|[|k]]; [apply greq_soup| |];
      (apply Soup_app; [apply gopt_soup|apply So_atom; [reflexivity|apply gopt_soup]]).
  - (* calc *)
    apply andb_true_iff in H as [H1 H2].
    set (body := gopt lay g0 ++ r_cterm first ::
           flat_map (fun p => match p with
                              | (o, ga, gb, x) =>
                                  (if cop_additive o then greq lay ga ++ ch (cop_str o) :: greq lay gb
                                   else gopt lay ga ++ ch (cop_str o) :: gopt lay gb) ++ [r_cterm x]
                              end) more ++ gopt lay g1).
    replace (gopt lay g0 ++ r_cterm first :: flat_map _ more ++ gopt lay g1 ++ [ch ")"]) with (body ++ [ch ")"])
      by (unfold body; repeat (rewrite <- app_assoc; cbn [app]); reflexivity).
    destruct (calc_open lay gc) as [Ho He]. apply Soup_group1; [exact Ho|exact He|].
    apply (Soup_Balanced EN). unfold body.
    apply Soup_app; [apply gopt_soup|]. apply So_atom; [now apply cterm_atom|].
    apply Soup_app; [|apply gopt_soup].
    induction more as [|[[[o ga] gb] x] r IHr]; [apply So_nil|].
    cbn [forallb snd] in H2. apply andb_true_iff in H2 as [Hx Hr]. cbn [flat_map].
    apply Soup_app; [|apply IHr; exact Hr].
    apply Soup_app; [|apply one_soup; now apply cterm_atom].
    destruct o; cbn [cop_additive cop_str];
      (apply Soup_app; [first [apply greq_soup|apply gopt_soup]|
                        apply So_atom; [reflexivity|first [apply greq_soup|apply gopt_soup]]]).
  - apply one_soup. now apply atomq_head.
Qed.

(* ================================================================== modes *)
Definition mdD := kmd KRuleset.          (* default: ends ";}" *)
Definition mdS := kmd KDeclIdent.        (* semicolon *)
Definition Acomma : str := [44]%N.
Definition Adecl : str := [44; 58; 33]%N.      (* , : ! *)

Lemma soup_neu0 A md x :
  mq md = false -> endtypes md = [] -> ends_avoid md A = true -> Soup (atomq A) x -> Neu md (0, 0, 0) x.
Proof. intros Hmq Het Hav H. apply Neu_topfree; [exact Hmq|]. eapply Soup_TopFree; eauto. Qed.

Lemma cut_soup A md x e :
  mq md = false -> endtypes md = [] -> ends_avoid md A = true -> c0 md = (0, 0, 0) ->
  Soup (atomq A) x -> is_eof e = false -> stops md (bump (0, 0, 0) e) e = true ->
  cut_ok md (c0 md) (x ++ [e]) = true.
Proof.
  intros Hmq Het Hav Hc0 H He Hs. destruct (soup_neu0 A md x Hmq Het Hav H) as [H1 H2].
  rewrite Hc0. apply cut_ok_snoc; [exact H1|exact He|now rewrite H2].
Qed.

(* ================================================================== declarations *)
Definition wf_decl (d : decl) : bool :=
  headok (d_name d) && wf_term (d_first d) && forallb (fun p => wf_term (snd p)) (d_more d).
Definition wf_block (b : dblock) : bool := forallb (fun p => wf_decl (fst (fst p))) (b_decls b).

Lemma sep_soup lay A x : mem 44 A = true -> Soup (atomq A) (r_sep lay x).
Proof.
  intros HA. destruct x; cbn [r_sep]; [apply greq_soup| |];
    (apply Soup_app; [apply gopt_soup|apply So_atom; [|apply gopt_soup]]).
  - unfold atomq. cbn. now rewrite HA.
  - reflexivity.
Qed.

Lemma value_soup lay A d : mem 44 A = true -> wf_decl d = true -> Soup (atomq A) (r_value lay d).
Proof.
  intros HA H. unfold wf_decl in H. apply andb_true_iff in H as [H H3]. apply andb_true_iff in H as [_ H2].
  unfold r_value. apply Soup_app; [now apply term_soup|].
  induction (d_more d) as [|[x t] r IH]; [apply So_nil|].
  cbn [forallb snd] in H3. apply andb_true_iff in H3 as [Ht Hr]. cbn [flat_map fst snd].
  apply Soup_app; [|exact (IH Hr)]. apply Soup_app; [now apply sep_soup|now apply term_soup].
Qed.

Lemma term_nonempty lay t : exists a r, r_term lay t = a :: r.
Proof. destruct t; cbn [r_term]; eexists; eexists; reflexivity. Qed.

Lemma important_atom A lay gb : atomq A (T "IDENT" (cased lay gb (s "important"))) = true.
Proof. unfold cased. destruct (Nat.odd (lk lay gb)); reflexivity. Qed.

Lemma prio_soup lay A d : mem 33 A = true -> Soup (atomq A) (r_prio lay d).
Proof.
  intros HA. unfold r_prio. destruct (d_imp d) as [[ga gb]|]; [|apply So_nil].
  apply Soup_app; [apply gopt_soup|]. apply So_atom; [unfold atomq; cbn; now rewrite HA|].
  apply Soup_app; [apply gopt_soup|apply one_soup, important_atom].
Qed.

Definition decl_rest (lay : layout) (d : decl) : list tok :=
  gopt lay (d_g1 d) ++ ch ":" :: gopt lay (d_g2 d) ++ r_value lay d ++ r_prio lay d.
Lemma r_decl_rest lay d : r_decl lay d = T "IDENT" (d_name d) :: decl_rest lay d.
Proof. reflexivity. Qed.

Lemma decl_rest_soup lay d : wf_decl d = true -> Soup (atomq Adecl) (decl_rest lay d).
Proof.
  intros H. unfold decl_rest. apply Soup_app; [apply gopt_soup|]. apply So_atom; [reflexivity|].
  apply Soup_app; [apply gopt_soup|]. apply Soup_app; [now apply value_soup|now apply prio_soup].
Qed.

Lemma name_atom A d : wf_decl d = true -> atomq A (T "IDENT" (d_name d)) = true.
Proof.
  unfold wf_decl. intros H. apply andb_true_iff in H as [H _]. apply andb_true_iff in H as [H _].
  now apply atomq_ident.
Qed.

Lemma decl_soup lay d : wf_decl d = true -> Soup (atomq Adecl) (r_decl lay d).
Proof. intros H. rewrite r_decl_rest. apply So_atom; [now apply name_atom|now apply decl_rest_soup]. Qed.

Lemma start_ident v : start_count (0, 0, 0) (T "IDENT" v) = (0, 0, 0).
Proof. reflexivity. Qed.

Lemma decl_run_ok_wf lay d ga semi : wf_decl d = true -> decl_run_ok lay d ga semi = true.
Proof.
  intros H. unfold decl_run_ok. rewrite r_decl_rest. cbn [app]. rewrite start_ident.
  pose proof (Soup_app _ _ _ (decl_rest_soup lay d H) (gopt_soup Adecl lay ga)) as Hs.
  destruct semi.
  - unfold stmt_ok. rewrite start_ident. rewrite app_assoc.
    change (0, 0, 0) with (c0 (kmd KDeclIdent)).
    apply (cut_soup Adecl); try reflexivity. exact Hs.
  - rewrite app_nil_r. apply (soup_neu0 Adecl); try reflexivity. exact Hs.
Qed.

Lemma decls_ok_wf lay semi glast l :
  forallb (fun p => wf_decl (fst (fst p))) l = true -> decls_ok lay semi glast l = true.
Proof.
  induction l as [|[[d ga] gb] r IH]; intros H; [reflexivity|].
  cbn [forallb fst] in H. apply andb_true_iff in H as [H1 H2]. cbn [decls_ok].
  rewrite (decl_run_ok_wf _ _ _ _ H1), (IH H2). reflexivity.
Qed.

Lemma block_ok_wf lay semi b : wf_block b = true -> block_ok lay semi b = true.
Proof. apply decls_ok_wf. Qed.

(* ---- name / value / priority split *)
Lemma last_not A x (c : N) :
  Soup (atomq A) x -> mem c EN = true -> mem c A = false -> N.eqb c 41 = false ->
  (match separate_end x with (_, Some e) => eqs (val e) [c] | _ => false end) = false.
Proof.
  intros Hs H1 H2 H3. destruct x as [|a x']; [reflexivity|].
  destruct (Soup_last _ _ Hs) as (y & t & E & Ht); [discriminate|]. rewrite E, separate_end_snoc.
  destruct Ht as [Ht | ->]; [eapply atomq_val_ne; eauto|]. cbn [val ch T eqs]. change (s ")") with [41%N].
  cbn [eqs]. rewrite N.eqb_sym, H3. reflexivity.
Qed.

Lemma decl_split_ok_wf lay d ga : wf_decl d = true -> decl_split_ok lay d (gopt lay ga) = true.
Proof.
  intros H. unfold decl_split_ok.
  assert (cut_ok mdPN (c0 mdPN) (decl_name lay d ++ [ch ":"]) = true) as ->.
  { apply (cut_soup []); try reflexivity. unfold decl_name. apply So_atom; [now apply name_atom|apply gopt_soup]. }
  cbn [andb]. unfold decl_value.
  destruct (d_imp d) as [[gx gy]|] eqn:Ei.
  - apply andb_true_iff. split.
    + apply (cut_soup Acomma); try reflexivity.
      apply Soup_app; [apply gopt_soup|]. apply Soup_app; [now apply value_soup|apply gopt_soup].
    + apply (soup_neu0 []); try reflexivity. apply Soup_app; [apply gopt_soup|].
      apply So_atom; [apply important_atom|apply gopt_soup].
  - assert (Soup (atomq Acomma) (gopt lay (d_g2 d) ++ r_value lay d ++ gopt lay ga)) as Hs
      by (apply Soup_app; [apply gopt_soup|]; apply Soup_app; [now apply value_soup|apply gopt_soup]).
    change (c0 mdPV) with (0, 0, 0).
    rewrite (proj1 (soup_neu0 Acomma mdPV _ eq_refl eq_refl eq_refl Hs)). cbn [andb].
    unfold last_is_bang. change (s "!") with [33%N]. rewrite (last_not Acomma _ 33 Hs) by reflexivity.
    cbn [negb andb]. unfold r_value. destruct (term_nonempty lay (d_first d)) as (a & r & ->).
    destruct (gopt lay (d_g2 d)); reflexivity.
Qed.

Lemma decls_split_ok_wf lay l :
  forallb (fun p => wf_decl (fst (fst p))) l = true -> decls_split_ok lay l = true.
Proof.
  induction l as [|[[d ga] gb] r IH]; intros H; [reflexivity|].
  cbn [forallb fst] in H. apply andb_true_iff in H as [H1 H2]. cbn [decls_split_ok].
  rewrite (decl_split_ok_wf _ _ _ H1), (IH H2). cbn [andb]. rewrite andb_true_r.
  unfold last_is_semi. change (s ";") with [59%N].
  rewrite (last_not Adecl _ 59); [reflexivity| |reflexivity|reflexivity|reflexivity].
  apply Soup_app; [now apply decl_soup|apply gopt_soup].
Qed.

(* ---- a declaration block body is balanced (all of EN allowed at its top level) *)
Lemma decls_soup lay semi glast l :
  forallb (fun p => wf_decl (fst (fst p))) l = true -> Soup (atomq EN) (r_decls lay semi glast l).
Proof.
  induction l as [|[[d ga] gb] r IH]; intros H; [apply So_nil|].
  cbn [forallb fst] in H. apply andb_true_iff in H as [H1 H2]. rewrite r_decls_shape.
  assert (Soup (atomq EN) (r_decl lay d)) as Hd
    by (eapply Soup_mono; [|now apply decl_soup]; intros t Ht; unfold atomq in *;
        destruct (is_eof t), (is_function t), (val t) as [|c v]; cbn [negb andb] in *; try discriminate;
        apply andb_true_iff in Ht as [Ha Hb]; rewrite Ha; cbn [andb];
        destruct (mem c EN) eqn:E; [reflexivity|reflexivity]).
  destruct (has_semi lay semi glast r).
  - apply Soup_app; [|apply Soup_app; [apply gopt_soup|exact (IH H2)]].
    apply Soup_app; [exact Hd|]. apply Soup_app; [apply gopt_soup|apply one_soup; reflexivity].
  - apply Soup_app; [|exact (IH H2)]. apply Soup_app; [exact Hd|apply gopt_soup].
Qed.

Lemma block_body_balanced lay semi b : wf_block b = true -> Balanced (r_block_body lay semi b).
Proof.
  intros H. apply (Soup_Balanced EN). unfold r_block_body. apply Soup_app; [apply gopt_soup|now apply decls_soup].
Qed.

(* ================================================================== runs that are neutral inside any block *)
(* PosNeu x: wherever the counters are positive (inside a block or group) and the mode has no media-query special
   case, x is a closed neutral run.  Balanced soup is; so is any run whose own counters never go negative. *)
Definition PosNeu (x : list tok) : Prop := forall md c, mq md = false -> pos c -> Neu md c x.

Lemma PosNeu_balanced x : Balanced x -> PosNeu x.
Proof. intros H md c Hmq Hp. now apply Neu_pos. Qed.
Lemma PosNeu_app x y : PosNeu x -> PosNeu y -> PosNeu (x ++ y).
Proof. intros Hx Hy md c Hmq Hp. apply Neu_app; auto. Qed.
Lemma PosNeu_nil : PosNeu []. Proof. intros md c _ _. apply Neu_nil. Qed.

Definition cadd (a b : counters) : counters :=
  let '(x, y, z) := a in let '(x', y', z') := b in (x + x', y + y', z + z').
Definition nonnegb (c : counters) : bool := let '(x, y, z) := c in Z.leb 0 x && Z.leb 0 y && Z.leb 0 z.
Lemma nonnegb_nonneg c : nonnegb c = true -> nonneg c.
Proof.
  destruct c as [[x y] z]. unfold nonnegb, nonneg. intros H. apply andb_true_iff in H as [H H3].
  apply andb_true_iff in H as [H1 H2]. apply Z.leb_le in H1, H2, H3. auto.
Qed.

Definition ceq (a b : counters) : bool :=
  let '(x, y, z) := a in let '(x', y', z') := b in Z.eqb x x' && Z.eqb y y' && Z.eqb z z'.
Lemma ceq_eq a b : ceq a b = true -> a = b.
Proof.
  destruct a as [[x y] z], b as [[x' y'] z']. unfold ceq. intros H.
  apply andb_true_iff in H as [H H3]. apply andb_true_iff in H as [H1 H2].
  apply Z.eqb_eq in H1, H2, H3. now subst.
Qed.

(* the run's own counters, started at d, never go negative and end at (0,0,0); no EOF token *)
Fixpoint lowb (d : counters) (x : list tok) : bool :=
  match x with
  | [] => ceq d (0, 0, 0)
  | t :: r => negb (is_eof t) && nonnegb (bump d t) && lowb (bump d t) r
  end.

Lemma bump_cadd c d t : bump (cadd c d) t = cadd c (bump d t).
Proof.
  rewrite !bump_class. destruct c as [[x y] z], d as [[x' y'] z']. destruct (bclass_of t) as [k|k|]; [| |reflexivity];
    destruct k as [|[|k]]; unfold shift, cadd; (apply (f_equal2 pair); [apply (f_equal2 pair)|]; lia).
Qed.
Lemma pos_cadd c d : pos c -> nonneg d -> pos (cadd c d).
Proof.
  destruct c as [[x y] z], d as [[x' y'] z']. unfold pos, nonneg, cadd. intros [(H1 & H2 & H3) H4] (H5 & H6 & H7).
  repeat split; lia.
Qed.

Lemma low_neu md x : mq md = false -> forall c d,
  pos c -> lowb d x = true -> closed md (cadd c d) x = true /\ after (cadd c d) x = c.
Proof.
  intros Hmq. induction x as [|t r IH]; intros c d Hp H.
  - cbn [lowb] in H. apply ceq_eq in H. subst d. split; [reflexivity|].
    destruct c as [[x y] z]. cbn [after fold_left cadd]. f_equal; [f_equal|]; lia.
  - cbn [lowb] in H. apply andb_true_iff in H as [H H3]. apply andb_true_iff in H as [H1 H2].
    apply negb_true_iff in H1. apply nonnegb_nonneg in H2.
    rewrite closed_cons, after_cons, bump_cadd, H1, (stops_pos _ _ _ Hmq (pos_cadd _ _ Hp H2)).
    destruct (IH c (bump d t) Hp H3) as [I1 I2]. rewrite I1, I2. split; reflexivity.
Qed.

Lemma PosNeu_low x : lowb (0, 0, 0) x = true -> PosNeu x.
Proof.
  intros H md c Hmq Hp. destruct (low_neu md x Hmq c (0, 0, 0) Hp H) as [H1 H2].
  assert (cadd c (0, 0, 0) = c) as E by (destruct c as [[a b] d]; cbn [cadd]; f_equal; [f_equal|]; lia).
  rewrite E in H1, H2. split; assumption.
Qed.

(* a '{' body '}' group at depth 0 of a mode without the media-query special case *)
Lemma Neu_block' md body :
  mq md = false -> PosNeu body ->
  closed md (0, 0, 0) (ch "{" :: body) = true /\ after (0, 0, 0) (ch "{" :: body) = (1, 0, 0).
Proof.
  intros Hmq Hb. assert (pos (1, 0, 0)) as Hp by (unfold pos, nonneg; lia).
  destruct (Hb md _ Hmq Hp) as [H1 H2]. rewrite closed_cons, after_cons.
  change (bump (0, 0, 0) (ch "{")) with (1, 0, 0). change (is_eof (ch "{")) with false.
  rewrite (stops_pos _ _ _ Hmq Hp), H1, H2. split; reflexivity.
Qed.

Lemma PosNeu_braces body : PosNeu body -> PosNeu (ch "{" :: body ++ [ch "}"]).
Proof.
  intros Hb md c Hmq Hp. destruct c as [[x y] z].
  assert (pos (x + 1, y, z)) as Hp1 by (unfold pos, nonneg in *; lia).
  destruct (Hb md _ Hmq Hp1) as [H1 H2].
  split.
  - rewrite closed_cons. change (bump (x, y, z) (ch "{")) with (x + 1, y, z). change (is_eof (ch "{")) with false.
    rewrite (stops_pos _ _ _ Hmq Hp1), closed_app, H1, H2. cbn [andb negb]. rewrite closed_cons.
    change (bump (x + 1, y, z) (ch "}")) with (x + 1 - 1, y, z). replace (x + 1 - 1) with x by lia.
    change (is_eof (ch "}")) with false. rewrite (stops_pos _ _ _ Hmq Hp). reflexivity.
  - rewrite after_cons. change (bump (x, y, z) (ch "{")) with (x + 1, y, z). rewrite after_app, H2.
    cbn [after fold_left]. change (bump (x + 1, y, z) (ch "}")) with (x + 1 - 1, y, z). f_equal. f_equal. lia.
Qed.

(* ================================================================== statements in the default mode *)
Lemma stmt_ok_block k t p' body :
  kmd k = mdD -> Neu mdD (0, 0, 0) (t :: p') -> start_count (0, 0, 0) t = bump (0, 0, 0) t -> PosNeu body ->
  stmt_ok k t (p' ++ ch "{" :: body ++ [ch "}"]) = true.
Proof.
  intros Hk [H1 H2] Hst Hb. unfold stmt_ok. rewrite Hk, Hst.
  replace (p' ++ ch "{" :: body ++ [ch "}"]) with ((p' ++ ch "{" :: body) ++ [ch "}"])
    by (rewrite <- app_assoc; reflexivity).
  destruct (Neu_block' mdD body eq_refl Hb) as [B1 B2].
  assert (closed mdD (0, 0, 0) ((t :: p') ++ ch "{" :: body) = true /\
          after (0, 0, 0) ((t :: p') ++ ch "{" :: body) = (1, 0, 0)) as [C1 C2].
  { rewrite closed_app, after_app, H1, H2, B1, B2. split; reflexivity. }
  cbn [app] in C1, C2. rewrite closed_cons in C1. rewrite after_cons in C2.
  apply andb_true_iff in C1 as [_ C1]. apply cut_ok_snoc; [exact C1|reflexivity|]. rewrite C2. reflexivity.
Qed.

Lemma stmt_ok_end k t p' :
  kmd k = mdD -> Neu mdD (0, 0, 0) (t :: p') -> start_count (0, 0, 0) t = bump (0, 0, 0) t ->
  stmt_ok k t (p' ++ [ch ";"]) = true.
Proof.
  intros Hk [H1 H2] Hst. unfold stmt_ok. rewrite Hk, Hst.
  rewrite closed_cons in H1. rewrite after_cons in H2. apply andb_true_iff in H1 as [_ H1].
  apply cut_ok_snoc; [exact H1|reflexivity|]. rewrite H2. reflexivity.
Qed.

Lemma soup_neuD A x : ends_avoid mdD A = true -> Soup (atomq A) x -> Neu mdD (0, 0, 0) x.
Proof. intros Hav H. apply (soup_neu0 A); auto. Qed.

Lemma atom_start A t : atomq A t = true -> start_count (0, 0, 0) t = bump (0, 0, 0) t.
Proof.
  intros H. apply start_count_class. intros k. destruct (atomq_atom _ _ H) as [Hb _]. rewrite Hb. discriminate.
Qed.

(* ================================================================== selectors: closed, counter-neutral runs *)
Definition neu_b (md : mode) (c : counters) (x : list tok) : bool := closed md c x && ceq (after c x) c.
Lemma neu_b_Neu md c x : neu_b md c x = true -> Neu md c x.
Proof. unfold neu_b. intros H. apply andb_true_iff in H as [H1 H2]. split; [exact H1|now apply ceq_eq]. Qed.

(* a selector (AST of CssV.Selector, rendered without any layout): its token list is a closed, counter-neutral run in
   the list-separator mode, the default mode and the block-start mode, its bracket counters never go negative, it is not
   empty and does not end with a comma *)
Definition wf_sel (x : Selector.selector) : bool :=
  let ts := r_selector x in
  neu_b mdLS (0, 0, 0) ts && neu_b mdD (0, 0, 0) ts && neu_b mdBS (c0 mdBS) ts && lowb (0, 0, 0) ts &&
  negb (last_is_comma ts) && match ts with [] => false | _ => true end.

Lemma wf_sel_parts x :
  wf_sel x = true ->
  Neu mdLS (0, 0, 0) (r_selector x) /\ Neu mdD (0, 0, 0) (r_selector x) /\ Neu mdBS (c0 mdBS) (r_selector x) /\
  PosNeu (r_selector x) /\ last_is_comma (r_selector x) = false /\ r_selector x <> [].
Proof.
  unfold wf_sel. intros H. apply andb_true_iff in H as [H H6]. apply andb_true_iff in H as [H H5].
  apply andb_true_iff in H as [H H4]. apply andb_true_iff in H as [H H3]. apply andb_true_iff in H as [H1 H2].
  apply negb_true_iff in H5.
  split; [now apply neu_b_Neu|]. split; [now apply neu_b_Neu|]. split; [now apply neu_b_Neu|].
  split; [now apply PosNeu_low|]. split; [exact H5|]. destruct (r_selector x); [discriminate|discriminate].
Qed.

Lemma sel_ok_wf x : wf_sel x = true -> sel_ok x = true.
Proof.
  intros H. destruct (wf_sel_parts x H) as ([C1 C2] & _ & _ & _ & H4 & H5). unfold sel_ok.
  change (c0 mdLS) with (0, 0, 0). rewrite C1, H4. cbn [andb negb].
  assert (match r_selector x with [] => false | _ :: _ => true end = true) as -> by (destruct (r_selector x); congruence).
  cbn [andb]. apply cut_ok_snoc; [exact C1|reflexivity|]. rewrite C2. reflexivity.
Qed.

Lemma sels_neu (md : mode) c sels :
  Neu md c [ch ","] -> (forall x, In x sels -> Neu md c (r_selector x)) -> Neu md c (r_sels sels).
Proof.
  intros Hc. induction sels as [|x r IH]; intros H; [apply Neu_nil|].
  destruct r as [|y r']; [cbn [r_sels]; apply H; now left|].
  rewrite r_sels_cons. apply Neu_app; [apply Neu_app; [apply H; now left|exact Hc]|].
  apply IH. intros z Hz. apply H. now right.
Qed.

Definition first_tok_ok (sels : list Selector.selector) : bool :=
  match r_sels sels with
  | t0 :: _ => cls_is (cls_sheet t0) KRuleset && cls_is (cls_media t0) KRuleset && negb (starts (s "@") (val t0)) &&
               ceq (start_count (0, 0, 0) t0) (bump (0, 0, 0) t0)
  | [] => false
  end.
Definition wf_sels (sels : list Selector.selector) : bool :=
  forallb wf_sel sels && first_tok_ok sels && match sels with [] => false | _ => true end.

Lemma wf_sel_in sels x : forallb wf_sel sels = true -> In x sels -> wf_sel x = true.
Proof. rewrite forallb_forall. auto. Qed.

Lemma sels_posneu sels : forallb wf_sel sels = true -> PosNeu (r_sels sels).
Proof.
  intros Hall md c Hmq Hp. apply sels_neu.
  - apply (PosNeu_balanced [ch ","]); [|exact Hmq|exact Hp]. apply Bal_atom; [reflexivity|reflexivity|apply Bal_nil].
  - intros x Hx. destruct (wf_sel_parts x (wf_sel_in _ _ Hall Hx)) as (_ & _ & _ & P & _). now apply P.
Qed.

Lemma style_wf lay sels b :
  wf_sels sels = true -> wf_block b = true ->
  style_deep_ok lay sels b = true /\
  stmt_delimited cls_sheet lay (SStyle sels b) = true /\ stmt_delimited cls_media lay (SStyle sels b) = true /\
  PosNeu (r_stmt lay (SStyle sels b)).
Proof.
  intros Hs Hb. unfold wf_sels in Hs. apply andb_true_iff in Hs as [Hs Hne]. apply andb_true_iff in Hs as [Hall Hft].
  assert (Neu mdBS (c0 mdBS) (r_sels sels)) as [S1 S2].
  { apply sels_neu; [split; reflexivity|]. intros x Hx. now destruct (wf_sel_parts x (wf_sel_in _ _ Hall Hx)) as (_ & _ & ? & _). }
  assert (Neu mdD (0, 0, 0) (r_sels sels)) as HD.
  { apply sels_neu; [split; reflexivity|]. intros x Hx. now destruct (wf_sel_parts x (wf_sel_in _ _ Hall Hx)) as (_ & ? & _). }
  pose proof (block_body_balanced lay false b Hb) as Hbody.
  assert (pos (c0 mdBE)) as HpBE by (unfold pos, nonneg; cbn; lia).
  unfold first_tok_ok in Hft. destruct (r_sels sels) as [|t0 r0] eqn:Er; [discriminate|].
  apply andb_true_iff in Hft as [Hft F4]. apply andb_true_iff in Hft as [Hft F3]. apply andb_true_iff in Hft as [F1 F2].
  apply ceq_eq in F4.
  assert (style_ok lay sels b = true) as Hok.
  { unfold style_ok. rewrite Er. rewrite F3, (block_ok_wf lay false b Hb). rewrite !andb_true_r.
    apply andb_true_iff. split.
    - apply cut_ok_snoc; [exact S1|reflexivity|]. rewrite S2. reflexivity.
    - destruct (Neu_pos mdBE (c0 mdBE) _ eq_refl HpBE Hbody) as [B1 B2].
      apply cut_ok_snoc; [exact B1|reflexivity|]. rewrite B2. reflexivity. }
  assert (forall cls, cls_is (cls t0) KRuleset = true -> stmt_delimited cls lay (SStyle sels b) = true) as Hdel.
  { intros cls Hc. unfold stmt_delimited. rewrite r_style_shape, Er. cbn [app].
    rewrite <- app_assoc. cbn [app kind_of]. rewrite Hc. cbn [andb].
    apply stmt_ok_block; [reflexivity|exact HD|exact F4|now apply PosNeu_balanced]. }
  split; [|split; [now apply Hdel|split; [now apply Hdel|]]].
  - unfold style_deep_ok. rewrite Hok, Hne, (decls_split_ok_wf lay _ Hb). rewrite !andb_true_r. cbn [andb].
    apply forallb_forall. intros x Hx. apply sel_ok_wf. now apply (wf_sel_in _ _ Hall).
  - rewrite r_style_shape, <- app_assoc. cbn [app].
    apply PosNeu_app; [now apply sels_posneu|]. apply PosNeu_braces. now apply PosNeu_balanced.
Qed.

(* ================================================================== media queries *)
Definition atomn (A : str) (t : tok) : bool := atomq A t && negb (tyis t "STRING").

Lemma atomn_atomq A t : atomn A t = true -> atomq A t = true.
Proof. unfold atomn. intros H. now apply andb_true_iff in H as [H _]. Qed.

Lemma gopt_atoms_n A lay g : forallb (atomn A) (gopt lay g) = true.
Proof. unfold gopt, gap_opt. destruct (Nat.modulo (lk lay g) 7) as [|[|[|[|[|[|n]]]]]]; reflexivity. Qed.
Lemma greq_atoms_n A lay g : forallb (atomn A) (greq lay g) = true.
Proof. unfold greq, gap_req. destruct (Nat.modulo (lk lay g) 5) as [|[|[|[|n]]]]; reflexivity. Qed.
Lemma gopt_soup_n A lay g : Soup (atomn A) (gopt lay g). Proof. apply Soup_atoms, gopt_atoms_n. Qed.
Lemma greq_soup_n A lay g : Soup (atomn A) (greq lay g). Proof. apply Soup_atoms, greq_atoms_n. Qed.

Lemma ident_atomn A v : headok v = true -> atomn A (T "IDENT" v) = true.
Proof. intros H. unfold atomn. rewrite (atomq_ident A v H). reflexivity. Qed.
Lemma cased_atomn A lay g (w : string) : headok (s w) = true -> headok (upper (s w)) = true ->
  atomn A (T "IDENT" (cased lay g (s w))) = true.
Proof. intros H1 H2. unfold cased. destruct (Nat.odd (lk lay g)); now apply ident_atomn. Qed.

Definition wf_mexpr (e : mexpr) : bool :=
  headok (me_feat e) && match me_val e with Some (_, t) => wf_term t | None => true end.
Definition wf_mquery (q : mquery) : bool :=
  match mq_type q with Some t => headok t | None => true end && forallb (fun p => wf_mexpr (snd p)) (mq_exprs q).
Definition wf_mlist (l : mlist) : bool := forallb (fun p => wf_mquery (snd p)) l.

Lemma mexpr_soup P lay e : wf_mexpr e = true -> Soup P (r_mexpr lay e).
Proof.
  intros H. unfold wf_mexpr in H. apply andb_true_iff in H as [H1 H2]. unfold r_mexpr.
  set (inner := gopt lay (me_g0 e) ++ T "IDENT" (me_feat e) :: gopt lay (me_g1 e) ++
                match me_val e with
                | Some (g, t) => ch ":" :: gopt lay g ++ r_term lay t ++ gopt lay (me_g2 e)
                | None => []
                end).
  match goal with |- Soup _ (_ :: ?l) =>
    replace l with (inner ++ [ch ")"]) by (unfold inner; repeat (rewrite <- app_assoc; cbn [app]); reflexivity) end.
  apply Soup_group1; [reflexivity|reflexivity|]. apply (Soup_Balanced EN). unfold inner.
  apply Soup_app; [apply gopt_soup|]. apply So_atom; [now apply atomq_ident|]. apply Soup_app; [apply gopt_soup|].
  destruct (me_val e) as [[g t]|]; [|apply So_nil].
  apply So_atom; [reflexivity|]. apply Soup_app; [apply gopt_soup|]. apply Soup_app; [now apply term_soup|apply gopt_soup].
Qed.

Lemma mexprs_soup lay first l :
  forallb (fun p => wf_mexpr (snd p)) l = true -> Soup (atomn Acomma) (r_mexprs lay first l).
Proof.
  revert first. induction l as [|[[[ga gc] gb] e] r IH]; intros first H; [apply So_nil|].
  cbn [forallb snd] in H. apply andb_true_iff in H as [H1 H2]. cbn [r_mexprs].
  apply Soup_app; [|apply Soup_app; [now apply mexpr_soup|now apply IH]].
  destruct first; [apply So_nil|]. apply Soup_app; [apply greq_soup_n|].
  apply So_atom; [now apply cased_atomn|apply greq_soup_n].
Qed.

Lemma mquery_soup lay q : wf_mquery q = true -> Soup (atomn Acomma) (r_mquery lay q).
Proof.
  intros H. unfold wf_mquery in H. apply andb_true_iff in H as [H1 H2]. unfold r_mquery.
  destruct (mq_type q) as [t|]; [|now apply mexprs_soup].
  apply Soup_app; [|apply So_atom; [now apply ident_atomn|now apply mexprs_soup]].
  destruct (mq_neg q) as [|[|k]]; [apply So_nil| |];
    (apply So_atom; [now apply cased_atomn|apply greq_soup_n]).
Qed.

Lemma mlist_soup lay first l : wf_mlist l = true -> Soup (atomn Acomma) (r_mlist lay first l).
Proof.
  revert first. induction l as [|[[ga gb] q] r IH]; intros first H; [apply So_nil|].
  cbn [wf_mlist forallb snd] in H. apply andb_true_iff in H as [H1 H2]. cbn [r_mlist].
  apply Soup_app; [|apply Soup_app; [now apply mquery_soup|now apply IH]].
  destruct first; [apply So_nil|]. apply Soup_app; [apply gopt_soup_n|]. apply So_atom; [reflexivity|apply gopt_soup_n].
Qed.

Lemma media_head_soup lay g0 media g1 : wf_mlist media = true -> Soup (atomn Acomma) (media_head lay g0 media g1).
Proof.
  intros H. unfold media_head. apply Soup_app; [apply greq_soup_n|]. apply Soup_app; [now apply mlist_soup|apply gopt_soup_n].
Qed.

Lemma media_head_neu lay g0 media g1 :
  wf_mlist media = true -> Neu mdMQ (c0 mdMQ) (media_head lay g0 media g1) /\ Neu mdD (0, 0, 0) (media_head lay g0 media g1).
Proof.
  intros H. pose proof (media_head_soup lay g0 media g1 H) as Hs.
  split.
  - apply (Neu_prebrace mdMQ (-1)); [reflexivity|]. eapply Soup_PreBrace; [|reflexivity|exact Hs].
    intros t Ht. unfold atomn in Ht. apply andb_true_iff in Ht as [Ha Hn]. destruct (atomq_atom _ _ Ha) as [B E].
    split; [exact B|split; [exact E|]]. apply negb_true_iff in Hn. unfold tyis in Hn.
    unfold stops. change (endtypes mdMQ) with [s "STRING"]. cbn [mem_str]. rewrite Hn.
    change (zero (c0 mdMQ)) with false. cbn [andb orb]. now rewrite andb_false_r.
  - apply (soup_neuD Acomma); [reflexivity|]. eapply Soup_mono; [|exact Hs]. apply atomn_atomq.
Qed.

(* ================================================================== the simple at-rules *)
Lemma at_tok_atom A lay g (name : string) :
  (exists sym, assoc_str (s name) atkeywords = Some sym /\ eqs sym (s "EOF") = false /\ eqs sym (s "FUNCTION") = false) ->
  headok (s name) = true -> headok (upper (s name)) = true -> atomq A (at_tok lay g (s name)) = true.
Proof.
  intros (sym & E & H1 & H2) Ha Hb. unfold at_tok. rewrite E. unfold atomq, is_eof, is_function. cbn [ty val].
  rewrite H1, H2. cbn [negb andb]. unfold cased. destruct (Nat.odd (lk lay g)).
  - destruct (upper (s name)) as [|c r]; [discriminate|]. cbn [headok] in Hb. apply andb_true_iff in Hb as [X Y].
    rewrite X, Y. reflexivity.
  - destruct (s name) as [|c r]; [discriminate|]. cbn [headok] in Ha. apply andb_true_iff in Ha as [X Y].
    rewrite X, Y. reflexivity.
Qed.

Ltac at_atom := apply at_tok_atom; [eexists; split; [reflexivity|split; reflexivity]|reflexivity|reflexivity].

(* ---- the per-statement side condition, on the token list *)
Definition sd (cls : tok -> tclass) (k : kind) (ts : list tok) : bool :=
  match ts with t :: r => cls_is (cls t) k && stmt_ok k t r | [] => false end.

Lemma kind_eqb_refl k : kind_eqb k k = true. Proof. destruct k; reflexivity. Qed.

Lemma sd_end cls k t p' A :
  kmd k = mdD -> cls t = CStmt k -> atomq A t = true -> ends_avoid mdD A = true -> Soup (atomq A) p' ->
  sd cls k (t :: p' ++ [ch ";"]) = true.
Proof.
  intros Hk Hc Ht Hav Hp. unfold sd. rewrite Hc. cbn [cls_is]. rewrite kind_eqb_refl. cbn [andb].
  apply stmt_ok_end; [exact Hk| |eapply atom_start; eauto].
  apply (soup_neuD A); [exact Hav|]. apply So_atom; assumption.
Qed.

Lemma sd_block cls k t p' body A :
  kmd k = mdD -> cls t = CStmt k -> atomq A t = true -> ends_avoid mdD A = true -> Soup (atomq A) p' -> PosNeu body ->
  sd cls k (t :: p' ++ ch "{" :: body ++ [ch "}"]) = true.
Proof.
  intros Hk Hc Ht Hav Hp Hb. unfold sd. rewrite Hc. cbn [cls_is]. rewrite kind_eqb_refl. cbn [andb].
  apply stmt_ok_block; [exact Hk| |eapply atom_start; eauto|exact Hb].
  apply (soup_neuD A); [exact Hav|]. apply So_atom; assumption.
Qed.

Lemma posneu_soup A x : Soup (atomq A) x -> PosNeu x.
Proof. intros H. apply PosNeu_balanced. eapply Soup_Balanced; eauto. Qed.

Lemma posneu_end A t p' : atomq A t = true -> Soup (atomq A) p' -> PosNeu (t :: p' ++ [ch ";"]).
Proof.
  intros Ht Hp. apply (posneu_soup EN). apply So_atom.
  - unfold atomq in *. destruct (is_eof t), (is_function t), (val t) as [|c v]; cbn [negb andb] in *; try discriminate.
    apply andb_true_iff in Ht as [Ha _]. rewrite Ha. cbn [andb]. destruct (mem c EN); reflexivity.
  - apply Soup_app; [|apply one_soup; reflexivity]. eapply Soup_mono; [|exact Hp]. intros u Hu.
    unfold atomq in *. destruct (is_eof u), (is_function u), (val u) as [|c v]; cbn [negb andb] in *; try discriminate.
    apply andb_true_iff in Hu as [Ha _]. rewrite Ha. cbn [andb]. destruct (mem c EN); reflexivity.
Qed.

Lemma atomq_EN A t : atomq A t = true -> atomq EN t = true.
Proof.
  intros Ht. unfold atomq in *. destruct (is_eof t), (is_function t), (val t) as [|c v]; cbn [negb andb] in *; try discriminate.
  apply andb_true_iff in Ht as [Ha _]. rewrite Ha. cbn [andb]. destruct (mem c EN); reflexivity.
Qed.

Lemma posneu_block A t p' body : atomq A t = true -> Soup (atomq A) p' -> PosNeu body ->
  PosNeu (t :: p' ++ ch "{" :: body ++ [ch "}"]).
Proof.
  intros Ht Hp Hb. change (t :: p' ++ ch "{" :: body ++ [ch "}"]) with ((t :: p') ++ ch "{" :: body ++ [ch "}"]).
  apply PosNeu_app; [|now apply PosNeu_braces]. apply (posneu_soup A). now apply So_atom.
Qed.

(* ---- unknown at-rules: soup *)
Fixpoint wf_soup (x : soup) : bool :=
  match x with
  | SoId v => headok v
  | SoNum n => wf_num n
  | SoStr _ _ => true
  | SoParen l | SoBlock l => (fix go (l : list soup) : bool := match l with [] => true | y :: r => wf_soup y && go r end) l
  end.
Definition wf_soups (l : list soup) : bool :=
  (fix go (l : list soup) : bool := match l with [] => true | y :: r => wf_soup y && go r end) l.
Definition soup_top (x : soup) : bool := wf_soup x && match x with SoBlock _ => false | _ => true end.

Lemma soup_balanced lay : forall x, wf_soup x = true -> Balanced (r_soup lay x).
Proof.
  fix IH 1. intros x H. destruct x; cbn [r_soup]; cbn [wf_soup] in H.
  - apply (Soup_Balanced EN). apply So_atom; [now apply atomq_ident|apply one_soup; reflexivity].
  - apply (Soup_Balanced EN). apply So_atom; [|apply one_soup; reflexivity].
    rewrite <- (app_nil_r (num_lex n)). now apply num_atom.
  - apply (Soup_Balanced EN). apply one_soup, string_atom.
  - apply Balanced_group with (k := 2%nat); try reflexivity.
    fold (wf_soups l) in H. induction l as [|y r IHr]; [apply Bal_nil|].
    cbn [wf_soups] in H. apply andb_true_iff in H as [Hy Hr]. cbn [flat_map].
    apply Balanced_app; [now apply IH|now apply IHr].
  - apply Balanced_group with (k := 0%nat); try reflexivity.
    fold (wf_soups l) in H. induction l as [|y r IHr]; [apply Bal_nil|].
    cbn [wf_soups] in H. apply andb_true_iff in H as [Hy Hr]. cbn [flat_map].
    apply Balanced_app; [now apply IH|now apply IHr].
Qed.

Lemma soups_balanced lay l : wf_soups l = true -> Balanced (flat_map (r_soup lay) l).
Proof.
  induction l as [|y r IH]; intros H; [apply Bal_nil|]. cbn [wf_soups] in H. apply andb_true_iff in H as [Hy Hr].
  cbn [flat_map]. apply Balanced_app; [now apply soup_balanced|now apply IH].
Qed.

Lemma soup_top_soup A lay x : soup_top x = true -> Soup (atomq A) (r_soup lay x).
Proof.
  unfold soup_top. intros H. apply andb_true_iff in H as [H Ht]. destruct x; try discriminate; cbn [r_soup]; cbn [wf_soup] in H.
  - apply So_atom; [now apply atomq_ident|apply one_soup; reflexivity].
  - apply So_atom; [|apply one_soup; reflexivity]. rewrite <- (app_nil_r (num_lex n)). now apply num_atom.
  - apply one_soup, string_atom.
  - apply Soup_group1; [reflexivity|reflexivity|]. now apply soups_balanced.
Qed.

Lemma soups_top_soup A lay l : forallb soup_top l = true -> Soup (atomq A) (flat_map (r_soup lay) l).
Proof.
  induction l as [|y r IH]; intros H; [apply So_nil|]. cbn [forallb] in H. apply andb_true_iff in H as [Hy Hr].
  cbn [flat_map]. apply Soup_app; [now apply soup_top_soup|now apply IH].
Qed.

(* ================================================================== well-formed statements and sheets *)
Definition wf_optname (o : option str) : bool := match o with Some n => headok n | None => true end.
Definition wf_margin (m : str * nat * dblock * nat) : bool := match m with (name, _, mb, _) => headok name && wf_block mb end.

Fixpoint wf_stmt (x : stmt) : bool :=
  match x with
  | SCharset _ => true
  | SImport _ _ _ _ media _ _ => match media with Some (_, ml) => wf_mlist ml | None => true end
  | SNamespace _ _ prefix _ _ _ => match prefix with Some (p, _) => headok p | None => true end
  | SMedia _ _ media _ _ body =>
      wf_mlist media &&
      (fix go (l : list (stmt * nat)) : bool := match l with [] => true | (y, _) :: r => wf_stmt y && go r end) body
  | SPage _ _ sel _ b margins =>
      wf_optname (ps_name sel) && wf_optname (ps_pseudo sel) && wf_block b && forallb wf_margin margins
  | SFontFace _ _ b => wf_block b
  | SStyle sels b => wf_sels sels && wf_block b
  | SUnknown kw _ prelude body =>
      headok kw && forallb soup_top prelude && match body with Some l => wf_soups l | None => true end
  | SComment text => headok text
  end.
Definition wf_sheet (sh : sheet) : bool := forallb (fun p => wf_stmt (fst p)) sh.
Definition WfSheet (sh : sheet) : Prop := wf_sheet sh = true.

Lemma sd_stmt cls lay x : is_comment x = false -> stmt_delimited cls lay x = sd cls (kind_of x) (r_stmt lay x).
Proof. destruct x; intros H; try discriminate; reflexivity. Qed.

Definition Good (lay : layout) (x : stmt) : Prop :=
  stmt_delimited cls_sheet lay x = true /\ stmt_delimited cls_media lay x = true /\ stmt_deep_ok lay x = true /\
  PosNeu (r_stmt lay x).

Lemma good_intro lay x :
  is_comment x = false -> sd cls_sheet (kind_of x) (r_stmt lay x) = true -> sd cls_media (kind_of x) (r_stmt lay x) = true ->
  stmt_deep_ok lay x = true -> PosNeu (r_stmt lay x) -> Good lay x.
Proof. intros Hc H1 H2 H3 H4. unfold Good. rewrite !sd_stmt by exact Hc. auto. Qed.

Lemma mlist_soup_q lay l : wf_mlist l = true -> Soup (atomq Acomma) (r_mlist lay true l).
Proof. intros H. eapply Soup_mono; [|now apply mlist_soup]. apply atomn_atomq. Qed.

Lemma good_charset lay enc : Good lay (SCharset enc).
Proof.
  set (t := mkTok charset_sym (s "@charset ") (s "@charset ") 0 0).
  set (p' := [T "STRING" (34%N :: enc ++ [34%N])]).
  assert (Soup (atomq []) p') as Hp by (apply one_soup; reflexivity).
  apply good_intro; [reflexivity| | |reflexivity|].
  - apply (sd_end cls_sheet KCharset t p' []); try reflexivity. exact Hp.
  - apply (sd_end cls_media KCharset t p' []); try reflexivity. exact Hp.
  - apply (posneu_end [] t p'); [reflexivity|exact Hp].
Qed.

Lemma good_import lay gk g0 f href media name g1 :
  wf_stmt (SImport gk g0 f href media name g1) = true -> Good lay (SImport gk g0 f href media name g1).
Proof.
  cbn [wf_stmt]. intros H.
  set (t := at_tok lay gk (s "@import")).
  set (p' := (match f with FStr _ => gopt lay g0 | FUrl _ => gsep lay g0 end) ++ r_strform lay f href ::
             match media with Some (g, ml) => gopt lay g ++ r_mlist lay true ml | None => [] end ++
             match name with Some (ga, gq, n) => gopt lay ga ++ [r_string lay gq n] | None => [] end ++ gopt lay g1).
  assert (r_stmt lay (SImport gk g0 f href media name g1) = t :: p' ++ [ch ";"]) as E
    by (unfold p', t; cbn [r_stmt]; repeat (rewrite <- app_assoc; cbn [app]); reflexivity).
  assert (atomq Acomma t = true) as Ht by (unfold t; at_atom).
  assert (Soup (atomq Acomma) p') as Hp.
  { unfold p'. apply Soup_app; [destruct f; [apply gopt_soup|apply gsep_soup]|].
    apply So_atom; [apply strform_atom|]. apply Soup_app.
    - destruct media as [[g ml]|]; [|apply So_nil]. apply Soup_app; [apply gopt_soup|now apply mlist_soup_q].
    - apply Soup_app; [|apply gopt_soup]. destruct name as [[[ga gq] n]|]; [|apply So_nil].
      apply Soup_app; [apply gopt_soup|apply one_soup, string_atom]. }
  apply good_intro; [reflexivity| | |reflexivity|]; rewrite E.
  - apply (sd_end cls_sheet KImport t p' Acomma); try reflexivity; assumption.
  - apply (sd_end cls_media KImport t p' Acomma); try reflexivity; assumption.
  - now apply (posneu_end Acomma).
Qed.

Lemma good_namespace lay gk g0 prefix f uri g1 :
  wf_stmt (SNamespace gk g0 prefix f uri g1) = true -> Good lay (SNamespace gk g0 prefix f uri g1).
Proof.
  cbn [wf_stmt]. intros H.
  set (t := at_tok lay gk (s "@namespace")).
  set (p' := greq lay g0 ++ match prefix with Some (p, g) => T "IDENT" p :: greq lay g | None => [] end ++
             r_strform lay f uri :: gopt lay g1).
  assert (r_stmt lay (SNamespace gk g0 prefix f uri g1) = t :: p' ++ [ch ";"]) as E
    by (unfold p', t; cbn [r_stmt]; repeat (rewrite <- app_assoc; cbn [app]); reflexivity).
  assert (atomq [] t = true) as Ht by (unfold t; at_atom).
  assert (Soup (atomq []) p') as Hp.
  { unfold p'. apply Soup_app; [apply greq_soup|]. apply Soup_app.
    - destruct prefix as [[p g]|]; [|apply So_nil]. apply So_atom; [now apply atomq_ident|apply greq_soup].
    - apply So_atom; [apply strform_atom|apply gopt_soup]. }
  apply good_intro; [reflexivity| | |reflexivity|]; rewrite E.
  - apply (sd_end cls_sheet KNamespace t p' []); try reflexivity; assumption.
  - apply (sd_end cls_media KNamespace t p' []); try reflexivity; assumption.
  - now apply (posneu_end []).
Qed.

Lemma good_fontface lay gk g0 b : wf_block b = true -> Good lay (SFontFace gk g0 b).
Proof.
  intros H. set (t := at_tok lay gk (s "@font-face")). set (p' := gopt lay g0). set (body := r_block_body lay false b).
  assert (r_stmt lay (SFontFace gk g0 b) = t :: p' ++ ch "{" :: body ++ [ch "}"]) as E by reflexivity.
  assert (atomq [] t = true) as Ht by (unfold t; at_atom).
  assert (PosNeu body) as Hb by (apply PosNeu_balanced; now apply block_body_balanced).
  apply good_intro; [reflexivity| | |reflexivity|]; rewrite E.
  - apply (sd_block cls_sheet KFontFace t p' body []); try reflexivity; try assumption. apply gopt_soup.
  - apply (sd_block cls_media KFontFace t p' body []); try reflexivity; try assumption. apply gopt_soup.
  - apply (posneu_block []); try assumption. apply gopt_soup.
Qed.

Lemma good_unknown lay kw g0 prelude body :
  wf_stmt (SUnknown kw g0 prelude body) = true -> Good lay (SUnknown kw g0 prelude body).
Proof.
  cbn [wf_stmt]. intros H. apply andb_true_iff in H as [H H3]. apply andb_true_iff in H as [H1 H2].
  set (t := T "ATKEYWORD" kw). set (p' := greq lay g0 ++ flat_map (r_soup lay) prelude).
  assert (atomq [] t = true) as Ht by (unfold t; now apply atomq_head).
  assert (Soup (atomq []) p') as Hp by (unfold p'; apply Soup_app; [apply greq_soup|now apply soups_top_soup]).
  destruct body as [l|].
  - set (bd := flat_map (r_soup lay) l).
    assert (r_stmt lay (SUnknown kw g0 prelude (Some l)) = t :: p' ++ ch "{" :: bd ++ [ch "}"]) as E
      by (unfold p', t, bd; cbn [r_stmt]; repeat (rewrite <- app_assoc; cbn [app]); reflexivity).
    assert (PosNeu bd) as Hb by (apply PosNeu_balanced; now apply soups_balanced).
    apply good_intro; [reflexivity| | |reflexivity|]; rewrite E.
    + apply (sd_block cls_sheet KUnknown t p' bd []); try reflexivity; assumption.
    + apply (sd_block cls_media KUnknown t p' bd []); try reflexivity; assumption.
    + now apply (posneu_block []).
  - assert (r_stmt lay (SUnknown kw g0 prelude None) = t :: p' ++ [ch ";"]) as E
      by (unfold p', t; cbn [r_stmt]; repeat (rewrite <- app_assoc; cbn [app]); reflexivity).
    apply good_intro; [reflexivity| | |reflexivity|]; rewrite E.
    + apply (sd_end cls_sheet KUnknown t p' []); try reflexivity; assumption.
    + apply (sd_end cls_media KUnknown t p' []); try reflexivity; assumption.
    + now apply (posneu_end []).
Qed.

Lemma pagesel_soup sel :
  wf_optname (ps_name sel) = true -> wf_optname (ps_pseudo sel) = true -> Soup (atomq [58%N]) (r_pagesel sel).
Proof.
  intros H1 H2. unfold r_pagesel. apply Soup_app.
  - destruct (ps_name sel); [apply one_soup; now apply atomq_ident|apply So_nil].
  - destruct (ps_pseudo sel); [|apply So_nil]. apply So_atom; [reflexivity|apply one_soup; now apply atomq_ident].
Qed.

Lemma margin_posneu lay (m : str * nat * dblock * nat) :
  wf_margin m = true ->
  PosNeu (match m with (name, ga, mb, gb) => T "ATKEYWORD" name :: gopt lay ga ++ r_block lay mb ++ gopt lay gb end).
Proof.
  destruct m as [[[name ga] mb] gb]. cbn [wf_margin]. intros H. apply andb_true_iff in H as [H1 H2].
  change (T "ATKEYWORD" name :: gopt lay ga ++ r_block lay mb ++ gopt lay gb)
    with ([T "ATKEYWORD" name] ++ gopt lay ga ++ r_block lay mb ++ gopt lay gb).
  apply PosNeu_app; [apply (posneu_soup []), one_soup; now apply atomq_head|].
  apply PosNeu_app; [apply (posneu_soup []), gopt_soup|]. apply PosNeu_app; [|apply (posneu_soup []), gopt_soup].
  unfold r_block. apply PosNeu_braces, PosNeu_balanced. now apply block_body_balanced.
Qed.

Lemma good_page lay gk g0 sel g1 b margins :
  wf_stmt (SPage gk g0 sel g1 b margins) = true -> Good lay (SPage gk g0 sel g1 b margins).
Proof.
  cbn [wf_stmt]. intros H. apply andb_true_iff in H as [H H4]. apply andb_true_iff in H as [H H3].
  apply andb_true_iff in H as [H1 H2].
  set (t := at_tok lay gk (s "@page")).
  set (p' := match r_pagesel sel with [] => [] | l => greq lay g0 ++ l end ++ gopt lay g1).
  set (semi := match margins with [] => false | _ => true end).
  set (mg := fun m : str * nat * dblock * nat =>
               match m with (name, ga, mb, gb) => T "ATKEYWORD" name :: gopt lay ga ++ r_block lay mb ++ gopt lay gb end).
  set (body := r_block_body lay semi b ++ flat_map mg margins).
  assert (r_stmt lay (SPage gk g0 sel g1 b margins) = t :: p' ++ ch "{" :: body ++ [ch "}"]) as E
    by (unfold p', t, body, mg, semi; cbn [r_stmt]; repeat (rewrite <- app_assoc; cbn [app]); reflexivity).
  assert (atomq [58%N] t = true) as Ht by (unfold t; at_atom).
  assert (Soup (atomq [58%N]) p') as Hp.
  { unfold p'. apply Soup_app; [|apply gopt_soup]. pose proof (pagesel_soup sel H1 H2) as Hs.
    destruct (r_pagesel sel) as [|a l]; [apply So_nil|]. apply Soup_app; [apply greq_soup|exact Hs]. }
  assert (PosNeu body) as Hb.
  { unfold body. apply PosNeu_app; [apply PosNeu_balanced; now apply block_body_balanced|].
    clear E. induction margins as [|m r IH]; [apply PosNeu_nil|].
    cbn [forallb] in H4. apply andb_true_iff in H4 as [Hm Hr]. cbn [flat_map].
    apply PosNeu_app; [unfold mg; now apply margin_posneu|now apply IH]. }
  apply good_intro; [reflexivity| | |reflexivity|]; rewrite E.
  - apply (sd_block cls_sheet KPage t p' body [58%N]); try reflexivity; assumption.
  - apply (sd_block cls_media KPage t p' body [58%N]); try reflexivity; assumption.
  - now apply (posneu_block [58%N]).
Qed.

Lemma good_comment lay text : headok text = true -> Good lay (SComment text).
Proof.
  intros H. unfold Good. split; [reflexivity|split; [reflexivity|split; [reflexivity|]]].
  cbn [r_stmt]. apply (posneu_soup []), one_soup. now apply atomq_head.
Qed.

Lemma stmts_posneu lay (l : list (stmt * nat)) :
  (forall y g, In (y, g) l -> PosNeu (r_stmt lay y)) -> PosNeu (r_stmts lay l).
Proof.
  induction l as [|[y g] r IH]; intros H; [apply PosNeu_nil|]. cbn [r_stmts].
  apply PosNeu_app; [apply (H y g); now left|]. apply PosNeu_app; [apply (posneu_soup []), gws_soup|].
  apply IH. intros y' g' Hin. apply (H y' g'). now right.
Qed.

Lemma good_media lay gk g0 media g1 g2 body :
  wf_mlist media = true -> (forall y g, In (y, g) body -> Good lay y) -> Good lay (SMedia gk g0 media g1 g2 body).
Proof.
  intros Hm Hin.
  set (t := at_tok lay gk (s "@media")). set (p' := media_head lay g0 media g1). set (bd := media_rules lay g2 body).
  assert (r_stmt lay (SMedia gk g0 media g1 g2 body) = t :: p' ++ ch "{" :: bd ++ [ch "}"]) as E
    by (rewrite r_media_shape; unfold t, p', bd; repeat (rewrite <- app_assoc; cbn [app]); reflexivity).
  assert (atomq Acomma t = true) as Ht by (unfold t; at_atom).
  assert (Soup (atomq Acomma) p') as Hp
    by (eapply Soup_mono; [apply atomn_atomq|unfold p'; now apply media_head_soup]).
  assert (PosNeu bd) as Hb.
  { unfold bd, media_rules. apply PosNeu_app; [apply (posneu_soup []), gws_soup|]. apply stmts_posneu.
    intros y g Hy. now destruct (Hin y g Hy) as (_ & _ & _ & ?). }
  apply good_intro; [reflexivity| | | |]; rewrite ?E.
  - apply (sd_block cls_sheet KMedia t p' bd Acomma); try reflexivity; assumption.
  - apply (sd_block cls_media KMedia t p' bd Acomma); try reflexivity; assumption.
  - cbn [stmt_deep_ok]. apply andb_true_iff. split.
    + unfold media_ok. fold p'. fold bd. destruct (media_head_neu lay g0 media g1 Hm) as [[M1 M2] _].
      assert (pos (c0 mdME)) as HpME by (unfold pos, nonneg; cbn; lia).
      destruct (Hb mdME (c0 mdME) eq_refl HpME) as [B1 B2].
      rewrite (cut_ok_snoc mdMQ (c0 mdMQ) p' (ch "{") M1 eq_refl) by (fold p' in M2; rewrite M2; reflexivity).
      rewrite (cut_ok_snoc mdME (c0 mdME) bd (ch "}") B1 eq_refl) by (rewrite B2; reflexivity).
      cbn [andb]. apply forallb_forall. intros [y g] Hy. cbn [fst]. now destruct (Hin y g Hy) as (_ & ? & _).
    + clear E Hb. induction body as [|[y g] r IH]; [reflexivity|].
      apply andb_true_iff. split.
      * now destruct (Hin y g (or_introl eq_refl)) as (_ & _ & ? & _).
      * apply IH. intros y' g' Hy'. apply (Hin y' g'). now right.
  - now apply (posneu_block Acomma).
Qed.

Lemma wf_in_body (body : list (stmt * nat)) y g :
  (fix go (l : list (stmt * nat)) : bool := match l with [] => true | (y, _) :: r => wf_stmt y && go r end) body = true ->
  In (y, g) body -> wf_stmt y = true.
Proof.
  induction body as [|[y' g'] r IH]; [contradiction|].
  intros H [E|Hin]; apply andb_true_iff in H as [H1 H2]; [inversion E; subst; exact H1|now apply IH].
Qed.

Lemma stmt_good_flat lay x :
  match x with SMedia _ _ _ _ _ _ => False | _ => True end -> wf_stmt x = true -> Good lay x.
Proof.
  intros Hx H. destruct x.
  - apply good_charset.
  - apply good_import; exact H.
  - apply good_namespace; exact H.
  - contradiction.
  - apply good_page; exact H.
  - apply good_fontface; exact H.
  - cbn [wf_stmt] in H. apply andb_true_iff in H as [Hs Hb]. destruct (style_wf lay sels b Hs Hb) as (A & B & C & D).
    unfold Good. cbn [stmt_deep_ok]. split; [exact B|split; [exact C|split; [exact A|exact D]]].
  - apply good_unknown; exact H.
  - apply good_comment; exact H.
Qed.

Lemma stmt_good_n lay : forall n x, (depth x <= n)%nat -> wf_stmt x = true -> Good lay x.
Proof.
  induction n as [|n IH]; intros x Hd H.
  - destruct x; try (apply stmt_good_flat; [exact I|exact H]). cbn [depth] in Hd. lia.
  - destruct x; try (apply stmt_good_flat; [exact I|exact H]).
    cbn [wf_stmt] in H. apply andb_true_iff in H as [Hm Hb]. apply good_media; [exact Hm|].
    intros y g Hin. apply IH; [|now apply (wf_in_body body y g)].
    cbn [depth] in Hd. pose proof (depth_in_body body y g Hin). lia.
Qed.

Lemma stmt_good lay x : wf_stmt x = true -> Good lay x.
Proof. apply (stmt_good_n lay (depth x)). lia. Qed.

(* ================================================================== the theorem *)
Lemma delimited_of_wf_lemma sh lay : WfSheet sh -> Delimited sh lay.
Proof.
  unfold WfSheet, wf_sheet, Delimited, delimited, delimited_top. intros H. rewrite forallb_forall in H.
  apply andb_true_iff. split; apply forallb_forall; intros [x g] Hin; cbn [fst];
    destruct (stmt_good lay x (H _ Hin)) as (A & B & C & D); assumption.
Qed.

(* the concrete derivation of GrammarFacts is well-formed *)
Lemma ex_wf : WfSheet ex_sheet.
Proof. vm_compute. reflexivity. Qed.
Close Scope Z_scope.
