(* RespellSites.v -- C10: the checked table of the places where /repo compares, looks up or stores a
   name-like token value.  Gen/RespellSites.v is regenerated from the source on every run by
   translate/respellsites.py (fail-closed ast walker); here: what counts as a normalised site, and the
   reviewed exemptions.  A new comparison of a raw (or only lower-cased) token value with a name, or a
   name-selected production that stores the raw text, makes `all_sites_normalised` fail.            *)
From Coq Require Import String List Bool.
Import ListNotations.
From CssV Require Import Gen.RespellSites.
Open Scope string_scope.

(* a site is normalised when the token value went through normalize (names inside token types whose hex
   escapes the tokenizer resolves) or through normalize-after-unicodesub (the at-keywords the tokenizer
   knows: their token value is the literal text), or when the token is handed to a sub-value class that
   has sites of its own *)
Definition norm_ok (s : site) : bool :=
  match s_norm s with
  | NNormalizeU => true
  | NObject => true
  | NNormalize => negb (s_atkw s)
  | NUnescape => false       (* right for case-sensitive names only: needs a reviewed exemption saying so *)
  | NLower => false
  | NNone => false
  end.

Record exemption := mkEx { e_file : string; e_func : string; e_expr : string; e_why : string }.

Definition lit := "the literal spelling is kept on purpose next to the normalised one (documented: literalname, literalpriority, _keyword for defaultAtKeyword=False)".
Definition kept := "the item keeps the literal text of the token; every comparison of it is a site of its own that normalises (see the SCompare/SLookup sites of the same production); the C10 oracle compares these positions through the normalised reading".
Definition nspfx := "namespace prefixes are case-sensitive: helper.unescape (the backslash before name characters removed, case kept; commit 897be56) is the normalisation that applies, normalize would merge P and p".
Definition tokres := "ATKEYWORD tokens other than the six tokenizer symbols have their hex escapes resolved by the tokenizer (b051860), normalize is enough".

Definition exemptions : list exemption :=
 [ mkEx "css/property.py" "Property._setCssText" "self._literalpriority = new._literalpriority" lit;
   mkEx "css/property.py" "Property._setCssText" "self._literalname = new._literalname" lit;
   mkEx "css/property.py" "Property._setName" "self._literalname = new['literalname']" lit;
   mkEx "css/property.py" "Property._setPriority" "self._literalpriority = new['literalpriority']" lit;
   mkEx "css/cssrule.py" "CSSRule._setAtkeyword" "self._keyword = keyword" lit;
   mkEx "css/marginrule.py" "MarginRule._setMargin" "self._keyword = margin" lit;
   mkEx "css/selector.py" "Selector._setSelectorText.append" "namespaces[prefix]"
        "prefix is re-assigned through helper.unescape on the line before the lookup (897be56); the flow-insensitive walker still sees the earlier raw assignment; exercised by the nsprefix respellings of the end-to-end stream";
   mkEx "css/cssnamespacerule.py" "CSSNamespaceRule._setCssText" "self._prefix = new['prefix']" nspfx;
   mkEx "css/cssnamespacerule.py" "CSSNamespaceRule._setPrefix" "self._prefix = prefix" "API assignment: the prefix is taken as given by the caller";
   mkEx "css/selector.py" "Selector._setSelectorText.append" "val != ':where('"
        "append() receives the pseudo-class name already normalised by its caller _pseudo (_tokenvalue(normalize=True))";
   mkEx "prodparser.py" "PreDef.hexcolor Prod('HEX color').toSeq" "default toSeq: (token type, token value)"
        "hex colour digits keep their case in the text; ColorValue reads them with int(.., 16), which is case-insensitive";
   mkEx "prodparser.py" "PreDef.ident Prod('ident').toSeq" "default toSeq: (token type, token value)"
        "generic IDENT values (keywords) keep their literal text; value keywords are not among the property's respellings";
   mkEx "css/value.py" "ColorValue._setCssText Prod('Named Color').toSeq" "default toSeq: (token type, token value)" kept;
   mkEx "css/value.py" "ColorValue._setCssText" "checks[functiontype]"
        "functiontype is the item stored by the two FUNCTION productions of this method through normalize (SStore NNormalize sites)";
   mkEx "css/value.py" "ColorValue._setCssText" "functiontype in ('hsl(', 'hsla(')"
        "functiontype is the item stored by the two FUNCTION productions of this method through normalize (SStore NNormalize sites)";
   mkEx "css/value.py" "ColorValue._setCssText" "v[5:7]" "offsets into a HASH value that matched reHexcolor: # and exactly 3 or 6 hex digits, escapes already resolved";
   mkEx "css/value.py" "ColorValue._setCssText" "v[3:5]" "offsets into a HASH value that matched reHexcolor: # and exactly 3 or 6 hex digits, escapes already resolved";
   mkEx "css/value.py" "MSValue._productions Prod('FUNCTION').toSeq" "(t[0], t[1])" "IE-only expression()/filter syntax is kept verbatim by design, outside the property";
   mkEx "css/value.py" "_MSValueProd Prod(MSValue._functionName).match" "v.startswith('progid:DXImageTransform.Microsoft.')" "IE-only progid: syntax, outside the property";
   mkEx "css/value.py" "CSSVariable._setCssText Prod('var').toSeq" "default toSeq: (token type, token value)"
        "the serializer writes var( itself; the stored FUNCTION text is not read";
   mkEx "css/value.py" "CSSVariable._setCssText" "self._name = store['ident'].value"
        "the variable name is documented as non-normalised; every lookup normalises it (cssvariablesdeclaration sites)";
   mkEx "stylesheets/mediaquery.py" "MediaQuery._setMediaText Prod('ONLY|NOT').toSeq" "default toSeq: (token type, token value)" kept;
   mkEx "stylesheets/mediaquery.py" "MediaQuery._setMediaText Prod('media_type').toSeq" "default toSeq: (token type, token value)" kept;
   mkEx "stylesheets/mediaquery.py" "MediaQuery._setMediaText Prod('AND').toSeq" "default toSeq: (token type, token value)" kept;
   mkEx "stylesheets/mediaquery.py" "MediaQuery._setMediaText.expression Prod('media_feature').toSeq" "default toSeq: (token type, token value)" kept;
   mkEx "css/marginrule.py" "MarginRule._setMargin" "self._atkeyword = n" tokres;
   mkEx "css/marginrule.py" "MarginRule._setCssText Prod('@ margin').toSeq" "default toSeq: (token type, token value)" kept;
   mkEx "util.py" "Base._uritokenvalue" "value[0] == value[-1]" "compares the first with the last character of the URL content (is it quoted, and by which quote), not a name";
   mkEx "css/cssunknownrule.py" "CSSUnknownRule._setCssText" "self.atkeyword != self._normalize(self._tokenvalue(attoken))" tokres ].

Definition matches (e : exemption) (s : site) : bool :=
  String.eqb (e_file e) (s_file s) && String.eqb (e_func e) (s_func s) && String.eqb (e_expr e) (s_expr s).
Definition exempt (s : site) : bool := existsb (fun e => matches e s) exemptions.
Definition site_ok (s : site) : bool := norm_ok s || exempt s.

(* an exemption is only ever needed for a site that is not normalised, and each one is in use *)
Definition exemption_used (e : exemption) : bool := existsb (fun s => matches e s && negb (norm_ok s)) sites.

Definition count_kind (k : skind) : nat :=
  length (filter (fun s => match s_kind s, k with
                           | SCompare, SCompare | SPrefix, SPrefix | SLookup, SLookup | SStore, SStore | SSlice, SSlice => true
                           | _, _ => false end) sites).
