(* ProdParserDepth.v -- a depth bound for the VALUE part of env_real (gids 3..11), whose sub-parser call graph is cyclic.
   A sub-parser started on pushtoken(t, rest) consumes t with a production that starts no sub-parser (checked on the
   real trees: the productions that can be found on the first token of a fresh parse), so every nested constructor is
   started on a strictly shorter stream: nesting depth <= number of tokens.  Proofs only; stdlib only. *)
From CssV Require Import Base Regex Tokenizer ProdParser ProdParserFacts Gen.ProdTrees ProdParserSafe.
Local Open Scope nat_scope.

(* ------------------------------------------------------------------ first positions of a tree *)
Fixpoint seqpre (ps : list ptree) : list ptree :=
  match ps with [] => [] | c :: r => c :: (if topt c then seqpre r else []) end.
Definition fkids (t : ptree) : list ptree :=
  match t with PSeq ps _ _ => seqpre ps | PCho ps _ => ps | PProd _ => [] end.
(* p can be the production found on the first token of a fresh parse of t *)
Inductive first_in (p : prod) : ptree -> Prop :=
| FI_prod : first_in p (PProd p)
| FI_kid t c : In c (fkids t) -> first_in p c -> first_in p t.

Fixpoint firstsb (q : prod -> bool) (t : ptree) : bool :=
  match t with
  | PProd p => q p
  | PCho ps _ => (fix all (l : list ptree) : bool := match l with [] => true | c :: r => firstsb q c && all r end) ps
  | PSeq ps _ _ =>
      (fix go (l : list ptree) : bool :=
         match l with [] => true | c :: r => firstsb q c && (if topt c then go r else true) end) ps
  end.

Lemma firstsb_ok q t p : first_in p t -> firstsb q t = true -> q p = true.
Proof.
  induction 1 as [|t c Hin Hf IH]; [cbn; auto|]. intros Hb. apply IH. clear IH Hf.
  destruct t as [p0|ps lo hi|ps oo]; cbn [fkids] in Hin; [contradiction| |]; cbn [firstsb] in Hb.
  - revert Hin Hb. induction ps as [|x r IHr]; cbn [seqpre]; [intros []|]. intros Hin Hb.
    apply andb_true_iff in Hb. destruct Hb as [H1 H2]. destruct Hin as [->|Hin]; [exact H1|].
    destruct (topt x); [apply IHr; assumption|contradiction].
  - revert Hin Hb. induction ps as [|x r IHr]; [intros []|]. intros Hin Hb.
    apply andb_true_iff in Hb. destruct Hb as [H1 H2]. destruct Hin as [->|Hin]; [exact H1|apply IHr; assumption].
Qed.

Definition inpre (r : nres) (l : list ptree) : Prop :=
  match r with NProd p => In (PProd p) l | NNest c => In c l | _ => True end.
Lemma inpre_cons r c l : inpre r l -> inpre r (c :: l).
Proof. destruct r; cbn; auto. Qed.

(* Sequence.nextProd scanning from position |pre| with |suf| steps left returns a production of the optional prefix *)
Lemma seq_loop_first suf : forall pre lo hi rnd st tk,
  inpre (fst (seq_loop (length suf) (pre ++ suf) lo hi (length pre) rnd st tk)) (seqpre suf).
Proof.
  induction suf as [|c suf IH]; intros pre lo hi rnd st tk; cbn [length seq_loop].
  - destruct (below rnd hi); [destruct hi|]; cbn; destruct tk; exact I.
  - destruct (below rnd hi); [|cbn; destruct tk; exact I].
    assert (Hn : nth_error (pre ++ c :: suf) (length pre) = Some c).
    { rewrite nth_error_app2, Nat.sub_diag; [reflexivity|lia]. }
    rewrite Hn. destruct (tmatches c tk).
    { cbn [fst seqpre]. destruct c; cbn; auto. }
    change (seqpre (c :: suf)) with (c :: (if topt c then seqpre suf else [])).
    destruct (topt c) eqn:Ho.
    2:{ destruct (_ || _); [exact I|]. destruct tk; exact I. }
    destruct suf as [|c' suf'].
    { cbn [length seq_loop]. destruct (below _ hi); [destruct hi|]; cbn; destruct tk; exact I. }
    assert (Hlen : Nat.eqb (S (length pre)) (length (pre ++ c :: c' :: suf')) = false).
    { apply Nat.eqb_neq. rewrite app_length. cbn. lia. }
    rewrite Hlen. apply inpre_cons.
    specialize (IH (pre ++ [c]) lo hi rnd (if Nat.eqb (length pre) 0 then false else st) tk).
    rewrite <- app_assoc in IH. cbn [app] in IH. rewrite app_length in IH. cbn [length] in IH.
    rewrite Nat.add_1_r in IH. exact IH.
Qed.

Lemma next_first t f tk : enter t = Some f -> inpre (fst (next tk f)) (fkids t).
Proof.
  intros He. pose proof (next_in tk f) as [_ H].
  destruct t as [p|ps lo hi|ps oo]; cbn [enter] in He; inversion He; subst f; clear He; cbn [fkids].
  - clear H. cbn [next]. destruct ps as [|c0 ps0] eqn:Eps.
    + destruct (below 0 hi); cbn; auto. destruct tk; exact I.
    + rewrite <- Eps. exact (seq_loop_first ps [] lo hi 0 false tk).
  - cbn [children] in H. revert H.
    match goal with |- _ -> inpre ?e _ => destruct e end; cbn; auto. intros H. exact (proj1 H).
Qed.

(* descent from a fresh frame of a matching production ends in one of its first productions *)
Lemma find_descend_first fu : forall t f rest tk,
  wf_tree t = true -> enter t = Some f -> tmatches t (Some tk) = true -> Forall wf_frame rest -> notc tk ->
  theight t <= fu ->
  exists p stack, find fu (f :: rest) tk = FFound p stack /\ first_in p t.
Proof.
  induction fu as [|fu IH]; intros t f rest tk Hw He Hm Hrest Hnc Hfu.
  - destruct t; cbn in He; [discriminate|cbn in Hfu; lia|cbn in Hfu; lia].
  - destruct (enter_wf t f Hw He) as [Hwf Hch].
    destruct (next_fresh t f tk Hw He Hm) as [c [f' [Hn [Hin Hmc]]]].
    pose proof (next_ok (Some tk) f Hwf) as Hok. rewrite Hn in Hok. destruct Hok as [_ [Hwf' Hch']].
    pose proof (next_first t f (Some tk) He) as Hfi. rewrite Hn in Hfi. cbn [fst] in Hfi.
    cbn [find]. rewrite Hn.
    assert (Hwc : wf_tree c = true) by (exact (wf_frame_children f c tk Hwf Hin Hmc Hnc)).
    pose proof (theight_child f _ Hin) as Hh. rewrite (fheight_enter _ _ He) in Hh.
    destruct c as [p|ps lo hi|ps oo]; cbn [ret] in *.
    + exists p, (f' :: rest). split; [reflexivity|]. eapply FI_kid; [exact Hfi|constructor].
    + cbn [enter]. destruct (IH (PSeq ps lo hi) _ (f' :: rest) tk Hwc eq_refl Hmc) as [p [stack [H1 H2]]];
        [constructor; auto|exact Hnc|lia|]. exists p, stack. split; [exact H1|]. eapply FI_kid; eauto.
    + cbn [enter]. destruct (IH (PCho ps oo) _ (f' :: rest) tk Hwc eq_refl Hmc) as [p [stack [H1 H2]]];
        [constructor; auto|exact Hnc|lia|]. exists p, stack. split; [exact H1|]. eapply FI_kid; eauto.
Qed.

(* the production search on the fresh stack of a parse *)
Lemma find_root_first tr f tk p stack :
  wf_tree tr = true -> enter tr = Some f -> notc tk ->
  find (find_fuel [f]) [f] tk = FFound p stack -> first_in p tr.
Proof.
  intros Hw He Hnc. destruct (enter_wf tr f Hw He) as [Hwf Hch].
  unfold find_fuel. cbn [length Nat.add]. remember (S (S (stack_height [f]))) as fu0 eqn:Hfu. cbn [find].
  pose proof (next_ok (Some tk) f Hwf) as Hok. pose proof (next_first tr f (Some tk) He) as Hfi.
  destruct (next (Some tk) f) as [r f'] eqn:Hn. cbn [fst] in Hfi. destruct Hok as [Hr [Hwf' Hch']].
  destruct r; cbn [is_ret inpre] in *; try discriminate.
  - intros E; inversion E; subst. eapply FI_kid; [exact Hfi|constructor].
  - destruct Hr as [Hin [Hm Hnp]].
    assert (Hwc : wf_tree t = true) by (exact (wf_frame_children f t tk Hwf Hin Hm Hnc)).
    destruct (enter t) as [nf|] eqn:Het; [|discriminate].
    pose proof (theight_child f t Hin) as Hh.
    destruct (find_descend_first fu0 t nf [f'] tk Hwc Het Hm) as [p' [stack' [H1 H2]]];
      [constructor; auto|exact Hnc|subst fu0; unfold stack_height; cbn [fold_right]; lia|].
    rewrite H1. intros E; inversion E; subst. eapply FI_kid; eauto.
Qed.

(* ------------------------------------------------------------------ which sub-parser a production starts, on which stream *)
Lemma process_out_full sub postof p t st x :
  process sub postof p t st = LOut x ->
  x = Crash \/ exists lab g anc, p_toseq p = ASub lab g /\ p_stopkeep p = false /\ sub g anc t (full st) = x.
Proof.
  rewrite process_eq. destruct (pseq sub postof p t st) as [st2|st2|y] eqn:Hs.
  - pose proof (ptail_spec p t st2) as H2. intros E. rewrite E in H2. contradiction.
  - discriminate.
  - intros E; inversion E; subst y; clear E. revert Hs. unfold pseq. destruct (p_stopkeep p) eqn:Hk; [discriminate|].
    destruct (p_toseq p) as [| | | | | |c|lab g|] eqn:Ha; cbn [aplain]; try discriminate;
      try (intros E; inversion E; auto; fail).
    + destruct (stringvalue (val t)); cbn; [discriminate|]. intros E; inversion E; auto.
    + destruct (urivalue (val t)); cbn; [discriminate|]. intros E; inversion E; auto.
    + assert (Hl : match l_own st with SPend x => x :: l_rest st | _ => l_rest st end = full st)
        by (unfold full; destruct (l_own st); reflexivity).
      rewrite Hl. destruct (sub g _ t (full st)) as [r| | | |] eqn:Hg;
        try (intros E; inversion E; subst; right; exists lab, g; eexists; repeat split; exact Hg).
      destruct (postof g); [|intros E; inversion E; auto]. destruct (post _ _); [discriminate|]. intros E; inversion E; auto.
Qed.

Definition nocall (p : prod) : bool := p_stopkeep p || match p_toseq p with ASub _ _ => false | _ => true end.

Section Depth.
  Variable o : opts.
  Variable sub : nat -> bool -> tok -> list tok -> out.
  Variable postof : nat -> option postcode.
  Hypothesis Hsub : sub_ok sub.
  Variable N : nat.
  (* every sub-parser of the tree, started on a stream shorter than N, stays within its depth budget *)
  Definition Qd (p : prod) : Prop :=
    forall lab g, p_toseq p = ASub lab g -> forall anc t l, length l < N -> sub g anc t l <> DepthOut.

  Lemma body_dep t st :
    stack_all Qd (l_stack st) ->
    (forall p stack, notc t -> find (find_fuel (l_stack st)) (l_stack st) t = FFound p stack ->
       Qd p -> forall lab g anc, p_toseq p = ASub lab g -> p_stopkeep p = false -> sub g anc t (full st) <> DepthOut) ->
    match body o sub postof t st with
    | LCont st' | LBreak st' => stack_all Qd (l_stack st')
    | LOut x => x <> DepthOut
    end.
  Proof.
    intros HQ Hgood. unfold body.
    destruct (o_checkS o && negb (eqs (ty t) (s "COMMENT")) && eqs (ty t) (s "S") && l_afterS st); [assumption|].
    set (st1 := if o_checkS o && negb (eqs (ty t) (s "COMMENT")) then set_afterS st (eqs (ty t) (s "S")) else st).
    assert (Hst1 : l_stack st1 = l_stack st /\ full st1 = full st) by (unfold st1; destruct (_ && _); split; reflexivity).
    destruct Hst1 as [E1 E2].
    assert (HQ1 : stack_all Qd (l_stack st1)) by (rewrite E1; exact HQ).
    destruct (eqs (ty t) (s "COMMENT")) eqn:Hc; [cbn; assumption|].
    destruct (l_defaultS st1 && eqs (ty t) (s "S") && negb (o_checkS o)).
    { destruct (_ || _); cbn; assumption. }
    destruct (eqs (ty t) (s "INVALID")); [cbn; assumption|].
    destruct (eqs (ty t) (s "EOF")); [cbn; assumption|].
    cbn [l_stack set_started].
    pose proof (find_all Qd (find_fuel (l_stack st1)) (l_stack st1) t HQ1) as Hfa.
    specialize (fun p stack => Hgood p stack Hc). rewrite <- E1 in Hgood.
    destruct (find _ (l_stack st1) t) as [p stack|stack|stack| |]; try discriminate.
    - destruct Hfa as [Hqp [Hm Hqs]]. specialize (Hgood p stack eq_refl Hqp).
      match goal with |- context [process sub postof p t ?stx] => set (sx := stx) end.
      pose proof (process_seq sub postof p t sx) as Hps.
      pose proof (process_out_full sub postof p t sx) as Hpo.
      assert (Hfx : full sx = full st) by (unfold sx, full; cbn; fold (full st1); exact E2).
      destruct (process sub postof p t sx) as [st'|st'|x].
      + destruct Hps as [A1 _]. rewrite A1. cbn. assumption.
      + destruct Hps as [A1 _]. rewrite A1. cbn. assumption.
      + destruct (Hpo x eq_refl) as [->|[lab [g [anc [Ha [Hk Hx]]]]]]; [discriminate|].
        rewrite Hfx in Hx. rewrite <- Hx. exact (Hgood lab g anc Ha Hk).
    - cbn. destruct (l_stopnm st1); cbn; assumption.
    - cbn. destruct (l_stopnm st1); cbn; assumption.
  Qed.

  Lemma finish_nd st : finish o st <> DepthOut.
  Proof. unfold finish. destruct (l_stopall st); [discriminate|]. destruct (final _ _ _); [destruct (_ && _)| |]; discriminate. Qed.

  Theorem loop_dep n : forall st,
    length (saved (l_stash st)) <= 1 -> meas st <= N -> stack_all Qd (l_stack st) ->
    loop o sub postof n st <> DepthOut.
  Proof.
    induction n as [|n IH]; intros st Hs Hm HQ; [discriminate|]. rewrite loop_unfold.
    destruct (pull st) as [[t st1]|] eqn:Hp; [|apply finish_nd].
    destruct (pull_spec st t st1 Hs Hp) as [Hsv1 [_ [Hm1 _]]].
    destruct (pull_fields st t st1 Hp) as [Hst1 _].
    assert (Hlen : length (full st1) < N) by (unfold meas in *; rewrite Hsv1 in Hm1; cbn [length Nat.add] in Hm1; lia).
    pose proof (body_ok o sub postof Hsub t st1 Hsv1) as Hb.
    pose proof (body_dep t st1 ltac:(rewrite Hst1; exact HQ)) as Hd.
    assert (Hgood : forall p stack, notc t -> find (find_fuel (l_stack st1)) (l_stack st1) t = FFound p stack ->
              Qd p -> forall lab g anc, p_toseq p = ASub lab g -> p_stopkeep p = false -> sub g anc t (full st1) <> DepthOut).
    { intros p stack _ _ Hq lab g anc Ha _. exact (Hq lab g Ha anc t (full st1) Hlen). }
    specialize (Hd Hgood).
    destruct (body o sub postof t st1) as [st2|st2|x].
    - destruct Hb as [H1 [H2 [H3 H4]]]. apply IH; [exact H3|unfold meas; lia|exact Hd].
    - apply finish_nd.
    - exact Hd.
  Qed.

  (* a parse from the start of a token list (first = None, ProdParser() clears the stash) *)
  Lemma parse_tree_top_dep tr anc toks sh :
    tall Qd tr -> length toks <= N ->
    parse_tree sub postof true o tr anc None toks sh <> DepthOut.
  Proof.
    intros HQ Hl. unfold parse_tree, init_state. destruct (enter tr) as [f|] eqn:He; [|discriminate].
    apply loop_dep; cbn [l_stash l_stack stash0 saved length].
    - lia.
    - unfold meas, full. cbn. exact Hl.
    - constructor; [|constructor]. eapply enter_all; eauto.
  Qed.

  (* a sub-parse on pushtoken(t, l) whose first productions start no sub-parser *)
  Lemma parse_tree_sub_dep tr anc t l :
    wf_tree tr = true -> tall Qd tr -> firstsb nocall tr = true -> length l <= N ->
    parse_tree sub postof true o tr anc (Some t) l stash0 <> DepthOut.
  Proof.
    intros Hw HQ Hfirst Hl. unfold parse_tree, init_state. destruct (enter tr) as [f|] eqn:He; [|discriminate].
    unfold loop_fuel. cbn [stash0 saved length Nat.add]. rewrite loop_unfold. unfold pull. cbn [l_stash saved stash0 l_own spull].
    match goal with |- context [body o sub postof t ?stx] => set (sx := stx) end.
    assert (Hall : stack_all Qd [f]) by (constructor; [|constructor]; eapply enter_all; eauto).
    pose proof (body_ok o sub postof Hsub t sx eq_refl) as Hb.
    pose proof (body_dep t sx Hall) as Hd.
    assert (Hgood : forall p stack, notc t -> find (find_fuel (l_stack sx)) (l_stack sx) t = FFound p stack ->
              Qd p -> forall lab g anc0, p_toseq p = ASub lab g -> p_stopkeep p = false -> sub g anc0 t (full sx) <> DepthOut).
    { intros p stack Hnc Hf _ lab g anc0 Ha Hk. exfalso.
      pose proof (find_root_first tr f t p stack Hw He Hnc Hf) as Hfi.
      pose proof (firstsb_ok nocall tr p Hfi Hfirst) as Hn. unfold nocall in Hn. rewrite Hk, Ha in Hn. discriminate. }
    specialize (Hd Hgood).
    destruct (body o sub postof t sx) as [st2|st2|x].
    - destruct Hb as [H1 [H2 [H3 H4]]]. apply loop_dep; [exact H3| |exact Hd].
      unfold meas. assert (Hfx : full sx = l) by reflexivity. rewrite Hfx in H2. lia.
    - apply finish_nd.
    - exact Hd.
  Qed.
End Depth.

(* ------------------------------------------------------------------ environments whose sub-parsers consume their first token *)
Definition calls_in (dom : nat -> bool) (p : prod) : bool := match p_toseq p with ASub _ g => dom g | _ => true end.
(* dom: the grammars that may be started as sub-parsers *)
Definition first_plain (dom : nat -> bool) (env : genv) : Prop :=
  forall g gr, dom g = true -> nth_error env g = Some gr ->
    wf_tree (g_tree gr) = true /\ firstsb nocall (g_tree gr) = true /\ tallb (calls_in dom) (g_tree gr) = true.

Lemma calls_in_tall dom env d N t :
  (forall g anc t l, dom g = true -> length l < d -> pparse_sub d env g anc (Some t) l <> DepthOut) ->
  N <= d -> tallb (calls_in dom) t = true ->
  tall (Qd (fun g a t l => pparse_sub d env g a (Some t) l) N) t.
Proof.
  intros IH HN. apply tallb_tall. intros p Hp lab g Ha anc t0 l Hl. unfold calls_in in Hp. rewrite Ha in Hp.
  apply IH; [exact Hp|lia].
Qed.

Theorem pparse_sub_depth_bound dom env :
  first_plain dom env ->
  forall d g anc t l, dom g = true -> length l < d -> pparse_sub d env g anc (Some t) l <> DepthOut.
Proof.
  intros Hfp. induction d as [|d IH]; intros g anc t l Hg Hl; [lia|]. cbn [pparse_sub].
  destruct (nth_error env g) as [gr|] eqn:Hn; [|discriminate].
  destruct (Hfp g gr Hg Hn) as [Hw [Hf Hc]].
  apply (parse_tree_sub_dep (g_opts gr) _ (postof_env env) (pparse_sub_ok d env) (length l)); auto.
  apply (calls_in_tall dom env d); [exact IH|lia|exact Hc].
Qed.

(* a top-level constructor: depth budget > number of tokens suffices *)
Theorem pparse_env_depth_bound dom env g gr :
  first_plain dom env -> nth_error env g = Some gr -> tallb (calls_in dom) (g_tree gr) = true ->
  forall toks d, length toks < d -> pparse_env d env g toks <> DepthOut.
Proof.
  intros Hfp Hn Hc toks d Hl. unfold pparse_env. destruct d as [|d]; [lia|]. cbn [pparse_sub]. rewrite Hn.
  apply (parse_tree_top_dep (g_opts gr) _ (postof_env env) (pparse_sub_ok d env) (length toks)); [|lia].
  apply (calls_in_tall dom env d); [|lia|exact Hc].
  intros g' anc t l Hg' Hl'. exact (pparse_sub_depth_bound dom env Hfp d g' anc t l Hg' Hl').
Qed.

(* ------------------------------------------------------------------ the value part of env_real *)
Definition valg (g : nat) : bool := Nat.leb 4 g && Nat.leb g 11.
Fixpoint first_plainb_from (dom : nat -> bool) (i : nat) (env : genv) : bool :=
  match env with
  | [] => true
  | gr :: rest =>
      (if dom i then wf_tree (g_tree gr) && firstsb nocall (g_tree gr) && tallb (calls_in dom) (g_tree gr) else true)
      && first_plainb_from dom (S i) rest
  end.
Lemma first_plainb_ok dom env : first_plainb_from dom 0 env = true -> first_plain dom env.
Proof.
  assert (H : forall env i, first_plainb_from dom i env = true -> forall g gr, dom (i + g) = true -> nth_error env g = Some gr ->
            wf_tree (g_tree gr) = true /\ firstsb nocall (g_tree gr) = true /\ tallb (calls_in dom) (g_tree gr) = true).
  { clear env. induction env as [|gr0 rest IH]; intros i Hb g gr Hd Hn; [destruct g; discriminate|].
    cbn [first_plainb_from] in Hb. apply andb_true_iff in Hb. destruct Hb as [Hb1 Hb2]. destruct g as [|g]; cbn in Hn.
    - inversion Hn; subst. rewrite Nat.add_0_r in Hd. rewrite Hd in Hb1.
      apply andb_true_iff in Hb1. destruct Hb1 as [Hb1 H3]. apply andb_true_iff in Hb1. destruct Hb1 as [H1 H2]. auto.
    - apply (IH (S i) Hb2 g gr); [|exact Hn]. replace (S i + g) with (i + S g) by lia. exact Hd. }
  intros Hb g gr. apply (H env 0 Hb).
Qed.

Lemma value_first_plain : first_plain valg env_real.
Proof. apply first_plainb_ok. vm_compute. reflexivity. Qed.
(* PropertyValue itself starts sub-parsers on its first token, so it is not in the domain; it is only a top level *)
Example property_value_not_first_plain : firstsb nocall tree_PropertyValue = false.
Proof. vm_compute. reflexivity. Qed.

Theorem value_sub_depth_bound : forall d g anc t l,
  valg g = true -> length l < d -> pparse_sub d env_real g anc (Some t) l <> DepthOut.
Proof. exact (pparse_sub_depth_bound valg env_real value_first_plain). Qed.

(* V3 *)
Theorem property_value_no_depthout : forall toks d,
  length toks < d -> pparse_env d env_real gid_PropertyValue toks <> DepthOut.
Proof.
  apply (pparse_env_depth_bound valg env_real 3 (mkGr (s "PropertyValue") tree_PropertyValue (mkOpts false false false) PostPV)
           value_first_plain); [reflexivity|vm_compute; reflexivity].
Qed.

Theorem property_value_total : forall toks d, sane_toks toks -> length toks < d ->
  exists r, pparse_env d env_real gid_PropertyValue toks = Ret r /\ post PostPV r <> PCrash.
Proof.
  intros toks d Hs Hl. destruct (property_value_total_mod_depth d toks Hs) as [H|H]; [|exact H].
  exfalso. exact (property_value_no_depthout toks d Hl H).
Qed.

(* the same for every value constructor used on its own *)
Theorem value_ctor_no_depthout : forall g, 4 <= g <= 11 -> forall toks d,
  length toks < d -> pparse_env d env_real g toks <> DepthOut.
Proof.
  intros g Hg toks d Hl. unfold pparse_env. destruct d as [|d]; [lia|].
  destruct (nth_error env_real g) as [gr|] eqn:Hn.
  2:{ cbn [pparse_sub]. rewrite Hn. discriminate. }
  assert (Hv : valg g = true) by (unfold valg; apply andb_true_iff; split; apply Nat.leb_le; lia).
  destruct (value_first_plain g gr Hv Hn) as [_ [_ Hc]].
  exact (pparse_env_depth_bound valg env_real g gr value_first_plain Hn Hc toks (S d) Hl).
Qed.

Theorem value_ctor_total : forall g, 8 <= g <= 11 -> forall toks d, sane_toks toks -> length toks < d ->
  exists pc r, postof_env env_real g = Some pc /\ pparse_env d env_real g toks = Ret r /\ post pc r <> PCrash.
Proof.
  intros g Hg toks d Hs Hl. destruct (value_ctor_total_mod_depth g Hg d toks Hs) as [pc [Hpc [H|[r H]]]].
  - exfalso. exact (value_ctor_no_depthout g ltac:(lia) toks d Hl H).
  - exists pc, r. split; [exact Hpc|exact H].
Qed.

(* the bound is tight: n nested FUNCTION tokens need depth n + 1 = (number of tokens) ... *)
Example depth_bound_tight :
  let toks := [tk "FUNCTION" "f("; tk "FUNCTION" "g("; tk "FUNCTION" "h("] in
  pparse_env 3 env_real gid_PropertyValue toks = DepthOut /\
  exists r, pparse_env 4 env_real gid_PropertyValue toks = Ret r.
Proof. vm_compute. split; [reflexivity|eauto]. Qed.

Print Assumptions value_sub_depth_bound.
Print Assumptions property_value_no_depthout.
Print Assumptions property_value_total.
Print Assumptions value_ctor_no_depthout.
Print Assumptions value_ctor_total.

(* Value / ColorValue / DimensionValue / URIValue on their own (after the repair of value.py): total within the bound *)
Theorem value_leaf_ctor_total_bounded : forall g, 4 <= g <= 7 -> forall toks d, sane_toks toks -> length toks < d ->
  exists pc r, postof_env env_real g = Some pc /\ pparse_env d env_real g toks = Ret r /\ post pc r <> PCrash.
Proof.
  intros g Hg toks d Hs Hl. destruct (value_leaf_ctor_total g Hg toks d Hs) as [pc [Hpc [H|[r H]]]].
  - exfalso. exact (value_ctor_no_depthout g ltac:(lia) toks d Hl H).
  - exists pc, r. split; [exact Hpc|exact H].
Qed.
Print Assumptions value_leaf_ctor_total_bounded.
