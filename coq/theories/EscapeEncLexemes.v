(* EscapeEncLexemes.v -- C13: token BOUNDARIES of escaped lexemes.  The escaped spelling of a lexeme is again a
   lexeme of the same class in the sense of the C09 development (Lexemes.v: elements P c / H digits term), so the
   per-class first-token theorems of LexemeFacts.v (`lexeme_wins`) apply to it; the value comes from
   EscapeEncFacts.escape_value_stable_lemma.  Nothing about the regexes is re-proved here.                      *)
From CssV Require Import Base Regex RegexFacts Gen.TokTables Gen.Productions Tokenizer TokenizerFacts.
From CssV Require Import Lexemes LexemeRegex LexemeFacts LexemeUri EscapeEnc EscapeEncFacts.

(* what one iteration of the tokenizer loop yields at the start of t: (type, value, length of the match) *)
Definition first_token (dc : bool) (prev : option N) (t : str) : option (str * str * nat) :=
  match try_prods productions dc false prev t with
  | Some (Step name found true) =>
      let '(n, f, v) := finish_token name found (skipn (length found) t) in Some (n, v, length f)
  | _ => None
  end.

Lemma is_hex_same c : EscapeEncFacts.is_hex c = Lexemes.is_hex c.
Proof.
  unfold EscapeEncFacts.is_hex, Lexemes.is_hex, hex_rs. cbn [in_ranges].
  destruct (N.leb 48 c && N.leb c 57), (N.leb 97 c && N.leb c 102), (N.leb 65 c && N.leb c 70); reflexivity.
Qed.

Section EscLexemes.
  Variable encc : N -> option (list N).
  Hypothesis Hasc : forall c, (c < 128)%N -> encodable encc c = true.
  Notation Esc := (escape_unenc encc).

  Definition esc_el (c : N) : el :=
    if encodable encc c then P c
    else match hexdigits true c with Some h => H h [32%N] | None => P c end.
  Definition esc_els (l : str) : list el := map esc_el l.

  Lemma Esc_app a b : Esc (a ++ b) = Esc a ++ Esc b.
  Proof. unfold escape_unenc. apply flat_map_app. Qed.

  Lemma Esc_ascii t : forallb (fun c => N.ltb c 128) t = true -> Esc t = t.
  Proof.
    induction t as [|c r IH]; intros H; [reflexivity|]. simpl in H. apply andb_true_iff in H as [Hc Hr].
    apply N.ltb_lt in Hc. unfold escape_unenc in *. cbn [flat_map]. rewrite (Hasc c Hc), (IH Hr). reflexivity.
  Qed.

  Lemma render_esc_el c : render_el (esc_el c) = if encodable encc c then [c] else esc_or_nil c.
  Proof.
    unfold esc_el. destruct (encodable encc c); [reflexivity|].
    destruct (esc_or_nil_shape c) as (h & Hh & ->). rewrite Hh. reflexivity.
  Qed.

  Lemma render_esc_els l : render (esc_els l) = Esc l.
  Proof.
    induction l as [|c r IH]; [reflexivity|]. unfold esc_els, render in *. cbn [map concat].
    rewrite render_esc_el, IH. reflexivity.
  Qed.

  Lemma wf_esc_el plain allow c nxt : plain c = true -> (c <= maxunicode)%N ->
    wf_el plain allow (esc_el c) nxt = true.
  Proof.
    intros Hp Hc. unfold esc_el. destruct (encodable encc c); [exact Hp|].
    destruct (hexdigits_spec true c) as (h & Hh & Hl1 & Hx & _). rewrite Hh.
    pose proof (hexdigits_len true c h Hc Hh) as Hl6. cbn [wf_el].
    rewrite !andb_true_iff. repeat split.
    - now apply Nat.leb_le. - now apply Nat.leb_le.
    - rewrite <- Hx. apply forallb_ext'. intros x. symmetry. apply is_hex_same.
  Qed.

  Lemma wf_esc_els plain allow l rest : forallb plain l = true -> valid l ->
    wf_els plain allow (esc_els l) rest = true.
  Proof.
    induction l as [|c r IH]; intros Hp Hv; [reflexivity|]. simpl in Hp. apply andb_true_iff in Hp as [Hc Hr].
    cbn [esc_els map wf_els]. fold (esc_els r). rewrite wf_esc_el, IH; auto.
    - intros x Hx. apply Hv. right. exact Hx.
    - apply Hv. left. reflexivity.
  Qed.

  Lemma nmchar_not_bs c : nmchar_plain c = true -> c <> 92%N.
  Proof. intros H ->. vm_compute in H. discriminate. Qed.
  Lemma nmstart_is_nmchar c : nmstart_plain c = true -> nmchar_plain c = true.
  Proof.
    unfold nmstart_plain, nmchar_plain, nmstart_rs, nmchar_rs. cbn [in_ranges].
    rewrite !orb_true_iff, !andb_true_iff, !N.leb_le. lia.
  Qed.
  Lemma no_bs_plain (plain : N -> bool) l : plain 92%N = false -> forallb plain l = true -> ~ In 92%N l.
  Proof. intros H92 H Hin. rewrite forallb_forall in H. apply H in Hin. congruence. Qed.

  (* ---- identifiers (shared by IDENT, ATKEYWORD, DIMENSION) ---- *)
  Definition ident_chars (d : bool) (c0 : N) (cs : str) : str := dash_text d ++ c0 :: cs.

  Lemma Esc_ident d c0 cs : Esc (ident_chars d c0 cs) = ident_text d (esc_el c0) (esc_els cs).
  Proof.
    unfold ident_chars, ident_text. rewrite Esc_app. f_equal.
    - destruct d; [apply Esc_ascii; reflexivity|reflexivity].
    - change (esc_el c0 :: esc_els cs) with (esc_els (c0 :: cs)). now rewrite render_esc_els.
  Qed.

  Lemma wf_ident_esc d c0 cs rest : nmstart_plain c0 = true -> forallb nmchar_plain cs = true ->
    valid (c0 :: cs) -> hd_not nm_cont rest = true -> wf_ident d (esc_el c0) (esc_els cs) rest = true.
  Proof.
    intros H0 Hcs Hv Hr. unfold wf_ident. rewrite wf_esc_el, wf_esc_els, Hr; auto.
    - intros x Hx. apply Hv. right. exact Hx.
    - apply Hv. left. reflexivity.
  Qed.

  Lemma ident_no_bs d c0 cs : nmstart_plain c0 = true -> forallb nmchar_plain cs = true -> ~ In 92%N (ident_chars d c0 cs).
  Proof.
    intros H0 Hcs Hin. unfold ident_chars in Hin. apply in_app_or in Hin as [Hin|[Hin|Hin]].
    - destruct d; simpl in Hin; [destruct Hin as [Hin|[]]; discriminate|destruct Hin].
    - subst c0. vm_compute in H0. discriminate.
    - revert Hin. apply (no_bs_plain nmchar_plain); [reflexivity|exact Hcs].
  Qed.

  Lemma valid_app a b : valid a -> valid b -> valid (a ++ b).
  Proof. intros Ha Hb x Hx. apply in_app_or in Hx as [Hx|Hx]; auto. Qed.
  Lemma valid_ascii t : forallb (fun c => N.ltb c 128) t = true -> valid t.
  Proof.
    intros H x Hx. rewrite forallb_forall in H. apply H, N.ltb_lt in Hx. unfold maxunicode. lia.
  Qed.
  Lemma valid_ident d c0 cs : valid (c0 :: cs) -> valid (ident_chars d c0 cs).
  Proof. intros H. apply valid_app; [apply valid_ascii; destruct d; reflexivity|exact H]. Qed.

  (* the generic step: a C09 lexeme whose text is the escaped spelling of l *)
  Lemma first_token_of lx l follow dc prev :
    text lx = Esc l -> ok_follow lx follow = true ->
    carries_text encc (cls lx) l -> ~ In 92%N l -> valid l ->
    first_token dc prev (Esc l ++ follow) = Some (cls lx, l, length (Esc l)).
  Proof.
    intros Ht Hok Hc Hn Hv. unfold first_token.
    pose proof (lexeme_wins lx follow Hok dc prev) as Hw. rewrite Ht in Hw. rewrite Hw.
    rewrite skipn_app_exact, (escape_value_stable_lemma encc (cls lx) l follow Hc Hn Hv). reflexivity.
  Qed.

  (* ---- IDENT ---- *)
  Theorem escaped_ident_first_token_lemma d c0 cs follow dc prev :
    nmstart_plain c0 = true -> forallb nmchar_plain cs = true -> valid (c0 :: cs) ->
    hd_not nm_cont follow = true -> hd_not (is_c 40) follow = true ->
    (d = true \/ (encodable encc c0 = true /\ c0 <> 85%N /\ c0 <> 117%N)) ->
    let l := ident_chars d c0 cs in
    first_token dc prev (Esc l ++ follow) = Some (s "IDENT", l, length (Esc l)).
  Proof.
    intros H0 Hcs Hv Hf Hp Hfirst l.
    apply (first_token_of (LIdent d (esc_el c0) (esc_els cs))).
    - symmetry. apply Esc_ident.
    - cbn [ok_follow]. rewrite wf_ident_esc, Hp by assumption. rewrite andb_true_r. cbn [andb].
      unfold first_plain_ok. destruct Hfirst as [->|(He & H1 & H2)]; [reflexivity|].
      unfold esc_el. rewrite He. apply N.eqb_neq in H1, H2. rewrite H1, H2. now destruct d.
    - left. reflexivity.
    - now apply ident_no_bs.
    - now apply valid_ident.
  Qed.

  (* any identifier (first character escaped, u, U included): C09's ident_lexeme_full needs only that neither
     an opening parenthesis nor a plus sign follows *)
  Theorem escaped_ident_first_token_full_lemma d c0 cs follow dc prev :
    nmstart_plain c0 = true -> forallb nmchar_plain cs = true -> valid (c0 :: cs) ->
    hd_not nm_cont follow = true -> hd_not (is_c 40) follow = true -> hd_not (is_c 43) follow = true ->
    let l := ident_chars d c0 cs in
    first_token dc prev (Esc l ++ follow) = Some (s "IDENT", l, length (Esc l)).
  Proof.
    intros H0 Hcs Hv Hf Hp Hplus l. unfold first_token.
    pose proof (ident_lexeme_full d (esc_el c0) (esc_els cs) follow (wf_ident_esc d c0 cs follow H0 Hcs Hv Hf) Hp Hplus dc prev) as Hw.
    cbn [text cls] in Hw. rewrite <- Esc_ident in Hw. fold l in Hw. rewrite Hw.
    rewrite skipn_app_exact, (escape_value_stable_lemma encc (s "IDENT") l follow); [reflexivity|left; reflexivity| |].
    - now apply ident_no_bs.
    - now apply valid_ident.
  Qed.

  (* ---- HASH ---- *)
  Theorem escaped_hash_first_token_lemma cs follow dc prev :
    cs <> [] -> forallb nmchar_plain cs = true -> valid cs -> hd_not nm_cont follow = true ->
    let l := 35%N :: cs in
    first_token dc prev (Esc l ++ follow) = Some (s "HASH", l, length (Esc l)).
  Proof.
    intros Hne Hcs Hv Hf l.
    apply (first_token_of (LHash (esc_els cs))).
    - cbn [text]. rewrite render_esc_els. unfold l. change (35%N :: cs) with ([35%N] ++ cs).
      rewrite Esc_app, (Esc_ascii [35%N]) by reflexivity. reflexivity.
    - cbn [ok_follow]. rewrite wf_esc_els, Hf by assumption. unfold esc_els. rewrite map_length.
      destruct cs; [congruence|reflexivity].
    - left. reflexivity.
    - intros [Hin|Hin]; [discriminate|]. revert Hin. apply (no_bs_plain nmchar_plain); [reflexivity|exact Hcs].
    - intros x [<-|Hx]; [vm_compute; discriminate|auto].
  Qed.

  (* ---- unknown ATKEYWORD ---- *)
  Theorem escaped_atkeyword_first_token_lemma d c0 cs follow dc prev :
    nmstart_plain c0 = true -> forallb nmchar_plain cs = true -> valid (c0 :: cs) ->
    hd_not nm_cont follow = true ->
    let l := 64%N :: ident_chars d c0 cs in
    assoc_str (normalize l) atkeywords = None -> eqs (Esc l) (s "@charset") = false ->
    first_token dc prev (Esc l ++ follow) = Some (s "ATKEYWORD", l, length (Esc l)).
  Proof.
    intros H0 Hcs Hv Hf l Hk Hc.
    assert (Hl : Esc l = 64%N :: ident_text d (esc_el c0) (esc_els cs)).
    { unfold l. change (64%N :: ident_chars d c0 cs) with ([64%N] ++ ident_chars d c0 cs).
      rewrite Esc_app, (Esc_ascii [64%N]), Esc_ident by reflexivity. reflexivity. }
    apply (first_token_of (LAt d (esc_el c0) (esc_els cs))).
    - cbn [text]. now rewrite Hl.
    - cbn [ok_follow]. rewrite wf_ident_esc by assumption. cbn [andb].
      rewrite Hl in Hc. change (s "@charset") with (64%N :: s "charset") in Hc. cbn [eqs] in Hc.
      rewrite N.eqb_refl in Hc. cbn [andb] in Hc. now rewrite Hc.
    - right. repeat split; assumption.
    - intros [Hin|Hin]; [discriminate|]. revert Hin. now apply ident_no_bs.
    - intros x [<-|Hx]; [vm_compute; discriminate|]. revert x Hx. now apply valid_ident.
  Qed.

  (* ---- DIMENSION ---- *)
  Lemma num_text_ascii n : wf_num n = true -> forallb (fun c => N.ltb c 128) (num_text n) = true.
  Proof.
    unfold wf_num, num_text. rewrite !andb_true_iff. intros [[Hs Hi] Hf].
    assert (Hd : forall t, forallb is_dig t = true -> forallb (fun c => N.ltb c 128) t = true).
    { intros t Ht. apply forallb_forall. intros x Hx. rewrite forallb_forall in Ht. apply Ht in Hx.
      unfold is_dig, dig_rs in Hx. cbn [in_ranges] in Hx. rewrite orb_false_r, andb_true_iff, !N.leb_le in Hx.
      apply N.ltb_lt. lia. }
    rewrite !forallb_app, (Hd _ Hi).
    assert (Hs' : forallb (fun c => N.ltb c 128) (nsign n) = true).
    { apply in_signs in Hs as [->|[->| ->]]; reflexivity. }
    rewrite Hs'. destruct (nfrac n) as [f|]; [|reflexivity].
    apply andb_true_iff in Hf as [_ Hf]. simpl. now rewrite (Hd _ Hf).
  Qed.

  Lemma num_text_no_bs n : wf_num n = true -> ~ In 92%N (num_text n).
  Proof.
    unfold wf_num, num_text. rewrite !andb_true_iff. intros [[Hs Hi] Hf] Hin.
    assert (Hd : forall t, forallb is_dig t = true -> ~ In 92%N t).
    { intros t Ht. apply (no_bs_plain is_dig); [reflexivity|exact Ht]. }
    apply in_app_or in Hin as [Hin|Hin].
    - apply in_signs in Hs as [Hs|[Hs|Hs]]; rewrite Hs in Hin; simpl in Hin; intuition discriminate.
    - apply in_app_or in Hin as [Hin|Hin]; [exact (Hd _ Hi Hin)|].
      destruct (nfrac n) as [f|]; [|destruct Hin]. apply andb_true_iff in Hf as [_ Hf].
      destruct Hin as [Hin|Hin]; [discriminate|exact (Hd _ Hf Hin)].
  Qed.

  Theorem escaped_dimension_first_token_lemma n d c0 cs follow dc prev :
    wf_num n = true -> nmstart_plain c0 = true -> forallb nmchar_plain cs = true -> valid (c0 :: cs) ->
    hd_not nm_cont follow = true ->
    let l := num_text n ++ ident_chars d c0 cs in
    first_token dc prev (Esc l ++ follow) = Some (s "DIMENSION", l, length (Esc l)).
  Proof.
    intros Hn H0 Hcs Hv Hf l. pose proof (num_text_ascii n Hn) as Ha.
    apply (first_token_of (LDim n d (esc_el c0) (esc_els cs))).
    - cbn [text]. unfold l. now rewrite Esc_app, (Esc_ascii _ Ha), Esc_ident.
    - cbn [ok_follow]. now rewrite Hn, wf_ident_esc.
    - left. reflexivity.
    - intros Hin. apply in_app_or in Hin as [Hin|Hin]; [|revert Hin; now apply ident_no_bs].
      exact (num_text_no_bs n Hn Hin).
    - apply valid_app; [now apply valid_ascii|now apply valid_ident].
  Qed.

  (* ---- STRING ---- *)
  Theorem escaped_string_first_token_lemma q body follow dc prev :
    q = 34%N \/ q = 39%N -> forallb (str_plain q) body = true -> valid body ->
    let l := q :: body ++ [q] in
    first_token dc prev (Esc l ++ follow) = Some (s "STRING", l, length (Esc l)).
  Proof.
    intros Hq Hb Hv l.
    assert (Hqa : forallb (fun c => N.ltb c 128) [q] = true) by (destruct Hq as [-> | ->]; reflexivity).
    apply (first_token_of (LStr q (esc_els body))).
    - cbn [text]. rewrite render_esc_els. unfold l. change (q :: body ++ [q]) with ([q] ++ body ++ [q]).
      now rewrite !Esc_app, (Esc_ascii _ Hqa).
    - cbn [ok_follow]. rewrite wf_esc_els by assumption. destruct Hq as [-> | ->]; reflexivity.
    - left. reflexivity.
    - intros [Hin|Hin]; [destruct Hq; subst q; discriminate|].
      apply in_app_or in Hin as [Hin|[Hin|[]]]; [|destruct Hq; subst q; discriminate].
      revert Hin. apply (no_bs_plain (str_plain q)); [|exact Hb].
      destruct Hq as [-> | ->]; reflexivity.
    - intros x [<-|Hx]; [destruct Hq as [-> | ->]; vm_compute; discriminate|].
      apply in_app_or in Hx as [Hx|[<-|[]]]; [auto|destruct Hq as [-> | ->]; vm_compute; discriminate].
  Qed.
  (* ---- COMMENT ---- *)
  Lemma esc_not_star c : forallb not_star (esc_or_nil c) = true.
  Proof.
    destruct (esc_or_nil_shape c) as (h & Hh & ->).
    destruct (hexdigits_spec true c) as (h' & Hh' & _ & Hx & _). rewrite Hh in Hh'. injection Hh' as <-.
    cbn [forallb]. rewrite forallb_app. cbn [forallb]. replace (forallb not_star h) with true; [reflexivity|].
    symmetry. apply forallb_forall. intros x Hin. rewrite forallb_forall in Hx. apply Hx in Hin.
    unfold not_star. destruct (N.eqb_spec x 42) as [->|]; [vm_compute in Hin; discriminate|reflexivity].
  Qed.

  Lemma Esc_not_star t : forallb not_star t = true -> forallb not_star (Esc t) = true.
  Proof.
    induction t as [|c r IH]; intros H; [reflexivity|]. simpl in H. apply andb_true_iff in H as [Hc Hr].
    change (Esc (c :: r)) with ((if encodable encc c then [c] else esc_or_nil c) ++ Esc r).
    rewrite forallb_app, (IH Hr), andb_true_r. destruct (encodable encc c); [simpl; now rewrite Hc|apply esc_not_star].
  Qed.

  Lemma Esc_stars n : Esc (stars n) = stars n.
  Proof. apply Esc_ascii. unfold stars. induction (S n); simpl; auto. Qed.

  Definition esc_group (g : cgroup) : cgroup :=
    if encodable encc (gc g) then {| gc := gc g; gseg := Esc (gseg g); gstars := gstars g |}
    else {| gc := 92%N; gseg := tl (esc_or_nil (gc g)) ++ Esc (gseg g); gstars := gstars g |}.

  Lemma esc_group_text g : group_text (esc_group g) = Esc (group_text g).
  Proof.
    unfold group_text, esc_group. change (gc g :: gseg g ++ stars (gstars g)) with ([gc g] ++ gseg g ++ stars (gstars g)).
    rewrite !Esc_app, Esc_stars.
    replace (Esc [gc g]) with (if encodable encc (gc g) then [gc g] else esc_or_nil (gc g))
      by (unfold escape_unenc; cbn [flat_map]; now rewrite app_nil_r).
    destruct (encodable encc (gc g)); cbn [gc gseg gstars]; [reflexivity|].
    destruct (esc_or_nil_shape (gc g)) as (h & _ & ->). cbn [tl]. now rewrite <- app_assoc.
  Qed.

  Lemma esc_group_wf g : wf_group g = true -> wf_group (esc_group g) = true.
  Proof.
    unfold wf_group, esc_group. rewrite !andb_true_iff. intros [[H1 H2] H3].
    destruct (encodable encc (gc g)); cbn [gc gseg].
    - rewrite H1, H2, (Esc_not_star _ H3). auto.
    - rewrite forallb_app, (Esc_not_star _ H3), andb_true_r. repeat split; try reflexivity.
      pose proof (esc_not_star (gc g)) as Hs. destruct (esc_or_nil (gc g)); [reflexivity|].
      simpl in Hs. apply andb_true_iff in Hs as [_ Hs]. exact Hs.
  Qed.

  Lemma Esc_groups gs : Esc (concat (map group_text gs)) = concat (map group_text (map esc_group gs)).
  Proof. induction gs as [|g r IH]; [reflexivity|]. cbn [map concat]. now rewrite Esc_app, esc_group_text, IH. Qed.

  Lemma Esc_comment seg0 st0 gs :
    Esc (text (LComment seg0 st0 gs)) = text (LComment (Esc seg0) st0 (map esc_group gs)).
  Proof.
    cbn [text]. change (47%N :: 42%N :: seg0 ++ stars st0 ++ concat (map group_text gs) ++ [47%N])
      with ([47%N; 42%N] ++ seg0 ++ stars st0 ++ concat (map group_text gs) ++ [47%N]).
    rewrite !Esc_app, Esc_stars, Esc_groups, (Esc_ascii [47%N; 42%N]), (Esc_ascii [47%N]) by reflexivity.
    reflexivity.
  Qed.

  Theorem escaped_comment_first_token_lemma seg0 st0 gs follow dc prev :
    forallb not_star seg0 = true -> forallb wf_group gs = true ->
    let l := text (LComment seg0 st0 gs) in ~ In 92%N l -> valid l ->
    first_token dc prev (Esc l ++ follow) = Some (s "COMMENT", l, length (Esc l)).
  Proof.
    intros Hs Hg l Hn Hv.
    apply (first_token_of (LComment (Esc seg0) st0 (map esc_group gs))).
    - symmetry. apply Esc_comment.
    - cbn [ok_follow]. rewrite (Esc_not_star _ Hs). cbn [andb].
      apply forallb_forall. intros g' Hin. apply in_map_iff in Hin as (g & <- & Hin).
      apply esc_group_wf. rewrite forallb_forall in Hg. auto.
    - left. reflexivity.
    - exact Hn.
    - exact Hv.
  Qed.
End EscLexemes.
