(* AtomicFacts.v -- soundness of the `eff` analysis and of `atomic` (C19). *)
From CssV Require Import Base Atomic.
Open Scope string_scope.
Open Scope list_scope.

Lemma memf_In f l : memf f l = true <-> In f l.
Proof.
  induction l as [|x r IH]; simpl; [split; [discriminate|tauto]|].
  rewrite orb_true_iff, String.eqb_eq, IH. tauto.
Qed.

Lemma union_In x a b : In x (union a b) <-> In x a \/ In x b.
Proof.
  induction a as [|y r IH]; simpl; [tauto|].
  destruct (memf y b) eqn:E.
  - rewrite IH. apply memf_In in E. split; [tauto|]. intros [[->|H]|H]; auto.
  - simpl. rewrite IH. tauto.
Qed.

Lemma union_incl_l a b : incl a (union a b).
Proof. intros x H. apply union_In. auto. Qed.
Lemma union_incl_r a b : incl b (union a b).
Proof. intros x H. apply union_In. auto. Qed.

Lemma union_app ws1 ws2 a b : incl ws1 a -> incl ws2 b -> incl (ws1 ++ ws2) (union a b).
Proof.
  intros H1 H2 x Hx. apply in_app_or in Hx. apply union_In. destruct Hx; [left; auto|right; auto].
Qed.

Lemma join_l a b x : a = Some x -> exists y, join a b = Some y /\ incl x y.
Proof.
  intros ->. destruct b as [z|]; simpl.
  - eexists; split; [reflexivity|apply union_incl_l].
  - eexists; split; [reflexivity|apply incl_refl].
Qed.

Lemma join_r a b x : b = Some x -> exists y, join a b = Some y /\ incl x y.
Proof.
  intros ->. destruct a as [z|]; simpl.
  - eexists; split; [reflexivity|apply union_incl_r].
  - eexists; split; [reflexivity|apply incl_refl].
Qed.

Lemma join_none a b : join a b = None -> a = None /\ b = None.
Proof. destruct a, b; simpl; intros H; try discriminate; auto. Qed.

(* the invariant: the outcome of an execution is reachable in the analysis and the may-set covers
   the fields it wrote *)
Definition covered (ro : bool) (s : script) (r : run) : Prop :=
  exists fs, sel (snd r) (eff ro s) = Some fs /\ incl (fst r) fs.

Lemma sel_seq_stop ra rb o fs :
  o <> ONormal -> sel o ra = Some fs -> exists y, sel o (seq_res ra rb) = Some y /\ incl fs y.
Proof.
  intros Ho H. unfold seq_res. destruct (rN ra) as [pre|] eqn:E.
  - destruct o; simpl in *; try congruence; eapply join_l; eauto.
  - destruct o; simpl in *; try congruence; eexists; split; eauto; apply incl_refl.
Qed.

Lemma sel_seq_go ra rb o pre fs ws1 ws2 :
  rN ra = Some pre -> incl ws1 pre -> sel o rb = Some fs -> incl ws2 fs ->
  exists y, sel o (seq_res ra rb) = Some y /\ incl (ws1 ++ ws2) y.
Proof.
  intros E H1 H2 H3. unfold seq_res. rewrite E.
  assert (A : after pre (sel o rb) = Some (union pre fs)) by (rewrite H2; reflexivity).
  destruct o; simpl in *.
  - rewrite H2. simpl. eexists; split; [reflexivity|]. now apply union_app.
  - destruct (join_r (rB ra) _ _ A) as [y [Hy Hi]]. exists y. split; [exact Hy|].
    eapply incl_tran; [|exact Hi]. now apply union_app.
  - destruct (join_r (rR ra) _ _ A) as [y [Hy Hi]]. exists y. split; [exact Hy|].
    eapply incl_tran; [|exact Hi]. now apply union_app.
  - destruct (join_r (rX ra) _ _ A) as [y [Hy Hi]]. exists y. split; [exact Hy|].
    eapply incl_tran; [|exact Hi]. now apply union_app.
Qed.

Definition loop_it (ra : res) : list field :=
  match join (rN ra) (rB ra) with None => [] | Some x => x end.

Lemma loop_it_covers ra o fs : o = ONormal \/ o = OBreak -> sel o ra = Some fs -> incl fs (loop_it ra).
Proof.
  intros [-> | ->] H; simpl in H; unfold loop_it.
  - destruct (join_l _ (rB ra) _ H) as [y [-> Hi]]. exact Hi.
  - destruct (join_r (rN ra) _ _ H) as [y [-> Hi]]. exact Hi.
Qed.

Lemma loop_sel_covers ro a o fs : sel o (eff ro (Loop a)) = Some fs -> incl (loop_it (eff ro a)) fs.
Proof.
  simpl. fold (loop_it (eff ro a)). destruct o; simpl.
  - intros H; inversion H; apply incl_refl.
  - discriminate.
  - destruct (rR (eff ro a)); simpl; intros H; inversion H. apply union_incl_l.
  - destruct (rX (eff ro a)); simpl; intros H; inversion H. apply union_incl_l.
Qed.

Theorem eff_sound ro s r : exec ro s r -> covered ro s r.
Proof.
  unfold covered. induction 1; simpl.
  - eexists; split; [reflexivity|apply incl_refl].
  - eexists; split; [reflexivity|apply incl_refl].
  - eexists; split; [reflexivity|apply incl_refl].
  - destruct ro; simpl; eexists; split; try reflexivity; apply incl_refl.
  - eexists; split; [reflexivity|apply incl_refl].
  - eexists; split; [reflexivity|apply incl_refl].
  - eexists; split; [reflexivity|apply incl_refl].
  - eexists; split; [reflexivity|apply incl_refl].
  - eexists; split; [reflexivity|apply incl_refl].
  - (* ESeqStop *)
    destruct IHexec as [fs [Hs Hi]]. simpl in *.
    destruct (sel_seq_stop _ (eff ro b) _ _ H0 Hs) as [y [Hy Hiy]].
    exists y. split; [exact Hy|]. eapply incl_tran; eauto.
  - (* ESeq *)
    destruct IHexec1 as [f1 [Hs1 Hi1]]. destruct IHexec2 as [f2 [Hs2 Hi2]]. simpl in *.
    eapply sel_seq_go; eauto.
  - (* EIfL *)
    destruct IHexec as [fs [Hs Hi]]. destruct r as [ws o]. simpl in *.
    destruct o; simpl in *.
    + destruct (join_l _ (rN (eff ro b)) _ Hs) as [y [Hy Hiy]]. exists y. split; [exact Hy|]. eapply incl_tran; eauto.
    + destruct (join_l _ (rB (eff ro b)) _ Hs) as [y [Hy Hiy]]. exists y. split; [exact Hy|]. eapply incl_tran; eauto.
    + destruct (join_l _ (rR (eff ro b)) _ Hs) as [y [Hy Hiy]]. exists y. split; [exact Hy|]. eapply incl_tran; eauto.
    + destruct (join_l _ (rX (eff ro b)) _ Hs) as [y [Hy Hiy]]. exists y. split; [exact Hy|]. eapply incl_tran; eauto.
  - (* EIfR *)
    destruct IHexec as [fs [Hs Hi]]. destruct r as [ws o]. simpl in *.
    destruct o; simpl in *.
    + destruct (join_r (rN (eff ro a)) _ _ Hs) as [y [Hy Hiy]]. exists y. split; [exact Hy|]. eapply incl_tran; eauto.
    + destruct (join_r (rB (eff ro a)) _ _ Hs) as [y [Hy Hiy]]. exists y. split; [exact Hy|]. eapply incl_tran; eauto.
    + destruct (join_r (rR (eff ro a)) _ _ Hs) as [y [Hy Hiy]]. exists y. split; [exact Hy|]. eapply incl_tran; eauto.
    + destruct (join_r (rX (eff ro a)) _ _ Hs) as [y [Hy Hiy]]. exists y. split; [exact Hy|]. eapply incl_tran; eauto.
  - (* ELoopDone *)
    eexists; split; [reflexivity|]. intros x [].
  - (* ELoopBreak *)
    destruct IHexec as [fs [Hs Hi]]. simpl in *.
    eexists; split; [reflexivity|]. fold (loop_it (eff ro a)).
    eapply incl_tran; [exact Hi|]. eapply loop_it_covers; [right; reflexivity|exact Hs].
  - (* ELoopStop *)
    destruct IHexec as [fs [Hs Hi]]. simpl in *. fold (loop_it (eff ro a)).
    destruct H0 as [-> | ->]; simpl in *; rewrite Hs; simpl;
      (eexists; split; [reflexivity|]; eapply incl_tran; [exact Hi|apply union_incl_r]).
  - (* ELoopStep *)
    destruct IHexec1 as [f1 [Hs1 Hi1]]. destruct IHexec2 as [f2 [Hs2 Hi2]]. simpl fst in *. simpl snd in *.
    exists f2. split; [exact Hs2|].
    pose proof (loop_it_covers _ _ _ H0 Hs1) as C1.
    pose proof (loop_sel_covers _ _ _ _ Hs2) as C2.
    intros x Hx. apply in_app_or in Hx. destruct Hx as [Hx|Hx]; [apply C2, C1, Hi1, Hx|apply Hi2, Hx].
  - (* EScopeRet *)
    destruct IHexec as [fs [Hs Hi]]. simpl in *.
    destruct (join_r (rN (eff ro a)) _ _ Hs) as [y [Hy Hiy]]. exists y. split; [exact Hy|]. eapply incl_tran; eauto.
  - (* EScope *)
    destruct IHexec as [fs [Hs Hi]]. simpl in *.
    destruct o; simpl in *; try congruence.
    + destruct (join_l _ (rR (eff ro a)) _ Hs) as [y [Hy Hiy]]. exists y. split; [exact Hy|]. eapply incl_tran; eauto.
    + exists fs; auto.
    + exists fs; auto.
Qed.

Lemma clean_nil a fs : clean a = true -> a = Some fs -> fs = [].
Proof. intros H ->. destruct fs; [reflexivity|discriminate]. Qed.

(* C19 core: an atomic script never writes to the object in an execution that raises *)
Theorem atomic_sound s :
  atomic s = true -> forall ro tr, exec ro s tr -> raises tr -> written tr = [].
Proof.
  unfold atomic, raises, written. intros Ha ro [ws o] He Hr. cbn [fst snd] in *. subst o.
  apply andb_true_iff in Ha as [Hf Ht].
  destruct (eff_sound _ _ _ He) as [fs [Hs Hi]]. cbn [fst snd sel] in *.
  assert (fs = []) as ->.
  { destruct ro; [eapply clean_nil; [exact Ht|exact Hs]|eapply clean_nil; [exact Hf|exact Hs]]. }
  destruct ws as [|x ws]; [reflexivity|]. exfalso. apply (Hi x). now left.
Qed.

(* refinement used by the correspondence: whatever a rejected assignment wrote is in raise_fields *)
Theorem raise_fields_sound s ro tr :
  exec ro s tr -> raises tr -> incl (written tr) (raise_fields s).
Proof.
  unfold raises, written, raise_fields. intros He Hr. destruct tr as [ws o]. cbn [fst snd] in *. subst o.
  destruct (eff_sound _ _ _ He) as [fs [Hs Hi]]. cbn [fst snd sel] in *.
  eapply incl_tran; [exact Hi|].
  destruct ro; rewrite Hs; cbn [fields_of]; [apply union_incl_r|apply union_incl_l].
Qed.

(* a setter that is not atomic has, in the analysis, a named field that may be written before a raise;
   `refuted_path` turns such a verdict into a concrete execution for scripts where one exists *)
Definition has_dirty_raise (s : script) : Prop :=
  exists ro ws, exec ro s (ws, ORaise) /\ ws <> [].

(* ---------------------------------------------------------------- small executable path search,
   used to exhibit the violating execution of a refuted script (witness for `script_X_refuted`).
   paths n s : the runs of s that take each loop at most n times                               *)
(* keep one run per (outcome, wrote-something?) class: the enumeration stays linear in the script *)
Definition okey (o : outcome) : nat := match o with ONormal => 0 | OBreak => 1 | OReturn => 2 | ORaise => 3 end.
Definition rkey (r : run) : nat := (okey (snd r) * 2 + match fst r with [] => 0 | _ => 1 end)%nat.

Fixpoint prune_aux (seen : list nat) (l : list run) : list run :=
  match l with
  | [] => []
  | r :: t => if existsb (Nat.eqb (rkey r)) seen then prune_aux seen t
              else r :: prune_aux (rkey r :: seen) t
  end.
Definition prune := prune_aux [].

Lemma prune_aux_In seen l r : In r (prune_aux seen l) -> In r l.
Proof.
  revert seen. induction l as [|x t IH]; simpl; intros seen H; [auto|].
  destruct (existsb (Nat.eqb (rkey x)) seen).
  - right. eapply IH; eauto.
  - destruct H as [->|H]; [now left|right; eapply IH; eauto].
Qed.
Lemma prune_In l r : In r (prune l) -> In r l.
Proof. apply prune_aux_In. Qed.

Fixpoint loop_paths (body : list run) (k : nat) : list run :=
  match k with
  | O => [([], ONormal)]
  | S k' =>
      prune (([], ONormal) ::
             flat_map (fun ra : run => match snd ra with
                                 | ONormal => map (fun rb : run => (fst ra ++ fst rb, snd rb)) (loop_paths body k')
                                 | OBreak => [(fst ra, ONormal)]
                                 | _ => [ra] end) body)
  end.

Fixpoint paths (ro : bool) (n : nat) (s : script) : list run :=
  match s with
  | Skip => [([], ONormal)]
  | Check | CallTemp => [([], ONormal); ([], ORaise)]
  | CheckRO => [([], if ro then ORaise else ONormal)]
  | Return => [([], OReturn)]
  | Break => [([], OBreak)]
  | WriteSelf f => [([f], ONormal)]
  | Seq a b =>
      prune (flat_map (fun ra : run => match snd ra with
                          | ONormal => map (fun rb : run => (fst ra ++ fst rb, snd rb)) (paths ro n b)
                          | _ => [ra] end) (paths ro n a))
  | If a b => prune (paths ro n a ++ paths ro n b)
  | Loop a => loop_paths (paths ro n a) n
  | Scope a => map (fun ra : run => match snd ra with OReturn => (fst ra, ONormal) | _ => ra end) (paths ro n a)
  end.

Lemma loop_paths_sound ro a body k r :
  (forall x, In x body -> exec ro a x) -> In r (loop_paths body k) -> exec ro (Loop a) r.
Proof.
  intros Hb. revert r. induction k as [|k IHk]; intros r H; cbn [loop_paths] in H.
  - destruct H as [<-|[]]. constructor.
  - apply prune_In in H. destruct H as [<-|H]; [constructor|].
    apply in_flat_map in H as [[ws1 o1] [H1 H2]]. simpl in H2. apply Hb in H1.
    destruct o1; simpl in H2.
    + apply in_map_iff in H2 as [[ws2 o2] [<- H2]]. apply IHk in H2. simpl.
      eapply ELoopStep; eauto.
    + destruct H2 as [<-|[]]. simpl. now apply ELoopBreak.
    + destruct H2 as [<-|[]]. apply ELoopStop; auto.
    + destruct H2 as [<-|[]]. apply ELoopStop; auto.
Qed.

Lemma paths_sound ro n s r : In r (paths ro n s) -> exec ro s r.
Proof.
  revert r. induction s; cbn [paths]; intros r H.
  - destruct H as [<-|[]]; constructor.
  - destruct H as [<-|[<-|[]]]; constructor.
  - destruct H as [<-|[]]; constructor.
  - destruct H as [<-|[<-|[]]]; constructor.
  - destruct H as [<-|[]]; constructor.
  - destruct H as [<-|[]]; constructor.
  - destruct H as [<-|[]]; constructor.
  - apply prune_In in H. apply in_flat_map in H as [[ws1 o1] [H1 H2]]. simpl in H2.
    apply IHs1 in H1.
    destruct o1; simpl in H2.
    + apply in_map_iff in H2 as [[ws2 o2] [<- H2]]. apply IHs2 in H2. simpl. eapply ESeq; eauto.
    + destruct H2 as [<-|[]]. apply ESeqStop; [auto|discriminate].
    + destruct H2 as [<-|[]]. apply ESeqStop; [auto|discriminate].
    + destruct H2 as [<-|[]]. apply ESeqStop; [auto|discriminate].
  - apply prune_In in H. apply in_app_or in H as [H|H]; [apply EIfL|apply EIfR]; auto.
  - eapply loop_paths_sound; eauto.
  - apply in_map_iff in H as [[ws o] [<- H]]. apply IHs in H. destruct o; simpl.
    + apply EScope; [auto|discriminate].
    + apply EScope; [auto|discriminate].
    + now apply EScopeRet.
    + apply EScope; [auto|discriminate].
Qed.

(* first run of the bounded enumeration that raises after a write *)
Definition dirty_raise (r : run) : bool :=
  match r with (_ :: _, ORaise) => true | _ => false end.

Fixpoint find_run (l : list run) : option run :=
  match l with [] => None | r :: t => if dirty_raise r then Some r else find_run t end.

Lemma find_run_In l r : find_run l = Some r -> In r l /\ dirty_raise r = true.
Proof.
  induction l as [|x t IH]; simpl; [discriminate|].
  destruct (dirty_raise x) eqn:E.
  - intros H; inversion H; subst. auto.
  - intros H. destruct (IH H). auto.
Qed.

Theorem refuted_by_path s ro n r :
  find_run (paths ro n s) = Some r -> has_dirty_raise s.
Proof.
  intros H. apply find_run_In in H as [Hin Hd]. apply paths_sound in Hin.
  destruct r as [[|f ws] o]; simpl in Hd; try discriminate. destruct o; try discriminate.
  exists ro, (f :: ws). split; [exact Hin|discriminate].
Qed.

(* a refuted script is indeed not atomic (consistency of the two notions) *)
Theorem dirty_raise_not_atomic s : has_dirty_raise s -> atomic s = false.
Proof.
  intros [ro [ws [He Hne]]]. destruct (atomic s) eqn:E; [|reflexivity].
  exfalso. apply Hne. exact (atomic_sound s E ro (ws, ORaise) He eq_refl).
Qed.
