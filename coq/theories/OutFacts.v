(* OutFacts.v -- proofs about OutModel.v (property C05) *)
From CssV Require Import Base Gen.PyTables Gen.Prefs OutModel.

(* ------------------------------------------------------------------ whitespace *)
Definition css_ws (c : N) : bool := mem c [32; 9; 10; 13; 12]%N.        (* CSS whitespace: space \t \n \r \f *)
Definition ws_only (t : str) : bool := forallb css_ws t.

(* the hypothesis of the property's quantifier: every spacer-like preference is whitespace-only ('' included) *)
Definition ws_prefs (p : prefs) : bool :=
  ws_only p.(spacer) && ws_only p.(listItemSpacer) && ws_only p.(propertyNameSpacer) &&
  ws_only p.(paranthesisSpacer) && ws_only p.(selectorCombinatorSpacer) && ws_only p.(lineSeparator) &&
  ws_only p.(indent) && ws_only p.(linesAfterRules).

Lemma css_ws_py c : css_ws c = true -> py_ws c = true.
Proof.
  unfold css_ws; cbn [mem]. intros H.
  repeat (apply orb_true_iff in H; destruct H as [H|H]); try discriminate;
    apply N.eqb_eq in H; subst; vm_compute; reflexivity.
Qed.

Lemma ws_only_pyblank t : ws_only t = true -> forallb py_ws t = true.
Proof.
  unfold ws_only. rewrite !forallb_forall. intros H x Hx. apply css_ws_py. auto.
Qed.

(* ------------------------------------------------------------------ what a call of append can do to self.out *)
Definition pyblank (c : chunk) : Prop := forallb py_ws (snd c) = true.
Definition nonblank (c : chunk) : Prop := forallb py_ws (snd c) = false.

Inductive stripped1 : list chunk -> list chunk -> Prop :=
  | st_same r : stripped1 r r
  | st_drop c r : pyblank c -> stripped1 (c :: r) r.

Lemma linesep_strip_py c : mem c lit_linesep_strip = true -> py_ws c = true.
Proof.
  unfold lit_linesep_strip; cbn [mem]. intros H.
  repeat (apply orb_true_iff in H; destruct H as [H|H]); try discriminate;
    apply N.eqb_eq in H; subst; vm_compute; reflexivity.
Qed.

Lemma remove_last_stripped sp rout :
  sp = None \/ sp = Some lit_linesep_strip -> stripped1 rout (remove_last_if_S sp rout).
Proof.
  intros Hsp. destruct rout as [|[tg t] r]; simpl; [constructor|].
  destruct (blank sp t) eqn:Hb; [|constructor].
  apply st_drop. unfold pyblank; simpl.
  destruct Hsp as [-> | ->]; unfold blank in Hb; [exact Hb|].
  rewrite forallb_forall in *. intros x Hx. apply linesep_strip_py. auto.
Qed.

Ltac head_split :=
  repeat match goal with
         | |- (if ?b then _ else _) = _ -> _ => destruct b eqn:?
         | |- (match ?x with _ => _ end) = _ -> _ => destruct x eqn:?
         end.

Lemma pre_stripped p rout it v r : pre p rout it = PVal v r -> stripped1 rout r.
Proof.
  unfold pre; cbv zeta. head_split; intros H; inversion H; subst;
    try (destruct (is_nil (spacer p)));
    first [apply st_same | apply remove_last_stripped; auto].
Qed.

Lemma app_strip_stripped p it v r : stripped1 r (app_strip p it v r).
Proof.
  unfold app_strip. destruct (_ || _); [constructor|].
  destruct (ends_with _ _); [|constructor]. apply remove_last_stripped; auto.
Qed.

Lemma append_inv p lvl n rout it r' :
  append p lvl n rout it = Some r' ->
  (pre p rout it = PSkip /\ r' = rout) \/
  exists v r1 before after,
    pre p rout it = PVal v r1 /\ post p it v = (before, after) /\
    r' = rev (seps after) ++ (Some n, app_text p lvl it v) :: rev (seps before) ++ app_strip p it v r1.
Proof.
  unfold append. destruct (pre p rout it) as [| |v r1] eqn:Hp; intros H; [left|discriminate|right].
  - inversion H; auto.
  - destruct (post p it v) as [before after] eqn:Hq. inversion H; subst. eauto 10.
Qed.

(* a non-blank element of self.out and everything before it are never touched again *)
Lemma stripped1_keeps Q c P r :
  nonblank c -> stripped1 (Q ++ c :: P) r -> exists Q', r = Q' ++ c :: P.
Proof.
  intros Hc H. inversion H as [x|x y Hx]; subst.
  - eauto.
  - destruct Q as [|q Q]; simpl in *.
    + inversion H0; subst. unfold pyblank, nonblank in *. congruence.
    + inversion H0; subst. eauto.
Qed.

Lemma append_keeps p lvl n Q c P it r' :
  nonblank c -> append p lvl n (Q ++ c :: P) it = Some r' -> exists Q', r' = Q' ++ c :: P.
Proof.
  intros Hc H. apply append_inv in H. destruct H as [[_ ->]|(v & r1 & before & after & Hp & _ & ->)]; [eauto|].
  apply pre_stripped in Hp. destruct (stripped1_keeps _ _ _ _ Hc Hp) as [Q1 ->].
  destruct (stripped1_keeps _ _ _ _ Hc (app_strip_stripped p it v (Q1 ++ c :: P))) as [Q2 ->].
  exists (rev (seps after) ++ (Some n, app_text p lvl it v) :: rev (seps before) ++ Q2).
  rewrite <- !app_assoc. simpl. rewrite <- !app_assoc. reflexivity.
Qed.

Lemma run_keeps p lvl items : forall n Q c P final,
  nonblank c -> run_from p lvl n (Q ++ c :: P) items = Some final -> exists Q', final = Q' ++ c :: P.
Proof.
  induction items as [|it r IH]; simpl; intros n Q c P final Hc H.
  - inversion H; eauto.
  - destruct (append p lvl n (Q ++ c :: P) it) as [r'|] eqn:Ha; [|discriminate].
    destruct (append_keeps _ _ _ _ _ _ _ _ Hc Ha) as [Q' ->]. eapply IH; eauto.
Qed.

(* ------------------------------------------------------------------ the guards of out_separation *)
(* a: the POST chain reaches the fall-back at 304-308 and takes it (an ordinary value: space=True, not FUNCTION,
   not one of the punctuation values that have their own spacer preference), and the fall-back really leaves
   something (a STRING gets no forced blank when prefs.spacer is empty) *)
Definition fallback_branch (p : prefs) (a : item) (v : str) : bool :=
  negb (a.(ialwaysS) && is_sub v lit_calc_ops) && negb (is_sub v lit_comb) &&
  negb (eqs lit_funcend v && negb a.(ikeepS)) && negb (eqs lit_comma v) && negb (eqs lit_colon v) &&
  negb (eqs lit_openbrace v) && negb (eqs lit_semicolon v || ty_is lit_ty_styletext a.(ity)) &&
  (negb (is_sub v lit_nospace) && a.(ispace) && negb (ty_is lit_ty_FUNCTION a.(ity))).

Definition leaves_sep (p : prefs) (a : item) (v : str) : bool :=
  fallback_branch p a v && (negb (ty_is lit_ty_STRING2 a.(ity)) || negb (is_nil p.(spacer))).

(* b: appended after a single blank, b leaves that blank in place (it is not one of '+>~,:{;)]/=}', not the line
   separator, not a STRING under an empty spacer, and its text does not end with a space) *)
Definition probe : list chunk := [(None, [32%N])].
Definition keeps_sep (p : prefs) (b : item) : bool :=
  match pre p probe b with
  | PVal v r => (Nat.eqb (length r) 1) && (Nat.eqb (length (app_strip p b v r)) 1)
  | _ => false
  end.

Definition sep_ok (M : list chunk) : Prop :=
  Forall (fun c => fst c = None /\ ws_only (snd c) = true) M /\
  existsb (fun c => negb (is_nil (snd c))) M = true.

Lemma probe_None : remove_last_if_S None probe = [].
Proof. vm_compute. reflexivity. Qed.
Lemma probe_tab : remove_last_if_S (Some lit_linesep_strip) probe = [].
Proof. vm_compute. reflexivity. Qed.

Lemma pre_probe p b v r :
  pre p probe b = PVal v r -> length r = 1%nat -> forall R, pre p R b = PVal v R.
Proof.
  unfold pre; cbv zeta. intros H Hl R. revert H.
  head_split; try (destruct (is_nil (spacer p))); intros H; inversion H; subst; try reflexivity;
    try (simpl in Hl; discriminate Hl);
    try (rewrite probe_None in Hl; discriminate); try (rewrite probe_tab in Hl; discriminate).
Qed.

Lemma app_strip_probe p b v :
  length (app_strip p b v probe) = 1%nat -> forall R, app_strip p b v R = R.
Proof.
  unfold app_strip. destruct (_ || _); [reflexivity|].
  destruct (ends_with _ _); [|reflexivity]. rewrite probe_None. discriminate.
Qed.

Lemma keeps_sep_spec p b :
  keeps_sep p b = true ->
  exists v, forall R, pre p R b = PVal v R /\ app_strip p b v R = R.
Proof.
  unfold keeps_sep. destruct (pre p probe b) as [| |v r] eqn:Hp; try discriminate.
  intros H. apply andb_true_iff in H as [H1 H2]. apply Nat.eqb_eq in H1, H2.
  exists v. intros R. pose proof (pre_probe _ _ _ _ Hp H1) as Hall. split; [apply Hall|].
  apply app_strip_probe. rewrite (Hall probe) in Hp. inversion Hp; subst. exact H2.
Qed.

Lemma ws_prefs_fields p : ws_prefs p = true ->
  ws_only p.(spacer) = true /\ ws_only p.(listItemSpacer) = true /\ ws_only p.(propertyNameSpacer) = true /\
  ws_only p.(paranthesisSpacer) = true /\ ws_only p.(selectorCombinatorSpacer) = true /\
  ws_only p.(lineSeparator) = true.
Proof.
  unfold ws_prefs. intros H. repeat (apply andb_true_iff in H; destruct H as [H ?]). tauto.
Qed.

Lemma post_before_ws p it v before after :
  ws_prefs p = true -> post p it v = (before, after) -> Forall (fun t => ws_only t = true) before.
Proof.
  intros Hw. destruct (ws_prefs_fields p Hw) as (H1 & H2 & H3 & H4 & H5 & H6).
  unfold post; cbv zeta. head_split; intros H; inversion H; subst; repeat constructor; try assumption.
  all: try discriminate.
  all: destruct (ty_is lit_ty_CHAR (ity it) && is_nil (selectorCombinatorSpacer p)); [vm_compute; reflexivity|assumption].
Qed.

Lemma leaves_sep_after p a v before after :
  ws_prefs p = true -> leaves_sep p a v = true -> post p a v = (before, after) ->
  Forall (fun t => ws_only t = true) after /\ existsb (fun t => negb (is_nil t)) after = true.
Proof.
  intros Hw Hl. destruct (ws_prefs_fields p Hw) as (H1 & _).
  unfold leaves_sep in Hl. apply andb_true_iff in Hl as [Hf Hs]. unfold fallback_branch in Hf.
  apply andb_true_iff in Hf as [Hf H8]. apply andb_true_iff in Hf as [Hf H7].
  apply andb_true_iff in Hf as [Hf H6]. apply andb_true_iff in Hf as [Hf H5].
  apply andb_true_iff in Hf as [Hf H4]. apply andb_true_iff in Hf as [Hf H3].
  apply andb_true_iff in Hf as [Hf H2].
  apply negb_true_iff in Hf, H2, H3, H4, H5, H6, H7.
  unfold post; cbv zeta. rewrite Hf, H2, H3, H4, H5, H6, H7, H8. cbv beta iota.
  intros Hq; inversion Hq; subst; clear Hq.
  destruct (spacer p) as [|c sp] eqn:Hsp.
  - destruct (ty_is lit_ty_STRING2 (ity a)) eqn:Hst; [simpl in Hs; discriminate|].
    simpl. split; [repeat constructor|reflexivity].
  - simpl is_nil. rewrite andb_false_r. simpl. split; [repeat constructor; assumption|reflexivity].
Qed.

Lemma seps_sep_ok l :
  Forall (fun t => ws_only t = true) l -> Forall (fun c : chunk => fst c = None /\ ws_only (snd c) = true) (rev (seps l)).
Proof.
  intros H. apply Forall_rev. unfold seps. apply Forall_forall. intros c Hc.
  apply in_map_iff in Hc as (t & <- & Ht). simpl. split; [reflexivity|].
  rewrite Forall_forall in H. auto.
Qed.

Lemma existsb_rev {A} (f : A -> bool) l : existsb f (rev l) = existsb f l.
Proof.
  induction l as [|x r IH]; simpl; [reflexivity|].
  rewrite existsb_app, IH. simpl. rewrite orb_false_r. apply orb_comm.
Qed.

Lemma run_skips p lvl skipped : forall n rout rest,
  Forall (fun i => forall r, pre p r i = PSkip) skipped ->
  run_from p lvl n rout (skipped ++ rest) = run_from p lvl (n + length skipped) rout rest.
Proof.
  induction skipped as [|i sk IH]; simpl; intros n rout rest H.
  - rewrite Nat.add_0_r. reflexivity.
  - inversion H; subst. unfold append at 1. rewrite H2. rewrite IH by assumption.
    f_equal. lia.
Qed.

(* ------------------------------------------------------------------ out_separation *)
Theorem out_separation_lemma :
  forall p lvl n rout a va rout1 skipped b rest final,
    ws_prefs p = true ->
    pre p rout a = PVal va rout1 ->                                   (* a is written, with text va *)
    leaves_sep p a va = true ->
    Forall (fun i => forall r, pre p r i = PSkip) skipped ->          (* items that write nothing *)
    keeps_sep p b = true ->
    (forall vb, pre p [] b = PVal vb [] -> nonblank (None, app_text p lvl b vb)) ->   (* b's text is not blank *)
    run_from p lvl n rout (a :: skipped ++ b :: rest) = Some final ->
    exists vb R M L,
      pre p [] b = PVal vb [] /\
      final = R ++ (Some (S n + length skipped)%nat, app_text p lvl b vb) :: M ++
                   (Some n, app_text p lvl a va) :: L /\
      sep_ok M.
Proof.
  intros p lvl n rout a va rout1 skipped b rest final Hw Hpa Hl Hsk Hk Hnb Hrun.
  simpl in Hrun. unfold append at 1 in Hrun. rewrite Hpa in Hrun.
  destruct (post p a va) as [before_a after_a] eqn:Hqa.
  rewrite run_skips in Hrun by assumption. simpl in Hrun.
  destruct (keeps_sep_spec p b Hk) as [vb Hb].
  unfold append at 1 in Hrun.
  match type of Hrun with context [pre p ?R b] => destruct (Hb R) as [Hpb Hsb]; rewrite Hpb, Hsb in Hrun end.
  destruct (post p b vb) as [before_b after_b] eqn:Hqb.
  destruct (Hb []) as [Hpb0 _].
  specialize (Hnb vb Hpb0).
  match type of Hrun with
    run_from _ _ _ (?Q ++ ?c :: ?B ++ ?A ++ ?ca :: ?L) _ = _ =>
    change (Q ++ c :: B ++ A ++ ca :: L) with (Q ++ c :: (B ++ A ++ ca :: L)) in Hrun;
    destruct (run_keeps p lvl rest _ Q c (B ++ A ++ ca :: L) final Hnb Hrun) as [R ->];
    exists vb, R, (B ++ A), L
  end.
  split; [assumption|]. split.
  - rewrite <- app_assoc. reflexivity.
  - destruct (leaves_sep_after _ _ _ _ _ Hw Hl Hqa) as [Hall Hex].
    split.
    + apply Forall_app. split; apply seps_sep_ok; [eapply post_before_ws; eauto|assumption].
    + rewrite existsb_app. apply orb_true_iff. right.
      rewrite existsb_rev. unfold seps. clear -Hex.
      induction after_a as [|t r IH]; simpl in *; [discriminate|].
      apply orb_true_iff in Hex as [H|H]; [rewrite H; reflexivity|rewrite IH by assumption; apply orb_true_r].
Qed.

(* ------------------------------------------------------------------ prefs_total at the skeleton level *)
Definition plainish (it : item) : Prop := exists t, it.(ival) = VStr t /\ it.(ity) = None.

Lemma append_plain_some p lvl n rout it : plainish it -> append p lvl n rout it <> None.
Proof.
  intros (t & Hv & Ht). unfold append, pre. rewrite Hv, Ht. cbv zeta. cbn [ty_is andb orb].
  rewrite !orb_false_r. destruct (truthy (VStr t)); [|discriminate].
  destruct (is_sub t lit_strip_chars && negb (ialwaysS it)).
  - destruct (post p it t); discriminate.
  - destruct (eqs t (lineSeparator p) && negb (ialwaysS it)); destruct (post p it t); discriminate.
Qed.

Lemma run_plain_some p lvl items : forall n rout,
  Forall plainish items -> run_from p lvl n rout items <> None.
Proof.
  induction items as [|it r IH]; simpl; intros n rout H; [discriminate|].
  inversion H; subst.
  destruct (append p lvl n rout it) eqn:Ha; [apply IH; assumption|].
  exfalso. eapply append_plain_some; eauto.
Qed.

Lemma do_fontface_some p lvl kw wf ds : do_fontface p lvl kw wf ds <> None.
Proof.
  unfold do_fontface. destruct (_ && _); [|discriminate].
  unfold out_text, run.
  match goal with |- context [run_from p lvl 0 [] ?l] =>
    assert (H : run_from p lvl 0 [] l <> None) by
      (apply run_plain_some; repeat constructor; eexists; split; reflexivity);
    destruct (run_from p lvl 0 [] l); [discriminate|congruence]
  end.
Qed.

Section RuleInd.
  Variable P : rule -> Prop.
  Hypothesis Hc : forall t, P (RComment t).
  Hypothesis Hs : forall a b c, P (RStyle a b c).
  Hypothesis Hm : forall kw mq wf rs, Forall P rs -> P (RMedia kw mq wf rs).
  Hypothesis Hf : forall a b c, P (RFontFace a b c).
  Hypothesis Hn : forall a b c d, P (RNamespace a b c d).
  Hypothesis Hu : forall a b c d, P (RUnknown a b c d).
  Hypothesis Ho : forall t, P (ROther t).
  Fixpoint rule_ind' (r : rule) : P r :=
    match r with
    | RComment t => Hc t
    | RStyle a b c => Hs a b c
    | RMedia kw mq wf rs =>
      Hm kw mq wf rs ((fix go (l : list rule) : Forall P l :=
                         match l with [] => Forall_nil P | x :: l' => Forall_cons x (rule_ind' x) (go l') end) rs)
    | RFontFace a b c => Hf a b c
    | RNamespace a b c d => Hn a b c d
    | RUnknown a b c d => Hu a b c d
    | ROther t => Ho t
    end.
End RuleInd.

Lemma do_rule_some p : forall r lvl, do_rule p lvl r <> None.
Proof.
  induction r using rule_ind'; intros lvl; simpl; try discriminate.
  - destruct (negb wf); [discriminate|].
    match goal with |- (match ?e with _ => _ end) <> None => assert (Hg : e <> None) end.
    { clear -H. induction rs as [|r rs IH]; [discriminate|].
      inversion H; subst. cbn fix beta iota. cbn match.
      destruct (do_rule p lvl r) eqn:Hr; [|exfalso; eapply H2; eauto].
      match goal with |- (match ?e with _ => _ end) <> None => destruct e eqn:Hgr end; [discriminate|].
      exfalso. apply IH; auto. }
    match goal with |- (match ?e with _ => _ end) <> None => destruct e end; [|congruence].
    destruct (_ && _); discriminate.
  - apply do_fontface_some.
Qed.

Theorem prefs_total_lemma p rs : do_sheet p rs <> None.
Proof.
  unfold do_sheet. assert (H : sheet_out p rs <> None).
  { induction rs as [|r rs IH]; simpl; [discriminate|].
    destruct (ns_dropped p r); [assumption|].
    destruct (do_rule p 0 r) eqn:Hr; [|exfalso; eapply do_rule_some; eauto].
    destruct (sheet_out p rs); [discriminate|congruence]. }
  destruct (sheet_out p rs); [discriminate|congruence].
Qed.

(* ------------------------------------------------------------------ omissions_exact at the skeleton level *)
Definition rule_text (p : prefs) (r : rule) : str :=
  match do_rule p 0 r with Some t => t | None => [] end.

(* the rules that reach the output are, in order, exactly those that are not an unused @namespace rule under
   keepUsedNamespaceRulesOnly and whose own serialisation is not empty; nothing is added, repeated or reordered *)
Theorem omissions_exact_lemma p rs l :
  sheet_out p rs = Some l ->
  map fst l = filter (fun r => negb (ns_dropped p r) && negb (is_nil (rule_text p r))) rs /\
  Forall (fun rt => snd rt = rule_text p (fst rt) ++ p.(linesAfterRules)) l.
Proof.
  revert l. induction rs as [|r rs IH]; simpl; intros l H.
  - inversion H; subst. split; constructor.
  - destruct (ns_dropped p r) eqn:Hd; simpl; [apply IH; assumption|].
    unfold rule_text at 1. destruct (do_rule p 0 r) as [t|] eqn:Hr; [|discriminate].
    destruct (sheet_out p rs) as [l'|]; [|discriminate].
    destruct (IH l' eq_refl) as [IH1 IH2].
    destruct (is_nil t) eqn:Hn; inversion H; subst; simpl.
    + split; assumption.
    + split; [f_equal; assumption|]. constructor; [|assumption]. simpl. unfold rule_text. rewrite Hr. reflexivity.
Qed.

(* what makes a rule's own serialisation empty, for the rule kinds decided by a preference alone *)
Lemma comment_omitted p t : rule_text p (RComment t) = [] <-> (p.(keepComments) = false \/ t = []).
Proof.
  unfold rule_text; simpl. destruct t; simpl; [tauto|].
  destruct (keepComments p); simpl; split; intros H; try discriminate; auto.
  destruct H; discriminate.
Qed.

Lemma unknown_omitted p kw wf f raw :
  rule_text p (RUnknown kw wf f raw) <> [] -> wf = true /\ p.(keepUnknownAtRules) = true.
Proof.
  unfold rule_text; simpl. unfold do_unknown. destruct wf, (keepUnknownAtRules p); simpl; tauto.
Qed.

Lemma unknown_kept p kw wf f raw :
  wf = true -> p.(keepUnknownAtRules) = true ->
  rule_text p (RUnknown kw wf f raw) = if p.(formatUnknownAtRules) then f else kw ++ raw.
Proof.
  intros -> H. unfold rule_text; simpl. unfold do_unknown. rewrite H. simpl.
  destruct (formatUnknownAtRules p); reflexivity.
Qed.

Lemma namespace_omitted p t prefixed uri_used none_used :
  ns_dropped p (RNamespace t prefixed uri_used none_used) = true <->
  (p.(keepUsedNamespaceRulesOnly) = true /\ uri_used = false /\ (prefixed = true \/ none_used = false)).
Proof.
  simpl. destruct (keepUsedNamespaceRulesOnly p), uri_used, prefixed, none_used; simpl; intuition discriminate.
Qed.

(* declarations: with keepAllProperties off only effective properties are considered; a property contributes
   text only if it is well-formed and passes validOnly *)
Lemma property_omitted p q :
  do_property p q <> [] -> q.(p_wf) = true /\ (p.(validOnly) = true -> q.(p_valid) = true).
Proof.
  unfold do_property, valid_ok. destruct (p_nameseq_ok q), (p_wf q), (validOnly p), (p_valid q); simpl; intuition.
Qed.

(* literal vs normalised spellings *)
Lemma atkeyword_default_pref p lit d : p.(defaultAtKeyword) = true -> atkeyword p lit d = d.
Proof. unfold atkeyword. intros ->. reflexivity. Qed.
Lemma atkeyword_literal_pref p k d : p.(defaultAtKeyword) = false -> k <> [] -> atkeyword p (Some k) d = k.
Proof. unfold atkeyword. intros -> H. destruct k; [congruence|reflexivity]. Qed.
Lemma atkeyword_no_literal p d : atkeyword p None d = d.
Proof. unfold atkeyword. destruct (defaultAtKeyword p); reflexivity. Qed.

(* ------------------------------------------------------------------ emptiness: when is a style rule printed *)
Lemma split_aux_keeps sep c : sep <> [] -> mem c sep = false ->
  forall fuel cur t, (length t < fuel)%nat -> In c (rev cur ++ t) ->
    exists piece, In piece (split_aux sep fuel cur t) /\ In c piece.
Proof.
  intros Hne Hc. induction fuel as [|f IH]; intros cur t Hf Hin; [lia|].
  destruct t as [|x t']; simpl.
  - rewrite app_nil_r in Hin. eauto.
  - destruct (starts sep (x :: t')) eqn:Hs.
    + apply starts_spec in Hs as [r Hr].
      assert (Hsk : skipn (length sep) (x :: t') = r) by (rewrite Hr; apply skipn_app_exact || (rewrite skipn_app, Nat.sub_diag, skipn_all; reflexivity)).
      rewrite Hsk.
      rewrite Hr in Hin. apply in_app_or in Hin as [Hin|Hin]; [exists (rev cur); split; [left; reflexivity|assumption]|].
      apply in_app_or in Hin as [Hin|Hin].
      * apply mem_In in Hin. congruence.
      * assert (Hlen : (length r < f)%nat).
        { assert (length (x :: t') = length sep + length r)%nat by (rewrite Hr, app_length; reflexivity).
          destruct sep; [congruence|]. simpl in *. lia. }
        destruct (IH [] r Hlen Hin) as (pc & Hp & Hcp). exists pc. split; [right; assumption|assumption].
    + simpl in Hf. assert (Hlen : (length t' < f)%nat) by lia.
      apply (IH (x :: cur) t' Hlen). simpl. rewrite <- app_assoc. exact Hin.
Qed.

Lemma join_nonempty sep l x : In x l -> x <> [] -> join sep l <> [].
Proof.
  induction l as [|y r IH]; simpl; intros Hin Hx; [contradiction|].
  destruct r as [|z r'].
  - destruct Hin as [->|[]]; assumption.
  - destruct Hin as [->|Hin].
    + destruct x; [congruence|discriminate].
    + intros H. apply app_eq_nil in H as [_ H]. apply app_eq_nil in H as [_ H]. revert H. apply IH; assumption.
Qed.

(* _indentblock keeps every character that cannot be part of the line separator *)
Lemma indentblock_keeps p text level c :
  mem c p.(lineSeparator) = false -> In c text -> indentblock p text level <> [].
Proof.
  intros Hc Hin. unfold indentblock.
  destruct (forallb (fun c0 => mem c0 lit_indent_blank) (lineSeparator p)) eqn:Hb.
  - intros ->. contradiction.
  - destruct (lineSeparator p) as [|s0 sp] eqn:Hsep; [simpl in Hb; discriminate|].
    assert (Hne : s0 :: sp <> []) by discriminate.
    destruct (split_aux_keeps (s0 :: sp) c Hne Hc (S (length text)) [] text (Nat.lt_succ_diag_r _) Hin)
      as (piece & Hp & Hcp).
    apply join_nonempty with (x := repeat_str level (indent p) ++ piece).
    + apply in_map. apply filter_In. split; [exact Hp|]. destruct piece; [contradiction|reflexivity].
    + intros H. apply app_eq_nil in H as [_ H]. subst. contradiction.
Qed.

(* a style rule is written iff it has a selector text, is well-formed, and has a non-empty declaration text or
   keepEmptyRules is set -- for every preference record whose line separator does not contain the closing brace
   (in particular all ws_prefs) *)
Lemma stylerule_printed_iff p lvl sel wf ds :
  mem 125%N p.(lineSeparator) = false ->
  (do_stylerule p lvl sel wf ds <> [] <->
   sel <> [] /\ wf = true /\ (do_styledecl p true ds <> [] \/ p.(keepEmptyRules) = true)).
Proof.
  intros Hb. unfold do_stylerule.
  destruct sel as [|c0 sel]; simpl is_nil; simpl orb; [split; [congruence|intros [H _]; congruence]|].
  destruct wf; simpl negb; [|split; [congruence|intros (_ & H & _); discriminate]].
  destruct (do_styledecl p true ds) as [|d0 dt] eqn:Hd; simpl is_nil.
  - destruct (keepEmptyRules p).
    + split; [intros _; repeat split; auto; discriminate|intros _; discriminate].
    + split; [congruence|intros (_ & _ & [H|H]); congruence].
  - split; [intros _; repeat split; [discriminate|left; discriminate]|intros _].
    apply indentblock_keeps with (c := 125%N); [assumption|].
    repeat (apply in_or_app; right). simpl. repeat (apply in_or_app; right). left. reflexivity.
Qed.

Lemma ws_only_no_brace t : ws_only t = true -> mem 125%N t = false.
Proof.
  intros H. destruct (mem 125%N t) eqn:Hm; [|reflexivity].
  apply mem_In in Hm. unfold ws_only in H. rewrite forallb_forall in H. specialize (H _ Hm). discriminate.
Qed.

(* ------------------------------------------------------------------ frame: only the preferences the SOURCE reads matter.
   agree_out / agree_sheet are regenerated from the attribute reads `<x>.prefs.<name>` of the transcribed functions;
   if the model consulted a preference the code does not read, these proofs would fail. *)
Ltac rewrite_agree p q :=
  repeat match goal with H : _ p = _ q |- _ => rewrite H; clear H end.

Lemma append_frame p q : agree_out p q ->
  forall lvl n rout it, append p lvl n rout it = append q lvl n rout it.
Proof.
  intros H lvl n rout it. unfold agree_out in H. decompose [and] H. clear H.
  unfold append, pre, app_strip, app_text, post, indentblock, hash.
  rewrite_agree p q. reflexivity.
Qed.

Lemma run_from_frame p q : agree_out p q ->
  forall lvl items n rout, run_from p lvl n rout items = run_from q lvl n rout items.
Proof.
  intros H lvl items. induction items as [|it r IH]; intros n rout; simpl; [reflexivity|].
  rewrite (append_frame p q H). destruct (append q lvl n rout it); [apply IH|reflexivity].
Qed.

Lemma out_text_frame p q : agree_out p q -> forall lvl items, out_text p lvl items = out_text q lvl items.
Proof. intros H lvl items. unfold out_text, run. rewrite (run_from_frame p q H). reflexivity. Qed.

Lemma agree_sheet_out p q : agree_sheet p q -> agree_out p q.
Proof. unfold agree_sheet, agree_out. intros H. decompose [and] H. repeat split; assumption. Qed.

Lemma decl_out_frame p q : agree_sheet p q -> forall omit seq, decl_out p omit seq = decl_out q omit seq.
Proof.
  intros H omit seq. unfold agree_sheet in H. decompose [and] H. clear H.
  induction seq as [|d r IH]; simpl; [reflexivity|]. rewrite IH.
  unfold do_property, propertyname, valid_ok, lstrip_lines. rewrite_agree p q. reflexivity.
Qed.

Lemma do_styledecl_frame p q : agree_sheet p q -> forall omit seq, do_styledecl p omit seq = do_styledecl q omit seq.
Proof.
  intros H omit seq. unfold do_styledecl. destruct seq as [|d r]; [reflexivity|].
  rewrite !(decl_out_frame p q H). unfold agree_sheet in H. decompose [and] H. clear H.
  rewrite_agree p q. reflexivity.
Qed.

Lemma do_rule_frame p q : agree_sheet p q -> forall r lvl, do_rule p lvl r = do_rule q lvl r.
Proof.
  intros H. pose proof (agree_sheet_out p q H) as Ho.
  induction r using rule_ind'; intros lvl; simpl.
  - unfold agree_sheet in H. decompose [and] H. rewrite_agree p q. reflexivity.
  - unfold do_stylerule, indentblock. rewrite (do_styledecl_frame p q H).
    unfold agree_sheet in H. decompose [and] H. rewrite_agree p q. reflexivity.
  - destruct (negb wf); [reflexivity|].
    match goal with |- match ?e1 with _ => _ end = match ?e2 with _ => _ end => assert (Hg : e1 = e2) end.
    { clear -H H0 Ho. induction rs as [|r rs IH]; [reflexivity|].
      inversion H0; subst. cbn fix beta iota. cbn match. rewrite H3. rewrite IH by assumption.
      unfold indentblock. unfold agree_sheet in H. decompose [and] H. rewrite_agree p q. reflexivity. }
    rewrite Hg. unfold atkeyword. unfold agree_sheet in H. decompose [and] H. rewrite_agree p q. reflexivity.
  - unfold do_fontface. rewrite (do_styledecl_frame p q H). rewrite (out_text_frame p q Ho).
    unfold atkeyword. unfold agree_sheet in H. decompose [and] H. rewrite_agree p q. reflexivity.
  - reflexivity.
  - unfold do_unknown. unfold agree_sheet in H. decompose [and] H. rewrite_agree p q. reflexivity.
  - reflexivity.
Qed.

Theorem do_sheet_frame_lemma p q : agree_sheet p q -> forall rs, do_sheet p rs = do_sheet q rs.
Proof.
  intros H rs. unfold do_sheet.
  assert (Hs : sheet_out p rs = sheet_out q rs).
  { induction rs as [|r rs IH]; simpl; [reflexivity|].
    rewrite (do_rule_frame p q H), IH. unfold ns_dropped.
    unfold agree_sheet in H. decompose [and] H. rewrite_agree p q. reflexivity. }
  rewrite Hs. unfold agree_sheet in H. decompose [and] H. rewrite_agree p q. reflexivity.
Qed.
