(* Order.v -- executable model of the rule-order machinery of CSSStyleSheet (property C07).

   Transcribed by hand from /repo/src/css_parser (line numbers of the tree after the C07 fixes):
     css/cssstylesheet.py  insertRule, add, deleteRule, _cleanNamespaces, _setEncoding, _setCssText
     util.py               _Namespaces (namespaces view, __setitem__, __delitem__, __findrule)
     css/cssrule.py        CSSRuleRules._prepareInsertRule/_finishInsertRule/deleteRule
     css/cssmediarule.py   insertRule, the child handlers of _setCssText
     css/csspagerule.py    insertRule
   The kind enumeration, every `r.type in (...)` tuple, the parser's thresholds/next states and the
   container tables come from Gen/Kinds.v (regenerated from the source on every run).
   Definitions only; proofs are in OrderFacts.v. *)
From CssV Require Import Base.
From CssV.Gen Require Import Kinds.

(* ------------------------------------------------------------------ data *)
Record rule := mkRule {
  rkind : kind;
  rprefix : N;          (* @namespace: prefix ('' = 0) *)
  ruri : N;             (* @namespace: namespaceURI *)
  renc : N;             (* @charset: encoding *)
  ruses : list N;       (* style rule: namespace URIs used by its selectors *)
  rkids : list kind     (* @media / @page: kinds of the child rules *)
}.

(* a statement of a CSS text, before it is bound to a sheet *)
Record proto := mkProto {
  pkind : kind;
  pprefix : N; puri : N; penc : N;
  ppfx : list N;        (* style rule: namespace prefixes its selectors use *)
  pkids : list kind     (* @media / @page: kinds of the statements in the block *)
}.

Inductive exn := IndexSizeErr | HierarchyRequestErr | NoModificationAllowedErr | NamespaceErr | SyntaxErr
               | InvalidModificationErr.
Inductive result :=
| Ret (v : option nat)      (* returned index / None *)
| Exc (e : exn)             (* raised *)
| Skip                      (* the harness addressed a container that is not there *)
| Unmodelled.               (* outside the modelled alphabet (state unchanged) *)

Definition dict := list (N * N).      (* prefix -> uri, a Python dict *)
Fixpoint dict_get (d : dict) (p : N) : option N :=
  match d with [] => None | (p', u) :: r => if N.eqb p' p then Some u else dict_get r p end.
Fixpoint dict_set (d : dict) (p u : N) : dict :=
  match d with
  | [] => [(p, u)]
  | (p', u') :: r => if N.eqb p' p then (p, u) :: r else (p', u') :: dict_set r p u
  end.
Definition dict_has_value (d : dict) (u : N) : bool := existsb (fun pu => N.eqb (snd pu) u) d.
Definition dict_has_item (d : dict) (p u : N) : bool := existsb (fun pu => N.eqb (fst pu) p && N.eqb (snd pu) u) d.

Definition kinds (rs : list rule) : list kind := map rkind rs.
Definition is_kind (k : kind) (r : rule) : bool := kind_beq (rkind r) k.

(* ------------------------------------------------------------------ list helpers *)
Definition insert_at {A} (i : nat) (x : A) (l : list A) : list A := firstn i l ++ x :: skipn i l.
Definition remove_at {A} (i : nat) (l : list A) : list A := firstn i l ++ skipn (S i) l.

(* Python index of l[i] for a possibly negative i *)
Definition py_index (len : nat) (i : Z) : option nat :=
  if (0 <=? i)%Z && (i <? Z.of_nat len)%Z then Some (Z.to_nat i)
  else if (i <? 0)%Z && (- Z.of_nat len <=? i)%Z then Some (Z.to_nat (Z.of_nat len + i))
  else None.

Definition kin (k : kind) (l : list kind) : bool := existsb (kind_beq k) l.
(* `for r in rules: if r.type in tuple` *)
Definition anyk (tuple : list kind) (ks : list kind) : bool := existsb (fun k => kin k tuple) ks.
Definition headis (k : kind) (ks : list kind) : bool :=
  match ks with x :: _ => kind_beq x k | [] => false end.

(* 1 + index of the last element satisfying p *)
Fixpoint last_pos (p : kind -> bool) (ks : list kind) : option nat :=
  match ks with
  | [] => None
  | k :: r => match last_pos p r with
              | Some j => Some (S j)
              | None => if p k then Some 1 else None
              end
  end.
Fixpoint first_pos (p : kind -> bool) (ks : list kind) : option nat :=
  match ks with
  | [] => None
  | k :: r => if p k then Some 0 else option_map S (first_pos p r)
  end.

(* the repaired inOrder search of the @namespace / @variables branches (cssstylesheet.py 686-700, 742-760):
     start = 1 + index of the last rule whose type is in `skip` (0 if none)
     index = start + index of the first rule of rules[start:] whose type is in `stop` (len if none) *)
Definition search (skip stop : list kind) (ks : list kind) : nat :=
  let start := match last_pos (fun k => kin k skip) ks with Some j => j | None => 0 end in
  match first_pos (fun k => kin k stop) (skipn start ks) with
  | Some i => start + i
  | None => length ks
  end.

(* ------------------------------------------------------------------ insertRule: where does a rule of kind k go?
   cssstylesheet.py 600-812, one case per branch; `index` is already normalised (None -> len) *)
Inductive place_res := PReject | PInsert (i : nat) | PUpdateCharset.

Definition place_ordered (self : kind) (skip stop after before : list kind)
           (ks : list kind) (index : nat) (inorder : bool) : place_res :=
  if inorder then
    PInsert (match last_pos (kind_beq self) ks with
             | Some j => j                                  (* behind the last of this type *)
             | None => search skip stop ks
             end)
  else if anyk after (skipn index ks) then PReject
  else if anyk before (firstn index ks) then PReject
  else PInsert index.

Definition place (ks : list kind) (k : kind) (index : nat) (inorder : bool) : place_res :=
  if kin k sheet_refused_kinds then PReject      (* `if rule.type == rule.MARGIN_RULE: error; return` before the chain *)
  else if kind_beq k CHARSET_RULE then
    if inorder then (if headis CHARSET_RULE ks then PUpdateCharset else PInsert 0)
    else if negb (Nat.eqb index 0) || headis CHARSET_RULE ks then PReject
    else PInsert index
  else if kin k uc_kinds && negb inorder then
    if Nat.eqb index 0 && headis CHARSET_RULE ks then PReject else PInsert index
  else if kind_beq k IMPORT_RULE then
    if inorder then
      match last_pos (kind_beq IMPORT_RULE) ks with
      | Some j => PInsert j
      | None => if match ks with x :: _ => kin x import_first_kinds | [] => false end
                then PInsert 1 else PInsert 0
      end
    else if Nat.eqb index 0 && headis CHARSET_RULE ks then PReject
    else if anyk import_before_kinds (firstn index ks) then PReject
    else PInsert index
  else if kind_beq k NAMESPACE_RULE then
    place_ordered NAMESPACE_RULE ns_skip_kinds ns_stop_kinds ns_after_kinds ns_before_kinds ks index inorder
  else if kind_beq k VARIABLES_RULE then
    place_ordered VARIABLES_RULE var_skip_kinds var_stop_kinds var_after_kinds var_before_kinds ks index inorder
  else if inorder then PInsert (length ks)
  else if anyk other_after_kinds (skipn index ks) then PReject
  else PInsert index.

(* ------------------------------------------------------------------ namespaces view (util.py _Namespaces.namespaces) *)
Definition ns_view (rs : list rule) : dict :=
  fold_left (fun d r =>
               if is_kind NAMESPACE_RULE r then
                 if dict_has_value d (ruri r) then d else dict_set d (rprefix r) (ruri r)
               else d) (rev rs) [].

(* _getUsedURIs restricted to top-level style rules (namespaced selectors inside @media are outside the alphabet) *)
Definition used_uris (rs : list rule) : list N :=
  flat_map (fun r => if is_kind STYLE_RULE r then ruses r else []) rs.
Definition ns_uris (rs : list rule) : list N :=
  flat_map (fun r => if is_kind NAMESPACE_RULE r then [ruri r] else []) rs.
Definition memN (x : N) (l : list N) : bool := existsb (N.eqb x) l.
Definition countN (x : N) (l : list N) : nat := length (filter (N.eqb x) l).

(* deleteRule's protection of a used namespace (cssstylesheet.py 495-505) *)
Definition protected (rs : list rule) (r : rule) : bool :=
  is_kind NAMESPACE_RULE r && memN (ruri r) (used_uris rs) && Nat.eqb (countN (ruri r) (ns_uris rs)) 1.

(* deleteRule(index) -- both exceptions are explicit `raise`s, independent of log.raiseExceptions *)
Definition delete_rule (rs : list rule) (index : Z) : list rule * result :=
  match py_index (length rs) index with
  | None => (rs, Exc IndexSizeErr)
  | Some i =>
    match nth_error rs i with
    | None => (rs, Exc IndexSizeErr)
    | Some r => if protected rs r then (rs, Exc NoModificationAllowedErr)
                else (remove_at i rs, Ret None)
    end
  end.

(* _cleanNamespaces (97-108): items computed once; walks the list, deleting through deleteRule, which may raise
   half-way.  kept = rules already passed (reversed). *)
Fixpoint clean_loop (items : dict) (kept_rev rest : list rule) : list rule * option exn :=
  match rest with
  | [] => (rev kept_rev, None)
  | r :: rest' =>
    if is_kind NAMESPACE_RULE r && negb (dict_has_item items (rprefix r) (ruri r)) then
      if protected (rev kept_rev ++ rest) r then (rev kept_rev ++ rest, Some NoModificationAllowedErr)
      else clean_loop items kept_rev rest'
    else clean_loop items (r :: kept_rev) rest'
  end.
Definition clean_namespaces (rs : list rule) : list rule * option exn :=
  clean_loop (ns_view rs) [] rs.

Definition set_head_enc (rs : list rule) (e : N) : list rule :=
  match rs with
  | r :: t => mkRule (rkind r) (rprefix r) (ruri r) e (ruses r) (rkids r) :: t
  | [] => []
  end.

(* log.error(..., error=E): raises when log.raiseExceptions, else the caller returns None *)
Definition log_error (rx : bool) (e : exn) : result := if rx then Exc e else Ret None.

(* insertRule(ruleobject, index, inOrder, _clean) -- `simple` is the dict of the _SimpleNamespaces object that
   replaces the view while a sheet is being parsed *)
Definition insert_rule (rx : bool) (simple : option dict) (clean : bool)
           (rs : list rule) (r : rule) (index : option Z) (inorder : bool) : list rule * result :=
  let len := length rs in
  match (match index with
         | None => Some len
         | Some i => if (i <? 0)%Z || (Z.of_nat len <? i)%Z then None else Some (Z.to_nat i)
         end) with
  | None => (rs, Exc IndexSizeErr)
  | Some idx =>
    match place (kinds rs) (rkind r) idx inorder with
    | PReject => (rs, log_error rx HierarchyRequestErr)
    | PUpdateCharset => (set_head_enc rs (renc r), Ret (Some 0))
    | PInsert i =>
      if kind_beq (rkind r) NAMESPACE_RULE then
        let d := match simple with Some d => d | None => ns_view rs end in
        if match dict_get d (rprefix r) with Some u => N.eqb u (ruri r) | None => false end
        then (rs, Ret (Some i))                                   (* no doublettes *)
        else
          let rs' := insert_at i r rs in
          if clean then
            match clean_namespaces rs' with
            | (rs'', None) => (rs'', Ret (Some i))
            | (_, Some e) => (rs, Exc e)        (* _cleanNamespaces refused: the old list is restored (a5cb308) *)
            end
          else (rs', Ret (Some i))
      else (insert_at i r rs, Ret (Some i))
    end
  end.

(* ------------------------------------------------------------------ the sheet parser (_setCssText 141-345) *)
Definition resolve (d : dict) (pfx : list N) : option (list N) :=
  fold_right (fun p acc => match dict_get d p, acc with Some u, Some l => Some (u :: l) | _, _ => None end)
             (Some []) pfx.

(* children of an @media block as its parser keeps them (cssmediarule.py atrule/ruleset/COMMENT):
   None = a forbidden at-rule was met (HierarchyRequestErr) *)
Definition media_child (k : kind) : option (option kind) :=
  if kin k media_forbidden_parse then None
  else if kind_beq k STYLE_RULE || kind_beq k COMMENT || kin k media_factories then Some (Some k)
  else Some (Some UNKNOWN_RULE).

Fixpoint media_children (rx : bool) (ks : list kind) : option (list kind) :=
  match ks with
  | [] => Some []
  | k :: r =>
    match media_child k with
    | None => if rx then None else media_children rx r
    | Some (Some c) => option_map (cons c) (media_children rx r)
    | Some None => media_children rx r
    end
  end.

(* the exception of the first refused child: '@variables' is in the atrule handler's tuple but its token type
   VARIABLES_SYM is not in the @media productions, so it reaches the default handler `ruleset`, whose
   CSSStyleRule.cssText raises InvalidModificationErr ("No style rule") *)
Fixpoint media_exn (ks : list kind) : exn :=
  match ks with
  | [] => HierarchyRequestErr
  | k :: r => match media_child k with
              | None => if kind_beq k VARIABLES_RULE then InvalidModificationErr else HierarchyRequestErr
              | _ => media_exn r
              end
  end.

(* children of an @page block: margin rules only, merged per margin name (one name in the alphabet) *)
Definition page_children (ks : list kind) : list kind :=
  if existsb (kind_beq MARGIN_RULE) ks then [MARGIN_RULE] else [].

Record pstate := mkP { p_rules : list rule; p_ns : dict; p_expected : nat }.

Definition parse_step (rx : bool) (st : pstate) (p : proto) : pstate + exn :=
  let k := pkind p in
  let next e := match parse_next k with Some n => n | None => Nat.max 1 e end in
  match (match parse_threshold k with Some t => Nat.ltb t (p_expected st) | None => false end) with
  | true => if rx then inr HierarchyRequestErr else inl st            (* return expected *)
  | false =>
    if kin k parse_discarded_kinds then                                 (* consumed, no rule kept *)
      inl (mkP (p_rules st) (p_ns st) (next (p_expected st)))
    else if kind_beq k NAMESPACE_RULE then
      let st1 :=
          match dict_get (p_ns st) (pprefix p) with
          | None =>
            match insert_rule rx (Some (p_ns st)) false (p_rules st)
                              (mkRule k (pprefix p) (puri p) 0 [] []) None false with
            | (rs, Exc e) => inr e
            | (rs, _) => inl rs
            end
          | Some _ =>                                               (* same prefix: replace the URI *)
            inl (map (fun r => if is_kind NAMESPACE_RULE r && N.eqb (rprefix r) (pprefix p)
                               then mkRule (rkind r) (rprefix r) (puri p) (renc r) (ruses r) (rkids r) else r)
                     (p_rules st))
          end in
      match st1 with
      | inr e => inr e
      | inl rs => inl (mkP rs (dict_set (p_ns st) (pprefix p) (puri p)) (next (p_expected st)))
      end
    else
      let built : option rule + exn :=
          if kind_beq k STYLE_RULE then
            match resolve (p_ns st) (ppfx p) with
            | Some us => inl (Some (mkRule k 0 0 0 us []))
            | None => if rx then inr NamespaceErr else inl None      (* not wellformed: dropped *)
            end
          else if kind_beq k MEDIA_RULE then
            match media_children rx (pkids p) with
            | Some c => inl (Some (mkRule k 0 0 0 [] c))
            | None => inr (media_exn (pkids p))
            end
          else if kind_beq k PAGE_RULE then inl (Some (mkRule k 0 0 0 [] (page_children (pkids p))))
          else inl (Some (mkRule k 0 0 (penc p) [] [])) in
      match built with
      | inr e => inr e
      | inl None =>        (* not wellformed: dropped; some handlers then leave the order state alone *)
        inl (mkP (p_rules st) (p_ns st)
                 (if kin k parse_malformed_keeps_state then p_expected st else next (p_expected st)))
      | inl (Some r) =>
        match insert_rule rx (Some (p_ns st)) true (p_rules st) r None false with
        | (rs, Exc e) => inr e
        | (rs, _) => inl (mkP rs (p_ns st) (next (p_expected st)))
        end
      end
  end.

(* the statements of a text are separated by whitespace: the S handler sets expected = max(1, expected) *)
Definition after_S (st : pstate) : pstate := mkP (p_rules st) (p_ns st) (Nat.max 1 (p_expected st)).

(* what a text is made of at sheet level: statements, and the tokens the dispatch maps to a no-op production.
   CDO / CDC ('<!--', '-->'): `lambda *ignored: None` -- the returned None becomes the new `expected`, which every
   handler reads as `(expected or 0)`: the order state is RESET to 0.  glued: no whitespace follows the token (with
   whitespace the S handler lifts the state to 1 again). *)
Inductive titem := TStmt (p : proto) | TSep (glued : bool).

Definition stmts (ps : list proto) : list titem := map TStmt ps.

Fixpoint parse_loop (rx : bool) (st : pstate) (its : list titem) : pstate + exn :=
  match its with
  | [] => inl st
  | TStmt p :: r => match parse_step rx st p with
                    | inr e => inr e
                    | inl st' => parse_loop rx (after_S st') r
                    end
  | TSep glued :: r =>
    parse_loop rx (mkP (p_rules st) (p_ns st) (if glued then 0 else 1)) r
  end.

(* a complete parse into a fresh rule list, followed by the switch to the namespaces view and _cleanNamespaces.
   inr (rules so far are dropped): the exception propagates, the caller restores the old list *)
Definition parse_sheet (rx : bool) (env : dict) (its : list titem) : (list rule * option exn) + exn :=
  match parse_loop rx (mkP [] env 0) its with
  | inr e => inr e
  | inl st => inl (clean_namespaces (p_rules st))
  end.

(* ------------------------------------------------------------------ operations *)
Inductive source := Text (ps : list proto) | Obj (r : rule).

Definition is_charset_proto (ps : list proto) : bool :=
  match ps with p :: _ => kind_beq (pkind p) CHARSET_RULE | [] => false end.

(* insertRule(text-or-rule, index, inOrder) on the sheet (549-612) *)
Definition insert_any (rx : bool) (rs : list rule) (src : source) (index : option Z) (inorder : bool)
  : list rule * result :=
  let len := length rs in
  match (match index with
         | None => true
         | Some i => negb ((i <? 0)%Z || (Z.of_nat len <? i)%Z)
         end) with
  | false => (rs, Exc IndexSizeErr)
  | true =>
    match src with
    | Obj r => insert_rule rx None true rs r index inorder
    | Text ps =>
      let with_cs := negb (is_charset_proto ps) && headis CHARSET_RULE (kinds rs) in
      let ps' := if with_cs then mkProto CHARSET_RULE 0 0 (match rs with r :: _ => renc r | [] => 0%N end) [] [] :: ps
                 else ps in
      let (count, pos) := if with_cs then (2, 1) else (1, 0) in
      match parse_sheet rx (ns_view rs) (stmts ps') with
      | inr e => (rs, Exc e)
      | inl (_, Some e) => (rs, Exc e)
      | inl (tmp, None) =>
        if negb (Nat.eqb (length tmp) count) then (rs, log_error rx SyntaxErr)
        else match nth_error tmp pos with
             | None => (rs, log_error rx SyntaxErr)
             | Some r => insert_rule rx None true rs r index inorder
             end
      end
    end
  end.

(* sheet.cssText = text (restores the old list when the parse raises) *)
Definition set_text (rx : bool) (rs : list rule) (its : list titem) : list rule * result :=
  match parse_sheet rx [] its with
  | inr e => (rs, Exc e)
  | inl (rs', None) => (rs', Ret None)
  | inl (rs', Some e) => (rs', Exc e)
  end.

(* sheet.encoding = e (0 = None) -- _setEncoding 400-417 *)
Definition set_encoding (rx : bool) (rs : list rule) (e : N) : list rule * result :=
  if headis CHARSET_RULE (kinds rs) then
    if N.eqb e 0 then (match delete_rule rs 0 with (rs', Exc x) => (rs', Exc x) | (rs', _) => (rs', Ret None) end)
    else (set_head_enc rs e, Ret None)
  else if N.eqb e 0 then (rs, Ret None)
  else match insert_rule rx None true rs (mkRule CHARSET_RULE 0 0 e [] []) (Some 0%Z) false with
       | (rs', Exc x) => (rs', Exc x)
       | (rs', _) => (rs', Ret None)
       end.

(* __findrule: the last @namespace rule with this prefix *)
Definition find_ns (rs : list rule) (p : N) : option rule :=
  find (fun r => is_kind NAMESPACE_RULE r && N.eqb (rprefix r) p) (rev rs).

(* sheet.namespaces[p] = u  (util.py __setitem__) *)
Definition ns_set (rx : bool) (rs : list rule) (p u : N) : list rule * result :=
  match find_ns rs p with
  | None => match insert_rule rx None true rs (mkRule NAMESPACE_RULE p u 0 [] []) None true with
            | (rs', Exc x) => (rs', Exc x)
            | (rs', _) => (rs', Ret None)
            end
  | Some r =>
    match dict_get (ns_view rs) p with
    | Some _ => if N.eqb (ruri r) u then (rs, Ret None) else (rs, log_error rx NoModificationAllowedErr)
    | None => (rs, Ret None)
    end
  end.

(* del sheet.namespaces[p]  (util.py __delitem__, after the repair 71876c5): the index in cssRules of the last
   @namespace rule with this prefix (= __findrule) is handed to deleteRule *)
Fixpoint last_index_of (f : rule -> bool) (l : list rule) (i : nat) (acc : option nat) : option nat :=
  match l with
  | [] => acc
  | r :: t => last_index_of f t (S i) (if f r then Some i else acc)
  end.

Definition ns_del (rx : bool) (rs : list rule) (p : N) : list rule * result :=
  match last_index_of (fun r => is_kind NAMESPACE_RULE r && N.eqb (rprefix r) p) rs 0 None with
  | None => (rs, log_error rx NamespaceErr)
  | Some j => delete_rule rs (Z.of_nat j)
  end.

(* ---- containers: the child list of rule k (cssrule.py _prepareInsertRule, cssmediarule/csspagerule insertRule) *)
Definition set_kids (r : rule) (c : list kind) : rule :=
  mkRule (rkind r) (rprefix r) (ruri r) (renc r) (ruses r) c.
Definition update_at (rs : list rule) (k : nat) (r : rule) : list rule :=
  firstn k rs ++ r :: skipn (S k) rs.

Definition forbidden_in (container : kind) : list kind :=
  if kind_beq container MEDIA_RULE then media_forbidden_insert else page_forbidden_insert.

(* env: the namespaces of the sheet the container belongs to (cssrule.py _prepareInsertRule parses the text with
   self.parentStyleSheet.namespaces).
   @page (csspagerule.py insertRule, flags regenerated in Gen/Kinds.v): a text is parsed as ONE margin rule by
   MarginRule().cssText before the index is looked at (the first statement decides: a margin rule is taken, a comment
   gives InvalidModificationErr, anything else SyntaxErr); a margin that is already there is merged into the existing
   rule, whose index is returned (one margin name in the alphabet). *)
Definition page_text_kind (rx : bool) (ps : list proto) : kind + result :=
  match ps with
  | [] => inr (log_error rx SyntaxErr)
  | p :: _ => if kind_beq (pkind p) MARGIN_RULE then inl MARGIN_RULE
              else if kind_beq (pkind p) COMMENT then inr (log_error rx InvalidModificationErr)
              else inr (log_error rx SyntaxErr)
  end.

Definition container_insert (rx : bool) (env : dict) (c : rule) (src : source) (index : option Z) : rule * result :=
  let len := length (rkids c) in
  let pre : option (kind + result) :=
      match src with
      | Text ps => if is_kind PAGE_RULE c && page_text_as_margin then Some (page_text_kind rx ps) else None
      | Obj _ => None
      end in
  match pre with
  | Some (inr res) => (c, res)
  | _ =>
    match (match index with
           | None => Some len
           | Some i => if (i <? 0)%Z || (Z.of_nat len <? i)%Z then None else Some (Z.to_nat i)
           end) with
    | None => (c, Exc IndexSizeErr)
    | Some idx =>
      let parsed : option kind + result :=
          match pre with
          | Some (inl k) => inl (Some k)
          | _ =>
            match src with
            | Obj r => inl (Some (rkind r))
            | Text ps => match parse_sheet rx env (stmts ps) with
                         | inr e => inr (Exc e)
                         | inl (_, Some e) => inr (Exc e)
                         | inl (tmp, None) => match tmp with
                                              | [r] => inl (Some (rkind r))
                                              | _ => inl None
                                              end
                         end
            end
          end in
      match parsed with
      | inr res => (c, res)
      | inl None => (c, log_error rx SyntaxErr)
      | inl (Some k) =>
        if kin k (forbidden_in (rkind c)) then (c, log_error rx HierarchyRequestErr)
        else if is_kind PAGE_RULE c && page_merges_duplicates && kind_beq k MARGIN_RULE && kin MARGIN_RULE (rkids c)
        then (c, Ret (first_pos (fun x => kind_beq x MARGIN_RULE) (rkids c)))
        else (set_kids c (insert_at idx k (rkids c)), Ret (Some idx))
      end
    end
  end.

Definition container_delete (c : rule) (index : Z) : rule * result :=
  match py_index (length (rkids c)) index with
  | None => (c, Exc IndexSizeErr)
  | Some i => (set_kids c (remove_at i (rkids c)), Ret None)
  end.

(* container.cssText = '@media all {...}' / '@page {...}' (child statements given by their kinds).
   @media, raising mode, forbidden child: the model takes the intended behaviour (unchanged). *)
Definition container_text (rx : bool) (c : rule) (ks : list kind) : rule * result :=
  if kind_beq (rkind c) MEDIA_RULE then
    match media_children rx ks with
    | Some kids => (set_kids c kids, Ret None)
    | None => (c, Exc (media_exn ks))
    end
  else if forallb (kind_beq MARGIN_RULE) ks then (set_kids c (page_children ks), Ret None)
  else (c, Unmodelled).

Inductive cop :=
| CIns (src : source) (index : option Z)
| CDel (index : Z)
| CDelObj (i : nat)
| CText (ks : list kind).

Inductive op :=
| Ins (src : source) (index : option Z) (inorder : bool)      (* insertRule / add *)
| Del (index : Z)
| DelObj (i : nat)          (* deleteRule(sheet.cssRules[i]); a foreign rule when i is out of range *)
| NsSet (p u : N)
| NsDel (p : N)
| Enc (e : N)
| SetText (its : list titem)
| In (k : nat) (c : cop).   (* an operation on the @media/@page rule at position k *)

Definition is_container (r : rule) : bool := is_kind MEDIA_RULE r || is_kind PAGE_RULE r.

Definition step (rx : bool) (rs : list rule) (o : op) : list rule * result :=
  match o with
  | Ins src index inorder => insert_any rx rs src index inorder
  | Del index => delete_rule rs index
  | DelObj i => if Nat.ltb i (length rs) then delete_rule rs (Z.of_nat i) else (rs, Exc IndexSizeErr)
  | NsSet p u => ns_set rx rs p u
  | NsDel p => ns_del rx rs p
  | Enc e => set_encoding rx rs e
  | SetText ps => set_text rx rs ps
  | In k c =>
    match nth_error rs k with
    | None => (rs, Skip)
    | Some r =>
      if negb (is_container r) then (rs, Skip)
      else
        let '(r', res) :=
            match c with
            | CIns src index => container_insert rx (ns_view rs) r src index
            | CDel index => container_delete r index
            | CDelObj i => if Nat.ltb i (length (rkids r)) then container_delete r (Z.of_nat i)
                           else (r, Exc IndexSizeErr)
            | CText ks => container_text rx r ks
            end in
        (update_at rs k r', res)
    end
  end.

Definition run (rx : bool) (ops : list op) (rs : list rule) : list rule :=
  fold_left (fun s o => fst (step rx s o)) ops rs.

(* ------------------------------------------------------------------ validity *)
Definition level (k : kind) : option nat :=
  match k with
  | CHARSET_RULE => Some 0
  | IMPORT_RULE => Some 1
  | NAMESPACE_RULE => Some 2
  | VARIABLES_RULE => Some 3
  | STYLE_RULE | MEDIA_RULE | PAGE_RULE | FONT_FACE_RULE => Some 4
  | UNKNOWN_RULE | COMMENT | MARGIN_RULE => None
  end.

Definition ge_all (l : nat) (ks : list kind) : bool :=
  forallb (fun k => match level k with Some x => Nat.leb l x | None => true end) ks.
Definition le_all (l : nat) (ks : list kind) : bool :=
  forallb (fun k => match level k with Some x => Nat.leb x l | None => true end) ks.
Fixpoint sorted (ks : list kind) : bool :=
  match ks with
  | [] => true
  | k :: r => match level k with Some l => ge_all l r | None => true end && sorted r
  end.
Definition nocs (ks : list kind) : bool := forallb (fun k => negb (kind_beq k CHARSET_RULE)) ks.
Definition valid_kinds (ks : list kind) : bool := nocs (tl ks) && sorted ks.

Definition kids_ok (r : rule) : bool :=
  if is_kind MEDIA_RULE r then negb (anyk (media_forbidden_insert ++ media_forbidden_parse) (rkids r))
  else if is_kind PAGE_RULE r then negb (anyk page_forbidden_insert (rkids r))
  else true.

(* no kind the sheet's insertRule refuses outright (a margin rule outside @page) *)
Definition norefused (ks : list kind) : bool := forallb (fun k => negb (kin k sheet_refused_kinds)) ks.

Definition valid_sheet (rs : list rule) : bool :=
  valid_kinds (kinds rs) && forallb kids_ok rs && norefused (kinds rs).

(* the kinds-level reading of the parser: the 0..3 `expected` machine plus the index checks that insertRule
   applies to a rule appended at the end *)
Fixpoint accept_loop (acc : list kind) (expected : nat) (ks : list kind) : list kind :=
  match ks with
  | [] => acc
  | k :: r =>
    let next := match parse_next k with Some n => n | None => Nat.max 1 expected end in
    if match parse_threshold k with Some t => Nat.ltb t expected | None => false end
    then accept_loop acc expected r
    else if kin k parse_discarded_kinds then accept_loop acc next r
    else match place acc k (length acc) false with
         | PInsert i => accept_loop (insert_at i k acc) next r
         | _ => accept_loop acc next r
         end
  end.
Definition accept_kinds (ks : list kind) : list kind := accept_loop [] 0 ks.
