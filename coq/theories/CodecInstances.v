(* CodecInstances.v -- the Section hypotheses of CodecFacts.v DISCHARGED for the Gallina codecs of CodecConcrete.v:
     decoders  utf-8, utf-16-le/-be, utf-32-le/-be, latin-1, ascii   (r_init / r_step / r_shot)
     encoders  every codec of CodecConcrete.v, BOM writers included   (ce_init / ce_step / ce_shot)
   which gives closed instances of incdec_chunking / incenc_chunking. *)
From CssV Require Import Base CodecPyLib Gen.CodecFns Codec CodecConcrete CodecDetect CodecFacts CodecInverse.
Local Open Scope N_scope.

(* ================================================================== the generic scanner *)
Section ScanLaws.
  Variable next : str -> nxt.
  Hypothesis N1 : forall x b cp rest, next x = Complete cp rest -> next (x ++ b) = Complete cp (rest ++ b).
  Hypothesis N2 : forall x cp rest, next x = Complete cp rest -> (length rest < length x)%nat.
  Hypothesis N3 : forall x b, next x = Invalid -> next (x ++ b) = Invalid.

  Lemma scan_S f c x fin :
    scan next (S f) (c :: x) fin =
    match next (c :: x) with
    | Complete cp rest => match scan next f rest fin with Ok (o, p) => Ok (cp :: o, p) | Err e => Err e end
    | Incomplete => if fin then Err EUnicode else Ok ([], c :: x)
    | Invalid => Err EUnicode
    end.
  Proof. reflexivity. Qed.

  Lemma scan_fuel f1 : forall f2 x fin, (length x < f1)%nat -> (length x < f2)%nat ->
    scan next f1 x fin = scan next f2 x fin.
  Proof.
    induction f1 as [|f1 IH]; intros f2 x fin H1 H2; [lia|].
    destruct x as [|c x]; [destruct f2; reflexivity|].
    destruct f2 as [|f2]; [simpl in H2; lia|].
    cbn [scan]. destruct (next (c :: x)) as [cp rest| |] eqn:Hn; try reflexivity.
    apply N2 in Hn. rewrite (IH f2 rest fin); [reflexivity|simpl in *; lia|simpl in *; lia].
  Qed.

  Lemma scan_app_ok fuel : forall x o1 p', (length x < fuel)%nat ->
    scan next fuel x false = Ok (o1, p') ->
    forall b fin,
    scan next (S (length (x ++ b))) (x ++ b) fin =
    match scan next (S (length (p' ++ b))) (p' ++ b) fin with
    | Ok (o2, p'') => Ok (o1 ++ o2, p'')
    | Err e => Err e
    end.
  Proof.
    induction fuel as [|fuel IH]; intros x o1 p' Hl Hs b fin; [lia|].
    destruct x as [|c x].
    - cbn [scan] in Hs. injection Hs as <- <-. cbn [app].
      destruct (scan next (S (length b)) b fin) as [[o2 p'']|e]; reflexivity.
    - cbn [scan] in Hs. destruct (next (c :: x)) as [cp rest| |] eqn:Hn; try discriminate.
      + destruct (scan next fuel rest false) as [[o p]|e] eqn:Hr; [|discriminate].
        injection Hs as <- <-.
        pose proof (N2 _ _ _ Hn) as Hlt.
        change ((c :: x) ++ b) with (c :: (x ++ b)). rewrite scan_S.
        change (c :: (x ++ b)) with ((c :: x) ++ b). rewrite (N1 _ b _ _ Hn).
        rewrite (scan_fuel _ (S (length (rest ++ b)))); [| rewrite !app_length in *; simpl in *; lia | lia].
        rewrite (IH rest o p); [|simpl in *; lia|exact Hr].
        destruct (scan next (S (length (p ++ b))) (p ++ b) fin) as [[o2 p'']|e]; reflexivity.
      + injection Hs as <- <-.
        destruct (scan next (S (length ((c :: x) ++ b))) ((c :: x) ++ b) fin) as [[o2 p'']|e]; reflexivity.
  Qed.

  Lemma scan_app_err fuel : forall x e, (length x < fuel)%nat ->
    scan next fuel x false = Err e ->
    forall b fin, scan next (S (length (x ++ b))) (x ++ b) fin = Err e.
  Proof.
    induction fuel as [|fuel IH]; intros x e Hl Hs b fin; [lia|].
    destruct x as [|c x]; [discriminate|].
    cbn [scan] in Hs. destruct (next (c :: x)) as [cp rest| |] eqn:Hn; try discriminate.
    - destruct (scan next fuel rest false) as [[o p]|e'] eqn:Hr; [discriminate|]. injection Hs as <-.
      pose proof (N2 _ _ _ Hn) as Hlt.
      change ((c :: x) ++ b) with (c :: (x ++ b)). rewrite scan_S.
      change (c :: (x ++ b)) with ((c :: x) ++ b). rewrite (N1 _ b _ _ Hn).
      rewrite (scan_fuel _ (S (length (rest ++ b)))); [| rewrite !app_length in *; simpl in *; lia | lia].
      rewrite (IH rest e'); [reflexivity|simpl in *; lia|exact Hr].
    - injection Hs as <-.
      change ((c :: x) ++ b) with (c :: (x ++ b)). rewrite scan_S.
      change (c :: (x ++ b)) with ((c :: x) ++ b). now rewrite (N3 _ b Hn).
  Qed.
End ScanLaws.

(* ================================================================== the four character readers satisfy N1-N3 *)
Ltac ifs := repeat match goal with |- context[if ?c then _ else _] => destruct c end.
Ltac shape x := destruct x as [|?a0 [|?a1 [|?a2 [|?a3 ?r]]]].
Ltac gen16 := repeat match goal with |- context[unit16 ?l ?a ?b] => generalize (unit16 l a b); intro end.
Ltac gencp := repeat match goal with |- context[Complete (?a + ?b) _] => generalize (a + b); intro end.
Ltac n1 := intros H; try discriminate H; injection H as <- <-; reflexivity.
Ltac n2 := intros H; try discriminate H; injection H as <- <-; simpl; lia.

Lemma next8_N1 x b cp rest : next8 x = Complete cp rest -> next8 (x ++ b) = Complete cp (rest ++ b).
Proof. shape x; unfold next8; cbn [app]; ifs; n1. Qed.
Lemma next8_N2 x cp rest : next8 x = Complete cp rest -> (length rest < length x)%nat.
Proof. shape x; unfold next8; ifs; n2. Qed.
Lemma next8_N3 x b : next8 x = Invalid -> next8 (x ++ b) = Invalid.
Proof.
  shape x; unfold next8; cbn [app]; ifs; intros H; try discriminate H; try reflexivity;
    destruct b as [|c0 [|c1 [|c2 b]]]; cbn [app]; ifs; reflexivity.
Qed.

Lemma next16_N1 le x b cp rest : next16 le x = Complete cp rest -> next16 le (x ++ b) = Complete cp (rest ++ b).
Proof. shape x; unfold next16; cbn [app]; gen16; gencp; ifs; n1. Qed.
Lemma next16_N2 le x cp rest : next16 le x = Complete cp rest -> (length rest < length x)%nat.
Proof. shape x; unfold next16; gen16; gencp; ifs; n2. Qed.
Lemma next16_N3 le x b : next16 le x = Invalid -> next16 le (x ++ b) = Invalid.
Proof.
  shape x; unfold next16; cbn [app]; gen16; ifs; intros H; try discriminate H; try reflexivity.
Qed.

Lemma next32_N1 le x b cp rest : next32 le x = Complete cp rest -> next32 le (x ++ b) = Complete cp (rest ++ b).
Proof. shape x; unfold next32; cbn [app]; ifs; n1. Qed.
Lemma next32_N2 le x cp rest : next32 le x = Complete cp rest -> (length rest < length x)%nat.
Proof. shape x; unfold next32; ifs; n2. Qed.
Lemma next32_N3 le x b : next32 le x = Invalid -> next32 le (x ++ b) = Invalid.
Proof. shape x; unfold next32; cbn [app]; ifs; intros H; try discriminate H; reflexivity. Qed.

Lemma next1_N1 lim x b cp rest : next1 lim x = Complete cp rest -> next1 lim (x ++ b) = Complete cp (rest ++ b).
Proof. destruct x; unfold next1; cbn [app]; ifs; n1. Qed.
Lemma next1_N2 lim x cp rest : next1 lim x = Complete cp rest -> (length rest < length x)%nat.
Proof. destruct x; unfold next1; ifs; n2. Qed.
Lemma next1_N3 lim x b : next1 lim x = Invalid -> next1 lim (x ++ b) = Invalid.
Proof. destruct x; unfold next1; cbn [app]; ifs; intros H; try discriminate H; reflexivity. Qed.

Lemma next_of_N1 k le x b cp rest : next_of k le x = Complete cp rest -> next_of k le (x ++ b) = Complete cp (rest ++ b).
Proof. destruct k; cbn [next_of]; first [apply next8_N1|apply next16_N1|apply next32_N1|apply next1_N1]. Qed.
Lemma next_of_N2 k le x cp rest : next_of k le x = Complete cp rest -> (length rest < length x)%nat.
Proof. destruct k; cbn [next_of]; first [apply next8_N2|apply next16_N2|apply next32_N2|apply next1_N2]. Qed.
Lemma next_of_N3 k le x b : next_of k le x = Invalid -> next_of k le (x ++ b) = Invalid.
Proof. destruct k; cbn [next_of]; first [apply next8_N3|apply next16_N3|apply next32_N3|apply next1_N3]. Qed.

(* ================================================================== decoders without BOM sniffing *)
(* state = (kind, little-endian?, undecoded tail).  r_init knows utf-8, utf-16-le/-be, utf-32-le/-be, latin-1, ascii
   (and their aliases in CodecConcrete.lookup); every other name is a LookupError, as for CPython's unknown names. *)
Definition rst : Type := kind * bool * str.

Definition r_init (e : str) : option rst :=
  match lookup e with
  | Some K8 => Some (K8, true, [])
  | Some KLatin => Some (KLatin, true, [])
  | Some KAscii => Some (KAscii, true, [])
  | Some (K16 (Some le)) => Some (K16 (Some le), le, [])
  | Some (K32 (Some le)) => Some (K32 (Some le), le, [])
  | _ => None
  end.

Definition r_step (st : rst) (input : str) (final : bool) : rst * res str :=
  let '(k, le, p) := st in
  let b := p ++ input in
  match scan (next_of k le) (S (length b)) b final with
  | Ok (o, p') => ((k, le, p'), Ok o)
  | Err e => ((k, le, []), Err e)          (* the state after an exception is not observable *)
  end.

Definition r_shot (e : str) (b : str) : res str :=
  match r_init e with None => Err ELookup | Some d => snd (r_step d b true) end.

(* r_step is cd_step on the states cd_init creates for these codecs *)
Lemma r_step_is_cd_step k le p input final :
  cd_step (mkCD k p (Some le)) input final =
  (mkCD k (snd (fst (r_step (k, le, p) input final))) (Some le), snd (r_step (k, le, p) input final)).
Proof.
  unfold cd_step, cd_scan, r_step. cbn [cd_kind cd_pend cd_order].
  destruct (scan (next_of k le) (S (length (p ++ input))) (p ++ input) final) as [[o p']|e]; reflexivity.
Qed.

(* r_shot is the one-shot decoder cd_shot for these codecs *)
Lemma r_shot_is_cd_shot e b : r_init e <> None -> r_shot e b = cd_shot e b.
Proof.
  unfold r_shot, r_init, cd_shot, scan_all. destruct (lookup e) as [[| |[le|]|[le|]| |]|]; intros H;
    try (exfalso; apply H; reflexivity); cbn [r_step app snd];
    match goal with |- context[scan ?n ?f b true] => destruct (scan n f b true) as [[o p]|x] end; reflexivity.
Qed.

Lemma r_concat d a b fin d' o1 : r_step d a false = (d', Ok o1) ->
  r_step d (a ++ b) fin =
  (fst (r_step d' b fin), match snd (r_step d' b fin) with Ok o2 => Ok (o1 ++ o2) | Err e => Err e end).
Proof.
  destruct d as [[k le] p]. unfold r_step at 1.
  destruct (scan (next_of k le) (S (length (p ++ a))) (p ++ a) false) as [[o p']|e] eqn:Hs; [|discriminate].
  intros [= <- <-]. unfold r_step. rewrite app_assoc.
  rewrite (scan_app_ok _ (next_of_N1 k le) (next_of_N2 k le) _ _ _ _ (Nat.lt_succ_diag_r _) Hs b fin).
  destruct (scan (next_of k le) (S (length (p' ++ b))) (p' ++ b) fin) as [[o2 p'']|e]; reflexivity.
Qed.

Lemma r_error d a b fin d' e : r_step d a false = (d', Err e) -> snd (r_step d (a ++ b) fin) = Err e.
Proof.
  destruct d as [[k le] p]. unfold r_step at 1.
  destruct (scan (next_of k le) (S (length (p ++ a))) (p ++ a) false) as [[o p']|e'] eqn:Hs; [discriminate|].
  intros [= <- <-]. unfold r_step. rewrite app_assoc.
  now rewrite (scan_app_err _ (next_of_N1 k le) (next_of_N2 k le) (next_of_N3 k le) _ _ _ (Nat.lt_succ_diag_r _) Hs b fin).
Qed.

Lemma r_shot_spec e b : r_shot e b = match r_init e with None => Err ELookup | Some d => snd (r_step d b true) end.
Proof. reflexivity. Qed.

(* ================================================================== encoders: every codec of CodecConcrete.v *)
Lemma enc_all_app f a b :
  enc_all f (a ++ b) =
  match enc_all f a with
  | Ok o1 => match enc_all f b with Ok o2 => Ok (o1 ++ o2) | Err e => Err e end
  | Err e => Err e
  end.
Proof.
  induction a as [|c a IH]; cbn [app enc_all].
  - destruct (enc_all f b); reflexivity.
  - destruct (f c) as [x|]; [|reflexivity]. rewrite IH.
    destruct (enc_all f a) as [o1|e]; [|reflexivity]. destruct (enc_all f b) as [o2|e]; [|reflexivity].
    now rewrite app_assoc.
Qed.

Lemma ce_concat d a b fin d' o1 : ce_step d a false = (d', Ok o1) ->
  ce_step d (a ++ b) fin =
  (fst (ce_step d' b fin), match snd (ce_step d' b fin) with Ok o2 => Ok (o1 ++ o2) | Err e => Err e end).
Proof.
  unfold ce_step. rewrite enc_all_app.
  destruct (enc_all (enc_char (ce_kind d)) a) as [x|e]; [|discriminate]. intros [= <- <-].
  cbn [ce_kind ce_first]. destruct (enc_all (enc_char (ce_kind d)) b) as [y|e]; cbn [fst snd app]; [|reflexivity].
  now rewrite <- !app_assoc.
Qed.

Lemma ce_error d a b fin d' e : ce_step d a false = (d', Err e) -> snd (ce_step d (a ++ b) fin) = Err e.
Proof.
  unfold ce_step. rewrite enc_all_app.
  destruct (enc_all (enc_char (ce_kind d)) a) as [x|e']; [discriminate|]. now intros [= <- <-].
Qed.

Lemma ce_shot_spec e t : ce_shot e t = match ce_init e with None => Err ELookup | Some d => snd (ce_step d t true) end.
Proof.
  unfold ce_shot, ce_init, ce_step. destruct (lookup e) as [k|]; [|reflexivity]. cbn [ce_kind ce_first].
  destruct (enc_all (enc_char k) t); reflexivity.
Qed.

(* ================================================================== closed instances of the chunking theorems *)
Theorem incdec_chunking_concrete enc force chunks last :
  dec_feed rst r_init r_step (dec_init rst enc force) chunks last = decode r_shot (concat chunks ++ last) enc force.
Proof. exact (incdec_chunking_thm rst r_init r_step r_shot r_concat r_error r_shot_spec enc force chunks last). Qed.

Theorem incenc_chunking_concrete enc chunks last :
  enc_feed cest ce_init ce_step (enc_init cest enc) chunks last = encode ce_shot (concat chunks ++ last) enc.
Proof. exact (incenc_chunking_thm cest ce_init ce_step ce_shot ce_concat ce_error ce_shot_spec enc chunks last). Qed.

(* call-by-call trace and joined result agree *)
Lemma dec_feed_trace dst dinit dstep chunks : forall st last,
  dec_feed dst dinit dstep st chunks last = collapse (dec_trace dst dinit dstep st chunks last).
Proof.
  induction chunks as [|c r IH]; intros st last; cbn [dec_feed dec_trace collapse].
  - destruct (snd (dec_step dst dinit dstep st last true)); [now rewrite app_nil_r|reflexivity].
  - destruct (dec_step dst dinit dstep st c false) as [st' [o|e]]; cbn [collapse]; [now rewrite IH|reflexivity].
Qed.

Lemma enc_feed_trace est einit estep chunks : forall st last,
  enc_feed est einit estep st chunks last = collapse (enc_trace est einit estep st chunks last).
Proof.
  induction chunks as [|c r IH]; intros st last; cbn [enc_feed enc_trace collapse].
  - destruct (snd (enc_step est einit estep st last true)); [now rewrite app_nil_r|reflexivity].
  - destruct (enc_step est einit estep st c false) as [st' [o|e]]; cbn [collapse]; [now rewrite IH|reflexivity].
Qed.

Definition r_dec_trace (encoding : option str) (force : bool) :=
  dec_trace rst r_init r_step (dec_init rst encoding force).
Definition r_decode := decode r_shot.

(* ================================================================== closed inverse for the one-byte codecs *)
Lemma enc1_all lim x y : enc_all (enc1 lim) x = Ok y -> y = x /\ forallb (fun c => c <? lim) x = true.
Proof.
  revert y; induction x as [|c x IH]; intros y; cbn [enc_all forallb]; [intros [= <-]; auto|].
  unfold enc1 at 1. destruct (c <? lim) eqn:E; [|discriminate].
  destruct (enc_all (enc1 lim) x) as [o|e]; [|discriminate]. intros [= <-].
  destruct (IH o eq_refl) as [-> H]. cbn [app andb]. auto.
Qed.

Lemma scan1_all lim x : forallb (fun c => c <? lim) x = true ->
  forall fuel, (length x < fuel)%nat -> scan (next1 lim) fuel x true = Ok (x, []).
Proof.
  induction x as [|c x IH]; intros H fuel Hf; [destruct fuel; reflexivity|].
  destruct fuel as [|fuel]; [lia|]. cbn [forallb] in H. apply andb_true_iff in H as [H1 H2].
  cbn [scan next1]. rewrite H1. rewrite (IH H2 fuel); [reflexivity|simpl in Hf; lia].
Qed.

Lemma onebyte_inverse e x y : (lookup e = Some KLatin \/ lookup e = Some KAscii) ->
  ce_shot e x = Ok y -> r_shot e y = Ok x.
Proof.
  unfold ce_shot, r_shot, r_init. intros [H|H]; rewrite H; cbn [enc_char bom_of app r_step snd next_of];
    destruct (enc_all (enc1 _) x) as [o|] eqn:E; try discriminate; intros [= <-];
    destruct (enc1_all _ _ _ E) as [-> Hall];
    rewrite (scan1_all _ _ Hall _ (Nat.lt_succ_diag_r _)); reflexivity.
Qed.

Lemma onebyte_transparent e x y : (lookup e = Some KLatin \/ lookup e = Some KAscii) -> ce_shot e x = Ok y -> y = x.
Proof.
  unfold ce_shot. intros [H|H]; rewrite H; cbn [enc_char bom_of app];
    destruct (enc_all (enc1 _) x) as [o|] eqn:E; try discriminate; intros [= <-];
    now destruct (enc1_all _ _ _ E).
Qed.

Lemma onebyte_not_sig e : (lookup e = Some KLatin \/ lookup e = Some KAscii) -> is_sig e = false.
Proof.
  unfold lookup, is_sig, norm_name. intros H.
  destruct (eqs (lower (py_replace_char e 95 45)) (s "utf-8-sig")) eqn:E; [|reflexivity].
  destruct (eqs (lower (py_replace_char e 95 45)) (s "utf-8") || eqs (lower (py_replace_char e 95 45)) (s "utf8"));
    destruct H as [H|H]; discriminate H.
Qed.

(* encode then decode, NO encoding argument on either side, text with a rule naming latin-1 / iso-8859-1 / ascii:
   the very same text comes back -- no hypothesis left *)
Theorem decode_encode_detected_onebyte e rest b force :
  (lookup e = Some KLatin \/ lookup e = Some KAscii) -> ~ In 34 e -> is_css e = false ->
  encode ce_shot (prefix ++ e ++ 34 :: rest) None = Ok b ->
  decode r_shot b None force = Ok (prefix ++ e ++ 34 :: rest).
Proof.
  intros Hk Hq Hc. apply CodecInverse.decode_encode_charset_thm; auto.
  - now apply onebyte_not_sig.
  - intros x y. now apply onebyte_inverse.
  - intros y Hy. apply (onebyte_transparent _ _ _ Hk) in Hy. subst y. eauto.
Qed.

(* ================================================================== StreamWriter over the Gallina encoders *)
Lemma ce_final_irrelevant e y : snd (ce_step e y false) = snd (ce_step e y true).
Proof. reflexivity. Qed.

Theorem sw_chunking_concrete enc c r :
  collapse (c_sw_trace enc (c :: r)) = snd (enc_step cest ce_init ce_step (enc_init cest enc) (c ++ concat r) false).
Proof. exact (sw_chunking_thm cest ce_init ce_step ce_concat ce_error r (enc_init cest enc) c). Qed.

Theorem sw_decided_concrete enc t : decided enc t ->
  snd (enc_step cest ce_init ce_step (enc_init cest enc) t false) = encode ce_shot t enc.
Proof. exact (sw_decided_thm cest ce_init ce_step ce_shot ce_shot_spec enc t ce_final_irrelevant). Qed.
